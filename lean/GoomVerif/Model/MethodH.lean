import GoomVerif.Model.Method
/-!
# Model/MethodH — method mockers as *kept handles* (property C06, multi-step use)

`Model/Method.lean` is the patch-level view (one `Apply` per lookup).  This module transcribes what lies between a
lookup and the patch, as of goom HEAD (incl. fixes 32dc3bc "Apply discards the When", 50de3fa "applied again after
Cancel is live again", 69c6a69, d4752cd):

* `cache.go:42 CachedMethodMocker.Method`, `:53 ExportMethod`, `:99 CachedUnexportedMethodMocker.Method`:
  per-struct caches keyed by method name, `ok && !mocker.Canceled()` else a fresh mocker replaces the entry;
* `mocker.go:58 baseMocker{guard, imp, when, canceled, funcDef}`; `:103 applyByMethod`, `:78 applyByName`,
  `:90 applyByFunc` (new guard, `canceled = false`); `:146 callback` (the `reflect.MakeFunc` stub installed by
  Return/When: `canceled && funcDef != nil` → call funcDef, else `when.invoke`, else panic); `:160 Cancel`;
* `mocker.go:243 MethodMocker.Apply` (+ `m.when = nil`), `:257 When`, `:287 Return`, `:314 Returns`;
  `:376 UnexportedMethodMocker.Apply`, `:400 As` → `DefMocker` sharing the baseMocker, `:552 DefMocker.Return`, `:575 Returns`;
* `when.go:42 CreateWhen`, `:127 When.When`, `:150 Return`, `:166 AndReturn`, `:200 Returns`, `:220 invoke`;
  `matcher.go:41 BaseMatcher.Result` (sequence with sticky last), `:56 AddResult`;
* `builder.go:214 Builder.Reset` (cancels every mocker reachable through the caches), `internal/patch/guard.go:37 Unpatch`
  (writes the original bytes back at the guard's entry, whoever patched it last).

Argument matching itself is abstracted to one bit per condition: "does it match the probe's standard call arguments"
(the matching algebra is C18's / C04's subject).  Result values are `Int`s (every corpus method returns one int64).
-/
namespace MethodH
open Method

/-- association list, newest binding first -/
def aget {K V : Type} [DecidableEq K] : List (K × V) → K → Option V
  | [], _ => none
  | (k', v) :: r, k => if k' = k then some v else aget r k

/-- what sits behind a patched entry -/
inductive Impl
  | cb (k : Nat)          -- the user's callback of step `k`
  | stub (mk : Nat)       -- the MakeFunc stub of baseMocker `mk` (behaviour decided at call time from `mk`'s state)
  deriving DecidableEq, Repr

/-- matcher.go BaseMatcher + which kind -/
structure Matcher where
  always : Bool           -- AlwaysMatcher (default returns) / DefaultMatcher (When(args))
  std : Bool              -- DefaultMatcher: its arguments equal the probe's standard call arguments
  results : List Int
  cur : Nat
  deriving Repr

/-- when.go When: matcher objects live in `ms` (index = identity; `curMatch` and `defaultReturns` may alias) -/
structure WhenS where
  ms : List Matcher
  dflt : Option Nat
  conds : List Nat
  curM : Option Nat
  deriving Repr

structure Mocker where
  byName : Bool           -- UnexportedMethodMocker (ExportMethod / ExportStruct) vs MethodMocker
  target : Str            -- the symbol it patches
  whenS : Option WhenS
  canceled : Bool
  guard : Option Nat      -- entry (symbol index) its current guard restores
  funcDef : Bool          -- baseMocker.funcDef != nil
  deriving Repr

/-- identity of a per-struct cache slot: lane 0 `mCache`, 1 `umCache` (of the struct mocker of type pkg/ty/ptr),
    2 `CachedUnexportedMethodMocker.mockers` (of the ExportStruct mocker filed under (pkg, ty = raw name)) -/
structure CKey where
  lane : Nat
  pkg : Str
  ty : Str
  ptr : Bool
  m : Str
  deriving DecidableEq, Repr

structure HState where
  structs : List (Ty × Ty)
  exports : List (EKey × (Str × Str))
  patched : List (Nat × Impl)      -- symbol index ↦ what runs there, latest first
  mockers : List (Nat × Mocker)    -- baseMocker objects by id, newest binding first
  nextId : Nat
  mcache : List (CKey × Nat)       -- per-struct method caches, newest binding first
  handles : List (Nat × Nat)       -- handle variables of the test ↦ mocker id
  deriving Repr

def HState.init : HState := ⟨[], [], [], [], 0, [], []⟩

inductive Look
  | structMethod (t : Ty) (m : Str)          -- b.Struct(inst).Method(m)
  | structExport (t : Ty) (m : Str)          -- b.Struct(inst).ExportMethod(m)
  | exportStruct (pkg raw m : Str)           -- b.Pkg(pkg).ExportStruct(raw).Method(m)
  | exportFunc (pkg fn : Str)                -- b.Pkg(pkg).ExportFunc(fn) with fn = `(*T).m` / `T.m` (builder.go:154)
  deriving Repr

/-- a mocker object made with the exported constructors of mocker.go, outside the builder caches -/
inductive Direct
  | um (pkg sn m : Str)          -- NewUnexportedMethodMocker(pkg, sn) … .Method(m)   (`sn` verbatim: `T` or `(*T)`)
  | mm (t : Ty) (m : Str)        -- NewMethodMocker(_, inst) … .Method(m)
  deriving Repr

inductive Step
  | direct (h : Nat) (d : Direct)                          -- h := New…Mocker(..).Method(m): a fresh, uncached object
  | redirect (h : Nat) (d : Direct)                        -- the SAME object again: h.Method(m') (mocker.go:213, :378)
  | shot (l : Look)                                        -- lookup, then Apply(cb k) on the result (not kept)
  | look (h : Nat) (l : Look)                              -- h := lookup
  | apply (h : Nat)                                        -- h.Apply(cb k)
  | ret (h : Nat) (v : Int)                                -- h.Return(v)            (by-name handles: h.As(f).Return(v))
  | rets (h : Nat) (v1 v2 : Int)                           -- h.Returns(v1, v2)      (by-name handles: h.As(f).Returns(..))
  | whenRet (h : Nat) (std : Bool) (v : Int)               -- h.When(args).Return(v)               (method handles only)
  | retsWhen (h : Nat) (v1 v2 : Int) (std : Bool) (v : Int)  -- h.Returns(v1, v2).When(args).Return(v) (method handles only)
  | origin (h : Nat)                                       -- h.Origin(&placeholder): `m.origin = f` (mocker.go:341, :401)
  | cancel (h : Nat)                                       -- h.Cancel()
  | reset                                                  -- b.Reset()
  deriving Repr

/-! ## When -/

def modAt {α : Type} (f : α → α) : List α → Nat → List α
  | [], _ => []
  | a :: r, 0 => f a :: r
  | a :: r, n + 1 => a :: modAt f r n

def WhenS.newMatcher (w : WhenS) (m : Matcher) : WhenS × Nat := ({ w with ms := w.ms ++ [m] }, w.ms.length)

/-- matcher.go:56 AddResult -/
def WhenS.addResult (w : WhenS) (c : Nat) (v : Int) : WhenS :=
  { w with ms := modAt (fun m => { m with results := m.results ++ [v] }) w.ms c }

/-- when.go:42 CreateWhen(m, funcDef, args, defaultReturns, _) for a function with one result -/
def createWhen (args : Option Bool) (dfl : Option Int) : WhenS :=
  let w0 : WhenS := ⟨[], none, [], none⟩
  let w1 : WhenS := match dfl with
    | some v => let r := w0.newMatcher ⟨true, false, [v], 0⟩; { r.1 with dflt := some r.2, curM := some r.2 }
    | none => w0
  match args with
  | some std => let r := w1.newMatcher ⟨false, std, [], 0⟩; { r.1 with curM := some r.2 }
  | none => w1

/-- when.go:127 `When(args...)` on an existing When -/
def WhenS.when (w : WhenS) (std : Bool) : WhenS :=
  let r := w.newMatcher ⟨false, std, [], 0⟩
  { r.1 with curM := some r.2 }

/-- when.go:150 `Return(v)` -/
def WhenS.ret (w : WhenS) (v : Int) : WhenS :=
  match w.curM with
  | some c => let w' := w.addResult c v; { w' with conds := w'.conds ++ [c] }
  | none =>
    match w.dflt with
    | none => let r := w.newMatcher ⟨true, false, [v], 0⟩; { r.1 with dflt := some r.2 }
    | some d => w.addResult d v

/-- when.go:166 `AndReturn(v)` -/
def WhenS.andRet (w : WhenS) (v : Int) : WhenS :=
  match w.curM with
  | none => w.ret v
  | some c => w.addResult c v

/-- when.go:200 `Returns(v1, v2)` -/
def WhenS.rets (w : WhenS) (v1 v2 : Int) : WhenS := (w.ret v1).andRet v2

/-- matcher.go:41 `Result()`: one result → that one; several → in order, the last one sticks.  `none` = panic -/
def WhenS.result (w : WhenS) (c : Nat) : WhenS × Option Int :=
  match w.ms[c]? with
  | none => (w, none)
  | some m =>
    if m.results.length ≤ 1 then (w, m.results[m.cur]?)
    else if m.cur ≥ m.results.length then (w, m.results.getLast?)
    else ({ w with ms := modAt (fun m => { m with cur := m.cur + 1 }) w.ms c }, m.results[m.cur]?)

/-- when.go:220 `invoke` on the standard arguments: first matching condition, else the default, else panic -/
def WhenS.invoke (w : WhenS) : WhenS × Option Int :=
  match w.conds.find? (fun c => match w.ms[c]? with | some m => m.always || m.std | none => false) with
  | some c => w.result c
  | none =>
    match w.dflt with
    | some d => w.result d
    | none => (w, none)

/-! ## lookups -/

def freshMocker (s : HState) (key : CKey) (byName : Bool) (target : Str) : HState × Nat :=
  ({ s with mockers := (s.nextId, ⟨byName, target, none, false, none, false⟩) :: s.mockers,
            nextId := s.nextId + 1, mcache := (key, s.nextId) :: s.mcache }, s.nextId)

/-- `if mocker, ok := cache[name]; ok && !mocker.Canceled() { return mocker }; mocker := New..; cache[name] = mocker` -/
def cached (s : HState) (key : CKey) (byName : Bool) (target : Str) : HState × Nat :=
  match aget s.mcache key with
  | some id =>
    match aget s.mockers id with
    | some mk => if mk.canceled then freshMocker s key byName target else (s, id)
    | none => freshMocker s key byName target
  | none => freshMocker s key byName target

def lookup (entries : List Entry) (s : HState) : Look → HState × Except Res Nat
  | .structMethod t m =>
    let r := getOrCreate s.structs (structKey t) t
    let s := { s with structs := r.1 }
    match resolveSM entries r.2 m with      -- MethodMocker.Method panics when reflect does not know the method
    | .error c => (s, .error (.err c))
    | .ok name => let c := cached s ⟨0, r.2.pkg, r.2.name, r.2.ptr, m⟩ false name; (c.1, .ok c.2)
  | .structExport t m =>
    let r := getOrCreate s.structs (structKey t) t
    let c := cached { s with structs := r.1 } ⟨1, r.2.pkg, r.2.name, r.2.ptr, m⟩ true (exportMethodName r.2 m)
    (c.1, .ok c.2)
  | .exportStruct pkg raw m =>
    let r := getOrCreate s.exports (pkg, raw) (pkg, bracket raw)
    let c := cached { s with exports := r.1 } ⟨2, pkg, raw, false, m⟩ true (objName (symPrefix r.2.1) r.2.2 m)
    (c.1, .ok c.2)
  | .exportFunc pkg fn =>
    -- builder.go:163: one UnexportedFuncMocker per (package, name), reused unless cancelled; mocker.go:451 objName = pkg.fn
    let c := cached s ⟨3, pkg, fn, false, []⟩ true (symPrefix pkg ++ '.' :: fn)
    (c.1, .ok c.2)

/-! ## mocker operations -/

def setMk (s : HState) (id : Nat) (mk : Mocker) : HState := { s with mockers := (id, mk) :: s.mockers }

/-- applyByMethod / applyByName / applyByFunc: look the entry up, write the jump there (patch.go:102), remember
    the guard, `canceled = false` -/
def applyMk (syms : List Str) (s : HState) (id : Nat) (impl : Impl) (fd : Bool) : HState × Res :=
  match aget s.mockers id with
  | none => (s, .err "nohandle".toList)
  | some mk =>
    match symIndex syms mk.target with
    | none => (s, .notfound mk.target)
    | some i =>
      ({ s with patched := (i, impl) :: s.patched,
                mockers := (id, { mk with guard := some i, canceled := false, funcDef := mk.funcDef || fd }) :: s.mockers }, .ok)

/-- baseMocker.Cancel: `guard.Cancel()` restores the original bytes at the guard's entry; `when = nil; canceled = true` -/
def cancelMk (s : HState) (id : Nat) : HState :=
  match aget s.mockers id with
  | none => s
  | some mk =>
    { s with patched := (match mk.guard with | some i => s.patched.filter (fun p => p.1 ≠ i) | none => s.patched),
             mockers := (id, { mk with whenS := none, canceled := true }) :: s.mockers }

/-- ids currently bound in the method caches -/
def cachedIds (s : HState) : List Nat := (s.mcache.map (·.1)).filterMap (aget s.mcache)

def withMk (s : HState) (h : Nat) (f : Nat → Mocker → HState × Res) : HState × Res :=
  match aget s.handles h with
  | none => (s, .err "nohandle".toList)
  | some id =>
    match aget s.mockers id with
    | none => (s, .err "nohandle".toList)
    | some mk => f id mk

/-- the by-name paths go through `As(f)`, which looks the symbol up first (mocker.go:400) -/
def asCheck (syms : List Str) (mk : Mocker) : Option Res :=
  if mk.byName ∧ symIndex syms mk.target = none then some (.notfound mk.target) else none

/-- install mocker `id`'s stub after its When has been (re)created: whens + doApply -/
def armStub (syms : List Str) (s : HState) (id : Nat) (mk : Mocker) (w : WhenS) : HState × Res :=
  applyMk syms (setMk s id { mk with whenS := some w }) id (.stub id) true

/-- `m.when = nil` after a successful Apply (fix 32dc3bc) -/
def clearWhen (s : HState) (id : Nat) : HState :=
  match aget s.mockers id with
  | some mk => setMk s id { mk with whenS := none }
  | none => s

/-- `Apply(cb k)` on mocker `id`: doApply / applyByName, then the When is discarded -/
def applyCb (syms : List Str) (s : HState) (id : Nat) (k : Nat) : HState × Res :=
  match aget s.mockers id with
  | none => (s, .err "nohandle".toList)
  | some mk =>
    let r := applyMk syms s id (.cb k) (!mk.byName)
    if r.2 = .ok then (clearWhen r.1 id, .ok) else r

/-- the symbol a directly constructed mocker patches: `objName` (mocker.go:373), resp. reflect resolution -/
def directName (entries : List Entry) : Direct → Except Str Str
  | .um pkg sn m => .ok (objName (symPrefix pkg) sn m)
  | .mm t m => resolveSM entries t m

def Direct.byName : Direct → Bool
  | .um .. => true
  | .mm .. => false

def step (syms : List Str) (entries : List Entry) (s : HState) (k : Nat) : Step → HState × Res
  | .direct h d =>
    match directName entries d with
    | .error c => (s, .err c)
    | .ok name =>
      ({ s with mockers := (s.nextId, ⟨d.byName, name, none, false, none, false⟩) :: s.mockers, nextId := s.nextId + 1,
                handles := (h, s.nextId) :: s.handles }, .ok)
  | .redirect h d =>
    withMk s h fun id mk =>
      match directName entries d with
      | .error c => (s, .err c)        -- (MethodMocker.Method panics; never generated)
      | .ok name => (setMk s id { mk with target := name }, .ok)   -- method name replaced, everything else kept
  | .shot l =>
    let r := lookup entries s l
    match r.2 with
    | .error e => (r.1, e)
    | .ok id => applyCb syms r.1 id k
  | .look h l =>
    let r := lookup entries s l
    match r.2 with
    | .error e => (r.1, e)
    | .ok id => ({ r.1 with handles := (h, id) :: r.1.handles }, .ok)
  | .apply h =>
    withMk s h fun id _ => applyCb syms s id k
  | .ret h v =>
    withMk s h fun id mk =>
      match asCheck syms mk with
      | some r => (s, r)
      | none =>
        match mk.whenS with
        | some w => (setMk s id { mk with whenS := some (w.ret v) }, .ok)     -- `m.when.Return(v)`: no re-apply
        | none => armStub syms s id mk (createWhen none (some v))
  | .rets h v1 v2 =>
    withMk s h fun id mk =>
      match asCheck syms mk with
      | some r => (s, r)
      | none =>
        match mk.whenS with
        | some w => (setMk s id { mk with whenS := some (w.rets v1 v2) }, .ok)
        | none => armStub syms s id mk ((createWhen none none).rets v1 v2)
  | .whenRet h std v =>
    withMk s h fun id mk =>
      if mk.byName then (s, .err "notmethod".toList) else
      match mk.whenS with
      | some w => (setMk s id { mk with whenS := some ((w.when std).ret v) }, .ok)
      | none => armStub syms s id mk ((createWhen (some std) none).ret v)
  | .retsWhen h v1 v2 std v =>
    withMk s h fun id mk =>
      if mk.byName then (s, .err "notmethod".toList) else
      match mk.whenS with
      | some w => (setMk s id { mk with whenS := some (((w.rets v1 v2).when std).ret v) }, .ok)
      | none => armStub syms s id mk ((((createWhen none none).rets v1 v2).when std).ret v)
  | .origin h =>
    -- the placeholder only selects the trampoline variant of the patch (C03): which method is replaced does not change
    withMk s h fun _ _ => (s, .ok)
  | .cancel h =>
    withMk s h fun id _ => (cancelMk s id, .ok)
  | .reset => ((cachedIds s).foldl cancelMk s, .ok)

def run (syms : List Str) (entries : List Entry) : HState → Nat → List Step → HState × List Res
  | s, _, [] => (s, [])
  | s, k, st :: rest =>
    let r := step syms entries s k st
    let rr := run syms entries r.1 (k + 1) rest
    (rr.1, r.2 :: rr.2)

/-! ## calls -/

/-- what runs when a direct call of `e` enters its code -/
def behavOf (syms : List Str) : List (Nat × Impl) → Entry → Option Impl
  | [], _ => none
  | (j, impl) :: rest, e => if syms[j]? = some e.callSym then some impl else behavOf syms rest e

inductive CallObs
  | orig
  | cb (k : Nat)
  | val (v : Int)
  | panic
  deriving DecidableEq, Repr

/-- one call of `e` with the standard arguments (mocker.go:146 `callback` for stubs) -/
def call (syms : List Str) (s : HState) (e : Entry) : HState × CallObs :=
  match behavOf syms s.patched e with
  | none => (s, .orig)
  | some (.cb k) => (s, .cb k)
  | some (.stub id) =>
    match aget s.mockers id with
    | none => (s, .panic)
    | some mk =>
      if mk.canceled ∧ mk.funcDef then (s, .panic)     -- funcDef is a bound method value: reflect.Call arity panic
      else match mk.whenS with
        | none => (s, .panic)
        | some w =>
          let r := w.invoke
          (setMk s id { mk with whenS := some r.1 }, match r.2 with | some v => .val v | none => .panic)

/-- a call through the method set of `*Outer` of a method promoted from an embedded struct: it enters the
    compiler-generated wrapper `pkg.(*Outer).m` (entry `e`), which adjusts the receiver and calls the embedded type's
    method (entry `base`) — Go semantics, observed not proved.  So a mock of the wrapper wins, else whatever the base
    method does. -/
def callVia (syms : List Str) (s : HState) (e : Entry) (base : Option Entry) : HState × CallObs :=
  match behavOf syms s.patched e, base with
  | none, some b => call syms s b
  | _, _ => call syms s e

/-! ## specification vocabulary -/

/-- the symbol a lookup names, from its own text -/
def lookName (entries : List Entry) : Look → Option Str
  | .structMethod t m => match resolveSM entries t m with | .ok n => some n | .error _ => none
  | .structExport t m => some (exportMethodName t m)
  | .exportStruct pkg raw m => some (exportStructName pkg raw m)
  | .exportFunc pkg fn => some (symPrefix pkg ++ '.' :: fn)

def stepLook : Step → Option Look
  | .shot l => some l
  | .look _ l => some l
  | _ => none

/-- the symbol a step names, from the step's own text only -/
def stepName (entries : List Entry) : Step → Option Str
  | .shot l => lookName entries l
  | .look _ l => lookName entries l
  | .direct _ d => (match directName entries d with | .ok n => some n | .error _ => none)
  | .redirect _ d => (match directName entries d with | .ok n => some n | .error _ => none)
  | _ => none

/-- forget handles, mocker objects and stubs: the patch-level state of `Model/Method.lean` -/
def toOld (s : HState) : Method.BState :=
  ⟨s.structs, s.exports, s.patched.filterMap (fun p => match p.2 with | .cb k => some (p.1, k) | .stub _ => none)⟩

/-- a patch-level step as a handle-level step (lookup + Apply, handle not kept) -/
def embed : Method.Step → Step
  | .structMethod t m => .shot (.structMethod t m)
  | .structExport t m => .shot (.structExport t m)
  | .exportStruct p r m => .shot (.exportStruct p r m)
  | .reset => .reset

/-- the symbol the mockers filed under a method-cache slot patch -/
def keyName (entries : List Entry) (k : CKey) : Option Str :=
  if k.lane = 0 then (match resolveSM entries ⟨k.pkg, k.ty, k.ptr⟩ k.m with | .ok n => some n | .error _ => none)
  else if k.lane = 1 then some (exportMethodName ⟨k.pkg, k.ty, k.ptr⟩ k.m)
  else some (objName (symPrefix k.pkg) (bracket k.ty) k.m)

end MethodH
