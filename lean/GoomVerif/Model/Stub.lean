import GoomVerif.Gen.StubHolder
/-! Model of goom's executable stub space (`internal/bytecode/stub`), property C20.

  * `acquireFromHolder` (holder.go:60) as the micro-steps load / check1 / atomic add / check2 / return of any number
    of concurrent requesters over the shared bump pointer `off`; the expressions of the two checks, the returned
    address and the slice header come from `Gen.StubHolder`, regenerated from holder.go on every run.
  * `Acquire` (space.go:25): the kernel's answer to the anonymous RWX `mmap` is an oracle (`Mmap`), failure falls
    back to the holder; `Write` (space.go:45) dispatches on the type recorded by `Acquire`.
  uintptr values are naturals, arithmetic wraps modulo 2^64 (`Gen.StubHolder.wadd/wsub`). Request lengths are Go
  `int`s ≥ 0, i.e. naturals below 2^63. -/
namespace Stub
open Gen.StubHolder

/-- what one call of `acquireFromHolder` returns -/
inductive Res where
  | ok (addr len : Nat)   -- `(addr, &slice{Data: addr, Len: len}, nil)`: the region [addr, addr+len)
  | err                   -- `(0, nil, errSpaceOverflow)`
  deriving DecidableEq, Repr, Inhabited

inductive Pc where
  | load | check1 | add | check2 | ret | done
  deriving DecidableEq, Repr, Inhabited

/-- one requester: program counter, the request, its locals `placeholder` and `newOffset`, its result -/
structure Th where
  pc : Pc
  len : Nat
  loaded : Nat
  new : Nat
  res : Option Res
  deriving DecidableEq, Repr, Inhabited

/-- a requester that has not started -/
def Th.fresh (len : Nat) : Th := ⟨.load, len, 0, 0, none⟩

/-- `placeHolderIns` (holder.go:21) and the requesters -/
structure St where
  off : Nat
  min : Nat
  max : Nat
  th : List Th
  deriving DecidableEq, Repr

/-- one micro-step of one requester; returns the new `off` and the new requester state -/
def stepTh (off min max : Nat) (t : Th) : Nat × Th :=
  match t.pc with
  | .load =>                                                   -- holder.go:61 atomic.LoadUintptr(&off)
    (off, ⟨.check1, t.len, off, t.new, t.res⟩)
  | .check1 =>                                                 -- holder.go:62 if … { return 0, nil, errSpaceOverflow }
    if check1Fails t.loaded t.len min max then (off, ⟨.done, t.len, t.loaded, t.new, some .err⟩)
    else (off, ⟨.add, t.len, t.loaded, t.new, t.res⟩)
  | .add =>                                                    -- holder.go:68 atomic.AddUintptr(&off, uintptr(len))
    (wadd off t.len, ⟨.check2, t.len, t.loaded, wadd off t.len, t.res⟩)
  | .check2 =>                                                 -- holder.go:69 if … { return 0, nil, errSpaceOverflow }
    if check2Fails t.loaded t.new t.len min max then (off, ⟨.done, t.len, t.loaded, t.new, some .err⟩)
    else (off, ⟨.ret, t.len, t.loaded, t.new, t.res⟩)
  | .ret =>                                                    -- holder.go:74-79 slice header, return
    (off, ⟨.done, t.len, t.loaded, t.new,
           some (.ok (retAddr t.loaded t.new t.len min max) (sliceLen t.loaded t.new t.len min max))⟩)
  | .done => (off, t)

/-- requester `i` takes one micro-step (nothing happens for an unknown requester) -/
def step (s : St) (i : Nat) : St :=
  match s.th[i]? with
  | none => s
  | some t => ⟨(stepTh s.off s.min s.max t).1, s.min, s.max, s.th.set i (stepTh s.off s.min s.max t).2⟩

/-- a schedule is the list of requester ids in the order in which they take micro-steps -/
def run (s : St) (σ : List Nat) : St := σ.foldl step s

/-- all requesters about to start -/
def init (off min max : Nat) (lens : List Nat) : St := ⟨off, min, max, lens.map Th.fresh⟩

/-- result of requester `i` after the run (none: not finished) -/
def resultOf (s : St) (i : Nat) : Option Res := (s.th[i]?).bind (·.res)

/-! ### one caller at a time -/

/-- holder.go:60 `acquireFromHolder(len)` without interference: new `off` and the result -/
def acquireFromHolder (off min max len : Nat) : Nat × Res :=
  let placeholder := off                                                  -- :61
  if check1Fails placeholder len min max then (off, .err)                 -- :62-65
  else
    let newOffset := wadd off len                                         -- :68
    if check2Fails placeholder newOffset len min max then (newOffset, .err)   -- :69-72
    else (newOffset, .ok (retAddr placeholder newOffset len min max) (sliceLen placeholder newOffset len min max))

/-- the kernel's answer to `syscall.Mmap(-1, 0, len, RWX, MAP_SHARED|MAP_ANON)` (mmap_unix.go:14) -/
inductive Mmap where
  | fresh (addr : Nat)
  | fail
  deriving DecidableEq, Repr

/-- space.go:9 -/
def typeHolder : Nat := 1
def typeMMap : Nat := 2

/-- space.go:17 `Space` (the slice is `[addr, addr+len)`) -/
structure Space where
  addr : Nat
  len : Nat
  typ : Nat
  deriving DecidableEq, Repr

/-- `uintptr(len)` for a Go `int` (two's complement: a negative length becomes a huge unsigned one) -/
def ulen (r : Int) : Nat := (r % 18446744073709551616).toNat

/-- `acquireFromHolder(len int)` on the whole `int` domain: the optional argument check of holder.go comes first (it
    touches nothing shared), then the uintptr arithmetic on `uintptr(len)` -/
def acquireFromHolderI (off min max : Nat) (r : Int) : Nat × Res :=
  if guardFails r then (off, .err) else acquireFromHolder off min max (ulen r)

/-- space.go:25 `Acquire(spaceLen int)`.  The form of the Go function (mmap first, then the reserve, error of the reserve
    passed on) is matched literally by tools/genstub on every run. -/
def acquire (mm : Mmap) (off min max : Nat) (r : Int) : Nat × Option Space :=
  match mm with
  | .fresh a => (off, some ⟨a, r.toNat, typeMMap⟩)                        -- :26-32
  | .fail =>                                                              -- :33
    match acquireFromHolderI off min max r with
    | (o, .ok a l) => (o, some ⟨a, l, typeHolder⟩)                        -- :34-38
    | (o, .err) => (o, none)                                              -- :40

/-- a requester on the `int` domain: a request refused by the argument check is finished before it starts -/
def Th.freshI (r : Int) : Th := if guardFails r then ⟨.done, ulen r, 0, 0, some .err⟩ else Th.fresh (ulen r)

def initI (off min max : Nat) (reqs : List Int) : St := ⟨off, min, max, reqs.map Th.freshI⟩

/-- how `Write` (space.go:45) stores the bytes -/
inductive WriteVia where
  | copy        -- plain `copy` into the mapping (needs the mapping to be writable)
  | writeTo     -- memory.WriteTo: mprotect RWX, copy, restore
  | illegal     -- error "illegal type"
  deriving DecidableEq, Repr

def writeVia (typ : Nat) : WriteVia :=
  if typ = typeMMap then .copy else if typ = typeHolder then .writeTo else .illegal

/-! ### writing a region through `Write`, any number of times

  The property demands that a region is "writable through the provided writer" — for every write, not only the first:
  the owner of a region re-generates its stub in place.  What decides whether a write goes through is the page
  protection the previous write (or the acquisition) left behind. -/

/-- protection of the pages of a region -/
inductive Perm where
  | rx     -- read + execute (the text segment; what memory.WriteTo restores)
  | rwx    -- read + write + execute (the anonymous mapping of mmap_unix.go:18)
  deriving DecidableEq, Repr

/-- the protection a freshly acquired `Space` has: the mapping is created RWX (mmap_unix.go:18-19), the reserve is
    part of the text segment -/
def initPerm (typ : Nat) : Perm := if typ = typeMMap then .rwx else .rx

/-- one `Write(s, data)` (space.go:45) on a region whose pages have protection `p`: `none` is a fault or an error,
    otherwise the protection the write leaves behind.
    * TypeMMap (space.go:47-49): a plain `copy` — faults unless the pages are writable; nothing touches the protection.
    * TypeHolder (space.go:50-51): memory.WriteTo (mwrite_amd64.go:19-37) makes the pages RWX whatever they were,
      copies, and restores R-X. -/
def writeOnce (typ : Nat) (p : Perm) : Option Perm :=
  match writeVia typ with
  | .copy => if p = .rwx then some .rwx else none
  | .writeTo => some .rx
  | .illegal => none

/-- which bytes one `Write(s, data)` stores, as `(start, length)`; `none`: refused with an error before touching memory.
    `regionLen = len(*s.Space)`, `dataLen = len(data)`.  TypeMMap: `copy(*s.Space, data)` stores `min` of the two
    lengths (silently dropping the rest); TypeHolder: `memory.WriteTo(s.Addr, data)` stores ALL of `data`, whatever the
    region length is.  The optional length guard at the head of Write is `Gen.StubHolder.writeRejects`. -/
def writeFootprint (sp : Space) (dataLen : Nat) : Option (Nat × Nat) :=
  if writeRejects dataLen sp.len then none else
  match writeVia sp.typ with
  | .copy => some (sp.addr, Nat.min dataLen sp.len)
  | .writeTo => some (sp.addr, dataLen)
  | .illegal => none

/-- how many bytes of `data` are NOT stored although Write returned nil (the mapping path truncates silently) -/
def writeDropped (sp : Space) (dataLen : Nat) : Nat :=
  match writeFootprint sp dataLen with
  | some (_, n) => dataLen - n
  | none => 0

/-- `n` successive writes to the same region -/
def writeN (typ : Nat) (p : Perm) : Nat → Option Perm
  | 0 => some p
  | n + 1 => match writeOnce typ p with
    | none => none
    | some p' => writeN typ p' n

/-! ### concurrent writers on one page of the reserve (memory.WriteTo, mwrite_amd64.go:19)

  Neighbouring reserve regions share a code page.  Each writer runs lock / mprotect RWX / copy / mprotect R-X / unlock
  under `memoryAccessLock`; the page protection is shared state. -/

inductive WPc where
  | lock | unprotect | copy | reprotect | unlock | done
  deriving DecidableEq, Repr

structure WSt where
  holder : Option Nat      -- who holds memoryAccessLock
  perm : Perm              -- protection of the shared page
  faulted : Bool           -- some copy hit a page that was not writable
  pcs : List WPc

/-- one micro-step of writer `i` (a writer waiting for the lock does not move) -/
def wstep (s : WSt) (i : Nat) : WSt :=
  match s.pcs[i]? with
  | none => s
  | some pc =>
    match pc with
    | .lock => if s.holder = none then { s with holder := some i, pcs := s.pcs.set i .unprotect } else s      -- :20 Lock()
    | .unprotect => { s with perm := .rwx, pcs := s.pcs.set i .copy }                                         -- :24
    | .copy => { s with faulted := s.faulted || decide (s.perm ≠ .rwx), pcs := s.pcs.set i .reprotect }      -- :31 copy
    | .reprotect => { s with perm := .rx, pcs := s.pcs.set i .unlock }                                        -- :32
    | .unlock => { s with holder := none, pcs := s.pcs.set i .done }                                          -- :21 deferred Unlock()
    | .done => s

def wrun (s : WSt) (σ : List Nat) : WSt := σ.foldl wstep s

def winit (n : Nat) : WSt := ⟨none, .rx, false, List.replicate n .lock⟩

/-- a sequential history of `Acquire` calls; each request carries the kernel's answer. Result: (requested, outcome) -/
def runSeq (off min max : Nat) : List (Int × Mmap) → List (Int × Option Space)
  | [] => []
  | (len, mm) :: rest => (len, (acquire mm off min max len).2) :: runSeq (acquire mm off min max len).1 min max rest

/-- final `off` of a sequential history -/
def offSeq (off min max : Nat) : List (Int × Mmap) → Nat
  | [] => off
  | (len, mm) :: rest => offSeq (acquire mm off min max len).1 min max rest

/-! ### vocabulary of the property -/

/-- two regions `(start, length)` do not overlap -/
def disj (c c' : Nat × Nat) : Prop := c.1 + c.2 ≤ c'.1 ∨ c'.1 + c'.2 ≤ c.1

instance (c c' : Nat × Nat) : Decidable (disj c c') := by unfold disj; exact inferInstance

/-- the regions handed out from the reserve by a sequential history, in order -/
def holderRegions : List (Int × Option Space) → List (Nat × Nat)
  | [] => []
  | (_, some sp) :: rest => if sp.typ = typeHolder then (sp.addr, sp.len) :: holderRegions rest else holderRegions rest
  | (_, none) :: rest => holderRegions rest

/-- every region handed out by a sequential history, mappings and reserve alike, in order -/
def allRegions : List (Int × Option Space) → List (Nat × Nat)
  | [] => []
  | (_, some sp) :: rest => (sp.addr, sp.len) :: allRegions rest
  | (_, none) :: rest => allRegions rest

/-- the mappings the kernel granted during a sequential history (its answers, as regions) -/
def kernelAnswers : List (Int × Mmap) → List (Nat × Nat)
  | [] => []
  | (r, .fresh a) :: rest => (a, r.toNat) :: kernelAnswers rest
  | (_, .fail) :: rest => kernelAnswers rest

/-! ### observed concurrent histories and the executable `admits` -/

/-- invocation / response of request `i`, in the order of the global stamps taken by the probe -/
inductive Ev where
  | inv (i : Nat)
  | resp (i : Nat)
  deriving DecidableEq, Repr

/-- what the probe saw: the reserve when the history started, the request lengths, each request's result
    (`none`: never returned) and the real-time order of invocations and responses -/
structure Hist where
  off : Nat
  min : Nat
  max : Nat
  lens : List Nat
  res : List (Option Res)
  evs : List Ev
  deriving Repr

/-- the requester's next *shared* access together with the local steps that follow it (load+check1, add+check2+return);
    local steps commute with everything, so searching over these macro-steps loses no behaviour -/
def macroStep (s : St) (i : Nat) : Option (St × List Nat) :=
  match s.th[i]? with
  | some t =>
    match t.pc with
    | .load => some (run s [i, i], [i, i])
    | .add => some (run s [i, i, i], [i, i, i])
    | _ => none
  | none => none

/-- a search configuration: model state and the schedule that led to it (reversed blocks) -/
structure Cfg where
  s : St
  sched : List (List Nat)

def addCfg (acc : List Cfg) (c : Cfg) : List Cfg :=
  if acc.any (fun d => d.s == c.s) then acc else c :: acc

/-- one round: every configuration may let any active requester take its next macro-step -/
def expand (act : List Nat) (cs : List Cfg) : List Cfg :=
  cs.foldl (fun acc c =>
    act.foldl (fun acc i =>
      match macroStep c.s i with
      | some (s', blk) => addCfg acc ⟨s', blk :: c.sched⟩
      | none => acc) acc) cs

def closure (act : List Nat) : Nat → List Cfg → List Cfg
  | 0, cs => cs
  | n + 1, cs => closure act n (expand act cs)

/-- a requester that has responded never steps again: its locals are irrelevant for the rest of the search, so they
    are blanked to keep configurations that differ only in such leftovers from multiplying -/
def forget (s : St) (i : Nat) : St :=
  match s.th[i]? with
  | some t => ⟨s.off, s.min, s.max, s.th.set i ⟨t.pc, t.len, 0, 0, t.res⟩⟩
  | none => s

/-- walk through the events; before a response all interleavings of the active requesters are explored, and only
    configurations in which the responding requester produced the observed result survive -/
def search (h : Hist) : List Ev → List Nat → List Cfg → List Cfg
  | [], _, cs => cs
  | .inv i :: evs, act, cs => search h evs (i :: act) cs
  | .resp i :: evs, act, cs =>
    let cs' := (closure act (2 * act.length) cs).filter (fun c => resultOf c.s i == (h.res[i]?).join)
    let cs'' := cs'.foldl (fun acc c => addCfg acc ⟨forget c.s i, c.sched⟩) []
    search h evs (act.erase i) cs''

/-- the schedule found by the search, if any -/
def witness (h : Hist) : Option (List Nat) :=
  match search h h.evs [] [⟨init h.off h.min h.max h.lens, []⟩] with
  | [] => none
  | c :: _ => some (c.sched.reverse.flatten)

/-- side conditions under which the model's arithmetic does not wrap (user-space addresses, Go `int` lengths) -/
def Hist.wellFormed (h : Hist) : Bool :=
  decide (h.min ≤ h.off) && decide (h.off ≤ h.max) && h.lens.all (fun l => decide (l < 9223372036854775808)) &&
  decide (h.max + h.lens.length * (h.max - h.min) < 9223372036854775808) && decide (h.res.length = h.lens.length)

/-- the schedule `σ` reproduces every observed result -/
def explains (h : Hist) (σ : List Nat) : Bool :=
  let s := run (init h.off h.min h.max h.lens) σ
  (List.range h.lens.length).all (fun i => resultOf s i == (h.res[i]?).join)

/-- the model admits the observed history: some schedule consistent with the real-time order reproduces it -/
def admits (h : Hist) : Bool :=
  h.wellFormed && match witness h with
    | none => false
    | some σ => explains h σ

end Stub
