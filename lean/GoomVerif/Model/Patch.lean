import GoomVerif.Gen.JmpAmd64
/-!
# Model of goom's patch table, guards, mockers and builders (C02)

Transcription of
* `internal/patch/patch.go:102 replaceFunc`, `:149 Guard()`, `:144 unpatch`
* `internal/patch/guard.go:22 Apply`, `:36 Unpatch`, `:46 UnpatchWithLock`
* `internal/patch/jumpdata.go:28 genJumpData`, `:64 checkAndReadOriginBytes`
* `internal/patch/monkey.go:21 Trampoline`, `:150 unpatchValue`
* `mocker.go:76-111 applyBy*`, `:127 whens`, `:156 Cancel`, `builder.go:192 Reset`, `builder.go:94 Func` (cache rule),
  `cache.go:42,64` (child caches and their Cancel)

The entry-jump emitter and the NOP-sentinel test are NOT transcribed by hand: the model calls
`Gen.Amd64.jmpToFunctionValue` / `Gen.Amd64.checkAlreadyPatch`, which are regenerated from the Go source on every run.

Text is symbolic: `text f` are the current bytes of function `f` (its whole extent up to the next entry), `ph o` says whose
relocated copy the placeholder `o` holds (`none` = pristine; the relocation itself is C03's subject, here placeholder
bodies are only a region that is allowed to differ).

Scope: operations reachable through the public builder/mocker API, where a guard is applied exactly once, immediately
after the `replaceFunc` that created it.  `Guard.Restore`, `UnpatchAll` and re-applying a stale guard exist only in
`internal/patch`, are used by nothing in the repository and have no op here.
-/
namespace Patch

abbrev Byte := BitVec 8
abbrev Bytes := List Byte

/-- functional map update -/
def upd {β : Type} (m : Nat → β) (a : Nat) (b : β) : Nat → β := fun x => if x = a then b else m x

/-- `memory.WriteTo(entry, data)`: the first `data.length` bytes of the region are replaced. -/
def overwrite (old new : Bytes) : Bytes := new ++ old.drop new.length

/-- Measured facts about the binary; the theorems quantify over all of them. -/
structure Env where
  pristine : Nat → Bytes        -- bytes of function f before any mock
  funcSize : Nat → Nat          -- bytecode.GetFuncSize(f) (cached per address, first computed on unpatched text)
  phSize   : Nat → Nat          -- bytecode.GetFuncSize(placeholder o)
  fixOk    : Nat → Nat → Bool   -- does fixRelativeAddr + the final size check succeed for (f, o)   (C03's subject)
  cbAddr   : Nat → BitVec 64    -- funcval address of user callback k
  stubAddr : Nat → BitVec 64    -- funcval address of the n-th reflect.MakeFunc stub
  /-- is the function a generic instantiation?  Then goom patches the shape body behind it (patch.go:80 `GetInnerFunc`), whose ABI
      has the hidden dictionary word, and the replacement is wrapped in an adapter (patch.go:91 `adaptToShapeFunc`) -/
  generic  : Nat → Bool
  adaptAddr : Nat → BitVec 64   -- funcval address of the n-th dictionary-dropping adapter (reflect.MakeFunc, heap)

/-- `patch.Guard` (guard.go:13) -/
structure Guard where
  origin : Nat
  originBytes : Bytes
  jumpBytes : Bytes
  applied : Bool

/-- value of `patches[origin]` (patch.go:33); `guard = none` while `p.guard == nil` -/
structure PatchE where
  originBytes : Bytes
  jumpBytes : Bytes
  guard : Option Nat

/-- what `m.imp` is -/
inductive Imp where
  | cb (k : Nat)
  | stub (n : Nat)
  deriving DecidableEq, Repr

/-- `baseMocker` (mocker.go:58) as far as patching is concerned -/
structure Mocker where
  target : Nat
  guard : Option Nat      -- m.guard (a patchMockGuard around this patch.Guard)
  imp : Option Imp
  hasWhen : Bool          -- m.when != nil
  origin : Option Nat     -- m.origin (placeholder)
  canceled : Bool

inductive Err where
  | tooSmall | alreadyPatched | fixOrigin
  /-- rejected before `replaceFunc` is reached (`SignatureEquals`, patch.go:64): the previous patch, if any, stays installed -/
  | rejected
  deriving DecidableEq, Repr

structure St where
  text : Nat → Bytes
  ph : Nat → Option Nat
  patches : Nat → Option PatchE
  guards : Nat → Guard
  nGuards : Nat
  mockers : Nat → Mocker
  nMockers : Nat
  /-- `b.mockers` flattened with the child caches of cache.go: builder → key → mocker id.  A key is `via * 1000 + target`
      (the Go keys — function name, `pkg_name`, type string + method name — determine the target; `key % 1000` recovers it). -/
  cache : Nat → Nat → Option Nat
  /-- keys ever cached per builder, newest first (what `Reset` ranges over; Go's map order is arbitrary) -/
  keys : Nat → List Nat
  nStubs : Nat
  /-- mocker handles the user keeps in a variable (`m := b.Func(f)`): builder → key → mocker id.  Operations through a kept
      handle bypass the builder's cache rule (no `Canceled()` test, no replacement by a fresh mocker). -/
  handle : Nat → Nat → Option Nat
  /-- `b.mockers[reflect.TypeOf(instance)]` (builder.go:97 `Struct`): builder → the struct mocker (`*CachedMethodMocker`) it caches.
      A struct mocker is a *cache owner* like a builder: its `mCache`/`umCache` (cache.go:14) are `cache owner key`, and
      `keys owner` lists them.  Owner ids of struct mockers start at 100 (builders are numbered from 0). -/
  scache : Nat → Option Nat
  nStructs : Nat
  /-- what `Canceled()` answers for a struct mocker: `CachedMethodMocker` has no `Canceled` of its own, so it is the promoted
      `baseMocker.Canceled` of the wrapper's own base, which nothing ever sets -/
  scanceled : Nat → Bool
  /-- a struct mocker the user keeps in a variable (`sm := b.Struct(x)`) -/
  shandle : Nat → Option Nat
  /-- installed adapters of generic targets: adapter n forwards to `adapt n` (the user's callback or a MakeFunc stub) after
      dropping the dictionary word; it is referenced by `p.replacement` of the registered patch, i.e. it lives as long as the patch is
      registered.  (Go builds an adapter on every attempt; one whose `replaceFunc` fails is garbage at once and never observable,
      so only installed ones are numbered.) -/
  nAdapt : Nat
  adapt : Nat → Option Imp

def init (env : Env) : St where
  text := env.pristine
  ph := fun _ => none
  patches := fun _ => none
  guards := fun _ => { origin := 0, originBytes := [], jumpBytes := [], applied := false }
  nGuards := 0
  mockers := fun _ => { target := 0, guard := none, imp := none, hasWhen := false, origin := none, canceled := false }
  nMockers := 0
  cache := fun _ _ => none
  keys := fun _ => []
  nStubs := 0
  handle := fun _ _ => none
  scache := fun _ => none
  nStructs := 0
  scanceled := fun _ => false
  shandle := fun _ => none
  nAdapt := 0
  adapt := fun _ => none

/-! ## internal/patch -/

/-- guard.go:36 `Guard.Unpatch`: write the saved bytes back iff the guard was ever applied -/
def guardUnpatch (s : St) (g : Nat) : St :=
  if (s.guards g).applied = true then
    { s with text := upd s.text (s.guards g).origin (overwrite (s.text (s.guards g).origin) (s.guards g).originBytes) }
  else s

/-- guard.go:22 `Guard.Apply` -/
def guardApply (s : St) (g : Nat) : St :=
  { s with guards := upd s.guards g { (s.guards g) with applied := true },
           text := upd s.text (s.guards g).origin (overwrite (s.text (s.guards g).origin) (s.guards g).jumpBytes) }

/-- patch.go:144 `p.unpatch()` = `p.Guard().Unpatch()`; a guard created lazily here has `applied = false`, so nothing happens -/
def patchUnpatch (s : St) (p : PatchE) : St :=
  match p.guard with
  | none => s
  | some g => guardUnpatch s g

/-- monkey.go:150 `unpatchValue` -/
def unpatchValue (s : St) (f : Nat) : St :=
  match s.patches f with
  | none => s
  | some p =>
    let s1 := patchUnpatch s p
    { s1 with patches := upd s1.patches f none }

/-- the 13-byte entry jump (monkey_amd64.go:9), regenerated from the source -/
def jumpTo (to : BitVec 64) : Bytes := Gen.Amd64.jmpToFunctionValue 0#64 to

/-- `patches[p.originPtr] = p` (patch.go:109) and the later field assignments to the registered `*patch` -/
def register (s : St) (f : Nat) (p : PatchE) : St := { s with patches := upd s.patches f (some p) }

/-- monkey.go:34 → patch.go:149 `Guard()`: a new guard object with `applied = false`, remembered in `p.guard` -/
def mkGuard (s : St) (f : Nat) (p : PatchE) : St × Except Err Nat :=
  ({ s with guards := upd s.guards s.nGuards { origin := f, originBytes := p.originBytes, jumpBytes := p.jumpBytes, applied := false },
            nGuards := s.nGuards + 1,
            patches := upd s.patches f (some { p with guard := some s.nGuards }) }, .ok s.nGuards)

/-- patch.go:102 `replaceFunc` followed by `patch.Guard()` (monkey.go:34) on success.
    Returns the state each exit leaves behind and the new guard id or the error. -/
def replaceFunc (env : Env) (s : St) (f : Nat) (to : BitVec 64) (tramp : Option Nat) : St × Except Err Nat :=
  -- patch.go:106  if _, ok := patches[p.originPtr]; ok { unpatchValue(p.originPtr) };  :109  patches[p.originPtr] = p
  let s2 := register (unpatchValue s f) f { originBytes := [], jumpBytes := [], guard := none }
  -- jumpdata.go:28 genJumpData: size check
  if (jumpTo to).length ≥ env.funcSize f then (s2, .error .tooSmall) else
  -- jumpdata.go:64 checkAndReadOriginBytes: RawRead(origin, len(jumpData)), NOP sentinel
  if Gen.Amd64.checkAlreadyPatch ((s2.text f).take (jumpTo to).length) = true then
    (register s2 f { originBytes := [], jumpBytes := jumpTo to, guard := none }, .error .alreadyPatched) else
  let p2 : PatchE := { originBytes := (s2.text f).take (jumpTo to).length, jumpBytes := jumpTo to, guard := none }
  -- patch.go:131 fixOrigin (fix_origin_amd64.go:20): size check, relocation, one WriteTo into the placeholder
  match tramp with
  | none => mkGuard (register s2 f p2) f p2
  | some o =>
    if ((jumpTo to).length ≥ env.phSize o || !env.fixOk f o) = true then (register s2 f p2, .error .fixOrigin)
    else mkGuard { (register s2 f p2) with ph := upd s2.ph o (some f) } f p2

/-! ## mocker.go / builder.go / cache.go -/

/-- builder.go:94-113 (`Func`; same rule in `ExportFunc`, `Struct(..).Method`, `ExportMethod`): reuse the cached mocker unless canceled -/
def getMocker (s : St) (b key : Nat) : St × Nat :=
  match s.cache b key with
  | some id => if (s.mockers id).canceled then fresh else (s, id)
  | none => fresh
where fresh : St × Nat :=
  let id := s.nMockers
  let m : Mocker := { target := key % 1000, guard := none, imp := none, hasWhen := false, origin := none, canceled := false }
  ({ s with mockers := upd s.mockers id m, nMockers := id + 1,
            cache := fun b' k' => if b' = b ∧ k' = key then some id else s.cache b' k',
            keys := fun b' => if b' = b ∧ ¬ key ∈ s.keys b then key :: s.keys b' else s.keys b' }, id)

def impAddr (env : Env) : Imp → BitVec 64
  | .cb k => env.cbAddr k
  | .stub n => env.stubAddr n

/-- where the entry jump of mocker `id` leads for implementation `imp`: the implementation's own funcval, or — for a generic
    target — a fresh adapter (patch.go:91 `adaptToShapeFunc`: `p.replacement = adapter`) -/
def dest (env : Env) (s : St) (id : Nat) (imp : Imp) : BitVec 64 :=
  if env.generic (s.mockers id).target = true then env.adaptAddr s.nAdapt else impAddr env imp

/-- mocker.go:76/88/101 `applyBy*`: proxy → `patch.Trampoline` → on error panic (mocker untouched), else
    `m.guard = guard; m.guard.Apply(); m.imp = callback; m.canceled = false` -/
def applyImp (env : Env) (s : St) (id : Nat) (imp : Imp) : St × Option Err :=
  let m := s.mockers id
  match replaceFunc env s m.target (dest env s id imp) m.origin with
  | (s1, .error e) => (s1, some e)
  | (s1, .ok g) =>
    let s2 := guardApply s1 g
    ({ s2 with mockers := upd s2.mockers id { (s2.mockers id) with guard := some g, imp := some imp, canceled := false },
               nAdapt := if env.generic m.target = true then s.nAdapt + 1 else s.nAdapt,
               adapt := if env.generic m.target = true then upd s.adapt s.nAdapt (some imp) else s.adapt }, none)

/-- `m.guard.Cancel()` if `m.guard != nil` (mocker.go:157 → guard.go:46 UnpatchWithLock) -/
def cancelGuard (s : St) : Option Nat → St
  | some g => guardUnpatch s g
  | none => s

/-- mocker.go:160-162 `m.when = nil; m.origin = nil; m.canceled = true` -/
def markCanceled (s : St) (id : Nat) : St :=
  { s with mockers := upd s.mockers id { (s.mockers id) with hasWhen := false, origin := none, canceled := true } }

/-- mocker.go:156 `baseMocker.Cancel` -/
def cancelMocker (s : St) (id : Nat) : St := markCanceled (cancelGuard s (s.mockers id).guard) id

/-- cancel every cached mocker whose key is in `ks` (builder.go:193 ranges over the map: any order) -/
def cancelKeys (s : St) (b : Nat) : List Nat → St
  | [] => s
  | k :: ks =>
    let s1 := match s.cache b k with
      | some id => cancelMocker s id
      | none => s
    cancelKeys s1 b ks

inductive Op where
  /-- `[.Origin(&o)].Apply(cb k)` on the mocker obtained for (builder, key→target) -/
  | apply (b key k : Nat) (origin : Option Nat)
  /-- `[.Origin(&o)].Return(v)` / `.When(a).Return(v)`: `whens` + `doApply` when there is no `When` yet, otherwise only the `When` object changes -/
  | ret (b key : Nat) (origin : Option Nat)
  | cancel (b key : Nat)
  | reset (b : Nat)
  /-- `m := b.Func(f)` (or ExportFunc / Struct(..).Method / ...): look the mocker up and keep the handle -/
  | keep (b key : Nat)
  /-- `m.Apply(cb k)` through the kept handle -/
  | applyH (b key k : Nat)
  /-- `m.Return(v)` through the kept handle -/
  | retH (b key : Nat)
  /-- `m.Cancel()` through the kept handle -/
  | cancelH (b key : Nat)
  /-- `sm := b.Struct(x)`: look the struct mocker up and keep it -/
  | keepS (b : Nat)
  /-- `S.Method(m)[.Origin(&o)].Apply(cb k)` (or `.ExportMethod(m)`), where `S` is the kept struct mocker (`kept`) or a fresh
      `b.Struct(x)` lookup -/
  | sapply (b key k : Nat) (origin : Option Nat) (kept : Bool)
  | sret (b key : Nat) (origin : Option Nat) (kept : Bool)
  | scancel (b key : Nat) (kept : Bool)
  /-- `m := S.Method(m)`: keep the method mocker as a handle (used by `applyH`/`retH`/`cancelH`) -/
  | skeep (b key : Nat) (kept : Bool)
  /-- a builder call that caches a mocker kind outside C02 (`b.Var(&v)`, `b.Interface(&i)`): no effect on code; `Reset` later
      ranges over it as well (builder.go:208) -/
  | other (b : Nat)
  /-- `b.Func(f).Apply(cb)` with a callback the signature check rejects (`SignatureEquals` panics in `patchValue`, patch.go:64,
      before `replaceFunc` is reached): the lookup happened, nothing else — a previous patch stays installed -/
  | applyBad (b key : Nat)

/-- mocker.go:577 `Origin(originFunc)`: `m.origin = originFunc` (stays until Cancel) -/
def setOrigin (s : St) (id : Nat) : Option Nat → St
  | some o => { s with mockers := upd s.mockers id { (s.mockers id) with origin := some o } }
  | none => s

/-- mocker.go:127 `whens`: `m.imp = MakeFunc(..); m.when = when` — before doApply, so it survives a failing apply -/
def whens (s : St) (id : Nat) : St :=
  { s with nStubs := s.nStubs + 1,
           mockers := upd s.mockers id { (s.mockers id) with imp := some (.stub s.nStubs), hasWhen := true } }

/-- mocker.go:509 (and :245, :395, :461) `Apply`: after a successful `doApply` the old `When` is discarded (`m.when = nil`),
    so that a later `Return`/`When` builds and installs a new one; a panicking `doApply` never reaches that line -/
def clearWhen (s : St) (id : Nat) : St :=
  { s with mockers := upd s.mockers id { (s.mockers id) with hasWhen := false } }

/-- the public `Apply(callback)` on mocker `id` -/
def applyCb (env : Env) (s : St) (id k : Nat) : St × Option Err :=
  match (applyImp env s id (.cb k)).2 with
  | none => (clearWhen (applyImp env s id (.cb k)).1 id, none)
  | some e => ((applyImp env s id (.cb k)).1, some e)

/-- `[.Origin(&o)].Apply(cb k)` on the mocker that cache owner `o` hands out for `key` -/
def doApply (env : Env) (s : St) (o key k : Nat) (origin : Option Nat) : St × Option Err :=
  applyCb env (setOrigin (getMocker s o key).1 (getMocker s o key).2 origin) (getMocker s o key).2 k

/-- `[.Origin(&o)].Return(v)` / `.When(a).Return(v)` -/
def doRet (env : Env) (s : St) (o key : Nat) (origin : Option Nat) : St × Option Err :=
  if ((setOrigin (getMocker s o key).1 (getMocker s o key).2 origin).mockers (getMocker s o key).2).hasWhen = true then
    (setOrigin (getMocker s o key).1 (getMocker s o key).2 origin, none)               -- mocker.go:540  m.when.Return(value...)
  else applyImp env (whens (setOrigin (getMocker s o key).1 (getMocker s o key).2 origin) (getMocker s o key).2) (getMocker s o key).2
    (.stub (setOrigin (getMocker s o key).1 (getMocker s o key).2 origin).nStubs)

def doCancel (s : St) (o key : Nat) : St := cancelMocker (getMocker s o key).1 (getMocker s o key).2

/-- keep what the lookup returned as the handle for (b, key) -/
def doKeep (s : St) (o b key : Nat) : St :=
  { (getMocker s o key).1 with
    handle := fun b' k' => if b' = b ∧ k' = key then some (getMocker s o key).2 else (getMocker s o key).1.handle b' k' }

/-- builder.go:97 `Struct(instance)`: reuse the cached struct mocker unless `Canceled()` -/
def getStruct (s : St) (b : Nat) : St × Nat :=
  match s.scache b with
  | some o => if s.scanceled o = true then fresh else (s, o)
  | none => fresh
where fresh : St × Nat :=
  ({ s with scache := upd s.scache b (some (100 + s.nStructs)), nStructs := s.nStructs + 1 }, 100 + s.nStructs)

/-- the struct mocker an operation goes through: the kept one, or a fresh `b.Struct(x)` lookup -/
def structOf (s : St) (b : Nat) (kept : Bool) : Option (St × Nat) :=
  if kept = true then (s.shandle b).map (fun o => (s, o)) else some (getStruct s b)

/-- builder.go:208 `Reset`: every entry of `b.mockers` is cancelled; the struct mocker entry cancels its children (cache.go:64) -/
def resetB (s : St) (b : Nat) : St :=
  match s.scache b with
  | none => cancelKeys s b (s.keys b)
  | some o => cancelKeys (cancelKeys s b (s.keys b)) o ((cancelKeys s b (s.keys b)).keys o)

/-- one public-API call; the second component is the panic class, if any -/
def step (env : Env) (s : St) : Op → St × Option Err
  | .apply b key k origin => doApply env s b key k origin
  | .ret b key origin => doRet env s b key origin
  | .cancel b key => (doCancel s b key, none)
  | .reset b => (resetB s b, none)
  | .keep b key => (doKeep s b b key, none)
  | .applyH b key k =>
    match s.handle b key with
    | none => (s, none)
    | some id => applyCb env s id k
  | .retH b key =>
    match s.handle b key with
    | none => (s, none)
    | some id =>
      if (s.mockers id).hasWhen then (s, none)
      else applyImp env (whens s id) id (.stub s.nStubs)
  | .cancelH b key =>
    match s.handle b key with
    | none => (s, none)
    | some id => (cancelMocker s id, none)
  | .keepS b => ({ (getStruct s b).1 with shandle := upd (getStruct s b).1.shandle b (some (getStruct s b).2) }, none)
  | .sapply b key k origin kept =>
    match structOf s b kept with
    | none => (s, none)
    | some r => doApply env r.1 r.2 key k origin
  | .sret b key origin kept =>
    match structOf s b kept with
    | none => (s, none)
    | some r => doRet env r.1 r.2 key origin
  | .scancel b key kept =>
    match structOf s b kept with
    | none => (s, none)
    | some r => (doCancel r.1 r.2 key, none)
  | .skeep b key kept =>
    match structOf s b kept with
    | none => (s, none)
    | some r => (doKeep r.1 r.2 b key, none)
  | .other _ => (s, none)
  | .applyBad b key => ((getMocker s b key).1, some .rejected)

def run (env : Env) (s : St) : List Op → St
  | [] => s
  | op :: ops => run env (step env s op).1 ops

/-! ## what an observer sees -/

inductive Beh where
  | orig | cb (k : Nat) | stub (n : Nat) | unknown
  deriving DecidableEq, Repr

/-- what an entry jump to an installed adapter does: the adapter drops the dictionary word and calls what it wraps -/
def adaptClass (env : Env) (s : St) (cur : Bytes) : Beh :=
  match (List.range s.nAdapt).find? (fun n => cur = jumpTo (env.adaptAddr n)) with
  | some n => match s.adapt n with
    | some (.cb k) => .cb k
    | some (.stub m) => .stub m
    | none => .unknown
  | none => .unknown

/-- behaviour class of a call to `f`: decided by the entry bytes (the CPU executes them) -/
def behaviour (env : Env) (s : St) (nCb : Nat) (f : Nat) : Beh :=
  let cur := (s.text f).take 13
  if cur = (env.pristine f).take 13 then .orig
  else match (List.range nCb).find? (fun k => cur = jumpTo (env.cbAddr k)) with
    | some k => .cb k
    | none => match (List.range s.nStubs).find? (fun n => cur = jumpTo (env.stubAddr n)) with
      | some n => .stub n
      | none => adaptClass env s cur

end Patch
