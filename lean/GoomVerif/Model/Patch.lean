import GoomVerif.Gen.JmpAmd64
/-!
# Model of goom's patch table, guards, mockers and builders (C02)

Transcription of
* `internal/patch/patch.go:102 replaceFunc`, `:149 Guard()`, `:144 unpatch`
* `internal/patch/guard.go:22 Apply`, `:36 Unpatch`, `:46 UnpatchWithLock`
* `internal/patch/jumpdata.go:28 genJumpData`, `:64 checkAndReadOriginBytes`
* `internal/patch/monkey.go:21 Trampoline`, `:150 unpatchValue`
* `mocker.go:76-111 applyBy*`, `:127 whens`, `:156 Cancel`, `builder.go:192 Reset`, `builder.go:94 Func` (cache rule),
  `cache.go:42,64` (child caches and their Cancel)

The entry-jump emitter and the NOP-sentinel test are NOT transcribed by hand: the model calls
`Gen.Amd64.jmpToFunctionValue` / `Gen.Amd64.checkAlreadyPatch`, which are regenerated from the Go source on every run.

Text is symbolic: `text f` are the current bytes of function `f` (its whole extent up to the next entry), `ph o` says whose
relocated copy the placeholder `o` holds (`none` = pristine; the relocation itself is C03's subject, here placeholder
bodies are only a region that is allowed to differ).

Scope: operations reachable through the public builder/mocker API, where a guard is applied exactly once, immediately
after the `replaceFunc` that created it.  `Guard.Restore`, `UnpatchAll` and re-applying a stale guard exist only in
`internal/patch`, are used by nothing in the repository and have no op here.
-/
namespace Patch

abbrev Byte := BitVec 8
abbrev Bytes := List Byte

/-- functional map update -/
def upd {β : Type} (m : Nat → β) (a : Nat) (b : β) : Nat → β := fun x => if x = a then b else m x

/-- `memory.WriteTo(entry, data)`: the first `data.length` bytes of the region are replaced. -/
def overwrite (old new : Bytes) : Bytes := new ++ old.drop new.length

/-- Measured facts about the binary; the theorems quantify over all of them. -/
structure Env where
  pristine : Nat → Bytes        -- bytes of function f before any mock
  funcSize : Nat → Nat          -- bytecode.GetFuncSize(f) (cached per address, first computed on unpatched text)
  phSize   : Nat → Nat          -- bytecode.GetFuncSize(placeholder o)
  fixOk    : Nat → Nat → Bool   -- does fixRelativeAddr + the final size check succeed for (f, o)   (C03's subject)
  cbAddr   : Nat → BitVec 64    -- funcval address of user callback k
  stubAddr : Nat → BitVec 64    -- funcval address of the n-th reflect.MakeFunc stub

/-- `patch.Guard` (guard.go:13) -/
structure Guard where
  origin : Nat
  originBytes : Bytes
  jumpBytes : Bytes
  applied : Bool

/-- value of `patches[origin]` (patch.go:33); `guard = none` while `p.guard == nil` -/
structure PatchE where
  originBytes : Bytes
  jumpBytes : Bytes
  guard : Option Nat

/-- what `m.imp` is -/
inductive Imp where
  | cb (k : Nat)
  | stub (n : Nat)
  deriving DecidableEq, Repr

/-- `baseMocker` (mocker.go:58) as far as patching is concerned -/
structure Mocker where
  target : Nat
  guard : Option Nat      -- m.guard (a patchMockGuard around this patch.Guard)
  imp : Option Imp
  hasWhen : Bool          -- m.when != nil
  origin : Option Nat     -- m.origin (placeholder)
  canceled : Bool

inductive Err where
  | tooSmall | alreadyPatched | fixOrigin
  deriving DecidableEq, Repr

structure St where
  text : Nat → Bytes
  ph : Nat → Option Nat
  patches : Nat → Option PatchE
  guards : Nat → Guard
  nGuards : Nat
  mockers : Nat → Mocker
  nMockers : Nat
  /-- `b.mockers` flattened with the child caches of cache.go: builder → key → mocker id.  A key is `via * 1000 + target`. -/
  cache : Nat → Nat → Option Nat
  /-- keys ever cached per builder, newest first (what `Reset` ranges over; Go's map order is arbitrary) -/
  keys : Nat → List Nat
  nStubs : Nat

def init (env : Env) : St where
  text := env.pristine
  ph := fun _ => none
  patches := fun _ => none
  guards := fun _ => { origin := 0, originBytes := [], jumpBytes := [], applied := false }
  nGuards := 0
  mockers := fun _ => { target := 0, guard := none, imp := none, hasWhen := false, origin := none, canceled := false }
  nMockers := 0
  cache := fun _ _ => none
  keys := fun _ => []
  nStubs := 0

/-! ## internal/patch -/

/-- guard.go:36 `Guard.Unpatch`: write the saved bytes back iff the guard was ever applied -/
def guardUnpatch (s : St) (g : Nat) : St :=
  let G := s.guards g
  if G.applied then { s with text := upd s.text G.origin (overwrite (s.text G.origin) G.originBytes) } else s

/-- guard.go:22 `Guard.Apply` -/
def guardApply (s : St) (g : Nat) : St :=
  let G := s.guards g
  { s with guards := upd s.guards g { G with applied := true },
           text := upd s.text G.origin (overwrite (s.text G.origin) G.jumpBytes) }

/-- patch.go:144 `p.unpatch()` = `p.Guard().Unpatch()`; a guard created lazily here has `applied = false`, so nothing happens -/
def patchUnpatch (s : St) (p : PatchE) : St :=
  match p.guard with
  | none => s
  | some g => guardUnpatch s g

/-- monkey.go:150 `unpatchValue` -/
def unpatchValue (s : St) (f : Nat) : St :=
  match s.patches f with
  | none => s
  | some p =>
    let s1 := patchUnpatch s p
    { s1 with patches := upd s1.patches f none }

/-- the 13-byte entry jump (monkey_amd64.go:9), regenerated from the source -/
def jumpTo (to : BitVec 64) : Bytes := Gen.Amd64.jmpToFunctionValue 0#64 to

/-- patch.go:102 `replaceFunc` followed by `patch.Guard()` (monkey.go:34) on success.
    Returns the state each exit leaves behind and the new guard id or the error. -/
def replaceFunc (env : Env) (s : St) (f : Nat) (to : BitVec 64) (tramp : Option Nat) : St × Except Err Nat :=
  -- patch.go:106  if _, ok := patches[p.originPtr]; ok { unpatchValue(p.originPtr) }
  let s1 := unpatchValue s f
  -- patch.go:109  patches[p.originPtr] = p
  let p0 : PatchE := { originBytes := [], jumpBytes := [], guard := none }
  let s2 := { s1 with patches := upd s1.patches f (some p0) }
  -- jumpdata.go:28 genJumpData: size check
  let jump := jumpTo to
  if jump.length ≥ env.funcSize f then (s2, .error .tooSmall) else
  let p1 : PatchE := { p0 with jumpBytes := jump }
  let s3 := { s2 with patches := upd s2.patches f (some p1) }
  -- jumpdata.go:64 checkAndReadOriginBytes
  let result := (s3.text f).take jump.length
  if Gen.Amd64.checkAlreadyPatch result then (s3, .error .alreadyPatched) else
  let p2 : PatchE := { p1 with originBytes := result }
  let s4 := { s3 with patches := upd s3.patches f (some p2) }
  -- patch.go:131 fixOrigin (fix_origin_amd64.go:20): size check, relocation, one WriteTo into the placeholder
  let fix : Option St :=
    match tramp with
    | none => some s4
    | some o => if jump.length ≥ env.phSize o || !env.fixOk f o then none else some { s4 with ph := upd s4.ph o (some f) }
  match fix with
  | none => (s4, .error .fixOrigin)
  | some s5 =>
    -- patch.go:149 Guard(): applied = false
    let g := s5.nGuards
    let G : Guard := { origin := f, originBytes := p2.originBytes, jumpBytes := p2.jumpBytes, applied := false }
    ({ s5 with guards := upd s5.guards g G, nGuards := g + 1,
               patches := upd s5.patches f (some { p2 with guard := some g }) }, .ok g)

/-! ## mocker.go / builder.go / cache.go -/

/-- builder.go:94-113 (`Func`; same rule in `ExportFunc`, `Struct(..).Method`, `ExportMethod`): reuse the cached mocker unless canceled -/
def getMocker (s : St) (b key target : Nat) : St × Nat :=
  match s.cache b key with
  | some id => if (s.mockers id).canceled then fresh else (s, id)
  | none => fresh
where fresh : St × Nat :=
  let id := s.nMockers
  let m : Mocker := { target := target, guard := none, imp := none, hasWhen := false, origin := none, canceled := false }
  ({ s with mockers := upd s.mockers id m, nMockers := id + 1,
            cache := fun b' k' => if b' = b ∧ k' = key then some id else s.cache b' k',
            keys := fun b' => if b' = b ∧ ¬ key ∈ s.keys b then key :: s.keys b' else s.keys b' }, id)

def impAddr (env : Env) : Imp → BitVec 64
  | .cb k => env.cbAddr k
  | .stub n => env.stubAddr n

/-- mocker.go:76/88/101 `applyBy*`: proxy → `patch.Trampoline` → on error panic (mocker untouched), else
    `m.guard = guard; m.guard.Apply(); m.imp = callback` -/
def applyImp (env : Env) (s : St) (id : Nat) (imp : Imp) : St × Option Err :=
  let m := s.mockers id
  match replaceFunc env s m.target (impAddr env imp) m.origin with
  | (s1, .error e) => (s1, some e)
  | (s1, .ok g) =>
    let s2 := guardApply s1 g
    ({ s2 with mockers := upd s2.mockers id { (s2.mockers id) with guard := some g, imp := some imp } }, none)

/-- mocker.go:156 `baseMocker.Cancel` -/
def cancelMocker (s : St) (id : Nat) : St :=
  let m := s.mockers id
  let s1 := match m.guard with
    | some g => guardUnpatch s g        -- guard.go:46 UnpatchWithLock
    | none => s
  { s1 with mockers := upd s1.mockers id { m with hasWhen := false, origin := none, canceled := true } }

/-- cancel every cached mocker whose key is in `ks` (builder.go:193 ranges over the map: any order) -/
def cancelKeys (s : St) (b : Nat) : List Nat → St
  | [] => s
  | k :: ks =>
    let s1 := match s.cache b k with
      | some id => cancelMocker s id
      | none => s
    cancelKeys s1 b ks

inductive Op where
  /-- `[.Origin(&o)].Apply(cb k)` on the mocker obtained for (builder, key→target) -/
  | apply (b key target k : Nat) (origin : Option Nat)
  /-- `[.Origin(&o)].Return(v)` / `.When(a).Return(v)`: `whens` + `doApply` when there is no `When` yet, otherwise only the `When` object changes -/
  | ret (b key target : Nat) (origin : Option Nat)
  | cancel (b key target : Nat)
  | reset (b : Nat)

/-- one public-API call; the second component is the panic class, if any -/
def step (env : Env) (s : St) : Op → St × Option Err
  | .apply b key target k origin =>
    let (s1, id) := getMocker s b key target
    let s2 := match origin with
      | some o => { s1 with mockers := upd s1.mockers id { (s1.mockers id) with origin := some o } }   -- mocker.go:577 Origin
      | none => s1
    applyImp env s2 id (.cb k)
  | .ret b key target origin =>
    let (s1, id) := getMocker s b key target
    let s2 := match origin with
      | some o => { s1 with mockers := upd s1.mockers id { (s1.mockers id) with origin := some o } }
      | none => s1
    if (s2.mockers id).hasWhen then (s2, none)               -- mocker.go:540  m.when.Return(value...)
    else
      -- mocker.go:127 whens: m.imp = MakeFunc(..); m.when = when   (before doApply, so it survives a failing apply)
      let n := s2.nStubs
      let s3 := { s2 with nStubs := n + 1,
                          mockers := upd s2.mockers id { (s2.mockers id) with imp := some (.stub n), hasWhen := true } }
      applyImp env s3 id (.stub n)
  | .cancel b key target =>
    let (s1, id) := getMocker s b key target
    (cancelMocker s1 id, none)
  | .reset b => (cancelKeys s b (s.keys b), none)

def run (env : Env) (s : St) : List Op → St
  | [] => s
  | op :: ops => run env (step env s op).1 ops

/-! ## what an observer sees -/

inductive Beh where
  | orig | cb (k : Nat) | stub | unknown
  deriving DecidableEq, Repr

/-- behaviour class of a call to `f`: decided by the entry bytes (the CPU executes them) -/
def behaviour (env : Env) (s : St) (nCb : Nat) (f : Nat) : Beh :=
  let cur := (s.text f).take 13
  if cur = (env.pristine f).take 13 then .orig
  else match (List.range nCb).find? (fun k => cur = jumpTo (env.cbAddr k)) with
    | some k => .cb k
    | none => match (List.range s.nStubs).find? (fun n => cur = jumpTo (env.stubAddr n)) with
      | some _ => .stub
      | none => .unknown

end Patch
