import GoomVerif.Gen.Page
import GoomVerif.Gen.JmpAmd64
/-!
# Model/Mem — bytes, page protections and goom's text-segment write (C14)

Transcribes, as they are:

* `internal/bytecode/memory/mwrite_unix.go:11 mProtectCrossPage` (`pages`, `protScript`),
* `internal/bytecode/memory/mwrite_amd64.go:19 WriteTo` (`writeTo`),
* `internal/patch/jumpdata.go:28 genJumpData` (size test), `guard.go:22,36,52` (Apply/Unpatch/Restore are
  `WriteTo(origin, 13 bytes)`), `fix_origin_amd64.go:37,72,83` (size tests before the placeholder write).

`PageStart` is **not** re-stated here: it is `Gen.Page.PageStart`, regenerated from `memory.go:15` on every run.
The page size is the extern `syscall.Getpagesize() = 0x1000` of that translation (the probe asserts it).

Kernel specification (trusted, DESIGN §5): `mprotect(p, pageSize, prot)` on a mapped page sets exactly that page's
protection and succeeds; on an unmapped page it fails (ENOMEM) and changes nothing; under a W^X policy (`denyWX`: SELinux
execmem, macOS hardened runtime; emulated in the probe with a seccomp filter) a request for write+execute on a mapped page
fails (EACCES) and changes nothing.  A store to a page without `w` faults.  The fall-back `writeTo` of
`mwrite_prot.go:3008` (taken when the RWX `mprotect` is refused) is modelled too (`fallbackWrite`).
-/
namespace Mem

abbrev Addr := BitVec 64
abbrev Byte := BitVec 8

/-- page protection bits -/
structure Perm where
  r : Bool
  w : Bool
  x : Bool
  deriving DecidableEq, Repr, Inhabited

/-- `syscall.PROT_READ|syscall.PROT_EXEC` (mwrite_amd64.go:32) -/
def RX : Perm := ⟨true, false, true⟩
/-- `syscall.PROT_READ|syscall.PROT_WRITE|syscall.PROT_EXEC` (mwrite_amd64.go:24) -/
def RWX : Perm := ⟨true, true, true⟩
/-- `syscall.PROT_READ|syscall.PROT_WRITE` (mwrite_prot.go:3013, the fall-back) -/
def RW : Perm := ⟨true, true, false⟩

/-- `syscall.Getpagesize()` as a number (the same extern the translator uses for `Gen.Page.PageStart`) -/
def pageSize : Nat := 4096

/-- Address space: every byte, and the protection of every page keyed by its start address (`none` = unmapped). -/
structure State where
  mem : Addr → Byte
  perm : Addr → Option Perm
  /-- kernel policy: a request for write+execute is refused (EACCES) -/
  denyWX : Bool := false

/-- the page (start address) containing `a` — goom's own `PageStart`, regenerated from the source -/
def pageOf (a : Addr) : Addr := Gen.Page.PageStart a

/-! ## mProtectCrossPage: which pages -/

/-- mwrite_unix.go:13 `for p := PageStart(addr); p < addr+uintptr(length); p += uintptr(pageSize)` in 64-bit
    wrap-around arithmetic.  `fuel` only makes the recursion structural; `pages_fuel_irrelevant` (Props/C14) shows the
    loop always ends by its own condition when the write does not reach the last page of the address space. -/
def pagesLoop : Nat → Addr → Addr → List Addr
  | 0, _, _ => []
  | fuel + 1, p, lim => if p < lim then p :: pagesLoop fuel (p + BitVec.ofNat 64 pageSize) lim else []

/-- the pages `mProtectCrossPage(a, n, _)` visits, in order -/
def pages (a : Addr) (n : Nat) : List Addr :=
  pagesLoop (n / pageSize + 2) (Gen.Page.PageStart a) (a + BitVec.ofNat 64 n)

/-! ## micro-steps -/

inductive Step where
  /-- `syscall.Mprotect(RawAccess(p, pageSize), prot)` (mwrite_unix.go:15) -/
  | mprotect (p : Addr) (prot : Perm)
  /-- one byte of `copy(f, data)` (mwrite_amd64.go:31) -/
  | store (a : Addr) (b : Byte)
  deriving Repr

inductive Err where
  | enomem (p : Addr)     -- mprotect of an unmapped page
  | eacces (p : Addr)     -- mprotect asking for write+execute under a W^X policy
  | segv (a : Addr)       -- store to a page that is not writable
  deriving Repr, DecidableEq

def setPerm (f : Addr → Option Perm) (p : Addr) (v : Perm) : Addr → Option Perm :=
  fun q => if q = p then some v else f q

def setByte (f : Addr → Byte) (a : Addr) (b : Byte) : Addr → Byte :=
  fun q => if q = a then b else f q

/-- kernel / CPU specification of one micro-step -/
def step (s : State) : Step → Except Err State
  | .mprotect p prot =>
    match s.perm p with
    | none => .error (.enomem p)
    | some _ =>
      if s.denyWX && prot.w && prot.x then .error (.eacces p)
      else .ok { s with perm := setPerm s.perm p prot }
  | .store a b =>
    match s.perm (pageOf a) with
    | some pr => if pr.w then .ok { s with mem := setByte s.mem a b } else .error (.segv a)
    | none => .error (.segv a)

/-- run a script; stops at the first failing step and returns the state reached -/
def run : State → List Step → State × Option Err
  | s, [] => (s, none)
  | s, st :: rest =>
    match step s st with
    | .ok s' => run s' rest
    | .error e => (s, some e)

/-- mwrite_unix.go:11 `mProtectCrossPage(a, n, prot)` as a script -/
def protScript (a : Addr) (n : Nat) (prot : Perm) : List Step :=
  (pages a n).map (fun p => Step.mprotect p prot)

/-- `copy(f, data)` with `f = RawAccess(a, len data)`: byte `i` goes to `a+i` -/
def copyFrom (a : Addr) : Nat → List Byte → List Step
  | _, [] => []
  | i, b :: bs => Step.store (a + BitVec.ofNat 64 i) b :: copyFrom a (i + 1) bs

def copyScript (a : Addr) (data : List Byte) : List Step := copyFrom a 0 data

/-- the whole script of a successful `WriteTo` -/
def script (a : Addr) (data : List Byte) : List Step :=
  protScript a data.length RWX ++ copyScript a data ++ protScript a data.length RX

/-- the script of a successful fall-back write (mwrite_prot.go:3008): rw-, copy, r-x -/
def fallbackScript (a : Addr) (data : List Byte) : List Step :=
  protScript a data.length RW ++ copyScript a data ++ protScript a data.length RX

inductive Outcome where
  | ok                       -- mwrite_amd64.go:35 `return nil`
  | okFallback (e : Err)     -- :24 RWX refused (e), :26 fall-back `writeTo` of mwrite_prot.go succeeded → `return nil`
  | panicFallback (e : Err)  -- the fall-back's own mprotect failed → mwrite_prot.go:3015/3022 `panic`
  | fault (e : Err)          -- the copy hit a non-writable page (SIGSEGV; the process dies)
  | panicRX (e : Err)        -- :32–33 restoring RX failed → `errorDetail` panics
  deriving Repr, DecidableEq

/-- `WriteTo` returned nil -/
def Outcome.returned : Outcome → Bool
  | .ok => true
  | .okFallback _ => true
  | _ => false

/-- mwrite_prot.go:3008 `writeTo(addr, data)` — the fall-back; `e0` is the error of the refused RWX request -/
def fallbackWrite (a : Addr) (data : List Byte) (e0 : Err) (s : State) : State × Outcome :=
  match run s (protScript a data.length RW) with           -- :3012–3017
  | (s1, some e) => (s1, .panicFallback e)
  | (s1, none) =>
    match run s1 (copyScript a data) with                  -- :3018
    | (s2, some e) => (s2, .fault e)
    | (s2, none) =>
      match run s2 (protScript a data.length RX) with      -- :3019–3024
      | (s3, some e) => (s3, .panicFallback e)
      | (s3, none) => (s3, .okFallback e0)

/-- mwrite_amd64.go:19 `WriteTo(addr, data)` -/
def writeTo (a : Addr) (data : List Byte) (s : State) : State × Outcome :=
  match run s (protScript a data.length RWX) with          -- :24
  | (s1, some e) => fallbackWrite a data e s1              -- :26
  | (s1, none) =>
    match run s1 (copyScript a data) with                  -- :31
    | (s2, some e) => (s2, .fault e)
    | (s2, none) =>
      match run s2 (protScript a data.length RX) with      -- :32
      | (s3, some e) => (s3, .panicRX e)                   -- :33
      | (s3, none) => (s3, .ok)

/-! ## patch layer: what is written where (jumpdata.go, guard.go, fix_origin_amd64.go) -/

/-- jumpdata.go:53–59: build the entry jump, refuse when `len(jumpData) >= funcSize`.
    `funcSize` is what `bytecode.GetFuncSize` returned for `origin` (func_amd64.go:24). -/
def genJumpData (origin to : Addr) (funcSize : Nat) : Except String (List Byte) :=
  let jumpData := Gen.Amd64.jmpToFunctionValue origin to
  if jumpData.length ≥ funcSize then .error "jumpInstSize-bigger-than-origin-FuncSize" else .ok jumpData

/-- fix_origin_amd64.go:37 (jumpInstSize ≥ trampFuncSize → error) and :72 (len(fixOriginData) > trampolineFuncSize →
    error): the two size tests that precede `memory.WriteTo(trampoline, fixOriginData)` at :83. -/
def trampolineAccepts (jumpLen trampFuncSize fixLen : Nat) : Bool :=
  !(jumpLen ≥ trampFuncSize) && !(fixLen > trampFuncSize)

inductive InstallRes where
  | refused (why : String)
  | done (o : Outcome)
  deriving Repr, DecidableEq

/-- patch.go:102 `replaceFunc` followed by guard.go:22 `Apply`, restricted to what touches memory:
    size test, optional placeholder write (`tramp = some (addr, trampFuncSize, fixOriginData)`), entry write. -/
def install (origin to : Addr) (funcSize : Nat) (tramp : Option (Addr × Nat × List Byte)) (s : State) :
    State × InstallRes :=
  match genJumpData origin to funcSize with
  | .error e => (s, .refused e)                                        -- patch.go:113 `return err`
  | .ok jd =>
    match tramp with
    | none =>
      let (s1, o) := writeTo origin jd s                               -- guard.go:28
      (s1, .done o)
    | some (t, tsize, fix) =>
      if trampolineAccepts jd.length tsize fix.length then
        let (s1, o1) := writeTo t fix s                                -- fix_origin_amd64.go:83
        if o1.returned then
          let (s2, o) := writeTo origin jd s1                          -- guard.go:28
          (s2, .done o)
        else (s1, .done o1)
      else (s, .refused "trampoline-too-small")                        -- fix_origin_amd64.go:39 / :77

/-- memory.go:30 `RawRead(a, n)`: a private copy of `n` bytes starting at `a` -/
def readBytes (s : State) (a : Addr) (n : Nat) : List Byte :=
  (List.range n).map (fun i => s.mem (a + BitVec.ofNat 64 i))

/-- patch.go:123 + jumpdata.go:66: the bytes a guard saves are `RawRead(origin, len(jumpData))` — the jump's own length -/
def savedOriginBytes (s : State) (origin to : Addr) : List Byte :=
  readBytes s origin (Gen.Amd64.jmpToFunctionValue origin to).length

/-- guard.go:36 `Unpatch`: `WriteTo(origin, originBytes)`; `originBytes` were read with the jump's length (jumpdata.go:66) -/
def unpatch (origin : Addr) (originBytes : List Byte) (s : State) : State × Outcome :=
  writeTo origin originBytes s

end Mem
