import GoomVerif.Gen.A64Table
/-! Model of goom's arm64 decoder `internal/arch/arm64asm/decode.go` over the REGENERATED table `Gen.A64.table`,
    and of the two scans of `internal/bytecode/func_arm64.go` that consume it.

    What is transcribed: the first-match search of `Decode` (decode.go:41-79) with its three ways of skipping a row
    (mask/value mismatch, `canDecode` false, an argument decoder returning nil), the 0-terminated argument loop, and
    `decodeArg` (decode.go:83) for the PC-relative kinds and the plain register/condition/bit-number kinds that occur
    in branch and address instructions.  What is NOT transcribed: the other ~290 argument decoders and the 107
    `canDecode` predicates.  They enter as an arbitrary oracle `Env` — every theorem quantifies over all oracles, so it
    holds whatever those functions compute. -/
namespace A64Dec
open Gen.A64

/-- a decoded argument (inst.go:51 `Arg`), as far as the model distinguishes them -/
inductive Arg where
  | pcrel (d : BitVec 64)        -- inst.go:493 `PCRel int64`
  | reg (x : Bool) (n : Nat)     -- `W0 + Reg(n)` (x = false) / `X0 + Reg(n)` (x = true)
  | cond (c : Nat)               -- `Cond{c, false}`
  | imm (v : Nat)                -- `Imm{v, true}`
  | imm64 (v : BitVec 64)        -- `Imm64{v, false}`
  | immShift (imm shift : Nat)   -- `ImmShift{imm, shift}`
  | mem (rn : Nat) (off : Int)   -- `MemImmediate{RegSP(X0)+rn, AddrOffset, off}`
  | other                        -- non-nil argument of a kind the model does not interpret
  deriving DecidableEq, Repr

/-- the uninterpreted part of the decoder: `canDecode` of row `i` (predicate id `c`, see `Gen.A64.condNames`) on word `x`, and "decodeArg(kind, x) ≠ nil" for
    argument kinds the model does not interpret (indexed by row too, which only makes the oracle more general). -/
structure Env where
  condOk : Nat → Nat → BitVec 32 → Bool
  argOk : Nat → Nat → BitVec 32 → Bool

/-- decode.go:181 `case arg_slabel_imm14_2`: `PCRel(((int64(imm14) << 2) << 48) >> 48)` -/
def slabel_imm14_2 (x : BitVec 32) : BitVec 64 :=
  let imm14 : BitVec 32 := (x >>> 5) &&& 0x3fff#32
  (((imm14.setWidth 64) <<< 2) <<< 48).sshiftRight 48

/-- decode.go:185 `case arg_slabel_imm19_2`: `PCRel(((int64(imm19) << 2) << 43) >> 43)` -/
def slabel_imm19_2 (x : BitVec 32) : BitVec 64 :=
  let imm19 : BitVec 32 := (x >>> 5) &&& 0x7ffff#32
  (((imm19.setWidth 64) <<< 2) <<< 43).sshiftRight 43

/-- decode.go:189 `case arg_slabel_imm26_2`: `PCRel(((int64(imm26) << 2) << 36) >> 36)` -/
def slabel_imm26_2 (x : BitVec 32) : BitVec 64 :=
  let imm26 : BitVec 32 := x &&& 0x3ffffff#32
  (((imm26.setWidth 64) <<< 2) <<< 36).sshiftRight 36

/-- decode.go:193 `case arg_slabel_immhi_immlo_0`: `PCRel((int64(immhi<<2 | immlo) << 43) >> 43)` -/
def slabel_immhi_immlo_0 (x : BitVec 32) : BitVec 64 :=
  let immhi : BitVec 32 := (x >>> 5) &&& 0x7ffff#32
  let immlo : BitVec 32 := (x >>> 29) &&& 0x3#32
  let immhilo : BitVec 32 := (immhi <<< 2) ||| immlo
  ((immhilo.setWidth 64) <<< 43).sshiftRight 43

/-- decode.go:199 `case arg_slabel_immhi_immlo_12`: `PCRel(((int64(immhi<<2 | immlo) << 12) << 31) >> 31)` -/
def slabel_immhi_immlo_12 (x : BitVec 32) : BitVec 64 :=
  let immhi : BitVec 32 := (x >>> 5) &&& 0x7ffff#32
  let immlo : BitVec 32 := (x >>> 29) &&& 0x3#32
  let immhilo : BitVec 32 := (immhi <<< 2) ||| immlo
  (((immhilo.setWidth 64) <<< 12) <<< 31).sshiftRight 31

/-- `imm16 := (x >> 5) & (1<<16 - 1)` -/
def imm16 (x : BitVec 32) : BitVec 32 := (x >>> 5) &&& 0xffff#32
/-- `hw := (x >> 21) & (1<<2 - 1)` -/
def hw (x : BitVec 32) : BitVec 32 := (x >>> 21) &&& 0x3#32

/-- a 5-bit register field `(x >> lo) & 31` -/
def r5 (x : BitVec 32) (lo : Nat) : Nat := ((x >>> lo) &&& 0x1f#32).toNat

/-- the argument kinds (arg.go `instArg` constants) the model interprets -/
inductive Kind where
  | slabel14 | slabel19 | slabel26 | slabelAdr | slabelAdrp
  | Xd | Xn | Xm | Xa | Xt | Xt2 | Xs | Wd | Wn | Wm | Wa | Wt | Wt2 | Ws
  | conditional | Rt31 | immB5B40 | immShift64 | optLSL48 | memImm12x8
  | St | Dt | Qt | prfopRt
  deriving DecidableEq, Repr

/-- numeric `instArg` value (regenerated, `Gen.A64.arg_*`) → interpreted kind; `none` = not interpreted by the model -/
def kindOf (k : Nat) : Option Kind :=
  if k = arg_slabel_imm14_2 then some .slabel14
  else if k = arg_slabel_imm19_2 then some .slabel19
  else if k = arg_slabel_imm26_2 then some .slabel26
  else if k = arg_slabel_immhi_immlo_0 then some .slabelAdr
  else if k = arg_slabel_immhi_immlo_12 then some .slabelAdrp
  else if k = arg_Xd then some .Xd else if k = arg_Xn then some .Xn else if k = arg_Xm then some .Xm
  else if k = arg_Xa then some .Xa else if k = arg_Xt then some .Xt else if k = arg_Xt2 then some .Xt2
  else if k = arg_Xs then some .Xs
  else if k = arg_Wd then some .Wd else if k = arg_Wn then some .Wn else if k = arg_Wm then some .Wm
  else if k = arg_Wa then some .Wa else if k = arg_Wt then some .Wt else if k = arg_Wt2 then some .Wt2
  else if k = arg_Ws then some .Ws
  else if k = arg_conditional then some .conditional
  else if k = arg_Rt_31_1__W_0__X_1 then some .Rt31
  else if k = arg_immediate_0_63_b5_b40 then some .immB5B40
  else if k = arg_immediate_shift_64_implicit_imm16_hw then some .immShift64
  else if k = arg_immediate_OptLSL_amount_16_0_48 then some .optLSL48
  else if k = arg_Xns_mem_optional_imm12_8_unsigned then some .memImm12x8
  else if k = arg_St then some .St else if k = arg_Dt then some .Dt else if k = arg_Qt then some .Qt
  else if k = arg_prfop_Rt then some .prfopRt
  else none

/-- `decodeArg` (decode.go:83) for the interpreted kinds; none of these cases can return nil in the source. -/
def interpK (kd : Kind) (x : BitVec 32) : Arg :=
  match kd with
  | .slabel14 => .pcrel (slabel_imm14_2 x)          -- decode.go:181
  | .slabel19 => .pcrel (slabel_imm19_2 x)          -- decode.go:185
  | .slabel26 => .pcrel (slabel_imm26_2 x)          -- decode.go:189
  | .slabelAdr => .pcrel (slabel_immhi_immlo_0 x)   -- decode.go:193
  | .slabelAdrp => .pcrel (slabel_immhi_immlo_12 x) -- decode.go:199
  | .Xd => .reg true (r5 x 0)       -- decode.go:154  X0 + Reg(x&31)
  | .Xn => .reg true (r5 x 5)       -- decode.go:175  X0 + Reg((x>>5)&31)
  | .Xm => .reg true (r5 x 16)      -- decode.go:160
  | .Xa => .reg true (r5 x 10)      -- decode.go:151
  | .Xt => .reg true (r5 x 0)       -- decode.go:298
  | .Xt2 => .reg true (r5 x 10)     -- decode.go:301
  | .Xs => .reg true (r5 x 16)      -- decode.go:295
  | .Wd => .reg false (r5 x 0)      -- decode.go:130
  | .Wn => .reg false (r5 x 5)      -- decode.go:145
  | .Wm => .reg false (r5 x 16)     -- decode.go:136
  | .Wa => .reg false (r5 x 10)     -- decode.go:127
  | .Wt => .reg false (r5 x 0)      -- decode.go:289
  | .Wt2 => .reg false (r5 x 10)    -- decode.go:292
  | .Ws => .reg false (r5 x 16)     -- decode.go:286
  | .conditional => .cond ((x &&& 0xf#32).toNat)                                   -- decode.go:626
  | .Rt31 => .reg (((x >>> 31) &&& 1#32) != 0#32) (r5 x 0)                         -- decode.go:613
  | .immB5B40 => .imm (((((x >>> 31) &&& 1#32) <<< 5) ||| ((x >>> 19) &&& 0x1f#32)).toNat)   -- decode.go:334
  -- decode.go:548  shift := hw * 16; result := uint64(imm16) << shift; Imm64{result, false}
  | .immShift64 => .imm64 (((imm16 x).setWidth 64) <<< (hw x * 16#32).toNat)
  -- decode.go:471  ImmShift{uint16(imm16), uint8(hw * 16)}
  | .optLSL48 => .immShift ((imm16 x).setWidth 16).toNat ((hw x * 16#32).setWidth 8).toNat
  -- decode.go:236  MemImmediate{RegSP(X0) + RegSP(x>>5&31), AddrOffset, int32(imm12 << 3)}
  | .memImm12x8 => .mem (r5 x 5) (((((x >>> 10) &&& 0xfff#32) <<< 3).setWidth 32).toInt)
  -- decode.go:941/703/925 `S0|D0|Q0 + Reg(x&31)`, decode.go:660 `Imm_prfop(x&31)`: never nil; the value is not modelled
  | .St => .other
  | .Dt => .other
  | .Qt => .other
  | .prfopRt => .other

/-- `none` here means "kind not interpreted by the model", NOT "nil". -/
def interp (k : Nat) (x : BitVec 32) : Option Arg := (kindOf k).map (fun kd => interpK kd x)

/-- is the kind interpreted by the model? -/
def interpreted (k : Nat) : Bool := (kindOf k).isSome

/-- decode.go:83 `decodeArg`: interpreted kinds by `interp`, all others by the oracle -/
def decodeArg (env : Env) (row k : Nat) (x : BitVec 32) : Option Arg :=
  match interp k x with
  | some a => some a
  | none => if env.argOk row k x then some .other else none

/-- decode.go:59-69: `for j, aop := range f.args { if aop == 0 { break }; arg := decodeArg(aop, x); if arg == nil { continue Search } … }` -/
def decodeArgs (env : Env) (row : Nat) : List Nat → BitVec 32 → Option (List Arg)
  | [], _ => some []
  | k :: ks, x =>
    if k = 0 then some []
    else match decodeArg env row k x with
      | none => none
      | some a => (decodeArgs env row ks x).map (a :: ·)

/-- the `canDecode` predicates (condition.go) the model interprets; `none` = left to the oracle -/
def interpCond (c : Nat) : Option (BitVec 32 → Bool) :=
  -- condition.go:111 `!(is_zero((instr>>5)&0xffff) && (instr>>21)&0x3 != 0x0)`
  if c = cond_mov_movz_64_movewide_cond then some (fun x => !(imm16 x == 0#32 && hw x != 0#32))
  else none

/-- `f.canDecode(x)` -/
def condVal (env : Env) (i c : Nat) (x : BitVec 32) : Bool :=
  match interpCond c with
  | some f => f x
  | none => env.condOk i c x

/-- a successful decode: the table row that matched, its `op`, the decoded arguments -/
structure Res where
  row : Nat
  op : Nat
  args : List Arg
  deriving DecidableEq, Repr

/-- decode.go:49-79, the `Search` loop from row index `i` on -/
def decodeFrom (env : Env) : List Row → Nat → BitVec 32 → Option Res
  | [], _, _ => none                                                     -- decode.go:78 errUnknown
  | r :: rs, i, x =>
    if x &&& r.mask != r.value then decodeFrom env rs (i + 1) x          -- decode.go:51
    else if r.cond && !condVal env i r.condId x then decodeFrom env rs (i + 1) x   -- decode.go:54
    else match decodeArgs env i r.args x with
      | none => decodeFrom env rs (i + 1) x                              -- decode.go:65 continue Search
      | some as => some ⟨i, r.op, as⟩                                    -- decode.go:71

/-- decode.go:41 `Decode` on an instruction word; `none` = errUnknown -/
def decode (env : Env) (x : BitVec 32) : Option Res := decodeFrom env table 0 x

/-- outcome of `Decode(src []byte)` (decode.go:41-46): `errShort`, `errUnknown`, or an instruction -/
inductive SrcRes where
  | short | unknown | ok (r : Res)
  deriving DecidableEq, Repr

/-- decode.go:41 `Decode` on a byte slice: fewer than 4 bytes → errShort; otherwise ONLY the first four bytes are read
    (`binary.LittleEndian.Uint32(src)`), whatever follows -/
def decodeSrc (env : Env) : List (BitVec 8) → SrcRes
  | a :: b :: c :: d :: _ =>
    match decode env ((d.setWidth 32 <<< 24) ||| (c.setWidth 32 <<< 16) ||| (b.setWidth 32 <<< 8) ||| a.setWidth 32) with
    | some r => .ok r
    | none => .unknown
  | _ => .short

/-- inst.go:21 `Op.String` -/
def opName (op : Nat) : String := (opNames[op]?).getD ""

/-- the PC-relative displacement carried by a result: its first `PCRel` argument -/
def Res.pcrel (r : Res) : Option (BitVec 64) :=
  r.args.findSome? (fun a => match a with | .pcrel d => some d | _ => none)

/-! ### env-independent decoding (used by the driver for the scan model and proved sound in Props/C17) -/

/-- all kinds before the 0 terminator are interpreted -/
def argsInterpreted : List Nat → Bool
  | [] => true
  | k :: ks => if k = 0 then true else interpreted k && argsInterpreted ks

/-- the arguments of a fully interpreted row -/
def argsOf : List Nat → BitVec 32 → List Arg
  | [], _ => []
  | k :: ks, x => if k = 0 then [] else
    match interp k x with
    | some a => a :: argsOf ks x
    | none => []

/-- `some r`: every oracle gives `r` (first mask-matching row has no (or an interpreted, true) predicate and only interpreted kinds, or no row
    mask-matches at all); `none`: the answer depends on the uninterpreted part. -/
def decodeDefFrom : List Row → Nat → BitVec 32 → Option (Option Res)
  | [], _, _ => some none
  | r :: rs, i, x =>
    if x &&& r.mask != r.value then decodeDefFrom rs (i + 1) x
    else if r.cond then
      match interpCond r.condId with
      | none => none
      | some f =>
        if f x then (if argsInterpreted r.args then some (some ⟨i, r.op, argsOf r.args x⟩) else none)
        else decodeDefFrom rs (i + 1) x
    else if !argsInterpreted r.args then none
    else some (some ⟨i, r.op, argsOf r.args x⟩)

def decodeDef (x : BitVec 32) : Option (Option Res) := decodeDefFrom table 0 x

/-- the oracle that lets exactly row `c` through (all others with a predicate or an uninterpreted kind are skipped):
    the witness used by the driver to validate an observation "the real decoder chose row c". -/
def claimEnv (c : Option Nat) : Env :=
  { condOk := fun i _ _ => c == some i, argOk := fun i _ _ => c == some i }

/-! ### the scans of internal/bytecode/func_arm64.go -/

/-- little-endian words of `armFuncPrologue64` (func.go:34) -/
def prologue : List (BitVec 32) := [0xf9400b81#32, 0x910003e2#32, 0xeb01005f#32]

/-- `bytes.Equal(funcPrologue, code[:prologueLen])` for the 16 bytes read at byte offset `c` -/
def prologueAt (mem : Nat → BitVec 32) (c : Nat) : Bool :=
  mem c == 0xf9400b81#32 && mem (c + 4) == 0x910003e2#32 && mem (c + 8) == 0xeb01005f#32

/-- `inst.Op == 0 && code[0] == 0x00` (func_arm64.go:50, :123) -/
def isInt0 (r : Res) (w : BitVec 32) : Bool := r.op == 0 && (w &&& 0xff#32) == 0#32

/-- func_arm64.go:131-137: the address computed from a B/BL displacement at byte offset `curLen`;
    `none` = neither branch taken (a backward branch that stays at or after `start`) -/
def innerTarget (start : BitVec 64) (curLen : Nat) (rAddr : BitVec 64) : Option (BitVec 64) :=
  if ¬ rAddr.slt 0 then some (start + BitVec.ofNat 64 curLen + rAddr)                       -- :132
  else if (BitVec.ofNat 64 curLen + rAddr).slt 0 then some (start + BitVec.ofNat 64 curLen - (-rAddr))  -- :135
  else none

inductive Inner where
  | target (a : BitVec 64)   -- (addr, nil)
  | zero                     -- (0, nil)
  | err                      -- (0, err)
  | fuel                     -- model ran out of fuel (cannot happen with fuel ≥ 1026, see Props)
  deriving DecidableEq, Repr

/-- is the op name "B" or "BL" (func_arm64.go:128) -/
def isCall (op : Nat) : Bool := opName op == "B" || opName op == "BL"

/-- func_arm64.go:128-139: `if inst.Op.String() == "B" || … == "BL" { rAddr, ok := inst.Args[0].(PCRel); if ok { … } }` -/
def callHit (start : BitVec 64) (curLen : Nat) (r : Res) : Option (BitVec 64) :=
  if isCall r.op then
    match r.args.head? with
    | some (.pcrel d) => innerTarget start curLen d
    | _ => none
  else none

/-- func_arm64.go:110 `GetInnerFunc`, `mem c` = the word at `start + c` -/
def getInnerFunc (env : Env) (mem : Nat → BitVec 32) (start : BitVec 64) : Nat → Nat → Bool → Inner
  | 0, _, _ => .fuel
  | fuel + 1, curLen, int0Found =>
    match decode env (mem curLen) with
    | none => .err                                                          -- :119
    | some r =>
      let z := isInt0 r (mem curLen)
      if !z && int0Found then .zero                                         -- :125
      else
        match callHit start curLen r with
        | some a => .target a                                               -- :133 / :136
        | none =>
          if prologueAt mem (curLen + 4) then .zero                         -- :141-145
          else if curLen + 4 > 4096 then .zero                              -- :147
          else getInnerFunc env mem start fuel (curLen + 4) (int0Found || z)

/-- func_arm64.go:27 `GetFuncSize` (cache and lock omitted); `none` = out of fuel (the Go loop has no bound) -/
def getFuncSize (env : Env) (mem : Nat → BitVec 32) (minimal : Bool) : Nat → Nat → Bool → Option Nat
  | 0, _, _ => none
  | fuel + 1, curLen, int0Found =>
    match decode env (mem curLen) with
    | none => some curLen                                                   -- :46
    | some r =>
      let z := isInt0 r (mem curLen)
      if z && minimal then some curLen                                      -- :52
      else if !z && int0Found then some curLen                              -- :57
      else
        let curLen' := curLen + 4                                           -- :60
        if prologueAt mem curLen' then some curLen'                         -- :63
        else getFuncSize env mem minimal fuel curLen' (int0Found || z)

/-- func_arm64.go:27-37 `GetFuncSize` WITH its cache: `cache` is `funcSizeCache[start]` before the call; returns the extent
    and the cache entry after the call (the deferred store at :31 writes the returned length) -/
def getFuncSizeCached (env : Env) (mem : Nat → BitVec 32) (minimal : Bool) (fuel : Nat) (cache : Option Nat) : Option (Nat × Option Nat) :=
  match cache with
  | some l => some (l, some l)                                                    -- :35-37 cache hit, :32 stores it again
  | none => (getFuncSize env mem minimal fuel 0 false).map (fun n => (n, some n))  -- :32 deferred store of `length`

end A64Dec
