import GoomVerif.Model.Mem
/-!
# Model/MemHist — histories of install / remove operations over several targets (C14)

Transcribes what touches memory in

* `internal/patch/patch.go:102 replaceFunc` (un-patch a registered patch of the same target first :106-108, register
  BEFORE the tests :109, size test, already-patched test, save `len(jumpData)` original bytes :123),
* `internal/patch/guard.go` `Apply` :22 (sets `applied`, writes the jump), `Unpatch` :36 and `Restore` :52 (write only when
  `applied`; `Unpatch` does NOT clear `applied`),
* `internal/patch/monkey.go` `UnpatchAll` :141 (every registered patch, map order, deleting as it goes) and
  `unpatchValue` :150.

A *target* is an index `i` with entry address `org i` and scanned size `fsz i`; the probe keeps, per target, the guard the
last successful `Patch` returned (`slots`).  `table` is goom's `patches` map: the registered targets in insertion order, each
with a flag saying whether the registered patch is the one whose guard is in the slot (`true`) or a patch that was refused
after registration (`false`; its lazily created guard is never applied, so it writes nothing).

A write that does not return (`panic`, e.g. the target's memory was unmapped meanwhile) aborts the operation where it is.
-/
namespace Mem

structure Guard where
  origin : Addr
  originBytes : List Byte
  jumpBytes : List Byte
  applied : Bool
  deriving Repr

structure HState where
  m : State
  slots : Nat → Option Guard
  table : List (Nat × Bool)

/-- the layout the history runs on: entry and scanned size of every target, the replacement's address -/
structure Layout where
  org : Nat → Addr
  fsz : Nat → Nat
  to : Addr

inductive HOp where
  | patch (i : Nat)       -- patch.Patch / patch.Ptr on target i
  | apply (i : Nat)       -- guard.Apply
  | unpatch (i : Nat)     -- guard.UnpatchWithLock
  | restore (i : Nat)     -- guard.Restore
  | unpatchFn (i : Nat)   -- patch.Unpatch(fn) = unpatchValue
  | unpatchAll            -- patch.UnpatchAll
  | unmap (p : Addr)      -- the environment unmaps page p (unloaded code)
  deriving Repr

inductive HRes where
  | ok
  | noop                  -- nothing to do (no guard / not applied / not registered)
  | refused (why : String)
  | panic                 -- a write did not return
  deriving Repr, DecidableEq

def setSlot (f : Nat → Option Guard) (i : Nat) (g : Option Guard) : Nat → Option Guard :=
  fun j => if j = i then g else f j

/-- guard.go:36 `Unpatch` / :52 `Restore` body: write `bytes` at the origin when the guard is applied -/
def guardWrite (g : Guard) (bytes : List Byte) (s : State) : State × HRes :=
  if g.applied then
    let (s1, o) := writeTo g.origin bytes s
    (s1, if o.returned then .ok else .panic)
  else (s, .noop)

/-- monkey.go:150 `unpatchValue` body for a registered entry -/
def unpatchEntry (h : HState) (e : Nat × Bool) : State × HRes :=
  match e.2, h.slots e.1 with
  | true, some g => guardWrite g g.originBytes h.m
  | _, _ => (h.m, .noop)

/-- monkey.go:141 `UnpatchAll`: entries in order; an entry is deleted after its restore returned -/
def unpatchAllFrom (h : HState) : List (Nat × Bool) → HState × HRes
  | [] => ({ h with table := [] }, .ok)
  | e :: rest =>
    match unpatchEntry h e with
    | (s1, .panic) => ({ h with m := s1, table := e :: rest }, .panic)
    | (s1, _) => unpatchAllFrom { h with m := s1 } rest

/-- patch.go:106-108: a registered patch of the same target is removed first -/
def prePatch (h : HState) (i : Nat) : State × HRes :=
  match h.table.find? (fun e => e.1 = i) with
  | some e => unpatchEntry h e
  | none => (h.m, .noop)

/-- patch.go:109-127 from memory state `s1`: register, size test, already-patched test, save the original bytes -/
def patchAfter (L : Layout) (h : HState) (i : Nat) (s1 : State) : HState × HRes :=
  let dead : HState := { h with m := s1, table := (h.table.filter (fun e => e.1 ≠ i)) ++ [(i, false)] }   -- :109
  match genJumpData (L.org i) L.to (L.fsz i) with                                                          -- :112
  | .error e => (dead, .refused e)
  | .ok jd =>
    let ob := readBytes s1 (L.org i) jd.length                                                             -- :123
    if ob.head? = some Gen.Amd64.nopOpcode then (dead, .refused "already-patched")                         -- jumpdata.go:68
    else
      ({ m := s1, slots := setSlot h.slots i (some ⟨L.org i, ob, jd, false⟩),
         table := (h.table.filter (fun e => e.1 ≠ i)) ++ [(i, true)] }, .ok)

def hstep (L : Layout) (h : HState) : HOp → HState × HRes
  | .patch i =>
    let r := prePatch h i
    if r.2 = .panic then ({ h with m := r.1 }, .panic) else patchAfter L h i r.1
  | .apply i =>
    match h.slots i with
    | none => (h, .noop)
    | some g =>
      let g' := { g with applied := true }                                   -- guard.go:26
      let (s1, o) := writeTo g.origin g.jumpBytes h.m                        -- :28
      ({ h with m := s1, slots := setSlot h.slots i (some g') }, if o.returned then .ok else .panic)
  | .unpatch i =>
    match h.slots i with
    | none => (h, .noop)
    | some g => let (s1, r) := guardWrite g g.originBytes h.m; ({ h with m := s1 }, r)
  | .restore i =>
    match h.slots i with
    | none => (h, .noop)
    | some g => let (s1, r) := guardWrite g g.jumpBytes h.m; ({ h with m := s1 }, r)
  | .unpatchFn i =>
    match h.table.find? (fun e => e.1 = i) with
    | none => (h, .noop)
    | some e =>
      match unpatchEntry h e with
      | (s1, .panic) => ({ h with m := s1 }, .panic)
      | (s1, _) => ({ h with m := s1, table := h.table.filter (fun e => e.1 ≠ i) }, .ok)
  | .unpatchAll => unpatchAllFrom h h.table
  | .unmap p => ({ h with m := { h.m with perm := fun q => if q = p then none else h.m.perm q } }, .ok)

/-- run a whole history (operations after a panic still run: the probe recovers and goes on) -/
def hrun (L : Layout) : HState → List HOp → HState
  | h, [] => h
  | h, op :: rest => hrun L (hstep L h op).1 rest

end Mem
