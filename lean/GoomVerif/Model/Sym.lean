/-!
# Model of goom's symbol lookup (`internal/unexports2`)

Transcribes, for linux/ELF:

* `symbols_elf.go:30 osReadSymbols` — what is taken from the executable file and every way it fails;
* `symbols.go:13 loadSymbolTable`, `subvert.go:46 GetSymbolTable` — the once-only load with its cached error;
* `symbols.go:54 getFunctionSymbolByName` (→ `gosym.(*Table).LookupFunc`: first `Funcs[i].Name == name`),
  `symbols.go:67 getVarSymbolByName` / `:81 lookupSym` (first `Syms[i].Name == name`);
* `unexports2.go:22 initAlignmentFunc` — the two slides `funcAlignment`, `varAlignment`, computed once from one
  anchor function and one anchor variable as `memory address − table address` in `uintptr` (mod 2^64) arithmetic;
* `unexports2.go:43 FindFuncByName`, `:56 FindVarByName`, `subvert.go:37 ExposeFunction`.

Names are an arbitrary type with decidable equality (the driver instantiates `String`): the code compares whole
strings with `==`, nothing else is ever done with a name.  Addresses are `BitVec 64`.
-/
namespace Sym

abbrev Addr := BitVec 64

/-- What `osReadSymbols` extracts from the executable file. -/
structure File (N : Type) where
  /-- `os.Executable()` gave a path and `os.Open` of it succeeded (symbols_elf.go:14-25 `osReadSymbolsFromExeFile`);
      false: the process' own executable file is gone / not accessible — the error is returned, nothing else is tried -/
  openOk : Bool := true
  /-- `elf.NewFile` succeeded (symbols_elf.go:31) -/
  elfOk : Bool
  /-- address of the first section called `.text` (symbols_elf.go:37), `none` = no such section -/
  text : Option Addr
  /-- `.gopclntab` (symbols_elf.go:44): `none` = no such section; `some none` = section data unreadable or
      `gosym.NewTable` failed (:49, :55); otherwise the function table in file order as
      (name, entry offset from the start of text) — pclntab ≥ go1.18 stores offsets and `gosym` adds the
      `textStart` it was given (here: the `.text` section address, :41,:54) -/
  pcln : Option (Option (List (N × Addr)))
  /-- `exe.Symbols()` (symbols_elf.go:61): `none` = no symbol table (stripped) or error; else (name, st_value,
      hasAddress) in file order.  `hasAddress` = the entry names a place in the loaded image: it is defined in a section
      (`st_shndx ≠ SHN_UNDEF`) and is not a file/section marker or a thread-local offset (`STT_FILE`, `STT_SECTION`,
      `STT_TLS`); for the others `st_value` is 0, a TLS offset, … — not an address of anything. -/
  symtab : Option (List (N × Addr × Bool))

inductive Err | open | elf | noText | noPcln | pclnData | noFunc | noVar
  deriving DecidableEq, Repr

/-- `gosym.Table` as goom fills it: `Funcs` from the pclntab, `Syms` from the ELF symbol table. -/
structure Table (N : Type) where
  funcs : List (N × Addr)
  syms : List (N × Addr)

/-- the `gosym.Sym` list goom builds from the ELF symbols (symbols_elf.go:72): name and value of every entry that has
    an address -/
def addrSyms {N : Type} (ss : List (N × Addr × Bool)) : List (N × Addr) :=
  ss.filterMap (fun e => if e.2.2 then some (e.1, e.2.1) else none)

/-- symbols_elf.go:30 `osReadSymbols` -/
def load {N : Type} (f : File N) : Except Err (Table N) :=
  if !f.openOk then .error .open else        -- symbols_elf.go:16,22 return err
  if !f.elfOk then .error .elf else
  match f.text with
  | none => .error .noText
  | some textStart =>
    match f.pcln with
    | none => .error .noPcln
    | some none => .error .pclnData
    | some (some es) =>
      -- gosym funcTab.pc: `u += textStart` in uint64 arithmetic
      let funcs := es.map (fun e => (e.1, textStart + e.2))
      match f.symtab with
      | none => .ok ⟨funcs, []⟩          -- :62-66 "查找失败, 返回已有的symTable"
      | some ss => .ok ⟨funcs, addrSyms ss⟩       -- :72-80, entries without an address are left out

/-- `for i := range t { if t[i].Name == name { return &t[i] } }; return nil`
    (gosym `LookupFunc`, symbols.go:81 `lookupSym`) -/
def lookup {N : Type} [DecidableEq N] : List (N × Addr) → N → Option Addr
  | [], _ => none
  | e :: rest, n => if e.1 = n then some e.2 else lookup rest n

/-- The process: the file it was started from, and where the loader put the two anchors. -/
structure Env (N : Type) where
  file : File N
  /-- name of the anchor function (`…/internal/unexports2.FindFuncByName`) and of the anchor variable (`….stubVar`) -/
  anchorF : N
  anchorV : N
  /-- `reflect.ValueOf(FindFuncByName).Pointer()` and `&stubVar` in the running process -/
  memF : Addr
  memV : Addr

/-- Package variables: `symTable`/`symTableLoadError` (symbols.go:8), `initAlignment` (unexports2.go:19),
    `funcAlignment`, `varAlignment` (unexports2.go:13). -/
structure St (N : Type) where
  tab : Option (Except Err (Table N)) := none
  once : Bool := false
  fAlign : Addr := 0
  vAlign : Addr := 0

/-- subvert.go:46 `GetSymbolTable`: load on first use, afterwards the cached table or the cached error. -/
def table {N : Type} (env : Env N) (s : St N) : Except Err (Table N) :=
  match s.tab with
  | some r => r
  | none => load env.file

/-- the package state after a `GetSymbolTable` call -/
def touch {N : Type} (env : Env N) (s : St N) : St N := { s with tab := some (table env s) }

/-- symbols.go:54 `getFunctionSymbolByName` on the outcome `r` of `GetSymbolTable()` (result: `fn.Entry`) -/
def funcIn {N : Type} [DecidableEq N] (r : Except Err (Table N)) (n : N) : Except Err Addr :=
  match r with
  | .error e => .error e                       -- :56 return
  | .ok t => match lookup t.funcs n with       -- :60 table.LookupFunc(name)
    | none => .error .noFunc                   -- :62
    | some a => .ok a

/-- symbols.go:67 `getVarSymbolByName` on the outcome `r` of `GetSymbolTable()` (result: `sym.Value`) -/
def varIn {N : Type} [DecidableEq N] (r : Except Err (Table N)) (n : N) : Except Err Addr :=
  match r with
  | .error e => .error e
  | .ok t => match lookup t.syms n with        -- :73 lookupSym(table, name)
    | none => .error .noVar                    -- :75
    | some a => .ok a

def funcSym {N : Type} [DecidableEq N] (env : Env N) (s : St N) (n : N) : Except Err Addr := funcIn (table env s) n

def varSym {N : Type} [DecidableEq N] (env : Env N) (s : St N) (n : N) : Except Err Addr := varIn (table env s) n

/-- unexports2.go:19,22 `initAlignment.Do(initAlignmentFunc)` -/
def initAlign {N : Type} [DecidableEq N] (env : Env N) (s : St N) : St N :=
  if s.once then s else
  let s1 : St N := { touch env s with once := true }
  match funcSym env s env.anchorF with
  | .error _ => s1                                             -- :24 return
  | .ok fa =>
    let s2 : St N := { s1 with fAlign := env.memF - fa }       -- :27-29
    match varSym env s env.anchorV with
    | .error _ => s2                                           -- :32 return
    | .ok va => { s2 with vAlign := env.memV - va }            -- :34-36

inductive Op (N : Type)
  | findFunc (n : N)   -- unexports2.go:43
  | findVar (n : N)    -- unexports2.go:56
  | expose (n : N)     -- subvert.go:37
  | allFuncs           -- subvert.go:57 AllFunctions

inductive Res
  | ok (a : Addr)
  | err (e : Err)
  /-- `AllFunctions`: a freshly built set; `k` = how many names it holds -/
  | set (k : Nat)
  deriving DecidableEq, Repr

def resOf (r : Except Err Addr) (align : Addr) : Res :=
  match r with
  | .ok a => .ok (a + align)       -- `uintptr(fn.Entry) + funcAlignment`
  | .error e => .err e

/-- subvert.go:57 `AllFunctions`: `GetSymbolTable()`, then a NEW map with one key per function name is built and
    returned (:64 `functions = make(map[string]bool)`).  Nothing of it is kept by the package, so whatever the caller
    does to the returned map afterwards (delete, clear, insert) is outside the package state by construction; the model
    returns the size of the set.  It does not run `initAlignment`. -/
def allFuncsIn {N : Type} [DecidableEq N] (r : Except Err (Table N)) : Res :=
  match r with
  | .error e => .err e
  | .ok t => .set (t.funcs.map Prod.fst).eraseDups.length

def step {N : Type} [DecidableEq N] (env : Env N) (s : St N) : Op N → St N × Res
  | .findFunc n => let s1 := initAlign env s; (touch env s1, resOf (funcSym env s1 n) s1.fAlign)
  | .findVar n => let s1 := initAlign env s; (touch env s1, resOf (varSym env s1 n) s1.vAlign)
  | .expose n => let s1 := initAlign env s; (touch env s1, resOf (funcSym env s1 n) s1.fAlign)
  | .allFuncs => (touch env s, allFuncsIn (table env s))

/-- a whole history from a given package state: final state and the result of every call, in order -/
def run {N : Type} [DecidableEq N] (env : Env N) : St N → List (Op N) → St N × List Res
  | s, [] => (s, [])
  | s, op :: ops =>
    let r := step env s op
    let rest := run env r.1 ops
    (rest.1, r.2 :: rest.2)

/-- Concurrent callers, at the granularity of whole calls.  `runSched` executes one complete `step` per scheduler tick:
    atomicity of a call is built into this definition, it is NOT derived.  What justifies it for the lookups is
    `sync.Once`: exactly one caller runs `initAlignmentFunc`, every other lookup blocks in `Do` until it has finished,
    and afterwards lookups only read the table and the two alignments.  `AllFunctions` is the exception in the code
    (subvert.go:46 `GetSymbolTable` is an unsynchronised check-then-store of two package variables, reachable without the
    `Once`): two racing first loads both build an equal table from the same file and store it, which the model's
    single `touch` stands for; the Go memory model does not bless that race, the check's concurrent lanes observe it
    (AllFunctions among the racing first calls).  `threads` holds the remaining calls of each goroutine, `sched` names
    the goroutine whose next call happens next; the result pairs every executed call with its result (an id with
    nothing left to do is skipped). -/
def runSched {N : Type} [DecidableEq N] (env : Env N) : St N → List (List (Op N)) → List Nat → List (Op N × Res)
  | _, _, [] => []
  | s, threads, t :: sched =>
    match threads[t]? with
    | some (op :: rest) =>
      let r := step env s op
      (op, r.2) :: runSched env r.1 (threads.set t rest) sched
    | _ => runSched env s threads sched

/-- the result of `op` when it is called after the history `pre` in a fresh process -/
def resAfter {N : Type} [DecidableEq N] (env : Env N) (pre : List (Op N)) (op : Op N) : Res :=
  (step env (run env {} pre).1 op).2

end Sym
