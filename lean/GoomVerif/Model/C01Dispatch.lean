import GoomVerif.Gen.JmpAmd64
import GoomVerif.Model.X86Mini
/-!
# Model for C01 — patch table, guards, heap of func values, call dispatch

Transcription of `internal/patch/patch.go` (`replaceFunc`, `Guard()`), `internal/patch/guard.go`
(`Apply`, `Unpatch`, `Restore`), `internal/patch/monkey.go` (`unpatchValue`, `UnpatchAll`),
`internal/patch/jumpdata.go` (`genJumpData`, `checkAndReadOriginBytes`), `internal/bytecode/func.go`
(`GetPtr`) and of the mocker layer that drives them (`mocker.go` `applyByFunc`, `whens`, `callback`,
`Cancel`; `builder.go` `Func`, `Reset`; `guard.go` `patchMockGuard`).

The text image keeps, per function `f`, the 13-byte window at its entry (`RawRead(origin, len(jumpData))`);
`WriteTo(origin, bs)` replaces that window.  The emitted bytes are those of the *regenerated*
`Gen.Amd64.jmpToFunctionValue`.  The heap holds the closure objects (Go "func values": first word = code
pointer); the garbage collector is modelled as the worst collector permitted: a `gc keep` step frees
every object that is neither referenced from the global `patches` map nor in the arbitrary external root
set `keep`.  Addresses embedded in machine code are *not* roots.
-/
namespace C01M

abbrev Bytes := List (BitVec 8)
abbrev Addr := BitVec 64

/-- what a closure object does when entered (captured context) -/
inductive Ctx where
  | cb (k : Nat)          -- user callback number k (all callbacks may share one code pointer)
  | stub (b f : Nat)      -- reflect.MakeFunc closure bound to the mocker (b,f): runs `baseMocker.callback`
  deriving DecidableEq, Repr

/-- a func value on the heap: `code` is its first word, `ctx` the rest -/
structure Obj where
  code : Addr
  ctx : Ctx
  deriving DecidableEq, Repr

/-- reflect.Value as `bytecode.value` sees it (func.go:38): an ignored type word, then the data word -/
structure RValue where
  typ : Nat
  ptr : Addr
  flag : Nat

/-- bytecode/func.go:44 `GetPtr`: the data word -/
def getPtr (v : RValue) : Addr := v.ptr

/-- guard.go:13 `Guard` -/
structure Guard where
  origin : Nat
  originBytes : Bytes
  jumpBytes : Bytes
  applied : Bool

/-- patch.go:31 `patch` (fields the property depends on): `repl` is the pointer held by
    `replacement interface{}` / `replacementValue`, which is what keeps the func value reachable. -/
structure Patch where
  repl : Addr
  guard : Option Nat

/-- the program: entry address, pristine entry bytes and size of each of its `nf` functions -/
structure Env where
  nf : Nat
  entry : Nat → Addr
  pristine : Nat → Bytes
  funcSize : Nat → Nat

structure PState where
  text : Nat → Bytes
  patches : Nat → Option Patch           -- patch.go:16 global `patches` (keyed by origin)
  guards : Nat → Option Guard            -- every Guard object ever handed out
  nguards : Nat
  heap : Addr → Option Obj               -- live func values

def init (E : Env) : PState :=
  { text := E.pristine, patches := fun _ => none, guards := fun _ => none, nguards := 0, heap := fun _ => none }

def upd {α : Type} (m : Nat → α) (k : Nat) (v : α) : Nat → α := fun x => if x = k then v else m x

/-- the 13 bytes goom writes (monkey_amd64.go:9, regenerated) -/
def jmp (E : Env) (f : Nat) (to : Addr) : Bytes := Gen.Amd64.jmpToFunctionValue (E.entry f) to

/-- guard.go:36 `Guard.Unpatch`: restore the original bytes if the guard was applied -/
def unpatchG (s : PState) (g : Nat) : PState :=
  match s.guards g with
  | some gd => if gd.applied then { s with text := upd s.text gd.origin gd.originBytes } else s
  | none => s

/-- monkey.go:150 `unpatchValue`: `p.unpatch()` (bytes first), then `delete(patches, origin)`.
    A patch whose `replaceFunc` failed has no bytes; its lazily created guard is never applied. -/
def unpatchFn (s : PState) (f : Nat) : PState :=
  match s.patches f with
  | none => s
  | some p =>
    let s1 := match p.guard with
      | some g => unpatchG s g
      | none => s
    { s1 with patches := upd s1.patches f none }

inductive Outcome where
  | ok (g : Nat) | errSize | errAlreadyPatched | illFormed
  deriving DecidableEq, Repr

/-- a caller can only pass a func value that exists: the allocator never returns a live address for a
    different object, and the function must be one of the program's (environment assumption, not goom code) -/
def wellFormedReplace (E : Env) (s : PState) (f : Nat) (v : RValue) (o : Obj) : Bool :=
  decide (f < E.nf) && (match s.heap (getPtr v) with | none => true | some o' => decide (o' = o))

/-- patch.go:102 `replaceFunc` (after `unsafePatchValue`); returns the new state and the outcome -/
def replace (E : Env) (s : PState) (f : Nat) (v : RValue) (o : Obj) : PState × Outcome :=
  if wellFormedReplace E s f v o then
    let s0 := { s with heap := fun a => if a = getPtr v then some o else s.heap a }   -- the caller's func value exists
    -- patch.go:106  if _, ok := patches[p.originPtr]; ok { unpatchValue(p.originPtr) }
    let s1 := unpatchFn s0 f
    -- patch.go:109  patches[p.originPtr] = p      (registered BEFORE anything is written)
    -- patch.go:111  replacementInAddr := GetPtr(p.replacementValue)
    let to := getPtr v
    let s2 := { s1 with patches := upd s1.patches f (some { repl := to, guard := none }) }
    -- jumpdata.go:51,53  jumpData = jmpToFunctionValue(origin, replacementInAddr); if len(jumpData) >= funcSize → error
    let jb := jmp E f to
    if jb.length ≥ E.funcSize f then (s2, .errSize)
    else
      -- jumpdata.go:64 checkAndReadOriginBytes: RawRead(origin, len(jumpData)); checkAlreadyPatch → error
      let ob := s2.text f
      if Gen.Amd64.checkAlreadyPatch ob then (s2, .errAlreadyPatched)
      else
        -- patch.go:147 Guard(): a fresh, unapplied guard carrying both byte strings
        let g := s2.nguards
        ({ s2 with guards := upd s2.guards g (some { origin := f, originBytes := ob, jumpBytes := jb, applied := false }),
                   nguards := g + 1,
                   patches := upd s2.patches f (some { repl := to, guard := some g }) }, .ok g)
  else (s, .illFormed)

/-- guard.go:22 `Guard.Apply` -/
def applyG (s : PState) (g : Nat) : PState :=
  match s.guards g with
  | some gd => { s with guards := upd s.guards g (some { gd with applied := true }),
                        text := upd s.text gd.origin gd.jumpBytes }
  | none => s

/-- guard.go:53 `Guard.Restore` -/
def restoreG (s : PState) (g : Nat) : PState :=
  match s.guards g with
  | some gd => if gd.applied then { s with text := upd s.text gd.origin gd.jumpBytes } else s
  | none => s

/-- monkey.go:141 `UnpatchAll` over the program's functions -/
def unpatchAll (E : Env) (s : PState) : PState := (List.range E.nf).foldl unpatchFn s

/-- a func value is a GC root iff some registered patch holds it -/
def isRoot (E : Env) (s : PState) (a : Addr) : Bool :=
  (List.range E.nf).any (fun f => match s.patches f with | some p => decide (p.repl = a) | none => false)

/-- worst-case collection: everything not reachable from `patches` or the external roots `keep` is freed -/
def gc (E : Env) (s : PState) (keep : Addr → Bool) : PState :=
  { s with heap := fun a => if isRoot E s a || keep a then s.heap a else none }

inductive Op where
  | replace (f : Nat) (v : RValue) (o : Obj)
  | apply (g : Nat) | unpatch (g : Nat) | restore (g : Nat)
  | unpatchFn (f : Nat) | unpatchAll
  | gc (keep : Addr → Bool)

def step (E : Env) (s : PState) : Op → PState
  | .replace f v o => (replace E s f v o).1
  | .apply g => applyG s g
  | .unpatch g => unpatchG s g
  | .restore g => restoreG s g
  | .unpatchFn f => unpatchFn s f
  | .unpatchAll => unpatchAll E s
  | .gc keep => gc E s keep

/-- `Guard.Apply`/`Restore` are only ever invoked on the guard that is registered for its origin
    (mocker.go:84-85, 96-97, 109-110: `newPatchMockGuard(guard); m.guard.Apply()` directly after `proxy.*`;
    `Restore` has no caller) -/
def wellUsed (s : PState) : Op → Prop
  | .apply g | .restore g => ∃ f p, s.patches f = some p ∧ p.guard = some g
  | _ => True

/-! ## calls -/

inductive Beh where
  | orig                              -- the unmodified body runs
  | enter (o : Obj) (rdx : Addr)      -- Go closure call of object `o`: RIP = o.code, RDX = address of `o`
  | wild                              -- control reaches something that is not a live func value
  deriving DecidableEq, Repr

def junk : Addr := 0xdeadbeefdeadbeef#64

def memOf (heap : Addr → Option Obj) : Addr → Addr := fun a =>
  match heap a with
  | some o => o.code
  | none => junk

/-- a call of `f`: the CPU executes the bytes at the entry.  Pristine bytes are the original body; anything
    else is run by the mini ISA (`X86.exec`), and the landing point is looked up in the heap. -/
def call (E : Env) (s : PState) (f : Nat) : Beh :=
  if s.text f = E.pristine f then .orig
  else
    match X86.exec (s.text f) { rip := E.entry f, rdx := 0#64, mem64 := memOf s.heap } with
    | some m =>
      match s.heap m.rdx with
      | some o => if m.rip = o.code then .enter o m.rdx else .wild
      | none => .wild
    | none => .wild

/-! ## mocker layer (mocker.go / builder.go / guard.go of the root package) -/

abbrev Toks := List String

/-- mocker.go:57 `baseMocker` of the `DefMocker`/`MethodMocker` cached under builder `b` for function `f`.
    `whenRes`/`conds` are the mocker's `When` (nil ⇔ `whenRes = none`): the results handed to its default rule so far,
    and its conditional rules in the order they were added (argument tokens ↦ result).  Which element of a result
    *sequence* a call receives is C05; which rule wins among overlapping expression rules is C04.  C01 needs:
    exact-value rules are judged on the argument values of *this* call, first match wins, else the default. -/
structure Mocker where
  imp : Option Addr
  whenRes : Option (List Toks)
  conds : List (Toks × Toks)
  guard : Option Nat
  canceled : Bool

structure AState where
  p : PState
  mockers : Nat → Nat → Option Mocker     -- builder → function → cached mocker (builder.go `Func` / cache.go `Method`)

def ainit (E : Env) : AState := { p := init E, mockers := fun _ _ => none }

inductive AOp where
  /-- `h.Apply(cb)`; `kept = false`: `h` is fetched from the builder now (`b.Func(f)`), `kept = true`: `h` is a handle the
      test kept from an earlier fetch (possibly across `Reset`) -/
  | applyCb (b f : Nat) (kept : Bool) (v : RValue) (k : Nat) (code : Addr)
  /-- `h.Return(res...)`; `v` = where `reflect.MakeFunc` allocates if a stub is built -/
  | ret (b f : Nat) (kept : Bool) (v : RValue) (code : Addr) (res : Toks)
  /-- `h.When(cond...).Return(res...)` -/
  | whenRet (b f : Nat) (kept : Bool) (v : RValue) (code : Addr) (cond res : Toks)
  | reset (b : Nat)                                            -- b.Reset()
  | gc (keep : Addr → Bool)
  | other (op : Op)                                            -- a well-used low-level step by someone else

def setM (s : AState) (b f : Nat) (m : Mocker) : AState :=
  { s with mockers := fun b' f' => if b' = b ∧ f' = f then some m else s.mockers b' f' }

def freshM : Mocker := { imp := none, whenRes := none, conds := [], guard := none, canceled := false }

/-- builder.go `Func` (cache.go `Method`): the cached mocker unless it was canceled — a kept handle is used as it is -/
def getM (s : AState) (b f : Nat) (kept : Bool) : Mocker :=
  match s.mockers b f with
  | some m => if m.canceled && !kept then freshM else m
  | none => freshM

/-- mocker.go `applyByFunc`/`applyByMethod`: `proxy.Func` → `patch.Trampoline` → `replaceFunc`; on error panic (mocker
    unchanged); else `m.guard = guard; m.guard.Apply(); m.imp = callback; m.canceled = false`.
    `clearWhen`: `DefMocker.Apply`/`MethodMocker.Apply` set `m.when = nil` after a successful `doApply`
    ("Apply discards the When", so a later Return/When is built and installed afresh). -/
def doApply (E : Env) (s : AState) (b f : Nat) (m : Mocker) (clearWhen : Bool) (v : RValue) (o : Obj) : AState × Outcome :=
  match replace E s.p f v o with
  | (p1, .ok g) =>
    (setM { s with p := applyG p1 g } b f
      { m with guard := some g, imp := some (getPtr v), canceled := false,
               whenRes := if clearWhen then none else m.whenRes, conds := if clearWhen then [] else m.conds }, .ok g)
  | (p1, out) => (setM { s with p := p1 } b f m, out)

/-- mocker.go `Cancel`: `guard.Cancel()` = `UnpatchWithLock`; `when = nil`; `canceled = true` -/
def cancelM (s : AState) (b f : Nat) : AState :=
  match s.mockers b f with
  | some m =>
    let p1 := match m.guard with
      | some g => unpatchG s.p g
      | none => s.p
    setM { s with p := p1 } b f { m with whenRes := none, conds := [], canceled := true }
  | none => s

def astepO (E : Env) (s : AState) : AOp → AState × Outcome
  | .applyCb b f kept v k code => doApply E s b f (getM s b f kept) true v { code := code, ctx := .cb k }
  | .ret b f kept v code res =>
    let m := getM s b f kept
    match m.whenRes with
    | some rs => (setM s b f { m with whenRes := some (rs ++ [res]) }, .ok 0)   -- `m.when.Return(value...)`: one more result, nothing re-applied
    | none =>
      -- mocker.go `whens`: m.imp = reflect.MakeFunc(when.funcTyp, m.callback); m.when = when ; then doApply(m.imp)
      doApply E s b f { m with whenRes := some [res], conds := [] } false v { code := code, ctx := .stub b f }
  | .whenRet b f kept v code cond res =>
    let m := getM s b f kept
    match m.whenRes with
    | some _ => (setM s b f { m with conds := m.conds ++ [(cond, res)] }, .ok 0)   -- `m.when.When(cond...).Return(res...)`: one more rule
    | none =>
      doApply E s b f { m with whenRes := some [], conds := [(cond, res)] } false v { code := code, ctx := .stub b f }
  | .reset b => ((List.range E.nf).foldl (fun s f => cancelM s b f) s, .ok 0)
  | .gc keep => ({ s with p := gc E s.p keep }, .ok 0)
  | .other op => ({ s with p := step E s.p op }, .ok 0)

def astep (E : Env) (s : AState) (op : AOp) : AState := (astepO E s op).1

def awellUsed (s : AState) : AOp → Prop
  | .other op => wellUsed s.p op
  | _ => True

/-- what a caller observes -/
inductive Seen where
  | orig | cb (k : Nat) | stubRet (res : List Toks) | stubOrig | stubPanic | crash
  deriving DecidableEq, Repr

/-- when.go `invoke`: the first rule whose condition equals the arguments of this call, else the default -/
def whenInvoke (conds : List (Toks × Toks)) (dflt : List Toks) (args : Toks) : Seen :=
  match conds.find? (fun c => c.1 == args) with
  | some c => .stubRet [c.2]
  | none => if dflt.isEmpty then .stubPanic else .stubRet dflt

/-- mocker.go `callback` of the mocker the stub is bound to, read at call time with the arguments of the call -/
def callbackOf (s : AState) (b f : Nat) (args : Toks) : Seen :=
  match s.mockers b f with
  | some m =>
    if m.canceled then .stubOrig
    else match m.whenRes with
      | some r => whenInvoke m.conds r args
      | none => .stubPanic
  | none => .stubPanic

def see (E : Env) (s : AState) (f : Nat) (args : Toks) : Seen :=
  match call E s.p f with
  | .orig => .orig
  | .enter o _ => (match o.ctx with
    | .cb k => .cb k
    | .stub b f' => callbackOf s b f' args)
  | .wild => .crash

end C01M
