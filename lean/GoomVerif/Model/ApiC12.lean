/-! # Model of goom's builder / cache / mocker layer as far as it decides *which instruction is in force*
(property C12).  Executable, core Lean only.

Transcribed from `builder.go`, `cache.go`, `mocker.go`, `iface.go`, `when.go`, `matcher.go`, `guard.go`
(`internal/patch/guard.go`, `internal/iface/make_interface.go` for what Cancel does).

Universe (the one the C12 probe `harness/c12/probe_test.go` drives on the real code):
* one builder; two packages `p0` (the caller's own) and `p1`;
* targets: functions `fA fB` (looked up with `Builder.Func`), methods `(*T).M1 M2` (`Builder.Struct(..).Method`),
  method `M` of one interface variable (`Builder.Interface(..).Method`), unexported functions `X Y` of both packages
  (`Builder.ExportFunc`, package taken from `Builder.pkgName`), plus the non-existent name `Z` (error lane), method `um`
  of the unexported struct `*U` of both packages (`Builder.ExportStruct("*U").Method("um")`, package from `pkgName`),
  two int variables (`Builder.Var(&v)`, `Builder.UnExportedVar(path)`; `Set(k)` is written `apply k`, the variable
  "behaves" `cb k` while it holds k);
* a third package `pq` (helper): builders may be created there and `Func(fA)` may be issued from there, so that the
  caller's package of `New()` / of a lookup differs from `p0`; it owns none of the unexported names;
* a second interface variable with TWO methods `A`, `B` (`Builder.Interface(&v2).Method(..)`): its fake itab has one slot
  per method; what is recorded is the slot content per method (`inst (.i2 j)`), the variable holds the fake iff some
  slot is set (then an unset slot panics `notImplement`), and Cancel through either method restores the whole variable;
* handles may be kept in registers and used later (`keep r hd`, `on r ins`), also after their mocker was cancelled or
  replaced in the builder's cache — interface-method handles included: a cancelled interface mocker that is applied
  again is live again while its context stays cancelled (each apply then builds a fresh fake; Cancel restores once per
  mocking round, internal/iface IContext.restored).  NOT modelled: the context's backup VALUE — it is taken to be the
  original, which is wrong exactly when a new context is created while the variable holds the fake of a revived handle
  (known finding `iface-revived-handle-replaced`; the check compares such histories only up to that point) — and the
  variable mockers' saved origin (the probe never keeps variable handles; since a4f2fe2 `Var`/`UnExportedVar` return
  the cached mocker even when cancelled, modelled as a fresh one: indistinguishable without kept variable handles
  because a cancelled variable mocker carries no state);
* the builder's `map[interface{}]Mocker` is specialised to the keys that can occur: function name (`fnC`),
  `exportKey{"func", pkgName, name}` (`xfC`), `exportKey{"struct", pkgName, "*U"}` (`xsC`, value =
  `CachedUnexportedMethodMocker.mockers["um"]`), the `reflect.Type` of `*T` (`stC`, value = `CachedMethodMocker.mCache`), the type string of
  the interface pointer (`ifC`, value = `CachedInterfaceMocker{ctx, mockers}`), `"var_<addr>"` (`varC`).
-/
namespace C12M

/-- update of a total map -/
def upd {α β : Type} [DecidableEq α] (f : α → β) (i : α) (v : β) : α → β := fun j => if j = i then v else f j

@[simp] theorem upd_same {α β : Type} [DecidableEq α] (f : α → β) (i : α) (v : β) : upd f i v i = v := by simp [upd]
theorem upd_other {α β : Type} [DecidableEq α] (f : α → β) (i j : α) (v : β) (h : j ≠ i) : upd f i v j = f j := by simp [upd, h]

/-- `p0` = the package the histories are issued from, `p1` = the other package with the same unexported names,
    `pq` = the helper package (creates builders / issues lookups on behalf of `p0`; owns none of the names) -/
inductive Pkg | p0 | p1 | pq
  deriving DecidableEq, Repr

/-- names handed to `ExportFunc`; `z` exists in no package -/
inductive XName | x | y | z
  deriving DecidableEq, Repr

inductive Tgt
  | fn (i : Bool) | st (i : Bool) | im | xf (p : Pkg) (n : XName) | xs (p : Pkg)
  | i2 (j : Bool)          -- methods A (`false`) and B (`true`) of the second, two-method interface variable
  | vr (i : Bool)          -- variables: `false` mocked with `Builder.Var(&v)`, `true` with `Builder.UnExportedVar(path)`
  deriving DecidableEq, Repr

/-! ## When (when.go, matcher.go) reduced to int arguments / int results -/

/-- `BaseMatcher{results, curNum}` plus the condition: `none` = AlwaysMatcher, `some a` = DefaultMatcher on `arg == a` -/
structure Matcher where
  cond : Option Nat
  results : List Nat
  cur : Nat
  deriving DecidableEq, Repr

/-- `When{matches, defaultReturns, curMatch}`; matchers are objects (they are aliased by the Go code), `heap` holds them -/
structure When where
  heap : List Matcher
  ms : List Nat
  dflt : Option Nat
  cur : Option Nat
  deriving DecidableEq, Repr

/-- stub instructions given through a mocker: `Return(v)`, `When(a)`, `When(a).Return(v)`, `Returns(vs…)` -/
inductive Stub | ret (v : Nat) | when_ (a : Nat) | whenRet (a v : Nat) | rets (vs : List Nat)
  deriving DecidableEq, Repr

/-- what a call can yield: original ran, callback k ran, stub value, "no suitable condition" panic, index panic,
    "method not implements" panic -/
inductive Res | o | k (i : Nat) | v (n : Nat) | p | idx | n
  deriving DecidableEq, Repr

namespace When

def addResult (w : When) (i : Nat) (v : Nat) : When :=          -- matcher.go:56 AddResult
  { w with heap := w.heap.modify i (fun m => { m with results := m.results ++ [v] }) }

def newMatcher (w : When) (c : Option Nat) (rs : List Nat) : When × Nat :=
  ({ w with heap := w.heap ++ [⟨c, rs, 0⟩] }, w.heap.length)

/-- when.go:107 `When.When` -/
def when_ (w : When) (a : Nat) : When :=
  let (w1, i) := w.newMatcher (some a) []
  { w1 with cur := some i }

/-- when.go:134 `When.Return` -/
def ret (w : When) (v : Nat) : When :=
  match w.cur with
  | some i => let w1 := w.addResult i v; { w1 with ms := w1.ms ++ [i] }
  | none =>
    match w.dflt with
    | none => let (w1, i) := w.newMatcher none [v]; { w1 with dflt := some i }
    | some d => w.addResult d v

/-- when.go:150 `When.AndReturn` -/
def andRet (w : When) (v : Nat) : When :=
  match w.cur with
  | none => w.ret v
  | some i => w.addResult i v

/-- when.go:183 `When.Returns` -/
def rets (w : When) : List Nat → When
  | [] => w
  | v :: vs => vs.foldl andRet (w.ret v)

/-- when.go:40 `CreateWhen(m, funcDef, args, defaultReturns, isMethod)` for a one-result function -/
def create (args : Option Nat) (dflt : Option Nat) : When :=
  let w0 : When := ⟨[], [], none, none⟩
  let w1 : When := match dflt with
    | some v => { w0 with heap := [⟨none, [v], 0⟩], dflt := some 0, cur := some 0 }   -- curMatch = defaultMatch = AlwaysMatcher
    | none => w0
  match args with
  | some a => w1.when_ a
  | none => w1

/-- a stub instruction on a mocker that has no `When` yet: mocker.go:517–572 (iface.go:108–172) after the `m.when != nil` test -/
def fresh : Stub → When
  | .ret v => create none (some v)
  | .when_ a => create (some a) none
  | .whenRet a v => (create (some a) none).ret v
  | .rets vs => (create none none).rets vs

/-- a stub instruction on a mocker that owns a `When`: forwarded to it -/
def step (w : When) : Stub → When
  | .ret v => w.ret v
  | .when_ a => w.when_ a
  | .whenRet a v => (w.when_ a).ret v
  | .rets vs => w.rets vs

/-- matcher.go:40 `BaseMatcher.Result` on matcher `i` -/
def result (w : When) (i : Nat) : When × Res :=
  match w.heap[i]? with
  | none => (w, .idx)
  | some m =>
    if m.results.length ≤ 1 then
      match m.results[m.cur]? with
      | some r => (w, .v r)
      | none => (w, .idx)
    else if m.cur ≥ m.results.length then
      (w, .v (m.results.getLast?.getD 0))
    else
      ({ w with heap := w.heap.modify i (fun m => { m with cur := m.cur + 1 }) }, .v (m.results[m.cur]?.getD 0))

def matchesArg (w : When) (a : Nat) (i : Nat) : Bool :=
  match w.heap[i]? with
  | some m => (match m.cond with | none => true | some c => c == a)
  | none => false

/-- when.go:204 `invoke` + :229 `returnDefaults` -/
def invoke (w : When) (a : Nat) : When × Res :=
  match w.ms.find? (w.matchesArg a) with
  | some i => w.result i
  | none =>
    match w.dflt with
    | none => (w, .p)
    | some d => w.result d

end When

/-! ## mockers, builder, patched state -/

/-- what is installed at a target: nothing, a user callback, or `reflect.MakeFunc(typ, m.callback)` of mocker `mid`
    (mocker.go:136 `whens`; the closure reads `m.when` at *call* time) -/
inductive Inst | orig | cb (k : Nat) | via (mid : Nat)
  deriving DecidableEq, Repr

/-- `baseMocker{guard, when, canceled}` + the target it resolves to + the interface context for interface mockers -/
structure Mocker where
  tgt : Tgt
  ctx : Option Nat := none
  when : Option When := none
  canceled : Bool := false
  guard : Bool := false
  deriving Repr

structure Builder where
  pkg : Pkg := .p0
  fnC : Bool → Option Nat := fun _ => none
  xfC : Pkg → XName → Option Nat := fun _ _ => none
  stC : Option (Bool → Option Nat) := none
  xsC : Pkg → Option (Option Nat) := fun _ => none
  ifC : Option (Nat × Option Nat) := none
  i2C : Option (Nat × (Bool → Option Nat)) := none   -- CachedInterfaceMocker{ctx, mockers["A"|"B"]} of the two-method variable
  vrC : Bool → Option Nat := fun _ => none           -- "var_<addr>" / "ue_var_<path>"

/-- the place where the code as first found differs from the repaired code (fix F7, 32dc3bc); kept so that
    Findings/C12F7.lean can state the counter-example about the code as found -/
structure Variant where
  applyClearsWhen : Bool

/-- the current code -/
def fixed : Variant := ⟨true⟩
/-- the code as first found -/
def asFound : Variant := ⟨false⟩

structure State where
  b : Builder := {}
  mks : Nat → Mocker := fun _ => { tgt := .im }
  next : Nat := 0
  ctxc : Nat → Bool := fun _ => false      -- `iface.IContext.p.canceled`
  nctx : Nat := 0
  inst : Tgt → Inst := fun _ => .orig
  /-- handles a test keeps in local variables (`keep r …`): register → mocker object -/
  regs : Nat → Option Nat := fun _ => none

def init : State := {}
/-- a builder created from package `p` (builder.go:49 New: `pkgName: currentPkg(2)`) -/
def initP (p : Pkg) : State := { b := { pkg := p } }

inductive Handle | fn (i : Bool) | st (i : Bool) | im | xf (n : XName) | xs | vr (i : Bool) | i2 (j : Bool)
  deriving DecidableEq, Repr

inductive Instr | look | apply (k : Nat) | stub (s : Stub) | cancel
  deriving DecidableEq, Repr

/-- `stBad`: `Struct(&T{}).Method("Mz")` with a method that does not exist; `xfEmpty`: `ExportFunc("")`;
    `qlook`: `Func(fA)` issued from the helper package; `h`: a lookup immediately followed by an instruction;
    `keep r hd`: a lookup whose result is kept in register `r`; `on r ins`: an instruction through the kept handle -/
inductive Op | pkg (p : Pkg) | reset | stBad | xfEmpty | qlook | h (hd : Handle) (ins : Instr)
  | keep (r : Nat) (hd : Handle) | on (r : Nat) (ins : Instr)
  deriving DecidableEq, Repr

inductive Err | methodNotFound | funcNameError | symbolNotFound | funcNameEmpty | notApplicable | emptyRegister
  deriving DecidableEq, Repr

/-- the target a handle denotes when the builder's package name is `p` -/
def tgtOf (p : Pkg) : Handle → Tgt
  | .fn i => .fn i | .st i => .st i | .im => .im | .xf n => .xf p n | .xs => .xs p | .vr i => .vr i | .i2 j => .i2 j

/-- raw content of the cache slot that belongs to target `t` -/
def slot (s : State) : Tgt → Option Nat
  | .fn i => s.b.fnC i
  | .xf p n => s.b.xfC p n
  | .st i => match s.b.stC with | some c => c i | none => none
  | .im => match s.b.ifC with | some (_, c) => c | none => none
  | .xs p => match s.b.xsC p with | some c => c | none => none
  | .vr i => s.b.vrC i
  | .i2 j => match s.b.i2C with | some (_, c) => c j | none => none

/-- cache hit test `ok && !mocker.Canceled()` -/
def liveOf (s : State) (c : Option Nat) : Option Nat :=
  match c with
  | some mid => if (s.mks mid).canceled then none else some mid
  | none => none

def live (s : State) (t : Tgt) : Option Nat := liveOf s (slot s t)

/-- allocate a mocker object -/
def alloc (s : State) (m : Mocker) : State × Nat :=
  ({ s with mks := upd s.mks s.next m, next := s.next + 1 }, s.next)

def setPkg (s : State) (p : Pkg) : State := { s with b := { s.b with pkg := p } }

/-- builder.go:203 `reset2CurPkg` (the probe calls from package p0) -/
def reset2CurPkg (s : State) : State := setPkg s .p0

/-- `CachedMethodMocker.mCache` of the cached struct mocker (empty when there is none yet) -/
def stInner (s : State) : Bool → Option Nat :=
  match s.b.stC with | some c => c | none => fun _ => none

/-- builder.go:85 `Struct`: the embedded MethodMocker of a CachedMethodMocker is never cancelled (cache.go:62 Cancel only
    walks the caches), so the key is a hit whenever it exists; else NewCachedMethodMocker (empty mCache) is cached. -/
def structLookup (s : State) : State :=
  reset2CurPkg { s with b := { s.b with stC := some (stInner s) } }

/-- `CachedUnexportedMethodMocker.mockers["um"]` of the cached mocker for `exportKey{"struct", p, "*U"}` (empty when none yet) -/
def xsInner (s : State) (p : Pkg) : Option Nat :=
  match s.b.xsC p with | some c => c | none => none

/-- builder.go `ExportStruct`: key `exportKey{"struct", b.pkgName, name}`; the embedded UnexportedMethodMocker of a
    CachedUnexportedMethodMocker is never cancelled (cache.go:107 Cancel only walks `mockers`), so the key is a hit whenever
    it exists; else NewCachedUnexportedMethodMocker(NewUnexportedMethodMocker(b.pkgName, ..)) is cached.  Both branches
    call reset2CurPkg. -/
def exportStructLookup (s : State) : State :=
  reset2CurPkg { s with b := { s.b with xsC := upd s.b.xsC s.b.pkg (some (xsInner s s.b.pkg)) } }

/-- builder.go:62 `Interface`: hit unless `Canceled()`, which is `ctx.Canceled()` (cache.go:158); else iface.NewContext()
    and NewCachedInterfaceMocker (empty mockers).  Returns the state, the context and the cached mocker's `mockers["M"]`. -/
def ifaceLookup (s : State) : State × Nat × Option Nat :=
  match s.b.ifC with
  | some (c, inner) =>
    if s.ctxc c then
      (reset2CurPkg { s with ctxc := upd s.ctxc s.nctx false, nctx := s.nctx + 1, b := { s.b with ifC := some (s.nctx, none) } }, s.nctx, none)
    else (reset2CurPkg s, c, inner)
  | none =>
    (reset2CurPkg { s with ctxc := upd s.ctxc s.nctx false, nctx := s.nctx + 1, b := { s.b with ifC := some (s.nctx, none) } }, s.nctx, none)

/-- the same for the two-method interface variable; the cached mocker's `mockers` map has an entry per method -/
def iface2Lookup (s : State) : State × Nat × (Bool → Option Nat) :=
  match s.b.i2C with
  | some (c, inner) =>
    if s.ctxc c then
      (reset2CurPkg { s with ctxc := upd s.ctxc s.nctx false, nctx := s.nctx + 1, b := { s.b with i2C := some (s.nctx, fun _ => none) } }, s.nctx, fun _ => none)
    else (reset2CurPkg s, c, inner)
  | none =>
    (reset2CurPkg { s with ctxc := upd s.ctxc s.nctx false, nctx := s.nctx + 1, b := { s.b with i2C := some (s.nctx, fun _ => none) } }, s.nctx, fun _ => none)

/-- the lookups.  Every branch ends in `reset2CurPkg` exactly where the source does. -/
def lookup (s : State) : Handle → State × Nat
  | .fn i =>                                                   -- builder.go:102 Func
    match liveOf s (s.b.fnC i) with
    | some mid => (reset2CurPkg s, mid)
    | none =>
      let (s1, mid) := alloc s { tgt := .fn i }                -- NewDefMocker
      (reset2CurPkg { s1 with b := { s1.b with fnC := upd s1.b.fnC i (some mid) } }, mid)
  | .xf n =>                                                   -- builder.go:144 ExportFunc: key b.pkgName+"_"+name
    let p := s.b.pkg
    match liveOf s (s.b.xfC p n) with
    | some mid => (reset2CurPkg s, mid)
    | none =>
      let (s1, mid) := alloc s { tgt := .xf p n }              -- NewUnexportedFuncMocker(b.pkgName, name)
      (reset2CurPkg { s1 with b := { s1.b with xfC := upd s1.b.xfC p (upd (s1.b.xfC p) n (some mid)) } }, mid)
  | .st i =>
    let s0 := structLookup s
    match liveOf s0 (stInner s i) with                         -- cache.go:42 Method
    | some mid => (s0, mid)
    | none =>
      let (s1, mid) := alloc s0 { tgt := .st i }               -- NewMethodMocker + Method(name)
      ({ s1 with b := { s1.b with stC := some (upd (stInner s) i (some mid)) } }, mid)
  | .vr i =>                                                   -- builder.go Var / UnExportedVar (both branches reset the package)
    match liveOf s (s.b.vrC i) with
    | some mid => (reset2CurPkg s, mid)
    | none =>
      let (s1, mid) := alloc s { tgt := .vr i }                -- NewVarMocker / NewUnExportedVarMocker
      (reset2CurPkg { s1 with b := { s1.b with vrC := upd s1.b.vrC i (some mid) } }, mid)
  | .xs =>
    let p := s.b.pkg
    let s0 := exportStructLookup s
    match liveOf s0 (xsInner s p) with                         -- cache.go:97 Method
    | some mid => (s0, mid)
    | none =>                                                  -- NewUnexportedMethodMocker(m.pkgName, structName) + Method(name):
      let (s1, mid) := alloc s0 { tgt := .xs p }               --   m.pkgName is the package of the key
      ({ s1 with b := { s1.b with xsC := upd s1.b.xsC p (some (some mid)) } }, mid)
  | .i2 j =>
    let (s0, c, inner) := iface2Lookup s
    match liveOf s0 (inner j) with                             -- cache.go:140 Method
    | some mid => (s0, mid)
    | none =>
      let (s1, mid) := alloc s0 { tgt := .i2 j, ctx := some c }
      ({ s1 with b := { s1.b with i2C := some (c, upd inner j (some mid)) } }, mid)
  | .im =>
    let (s0, c, inner) := ifaceLookup s
    match liveOf s0 inner with                                 -- cache.go:140 Method
    | some mid => (s0, mid)
    | none =>
      let (s1, mid) := alloc s0 { tgt := .im, ctx := some c }  -- NewDefaultInterfaceMocker(pkg, iFace, m.ctx) + Method(name)
      ({ s1 with b := { s1.b with ifC := some (c, some mid) } }, mid)

/-- names that resolve to nothing: `Z` anywhere, and every unexported name in the helper package -/
def isPhantom : Tgt → Bool
  | .xf _ .z => true
  | .xf .pq _ => true
  | .xs .pq => true
  | _ => false

def isI2 : Tgt → Bool
  | .i2 _ => true
  | _ => false

def isVar : Tgt → Bool
  | .vr _ => true
  | _ => false

def setM (s : State) (mid : Nat) (m : Mocker) : State := { s with mks := upd s.mks mid m }
def setInst (s : State) (t : Tgt) (i : Inst) : State := { s with inst := upd s.inst t i }

/-- `Apply(callback)`: mocker.go:239/493/372/445, iface.go:89.  Installs the callback (proxy.Func / Method / FuncName /
    Interface replace whatever is installed).  With fix F7 it also drops the mocker's `When`. -/
def applyCb (v : Variant) (s : State) (mid : Nat) (k : Nat) : State × Option Err :=
  let m := s.mks mid
  if isPhantom m.tgt then (s, some .funcNameError)             -- proxy.FuncName: symbol not found → panic, nothing changed
  else
    let m' := { m with guard := true, canceled := false,           -- applyBy*: `m.canceled = false` (50de3fa)
                       when := if v.applyClearsWhen then none else m.when }
    (setInst (setM s mid m') m.tgt (.cb k), none)

/-- `Return / When / When..Return / Returns` through the mocker: mocker.go:253–327, :517–572, iface.go:108–172 -/
def stubI (s : State) (mid : Nat) (st : Stub) : State × Option Err :=
  let m := s.mks mid
  if isPhantom m.tgt then (s, some .symbolNotFound)            -- As(): unexports2.FindFuncByName fails → panic
  else if isVar m.tgt then (s, some .notApplicable)            -- VarMock has no Return/When
  else
    match m.when with
    | some w => (setM s mid { m with when := some (w.step st) }, none)          -- `if m.when != nil { return m.when.Return(..) }`
    | none =>                                                                    -- CreateWhen; whens; doApply(m.imp)
      (setInst (setM s mid { m with when := some (When.fresh st), guard := true, canceled := false }) m.tgt (.via mid), none)

/-- mocker.go:156 `baseMocker.Cancel`; guard.go:38 (interface: `ctx.Cancel()` restores the variable and cancels the
    context), guard.go:57 (patch: `UnpatchWithLock` writes the original bytes back) -/
def cancelM (s : State) (mid : Nat) : State :=
  let m := s.mks mid
  let s1 : State :=
    if m.guard then
      match m.ctx with
      | some c =>                                                -- ctx.Cancel(): `*originIface = *originIfaceValue` restores the WHOLE variable
        if isI2 m.tgt then setInst (setInst { s with ctxc := upd s.ctxc c true } (.i2 false) .orig) (.i2 true) .orig
        else setInst { s with ctxc := upd s.ctxc c true } .im .orig
      | none => setInst s m.tgt .orig
    else s
  setM s1 mid { m with when := none, canceled := true }

def instr (v : Variant) (s : State) (mid : Nat) : Instr → State × Option Err
  | .look => (s, none)
  | .apply k => applyCb v s mid k
  | .stub st => stubI s mid st
  | .cancel => (cancelM s mid, none)

def allPkgs : List Pkg := [.p0, .p1, .pq]
def allNames : List XName := [.x, .y, .z]

/-- every mocker reachable from `b.mockers` (through the caches of the cached mockers), in a fixed order
    (the Go map order is random; the cancellations commute because distinct entries have distinct targets) -/
def cachedMids (s : State) : List Nat :=
  ([s.b.fnC false, s.b.fnC true]
    ++ (allPkgs.flatMap fun p => allNames.map fun n => s.b.xfC p n)
    ++ [slot s (.st false), slot s (.st true), slot s .im, slot s (.xs .p0), slot s (.xs .p1), slot s (.xs .pq),
        s.b.vrC false, s.b.vrC true, slot s (.i2 false), slot s (.i2 true)]).filterMap id

/-- builder.go:193 `Reset`: Cancel on every cached mocker (cancelled ones included) -/
def resetB (s : State) : State := (cachedMids s).foldl cancelM s

/-- result of a step: the mocker that received the instruction, or the panic class -/
inductive StepRes | none | mid (n : Nat) | err (e : Err)
  deriving DecidableEq, Repr

def step (v : Variant) (s : State) : Op → State × StepRes
  | .pkg p => (setPkg s p, .none)                                -- builder.go:27
  | .reset => (resetB s, .none)
  | .stBad =>                                                    -- Struct(..) succeeds (and resets the package), Method("Mz") panics
    (structLookup s, .err .methodNotFound)
  | .xfEmpty => (s, .err .funcNameEmpty)                         -- builder.go ExportFunc: `panic("func name is empty")` before anything else
  | .qlook =>                                                    -- Func(fA) called from the helper package: reset2CurPkg is the last
    (setPkg (lookup s (.fn false)).1 .pq, .mid (lookup s (.fn false)).2)   --   assignment of every branch and yields the caller's package
  | .keep r hd =>
    let (s1, mid) := lookup s hd
    ({ s1 with regs := upd s1.regs r (some mid) }, .mid mid)
  | .on r ins =>
    match s.regs r with
    | none => (s, .err .emptyRegister)
    | some mid =>
      match instr v s mid ins with
      | (s2, none) => (s2, .mid mid)
      | (s2, some e) => (s2, .err e)
  | .h hd ins =>
    let (s1, mid) := lookup s hd
    match instr v s1 mid ins with
    | (s2, none) => (s2, .mid mid)
    | (s2, some e) => (s2, .err e)

/-! ## observation: call every real target with the arguments 1 and 2 -/

/-- one call of target `t` with argument `a`: what is installed decides; a `via` closure reads the mocker *now*
    (mocker.go:142 `callback`) -/
def call (s : State) (t : Tgt) (a : Nat) : State × Res :=
  match s.inst t with
  | .orig =>
    match t with                                                 -- a method of a faked interface variable that has no mock of
    | .i2 j => if s.inst (.i2 (!j)) = .orig then (s, .o) else (s, .n)   --   its own: `notImplement` panics (make_interface.go:63)
    | _ => (s, .o)
  | .cb k => (s, .k k)
  | .via mid =>
    let m := s.mks mid
    if m.canceled && m.ctx.isNone then (s, .o)                   -- `m.canceled && m.funcDef != nil`: funcDef is set by applyByFunc/applyByMethod only
    else
      match m.when with
      | none => (s, .p)
      | some w => let (w', r) := w.invoke a; (setM s mid { m with when := some w' }, r)

def obsTgts : List Tgt :=
  [.fn false, .fn true, .st false, .st true, .im, .xf .p0 .x, .xf .p0 .y, .xf .p1 .x, .xf .p1 .y, .xs .p0, .xs .p1,
   .vr false, .vr true, .i2 false, .i2 true]

def obsCalls : List (Tgt × Nat) := obsTgts.flatMap fun t => [(t, 1), (t, 2)]

def observe (s : State) : State × List Res :=
  obsCalls.foldl (fun (acc : State × List Res) (ta : Tgt × Nat) =>
    let (s', r) := call acc.1 ta.1 ta.2
    (s', acc.2 ++ [r])) (s, [])

/-- run a history; after every op all targets are called -/
def run (v : Variant) : State → List Op → List (StepRes × List Res)
  | _, [] => []
  | s, op :: ops =>
    let r := step v s op
    let o := observe r.1
    (r.2, o.2) :: run v o.1 ops

end C12M
