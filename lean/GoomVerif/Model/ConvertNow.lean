import GoomVerif.Model.Convert
import GoomVerif.Gen.C09Kinds
/-! The kind lists that are in `arg/value.go` *today* (regenerated on every run), as the parameter of the model. -/
namespace Convert

/-- today's lists -/
def K : KindLists :=
  { cast := Gen.C09.castKindNames.filterMap Kind.ofReflectName
    nil := Gen.C09.nilKindNames.filterMap Kind.ofReflectName
    v2i := Gen.C09.v2iKindNames.filterMap Kind.ofReflectName
    castNilSafe := Gen.C09.castTypeWordFrom != "NewAtData" }

/-- every extracted name was understood (otherwise the lists above would silently be shorter) -/
def K_complete : Bool :=
  (Gen.C09.castKindNames ++ Gen.C09.nilKindNames ++ Gen.C09.v2iKindNames).all (fun n => (Kind.ofReflectName n).isSome)

end Convert
