/-!
# Model/Method — how goom names, caches, looks up and patches *methods* (property C06)

Transcribes (goom source, line numbers of the pinned tree):

* `reflect.go:17 typeName`, `reflect.go:26 packageName`
* `mocker.go:215 MethodMocker.ExportMethod` (bracket rule `strings.Contains(structName, "*")`)
* `mocker.go:359 UnexportedMethodMocker.objName` (`fmt.Sprintf("%s.%s.%s", pkg, structName, method)`)
* `builder.go:87 Builder.Struct` (per-builder cache of struct mockers), `builder.go:122 Builder.ExportStruct`
  (bracket rule + cache), `cache.go:42/53/99` (per-struct caches keyed by method name)
* `internal/unexports2/symbols.go:56 getFunctionSymbolByName` → `gosym.Table.LookupFunc` (first exact match)
* `internal/patch/monkey.go:100 InstanceMethodTrampoline` (reflect method table → code pointer),
  `internal/patch/patch.go:67 unsafePatchValue` (generic: `IsGenericsFunc` → `GetInnerFunc` = the shared shape body),
  `patch.go:102 replaceFunc` (writes the jump at exactly that entry).

Strings are `List Char` so that the theorems need nothing but list lemmas.  The symbol table is a parameter
(`syms : List Str`, the function names of the running binary in table order; entry = index).
-/
namespace Method

abbrev Str := List Char

/-! ## names -/

/-- reflect.go:17 `typeName`: `"*" + t.Elem().Name()` for pointer instances, `t.Name()` otherwise -/
def typeName (name : Str) (ptr : Bool) : Str := if ptr then '*' :: name else name

/-- mocker.go:222 and builder.go:128: `if strings.Contains(name, "*") { name = "(" + name + ")" }` -/
def bracket (s : Str) : Str := if s.contains '*' then '(' :: (s ++ [')']) else s

/-- mocker.go:359 `objName`: `fmt.Sprintf("%s.%s.%s", pkgName, structName, methodName)` -/
def objName (pkg sn m : Str) : Str := pkg ++ '.' :: (sn ++ '.' :: m)

/-! The linker does not use the import path verbatim as the prefix of a function name: `cmd/internal/objabi.PathToPrefix`
    escapes `.` in the LAST path element and a few special characters everywhere (`gopkg.in/yaml.v2` ↦ `gopkg.in/yaml%2ev2`).
    reflect.go `symbolPkgPath` (after the repair F28) is the same function; transcribed here for ASCII paths. -/

def hexDigit (n : Nat) : Char := if n < 10 then Char.ofNat (48 + n) else Char.ofNat (87 + n)

def escChar (inLast : Bool) (c : Char) : Str :=
  if c.toNat ≤ 32 || (c == '.' && inLast) || c == '%' || c == '"' || c.toNat ≥ 127
  then ['%', hexDigit (c.toNat / 16 % 16), hexDigit (c.toNat % 16)] else [c]

/-- reflect.go `symbolPkgPath` = objabi.PathToPrefix -/
def symPrefix (pkg : Str) : Str :=
  let r := pkg.reverse
  let last := (r.takeWhile (· != '/')).reverse
  let dir := (r.dropWhile (· != '/')).reverse
  dir.flatMap (escChar false) ++ last.flatMap (escChar true)

/-- SPEC (Go linker, trusted, validated on every run against `go tool nm`): receiver part of a method symbol -/
def recvName (T : Str) (ptr : Bool) : Str := if ptr then '(' :: '*' :: (T ++ [')']) else T

/-- SPEC: the symbol of method `m` with receiver `T` / `*T` declared in the package whose symbol prefix is `sp`
    (`sp = symPrefix importPath`): `sp.T.m`, `sp.(*T).m` -/
def linkName (sp T : Str) (ptr : Bool) (m : Str) : Str := objName sp (recvName T ptr) m

/-- first exact match in table order (`gosym.Table.LookupFunc`, table.go: `if f.Name == name`) -/
def symIndex : List Str → Str → Option Nat
  | [], _ => none
  | s :: rest, n => if s = n then some 0 else (symIndex rest n).map (· + 1)

/-! ## the corpus as the model sees it -/

/-- dynamic type of the instance handed to `Builder.Struct` -/
structure Ty where
  pkg : Str      -- reflect PkgPath()
  name : Str     -- reflect Name(), with type arguments for instantiated generic types
  ptr : Bool     -- instance is `*T`
  deriving DecidableEq, Repr

/-- a declared method of the program -/
structure Entry where
  pkg : Str
  name : Str     -- receiver type name (`G3[int]` for an instantiation)
  ptr : Bool     -- declared on `*T`
  m : Str
  shape : Str    -- `[]` for ordinary types, else the shape-instantiated receiver name, e.g. `G3[go.shape.int]`
  np : Nat       -- number of ordinary parameters
  deriving DecidableEq, Repr

/-- the code a direct call `x.m(..)` enters: the method itself, for an instantiated generic type the shape body -/
def Entry.callSym (e : Entry) : Str :=
  linkName (symPrefix e.pkg) (if e.shape.isEmpty then e.name else e.shape) e.ptr e.m

def isExported : Str → Bool
  | c :: _ => c.isUpper
  | [] => false

/-- reflect `Type.MethodByName` over the declared methods: exported only; the method set of `*T` contains the
    value methods of `T` as well -/
def methodOf (entries : List Entry) (t : Ty) (m : Str) : Option Entry :=
  entries.find? (fun e => e.pkg = t.pkg ∧ e.name = t.name ∧ e.m = m ∧ (e.ptr = t.ptr ∨ (t.ptr = true ∧ e.ptr = false)))

/-- monkey.go:100 + patch.go:67: the symbol that `Struct(inst).Method(m).Apply` patches.
    Matching receiver kinds: the method (generic: the shape body found behind the wrapper by `GetInnerFunc`).
    Value method through a pointer instance (known finding C06-K2): the `(*T).m` pointer wrapper; for an instantiated
    generic type the first callee of that wrapper, which is the value wrapper `pkg.T[..].m` — in both cases code that
    direct calls never enter. -/
def resolveSM (entries : List Entry) (t : Ty) (m : Str) : Except Str Str :=
  if !isExported m then .error "nomethod".toList else
  match methodOf entries t m with
  | none => .error "nomethod".toList
  | some e =>
    if e.ptr = t.ptr then .ok e.callSym
    else if e.shape.isEmpty then .ok (linkName (symPrefix t.pkg) t.name true m)
    else .ok (linkName (symPrefix t.pkg) t.name false m)

/-- mocker.go:215 `ExportMethod` + :359 `objName` -/
def exportMethodName (t : Ty) (m : Str) : Str := objName (symPrefix t.pkg) (bracket (typeName t.name t.ptr)) m

/-- builder.go:122 `ExportStruct(raw)` + cache.go:99 `Method(m)` + mocker.go:359 `objName` -/
def exportStructName (pkg raw m : Str) : Str := objName (symPrefix pkg) (bracket raw) m

/-! ## builder caches -/

/-- builder.go:88 (after the repair): the cache key of `Struct(instance)` is the `reflect.Type` itself, whose
    identity is exactly (package path, name incl. type arguments, pointer?) = `Ty`.  (The pinned tree used
    `Type.String()`, which prints only the package *name*: see `Findings/C06F.lean`.) -/
def structKey (t : Ty) : Ty := t

/-- builder.go:123 (after the repair): `ExportStruct` is cached under the pair (package, name as passed) -/
abbrev EKey := Str × Str

/-- `if mocker, ok := b.mockers[key]; ok && !mocker.Canceled() { return it }; create; b.cache(key, it)` -/
def getOrCreate {K V : Type} [DecidableEq K] : List (K × V) → K → V → List (K × V) × V
  | [], k, v => ([(k, v)], v)
  | (k', v') :: rest, k, v =>
    if k' = k then ((k', v') :: rest, v') else
      let r := getOrCreate rest k v
      ((k', v') :: r.1, r.2)

/-! ## patches -/

structure BState where
  structs : List (Ty × Ty)                -- Struct cache: key ↦ `structDef` of the cached mocker
  exports : List (EKey × (Str × Str))     -- ExportStruct cache: key ↦ (pkgName, structName) of the cached mocker
  patched : List (Nat × Nat)              -- symbol index ↦ callback (= step number), latest first
  deriving Repr

def BState.init : BState := ⟨[], [], []⟩

inductive Step
  | structMethod (t : Ty) (m : Str)          -- b.Struct(inst).Method(m).Apply(cb)
  | structExport (t : Ty) (m : Str)          -- b.Struct(inst).ExportMethod(m).Apply(cb)
  | exportStruct (pkg raw m : Str)           -- b.Pkg(pkg).ExportStruct(raw).Method(m).Apply(cb)
  | reset                                    -- b.Reset()
  deriving Repr

inductive Res
  | ok
  | err (cls : Str)            -- rejected before any lookup
  | notfound (name : Str)      -- `proxy func name error: <name>: function symbol not found`
  deriving DecidableEq, Repr

/-- patch.go:102 `replaceFunc`: the jump is written at the looked-up entry and nowhere else -/
def applyAt (syms : List Str) (s : BState) (k : Nat) (name : Str) : BState × Res :=
  match symIndex syms name with
  | some i => ({ s with patched := (i, k) :: s.patched }, .ok)
  | none => (s, .notfound name)

def step (syms : List Str) (entries : List Entry) (s : BState) (k : Nat) : Step → BState × Res
  | .structMethod t m =>
    let r := getOrCreate s.structs (structKey t) t
    let s := { s with structs := r.1 }
    match resolveSM entries r.2 m with
    | .error c => (s, .err c)
    | .ok name => applyAt syms s k name
  | .structExport t m =>
    let r := getOrCreate s.structs (structKey t) t
    applyAt syms { s with structs := r.1 } k (exportMethodName r.2 m)
  | .exportStruct pkg raw m =>
    let r := getOrCreate s.exports (pkg, raw) (pkg, bracket raw)
    applyAt syms { s with exports := r.1 } k (objName (symPrefix r.2.1) r.2.2 m)
  | .reset => ({ s with patched := [] }, .ok)

/-- run a history; callbacks are numbered by step position starting at `k` -/
def run (syms : List Str) (entries : List Entry) : BState → Nat → List Step → BState × List Res
  | s, _, [] => (s, [])
  | s, k, st :: rest =>
    let r := step syms entries s k st
    let rr := run syms entries r.1 (k + 1) rest
    (rr.1, r.2 :: rr.2)

/-- which callback runs when code at symbol index `i` is entered (none: the original) -/
def behavAt : List (Nat × Nat) → Nat → Option Nat
  | [], _ => none
  | (j, k) :: rest, i => if j = i then some k else behavAt rest i

/-- behaviour of a direct call of entry `e`: scan the patch list for the symbol the call enters -/
def behavOf (syms : List Str) : List (Nat × Nat) → Entry → Option Nat
  | [], _ => none
  | (j, k) :: rest, e => if syms[j]? = some e.callSym then some k else behavOf syms rest e

/-- the values in the argument positions of a call when it enters the code of `e` (ABI, observed not proved): receiver
    first; a shape body carries the hidden dictionary directly behind the receiver -/
def entryArgs {A : Type} (e : Entry) (dict recv : A) (args : List A) : List A :=
  if e.shape.isEmpty then recv :: args else recv :: dict :: args

/-- internal/patch/patch.go `adaptToShapeFunc` (fix 79126f8): the replacement installed at a shape body is a
    `reflect.MakeFunc` adapter with one extra word at `dictPos`; it forwards `args[:dictPos] ++ args[dictPos+1:]` -/
def adapt {A : Type} (dictPos : Nat) (actual : List A) : List A := actual.take dictPos ++ actual.drop (dictPos + 1)

/-- what the user's callback is called with -/
def delivered {A : Type} (e : Entry) (dict recv : A) (args : List A) : List A :=
  if e.shape.isEmpty then entryArgs e dict recv args      -- the jump enters the callback itself (C01/C15: registers and stack kept)
  else adapt 1 (entryArgs e dict recv args)               -- method of a generic type: dictPos = 1

/-- what a caller observes: `orig` — the method's own body ran on the call's values; `mock k vs` — callback `k` was
    called with the values `vs` -/
inductive Obs (A : Type)
  | orig (vs : List A)
  | mock (k : Nat) (vs : List A)

def callObs {A : Type} (syms : List Str) (s : BState) (e : Entry) (dict recv : A) (args : List A) : Obs A :=
  match behavOf syms s.patched e with
  | none => .orig (recv :: args)
  | some k => .mock k (delivered e dict recv args)

/-! ## specification vocabulary (used by the theorems, not by the driver) -/

/-- cache invariant: every cached struct mocker was created for the type it is filed under; every cached
    ExportStruct mocker carries the package and the bracketed name it is filed under -/
def CacheInv (s : BState) : Prop :=
  (∀ kv ∈ s.structs, kv.2 = kv.1) ∧ (∀ kv ∈ s.exports, kv.2 = (kv.1.1, bracket kv.1.2))

/-- the symbol a step names, from the step's own text only (no cache, no table) -/
def stepName (entries : List Entry) : Step → Option Str
  | .structMethod t m => match resolveSM entries t m with | .ok n => some n | .error _ => none
  | .structExport t m => some (exportMethodName t m)
  | .exportStruct pkg raw m => some (exportStructName pkg raw m)
  | .reset => none

def Step.isReset : Step → Bool
  | .reset => true
  | _ => false

/-- "the last step that named the code `e`'s calls enter decides; Reset restores the original" -/
def lastWriter (syms : List Str) (entries : List Entry) (e : Entry) : Option Nat → Nat → List Step → Option Nat
  | b, _, [] => b
  | b, k, st :: rest =>
    lastWriter syms entries e
      (if st.isReset then none
       else if stepName entries st = some e.callSym ∧ e.callSym ∈ syms then some k else b) (k + 1) rest

end Method
