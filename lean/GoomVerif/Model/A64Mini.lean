import GoomVerif.Model.X86Mini
/-
  Mini ISA specification for the four AArch64 encodings goom emits (hand-written from the Arm ARM, C6.2;
  cross-checked against the toolchain's reference decoder by the C15 harness).

    MOVZ Xd, #imm16, LSL #(16*hw)     1 10 100101 hw imm16 Rd
    MOVK Xd, #imm16, LSL #(16*hw)     1 11 100101 hw imm16 Rd
    LDR  Xt, [Xn, #(8*imm12)]         11 111 0 01 01 imm12 Rn Rt
    BR   Xn                           1101011 0000 11111 000000 Rn 00000

  Field extraction is done on the natural number of the little-endian word with / and %, i.e. exactly
  the bit ranges of the encoding diagrams.
-/
namespace A64

structure Mach where
  pc    : BitVec 64
  x     : Nat → BitVec 64           -- X0..X30
  mem64 : BitVec 64 → BitVec 64

def setReg (x : Nat → BitVec 64) (r : Nat) (v : BitVec 64) : Nat → BitVec 64 :=
  fun i => if i = r then v else x i

inductive Instr
  | movz (rd hw imm16 : Nat)
  | movk (rd hw imm16 : Nat)
  | ldr  (rt rn imm12 : Nat)
  | br   (rn : Nat)
  deriving Repr, DecidableEq

def decode (n : Nat) : Option Instr :=
  if n / 2^23 = 0x1A5 then some (.movz (n % 32) (n / 2^21 % 4) (n / 32 % 65536))
  else if n / 2^23 = 0x1E5 then some (.movk (n % 32) (n / 2^21 % 4) (n / 32 % 65536))
  else if n / 2^22 = 0x3E5 then some (.ldr (n % 32) (n / 32 % 32) (n / 2^10 % 4096))
  else if n / 2^10 = 0x3587C0 ∧ n % 32 = 0 then some (.br (n / 32 % 32))
  else none

/-- run a straight-line sequence up to and including its `BR`. Register 31 is not a GPR in these forms. -/
def exec : List (BitVec 8) → Mach → Option Mach
  | b0 :: b1 :: b2 :: b3 :: rest, m =>
    match decode (X86.leNat [b0, b1, b2, b3]) with
    | some (.movz rd hw imm) =>
      if rd < 31 then exec rest { m with pc := m.pc + 4, x := setReg m.x rd (BitVec.ofNat 64 (imm * 2^(16*hw))) } else none
    | some (.movk rd hw imm) =>
      if rd < 31 then
        let old := (m.x rd).toNat
        let keep := old - (old / 2^(16*hw) % 65536) * 2^(16*hw)       -- clear the 16-bit lane
        exec rest { m with pc := m.pc + 4, x := setReg m.x rd (BitVec.ofNat 64 (keep + imm * 2^(16*hw))) }
      else none
    | some (.ldr rt rn imm12) =>
      if rt < 31 ∧ rn < 31 then
        exec rest { m with pc := m.pc + 4, x := setReg m.x rt (m.mem64 (m.x rn + BitVec.ofNat 64 (8 * imm12))) }
      else none
    | some (.br rn) => if rn < 31 ∧ rest = [] then some { m with pc := m.x rn } else none
    | none => none
  | _, _ => none

end A64
