import GoomVerif.Model.X86Dec
/-! The consumers of the decoder (`internal/bytecode/ins_amd64.go:9 ParseIns`, the `pos = pos + ins.Len` loops of
    `inline_check_amd64.go:23`, `func_amd64.go:40 GetFuncSize`, `func_amd64.go:67 PrintInstf`, `internal/patch/fix_addr_amd64.go`):
    decode a ≤ 16-byte window at `pos`, stop on error, otherwise advance by `Len`; PC-relative users slice
    `code[PCRelOff : PCRelOff+PCRel]` out of the window. -/
namespace X86Dec

/-- ins_amd64.go:14-19: `code := copyOrigin[pos:min(pos+16, len)]` -/
def window (code : Bytes) (pos : Nat) : Bytes := (code.drop pos).take 16

/-- one iteration: `none` = the loop stops (decode error), `some p` = next position -/
def scanStep (code : Bytes) (pos : Nat) : Option Nat :=
  let r := decode (window code pos)
  if r.err = .ok then some (pos + r.len) else none

/-- the scan loop with explicit fuel: final position, `none` = fuel exhausted -/
def scanLoop (code : Bytes) : Nat → Nat → Option Nat
  | 0, _ => none
  | f + 1, pos =>
    if pos ≥ code.length then some pos
    else match scanStep code pos with
      | none => some pos
      | some p => scanLoop code f p

end X86Dec
