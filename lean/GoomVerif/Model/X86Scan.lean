import GoomVerif.Model.X86Dec
/-! The consumers of the decoder (`internal/bytecode/ins_amd64.go:9 ParseIns`, the `pos = pos + ins.Len` loops of
    `inline_check_amd64.go:23`, `func_amd64.go:67 PrintInstf`, `internal/patch/fix_addr_amd64.go`, and `func_amd64.go:23 GetFuncSize`):
    decode a ≤ 16-byte window at `pos`, stop on error, otherwise advance by `Len`; PC-relative users slice
    `code[PCRelOff : PCRelOff+PCRel]` out of the window.  Both loops are run against the real Go functions by the probe
    `harness/c16/consumer_probe_test.go` (`c16.scan`, `c16.fsize`). -/
namespace X86Dec

/-- ins_amd64.go:14-19: `code := copyOrigin[pos:min(pos+16, len)]` -/
def window (code : Bytes) (pos : Nat) : Bytes := (code.drop pos).take 16

/-- one iteration: `none` = the loop stops (decode error), `some p` = next position -/
def scanStep (code : Bytes) (pos : Nat) : Option Nat :=
  let r := decode (window code pos)
  if r.err = .ok then some (pos + r.len) else none

/-- the scan loop with explicit fuel: final position, `none` = fuel exhausted -/
def scanLoop (code : Bytes) : Nat → Nat → Option Nat
  | 0, _ => none
  | f + 1, pos =>
    if pos ≥ code.length then some pos
    else match scanStep code pos with
      | none => some pos
      | some p => scanLoop code f p

/-- func_unix.go:11 `defaultFuncPrologue64` -/
def funcPrologue : Bytes := [0x65, 0x48, 0x8b, 0x0c, 0x25, 0x30, 0x00, 0x00, 0x00, 0x48]

/-- func_amd64.go:23 `GetFuncSize(64, start, minimal = false)` over a memory image `mem` starting at `start`
    (`memory.RawRead(start+curLen, 16)` = `window mem curLen`; the probe supplies an image that ends in INT3 padding and a
    prologue, as Go text does).  `none` = fuel exhausted. -/
def funcSizeLoop (mem : Bytes) : Nat → Nat → Bool → Option Nat
  | 0, _, _ => none
  | f + 1, cur, int3Found =>
    let code := window mem cur
    let r := decode code
    let b0 := (code.headD 0).toNat
    -- :43 `err != nil || (inst.Opcode == 0 && inst.Len == 1 && inst.Prefix[0] == Prefix(code[0]))`; for the prefix-only pseudo
    -- instruction `instPrefix` (decode.go:171) maps 0x66 / 0x67 to PrefixData16 / PrefixAddr32, every other byte to itself
    if r.err ≠ .ok ∨ (r.opcode = 0 ∧ r.len = 1 ∧ b0 ≠ 0x66 ∧ b0 ≠ 0x67) then some cur
    else
      let isInt3 := r.len = 1 ∧ b0 = 0xcc
      if ¬ isInt3 ∧ int3Found = true then some cur                            -- :53
      else
        let cur' := cur + r.len
        if (window mem cur').take funcPrologue.length = funcPrologue then some cur'   -- :58
        else funcSizeLoop mem f cur' (if isInt3 then true else int3Found)

end X86Dec
