import GoomVerif.Model.Equal
/-! # Expression OBJECTS with identity (arg/expr.go), shared between positions, clauses and `In`s

`arg.Any()`, `arg.Equals(x)`, `arg.In(...)` return pointers; the same object can be handed to several positions (the exported
`arg.AnyValues` is one object for the whole program).  A heap maps object ids to objects; an `In` refers to nested expression
objects by id, and `ToExpr` (value.go:136) resolves THAT object in place — so re-resolving a shared object elsewhere changes
what an `In` holding it answers.  This is the code as it is at HEAD:
* `AnyExpr` has no state: `Resolve` stores nothing, `Eval` reads nothing (expr.go:23-31);
* `EqualsExpr.Resolve` overwrites `argV` — also on error (with the invalid Value), not on a panic (expr.go:40-48);
* `InExpr.Resolve` assigns `expressions` only when every item resolved (expr.go:69-95), but nested shared objects that were
  resolved on the way stay re-resolved;
* no `Eval` writes anything.
Equals and In are therefore legitimately stateful across re-`Resolve` (last Resolve wins); Any is not. -/
namespace C18M

/-- A component of an `In` item / `ToExpr` argument: a plain value (a FRESH `Equals` is made for it on every Resolve,
    value.go:144) or an existing expression object. -/
inductive SComp
  | val (x : Arg)
  | ref (id : Nat)

inductive SItem
  | one (c : SComp)
  | tuple (cs : List SComp)

/-- What the builder call constructed (nesting only through object references). -/
inductive SExpr
  | any
  | equals (x : Arg)
  | inE (items : List SItem)

/-- One entry of `InExpr.expressions[row]`: a fresh `Equals` owned by the row (with its `argV`), or a shared object. -/
inductive Cell
  | own (argV : Option Val)
  | ref (id : Nat)

/-- The mutable part of an object. -/
inductive OState
  | any                                   -- AnyExpr: no fields
  | equals (argV : Option Val)            -- EqualsExpr.argV
  | inE (rows : List (List Cell))         -- InExpr.expressions

structure SObj where
  src : SExpr
  st : OState

abbrev Heap := List SObj

def initState : SExpr → OState
  | .any => .any
  | .equals _ => .equals none
  | .inE _ => .inE []

def setSt (h : Heap) (id : Nat) (st : OState) : Heap :=
  match h[id]? with
  | some o => h.set id { o with st := st }
  | none => h

/-! ## Eval: reads the heap, returns only an answer -/

def evalRowWith (ev : Nat → Option Val → Res Bool) : List Cell → List (Option Val) → Res Bool
  | [], _ => .ok true
  | _ :: _, [] => .ok true
  | c :: cs, a :: as =>
    (match c with
     | .own v => equal v a                       -- a fresh Equals: expr.go:50-59
     | .ref id => ev id a).bind (fun b => if b then evalRowWith ev cs as else .ok false)

def evalRowsWith (ev : Nat → Option Val → Res Bool) : List (List Cell) → List (Option Val) → Res Bool
  | [], _ => .ok false
  | row :: rest, input =>
    if input.length != row.length then evalRowsWith ev rest input
    else (evalRowWith ev row input).bind (fun b => if b then .ok true else evalRowsWith ev rest input)

/-- `obj.Eval(input, false)`; `fuel` bounds the nesting depth of object references. -/
def evalObj : Nat → Heap → Nat → List (Option Val) → Res Bool
  | 0, _, _, _ => .unmodelled
  | fuel + 1, h, id, input =>
    match h[id]? with
    | none => .unmodelled
    | some o =>
      match o.st with
      | .any => .ok true                                               -- expr.go:29
      | .equals v =>
        match input with
        | [a] => equal v a
        | _ => .err "equalsexpr.resolve-status-error"
      | .inE rows => evalRowsWith (fun id a => evalObj fuel h id [a]) rows input

/-! ## Resolve: threads the heap -/

/-- Propagate a failure (never applied to `.ok`). -/
def Res.fail {α β : Type} : Res α → Res β
  | .ok _ => .unmodelled
  | .err e => .err e
  | .panic e => .panic e
  | .unmodelled => .unmodelled

def consCell (p : Heap × Res (List Cell)) (c : Cell) : Heap × Res (List Cell) :=
  (p.1, p.2.bind (fun row => .ok (c :: row)))

def consRow (p : Heap × Res (List (List Cell))) (row : List Cell) : Heap × Res (List (List Cell)) :=
  (p.1, p.2.bind (fun rows => .ok (row :: rows)))

/-- `ToExpr`'s loop (value.go:128-150) over the components of one item; `rr` resolves a shared object against `[t]`. -/
def compsRow (rr : Heap → Nat → Ty → Heap × Res Unit) : Heap → List SComp → List Ty → Nat → Heap × Res (List Cell)
  | h, [], _, _ => (h, .ok [])
  | h, c :: cs, types, i =>
    match typeAt types i with
    | none => (h, .panic "runtime-error-index-out")
    | some t =>
      match c with
      | .val x =>                                             -- value.go:144 a fresh Equals(a), resolved against [t]
        match toValue x t with
        | .ok v => consCell (compsRow rr h cs types (i + 1)) (.own v)
        | r => (h, r.fail)
      | .ref id =>                                            -- value.go:136 the object itself, resolved IN PLACE against [t]
        match (rr h id t).2 with
        | .ok _ => consCell (compsRow rr (rr h id t).1 cs types (i + 1)) (.ref id)
        | r => ((rr h id t).1, r.fail)

def SItem.comps : SItem → List SComp
  | .one c => [c]
  | .tuple cs => cs

/-- `InExpr.Resolve`'s loop over the items (expr.go:71-93). -/
def itemsRows (rr : Heap → Nat → Ty → Heap × Res Unit) : Heap → List SItem → List Ty → Heap × Res (List (List Cell))
  | h, [], _ => (h, .ok [])
  | h, it :: rest, types =>
    if it.comps.length != types.length then (h, .err "the-number-of-args")          -- value.go:122
    else
      match (compsRow rr h it.comps types 0).2 with
      | .ok row => consRow (itemsRows rr (compsRow rr h it.comps types 0).1 rest types) row
      | r => ((compsRow rr h it.comps types 0).1, r.fail)

/-- `obj.Resolve(types, false)`. -/
def resolveObj : Nat → Heap → Nat → List Ty → Heap × Res Unit
  | 0, h, _, _ => (h, .unmodelled)
  | fuel + 1, h, id, types =>
    match h[id]? with
    | none => (h, .unmodelled)
    | some o =>
      match o.src with
      | .any => (h, .ok ())                                             -- expr.go:24: stores nothing
      | .equals x =>
        match types with
        | [t] =>
          match toValue x t with
          | .ok v => (setSt h id (.equals v), .ok ())
          | .err e => (setSt h id (.equals none), .err e)               -- argV := reflect.Value{} together with the error
          | r => (h, r.fail)
        | _ => (h, .err "equalsexpr.resolve-status-error")
      | .inE items =>
        match (itemsRows (fun h id t => resolveObj fuel h id [t]) h items types).2 with
        | .ok rows => (setSt (itemsRows (fun h id t => resolveObj fuel h id [t]) h items types).1 id (.inE rows), .ok ())
        | r => ((itemsRows (fun h id t => resolveObj fuel h id [t]) h items types).1, r.fail)

/-! ## Scripts: interleaved Resolve / Eval calls on any objects of the heap -/

inductive SStep
  | resolve (id : Nat) (types : List Ty)
  | eval (id : Nat) (input : List (Option Val))

inductive SObs
  | resolved (r : Res Unit)
  | answered (r : Res Bool)

def stepS (fuel : Nat) (h : Heap) : SStep → Heap × SObs
  | .resolve id types => let (h', r) := resolveObj fuel h id types; (h', .resolved r)
  | .eval id input => (h, .answered (evalObj fuel h id input))

def runS (fuel : Nat) (h : Heap) : List SStep → List SObs
  | [] => []
  | s :: ss => (stepS fuel h s).2 :: runS fuel (stepS fuel h s).1 ss

def stateS (fuel : Nat) (h : Heap) : List SStep → Heap
  | [] => h
  | s :: ss => stateS fuel (stepS fuel h s).1 ss

end C18M
