import GoomVerif.Model.ApiC12
/-! # The last-writer-wins reference model of property C12.

Per target an abstract behaviour `orig | cb k | stub w`, updated by the LAST instruction only:
* `Apply k` → `cb k` (supersedes any stub configuration);
* a stub instruction (`Return`, `When`, `When..Return`, `Returns`) continues the stub configuration in force, and
  starts a fresh one when the callback or the original is in force (supersedes the callback);
* `Cancel` → `orig`;  `Reset` → every target `orig` (a fresh configuration starts from scratch);
* `Pkg p` is consumed by the next lookup of any kind.
Nothing here mentions caches, mocker objects, guards or what is installed.  The `When` algebra (what a stub
configuration returns for an argument) is shared with the implementation model; it is the subject of C04/C05. -/
namespace C12M

inductive Beh | orig | cb (k : Nat) | stub (w : When)
  deriving DecidableEq, Repr

structure Lww where
  beh : Tgt → Beh := fun _ => .orig
  pkg : Pkg := .p0

namespace Lww

def init : Lww := {}

/-- the instruction's effect on the behaviour in force -/
def instr (cur : Beh) : Instr → Beh
  | .look => cur
  | .apply k => .cb k
  | .cancel => .orig
  | .stub st => match cur with
    | .stub w => .stub (w.step st)
    | _ => .stub (When.fresh st)

def step (a : Lww) : Op → Lww
  | .pkg p => { a with pkg := p }
  | .reset => { a with beh := fun _ => .orig }
  | .var => { a with pkg := .p0 }
  | .stBad => { a with pkg := .p0 }
  | .h hd ins =>
    let t := tgtOf a.pkg hd
    if isPhantom t then { a with pkg := .p0 }                    -- no such function: the instruction is rejected
    else { beh := upd a.beh t (instr (a.beh t) ins), pkg := .p0 }

def call (a : Lww) (t : Tgt) (x : Nat) : Lww × Res :=
  match a.beh t with
  | .orig => (a, .o)
  | .cb k => (a, .k k)
  | .stub w => let (w', r) := w.invoke x; ({ a with beh := upd a.beh t (.stub w') }, r)

def observe (a : Lww) : Lww × List Res :=
  obsCalls.foldl (fun (acc : Lww × List Res) (ta : Tgt × Nat) =>
    let (a', r) := call acc.1 ta.1 ta.2
    (a', acc.2 ++ [r])) (a, [])

def run : Lww → List Op → List (List Res)
  | _, [] => []
  | a, op :: ops =>
    let o := observe (step a op)
    o.2 :: run o.1 ops

end Lww
end C12M
