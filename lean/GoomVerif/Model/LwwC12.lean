import GoomVerif.Model.ApiC12
/-! # The last-writer-wins reference model of property C12.

Per target an abstract behaviour `orig | cb k | stub w`, updated by the LAST instruction only:
* `Apply k` → `cb k` (supersedes any stub configuration);
* a stub instruction (`Return`, `When`, `When..Return`, `Returns`) continues the stub configuration in force, and
  starts a fresh one when the callback or the original is in force (supersedes the callback);
* `Cancel` → `orig`;  `Reset` → every target `orig` (a fresh configuration starts from scratch);
* `Pkg p` is consumed by the next lookup of any kind; after a lookup names resolve in the package that issued it;
* an instruction through a kept handle counts for the target the handle was looked up for.
Nothing here mentions caches, mocker objects, guards or what is installed.  The `When` algebra (what a stub
configuration returns for an argument) is shared with the implementation model; it is the subject of C04/C05. -/
namespace C12M

inductive Beh | orig | cb (k : Nat) | stub (w : When)
  deriving DecidableEq, Repr

structure Lww where
  beh : Tgt → Beh := fun _ => .orig
  pkg : Pkg := .p0
  /-- which target a kept handle addresses -/
  regs : Nat → Option Tgt := fun _ => none

namespace Lww

def init : Lww := {}
/-- a builder created from package `p` resolves names in `p` until its first lookup -/
def initP (p : Pkg) : Lww := { pkg := p }

/-- the instruction's effect on the behaviour in force -/
def instr (cur : Beh) : Instr → Beh
  | .look => cur
  | .apply k => .cb k
  | .cancel => .orig
  | .stub st => match cur with
    | .stub w => .stub (w.step st)
    | _ => .stub (When.fresh st)

/-- instructions that the target's kind of mocker does not offer are rejected and change nothing -/
def rejected (t : Tgt) : Instr → Bool
  | .apply _ => isPhantom t
  | .stub _ => isPhantom t || isVar t
  | _ => false

/-- an instruction addressed to target `t` -/
def onTgt (a : Lww) (t : Tgt) (ins : Instr) : Lww :=
  if rejected t ins then a else { a with beh := upd a.beh t (instr (a.beh t) ins) }

def step (a : Lww) : Op → Lww
  | .pkg p => { a with pkg := p }
  | .reset => { a with beh := fun _ => .orig }
  | .stBad => { a with pkg := .p0 }
  | .xfEmpty => a                                                -- rejected before it is a lookup: the override stays pending
  | .qlook => { a with pkg := .pq }                              -- the caller's package of THAT lookup
  | .h hd ins => onTgt { a with pkg := .p0 } (tgtOf a.pkg hd) ins
  | .keep r hd => { a with pkg := .p0, regs := upd a.regs r (some (tgtOf a.pkg hd)) }
  | .on r ins =>
    match a.regs r with
    | none => a
    | some t => onTgt a t ins

def call (a : Lww) (t : Tgt) (x : Nat) : Lww × Res :=
  match a.beh t with
  | .orig =>
    match t with                -- C07: a method without a mock of its own panics "not implements" while its variable is mocked
    | .i2 j => if a.beh (.i2 (!j)) = .orig then (a, .o) else (a, .n)
    | _ => (a, .o)
  | .cb k => (a, .k k)
  | .stub w => let (w', r) := w.invoke x; ({ a with beh := upd a.beh t (.stub w') }, r)

def observe (a : Lww) : Lww × List Res :=
  obsCalls.foldl (fun (acc : Lww × List Res) (ta : Tgt × Nat) =>
    let (a', r) := call acc.1 ta.1 ta.2
    (a', acc.2 ++ [r])) (a, [])

def run : Lww → List Op → List (List Res)
  | _, [] => []
  | a, op :: ops =>
    let o := observe (step a op)
    o.2 :: run o.1 ops

end Lww
end C12M
