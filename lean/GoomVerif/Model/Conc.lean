/-!
# Model/Conc — lock-level model of concurrent builders and callers (property C11)

Threads run *sections*.  A section is one critical section that the Go code really has:

* `replace f r wo`  — `patch.replaceFunc` (internal/patch/patch.go:102-139) under `patchesLock`
* `apply f`         — `Guard.Apply` (internal/patch/guard.go:22-32) under `patchesLock`
* `unpatch f`       — `Guard.UnpatchWithLock` (guard.go:46-50 → `Unpatch` :36-43) under `patchesLock`
* `call f a`        — a goroutine executing the machine code at `f` (no lock at all)

Inside a section the thread executes micro instructions `MI` one per scheduler slot; every raw write of the
text segment is `memory.WriteTo` (internal/bytecode/memory/mwrite_amd64.go:19-38): take `memoryAccessLock`,
`mprotect(RWX)` page by page (mwrite_unix.go:11-20), `copy`, `mprotect(RX)` page by page, release.
A scheduler slot given to a thread that waits for a held lock is a stutter step.

The patch table is keyed by location as in the source (`patches map[uintptr]*patch`, patch.go:16); the guard of a
location is the guard of the patch registered for it (`patch.Guard()`, patch.go:146-159) — `applyBy*`
(mocker.go:76-111) stores exactly that guard in the mocker, and only the owning builder registers patches
for its targets.  The origin placeholder of target `f` is the location `plh f` (the probe gives every target
its own placeholder variable).

Conditions are evaluated when the micro instruction executes, as in the source (`if g != nil && g.applied` inside the lock,
`if _, ok := patches[p.originPtr]`); `register` merges `patches[origin] = p` (patch.go:109) with the later assignment of
`p.originBytes` (patch.go:125-129) because nothing else can run on that location in between.  The error branches of
`replaceFunc` (already-patched sentinel, function too small) are not followed: reaching one is recorded in `faults`, and the
builder API cannot reach them with disjoint targets (the differential rounds check `faults` is empty).
`Guard.Restore`, `patch.Unpatch`, `patch.UnpatchInstanceMethod`, `patch.UnpatchAll` are not sections: nothing in the builder API
calls them (checked on every run); the last three touch `patches` WITHOUT `patchesLock`.

What is NOT in the model: the individual byte stores of `copy` (a 13-byte write is one step), instruction
fetch, the Go memory model for fields other than the ones listed in `Var`, the garbage collector.
-/
namespace Conc

abbrev Tid := Nat
abbrev Loc := Nat

/-- what a target was replaced with (the builder API flavours used by the probe) -/
inductive Repl
  | ret (v : Nat)        -- `Return(v)`
  | cb (k : Nat)         -- `Apply(func(a) { return a + k })`
  | cbo (k : Nat)        -- `Origin(&o).Apply(func(a) { return o(a) + k })` : callback calls the origin placeholder
  | tab (v : Nat)        -- `Return(v).When(1).Return(v+1).When(2).Return(v+2)` : argument-dependent result table
  | tin (v : Nat)        -- `Return(v).In(1, 2).Return(v+5)` : a ContainsMatcher condition
  | tov (v : Nat)        -- `Return(v).When(1).Return(v+1).When(Any()).Return(v+2)` : overlapping conditions, first registered wins
  deriving DecidableEq, Repr, Inhabited

/-- content of the 13 entry bytes of a location (targets) or of a placeholder body -/
inductive Content
  | pristine
  | jump (r : Repl)      -- monkey_amd64.go:9 jmpToFunctionValue → replacement
  | reloc (f : Loc)      -- fix_origin_amd64.go:80 relocated prologue of `f` + jump back
  deriving DecidableEq, Repr, Inhabited

/-- `patch` + its `Guard` (patch.go:31-50, guard.go:13-19) -/
structure Guard where
  repl : Repl
  originBytes : Content
  applied : Bool
  deriving DecidableEq, Repr, Inhabited

structure Perm where
  w : Bool
  x : Bool
  deriving DecidableEq, Repr, Inhabited

inductive Sec
  | replace (f : Loc) (r : Repl) (wo : Bool)
  | apply (f : Loc)
  | unpatch (f : Loc)
  | call (f : Loc) (a : Nat)
  | retab (f : Loc)      -- `When.Matches(..)` on the builder's existing mock of `f` (when.go:171): no lock, no text byte changes
  deriving DecidableEq, Repr, Inhabited

/-- the three raw text writes goom performs -/
inductive WKind
  | jump (f : Loc)       -- guard.go:28   WriteTo(g.origin, g.jumpBytes)
  | restore (f : Loc)    -- guard.go:38   WriteTo(g.origin, g.originBytes)   (only `if g != nil && g.applied`)
  | tramp (f : Loc)      -- fix_origin_amd64.go:80 WriteTo(trampoline, fixOriginData)
  deriving DecidableEq, Repr, Inhabited

inductive MI
  | unregister (f : Loc)          -- monkey.go:157 delete(patches, origin)      (only if present, monkey.go:151-154)
  | register (f : Loc) (r : Repl) -- patch.go:109 patches[p.originPtr] = p ; patch.go:125 originBytes := RawRead(origin)
  | setApplied (f : Loc)          -- guard.go:26 g.applied = true
  | write (k : WKind)
  deriving DecidableEq, Repr, Inhabited

inductive WStep
  | prot (pg : Nat) (p : Perm)   -- mprotect(page, prot): the protection is DATA of the script, not of the step semantics
  | copy                         -- mwrite_amd64.go:31
  deriving DecidableEq, Repr, Inhabited

/-- PROT_READ|PROT_WRITE|PROT_EXEC (mwrite_amd64.go:24) and PROT_READ|PROT_EXEC (mwrite_amd64.go:32) -/
def permRWX : Perm := { w := true, x := true }
def permRX : Perm := { w := false, x := true }

/-- shared variables whose accesses are logged for the lockset statement -/
inductive Var
  | patches   -- the map `patches` and the guards reachable from it
  | text      -- bytes of the text segment
  | perm      -- page protections
  deriving DecidableEq, Repr, Inhabited

structure Acc where
  t : Tid
  v : Var
  write : Bool
  holdsP : Bool   -- accessor held patchesLock
  holdsM : Bool   -- accessor held memoryAccessLock (write mode); for reads: nobody held it in write mode (RLock granted)
  deriving DecidableEq, Repr, Inhabited

structure Th where
  ip : Nat               -- index of the current section
  cur : Option Nat       -- inside a locked section: index of the next micro instruction
  w : Option Nat         -- inside WriteTo: index of the next phase
  deriving DecidableEq, Repr, Inhabited

/-- static layout: placeholder of a target, pages touched by a 13-byte (or placeholder-sized) write at a location -/
structure Layout where
  plh : Loc → Loc
  pages : Loc → List Nat
  orig : Loc → Nat → Nat       -- what the unmodified function computes

structure St where
  lockP : Option Tid
  lockM : Option Tid
  patches : Loc → Option Guard
  text : Loc → Content
  perm : Nat → Perm
  th : Tid → Th
  calls : List (Tid × Nat × Option Nat)   -- (thread, section index, result; none = crash)
  acc : List Acc
  faults : List (Tid × Loc)               -- branches the builder API cannot reach with disjoint targets

def upd {α : Type} (m : Nat → α) (k : Nat) (v : α) : Nat → α := fun i => if i = k then v else m i

@[simp] theorem upd_same {α} (m : Nat → α) (k : Nat) (v : α) : upd m k v k = v := by simp [upd]
theorem upd_other {α} (m : Nat → α) (k i : Nat) (v : α) (h : i ≠ k) : upd m k v i = m i := by simp [upd, h]

/-- patch.go:102-139 replaceFunc / guard.go:22-32 Apply / guard.go:36-50 Unpatch(WithLock) as micro instructions -/
def bodyOf : Sec → List MI
  | .replace f r wo =>
      [.write (.restore f), .unregister f, .register f r] ++ (if wo then [.write (.tramp f)] else [])
  | .apply f => [.setApplied f, .write (.jump f)]
  | .unpatch f => [.write (.restore f)]
  | .call _ _ => []
  | .retab _ => []

def wloc (L : Layout) : WKind → Loc
  | .jump f => f
  | .restore f => f
  | .tramp f => L.plh f

/-- mwrite_amd64.go:19-38 + mwrite_unix.go:11-20 -/
def wscript (L : Layout) (k : WKind) : List WStep :=
  (L.pages (wloc L k)).map (WStep.prot · permRWX) ++ [.copy] ++ (L.pages (wloc L k)).map (WStep.prot · permRX)

/-- is the WriteTo performed at all?  guard.go:37 `if g != nil && g.applied` for restore -/
def wcond (s : St) : WKind → Bool
  | .restore f => match s.patches f with
      | some g => g.applied
      | none => false
  | _ => true

def allX (s : St) (pgs : List Nat) : Bool := pgs.all (fun pg => (s.perm pg).x)

/-- executing the code at `f` with argument `a` -/
def callAt (L : Layout) (s : St) (f a : Nat) : Option Nat :=
  if allX s (L.pages f) then
    match s.text f with
    | .pristine => some (L.orig f a)
    | .reloc g => some (L.orig g a)
    | .jump (.ret v) => some v
    | .jump (.cb k) => some (a + k)
    | .jump (.tab v) => some (if a = 1 then v + 1 else if a = 2 then v + 2 else v)
    | .jump (.tin v) => some (if a = 1 ∨ a = 2 then v + 5 else v)
    | .jump (.tov v) => some (if a = 1 then v + 1 else v + 2)
    | .jump (.cbo k) =>
      if allX s (L.pages (L.plh f)) then
        match s.text (L.plh f) with
        | .reloc g => some (L.orig g a + k)
        | _ => none
      else none
  else none

def setTh (s : St) (t : Tid) (h : Th) : St := { s with th := upd s.th t h }

def logAcc (s : St) (t : Tid) (v : Var) (wr : Bool) : St :=
  { s with acc := { t := t, v := v, write := wr, holdsP := s.lockP == some t,
                    holdsM := if wr then s.lockM == some t else (s.lockM == none || s.lockM == some t) } :: s.acc }

/-- one phase of WriteTo -/
def execW (L : Layout) (t : Tid) (k : WKind) (ws : WStep) (s : St) : St :=
  match ws with
  | .prot pg p => logAcc { s with perm := upd s.perm pg p } t .perm true
  | .copy =>
    let s := logAcc s t .text true
    match k with
    | .jump f => match s.patches f with
        | some g => { s with text := upd s.text f (.jump g.repl) }
        | none => { s with faults := (t, f) :: s.faults }
    | .restore f => match s.patches f with
        | some g => { s with text := upd s.text f g.originBytes }
        | none => { s with faults := (t, f) :: s.faults }
    | .tramp f => { s with text := upd s.text (L.plh f) (.reloc f) }

/-- table micro instructions (need patchesLock) -/
def execT (t : Tid) (mi : MI) (s : St) : St :=
  match mi with
  | .unregister f => logAcc { s with patches := upd s.patches f none } t .patches true
  | .register f r =>
    -- jumpdata.go:64 checkAndReadOriginBytes: RawRead under the read lock; NOP sentinel = already patched (error)
    let s1 := logAcc (logAcc s t .patches true) t .text false
    { s1 with patches := upd s.patches f (some { repl := r, originBytes := s.text f, applied := false }),
              faults := if s.text f = .pristine then s1.faults else (t, f) :: s1.faults }
  | .setApplied f =>
    let s := logAcc s t .patches true
    match s.patches f with
    | some g => { s with patches := upd s.patches f (some { g with applied := true }) }
    | none => { s with faults := (t, f) :: s.faults }
  | .write _ => s

/-- `When.Matches` turns a plain `Return(v)` mock into the table `tab v`; other replacements are not extended by the probe.
    `Content.jump r` stands for "jump to the replacement object whose CURRENT behaviour is r": the object is builder-private
    heap state, so changing it is neither a text write nor a patch-table access of the Go code. -/
def retabR : Repl → Repl
  | .ret v => .tab v
  | r => r

def retabC : Content → Content
  | .jump r => .jump (retabR r)
  | c => c

def retabG (g : Guard) : Guard := { g with repl := retabR g.repl }

/-- one scheduler slot for thread `t` -/
def step (L : Layout) (prog : Tid → List Sec) (t : Tid) (s : St) : St :=
  let h := s.th t
  match (prog t)[h.ip]? with
  | none => s                                            -- finished
  | some sec =>
    match h.cur with
    | none =>
      match sec with
      | .call f a =>
        setTh { s with calls := (t, h.ip, callAt L s f a) :: s.calls } t { h with ip := h.ip + 1 }
      | .retab f =>
        setTh { s with patches := upd s.patches f ((s.patches f).map retabG),
                       text := upd s.text f (retabC (s.text f)) } t { h with ip := h.ip + 1 }
      | _ =>
        if s.lockP = none then setTh { s with lockP := some t } t { h with cur := some 0 }    -- lock()
        else s                                                                                 -- blocked
    | some k =>
      match (bodyOf sec)[k]? with
      | none => setTh { s with lockP := none } t { ip := h.ip + 1, cur := none, w := none }    -- unlock()
      | some (.write wk) =>
        match h.w with
        | none =>
          if wcond (logAcc s t .patches false) wk then
            if s.lockM = none then setTh { logAcc s t .patches false with lockM := some t } t { h with w := some 0 }
            else s                                                                             -- blocked
          else setTh (logAcc s t .patches false) t { h with cur := some (k + 1) }              -- nothing to write
        | some j =>
          match (wscript L wk)[j]? with
          | none => setTh { s with lockM := none } t { h with cur := some (k + 1), w := none } -- Unlock()
          | some ws => setTh (execW L t wk ws s) t { h with w := some (j + 1) }
      | some mi => setTh (execT t mi s) t { h with cur := some (k + 1) }

def run (L : Layout) (prog : Tid → List Sec) : List Tid → St → St
  | [], s => s
  | t :: σ, s => run L prog σ (step L prog t s)

/-- start: nothing patched, all pages r-x, every thread at its first section -/
def init (text : Loc → Content) : St :=
  { lockP := none, lockM := none, patches := fun _ => none, text := text,
    perm := fun _ => { w := false, x := true }, th := fun _ => { ip := 0, cur := none, w := none },
    calls := [], acc := [], faults := [] }

def done (prog : Tid → List Sec) (s : St) (t : Tid) : Prop := (s.th t).ip ≥ (prog t).length ∧ (s.th t).cur = none

/-- locations a section may modify -/
def writesOf (L : Layout) : Sec → List Loc
  | .replace f _ wo => if wo then [f, L.plh f] else [f]
  | .apply f => [f]
  | .unpatch f => [f]
  | .call _ _ => []
  | .retab f => [f]

/-- locations a section reads or modifies -/
def mentionsOf (L : Layout) : Sec → List Loc
  | .replace f _ _ => [f, L.plh f]
  | .apply f => [f, L.plh f]
  | .unpatch f => [f, L.plh f]
  | .call f _ => [f, L.plh f]
  | .retab f => [f, L.plh f]

def Writes (L : Layout) (prog : Tid → List Sec) (t : Tid) (f : Loc) : Prop := ∃ sec ∈ prog t, f ∈ writesOf L sec
def Mentions (L : Layout) (prog : Tid → List Sec) (t : Tid) (f : Loc) : Prop := ∃ sec ∈ prog t, f ∈ mentionsOf L sec

/-- the hypothesis of the property: nobody writes what another thread touches -/
def Disjoint (L : Layout) (prog : Tid → List Sec) : Prop :=
  ∀ t u f, t ≠ u → Writes L prog u f → ¬ Mentions L prog t f

/-! ## builder-level programs (what the generator emits) -/

/-- builder API operations: `mock` = `Func(f).Return/Apply/Origin().Apply` (mocker.go:88-97 applyByFunc → proxy.Func →
    replaceFunc, then Guard.Apply); `chk` = the builder calls each of its own targets; `reset` = `Builder.Reset`
    (builder.go:200-208: every mocker's Cancel → UnpatchWithLock, also for mockers that were cancelled before) -/
inductive BOp
  | mock (f : Loc) (r : Repl) (wo : Bool)
  | chk
  | reset
  | ext (f : Loc)        -- `When.Matches(..)` on the existing plain-Return mock of `f` (only possible for a target mocked before)
  deriving DecidableEq, Repr, Inhabited

def insertSorted (x : Nat) : List Nat → List Nat
  | [] => [x]
  | y :: ys => if x < y then x :: y :: ys else if x = y then y :: ys else y :: insertSorted x ys

/-- `chk`: the builder calls each of its own targets with a default-hitting and a table-hitting argument -/
def chkSecs (tg : List Loc) : List Sec := tg.flatMap (fun f => [Sec.call f 3, Sec.call f 1])

/-- sections of a builder program; `m` = targets in the builder's mocker map so far -/
def compileOps (tg : List Loc) : List BOp → List Loc → List Sec
  | [], _ => []
  | .mock f r wo :: rest, m => [.replace f r wo, .apply f] ++ compileOps tg rest (insertSorted f m)
  | .chk :: rest, m => chkSecs tg ++ compileOps tg rest m
  | .reset :: rest, m => m.map Sec.unpatch ++ compileOps tg rest m
  | .ext f :: rest, m => (if f ∈ m then [Sec.retab f] else []) ++ compileOps tg rest m

def mockedAfter : List BOp → List Loc → List Loc
  | [], m => m
  | .mock f _ _ :: rest, m => mockedAfter rest (insertSorted f m)
  | _ :: rest, m => mockedAfter rest m

/-- the program class of the generator: any operation sequence, then `reset` and a final check of all own targets -/
def builderProg (tg : List Loc) (ops : List BOp) : List Sec :=
  compileOps tg ops [] ++ ((mockedAfter ops []).map Sec.unpatch ++ chkSecs tg)

end Conc
