/-! # Model of goom's conditional stubs (`when.go`, `matcher.go`, `arg/expr.go`, `arg/value.go`, `mocker.go:142`)

Transcription of the Go code over an abstract value universe: argument values and result tuples are opaque ids
(`Val`, `Res`), argument equality (`arg/equals.go: equal`, property C18) is the parameter `eqv`.  Types are not
modelled (every value is assumed to have the size/kind of its parameter); arities, the receiver, the variadic
tail, registration order, matcher aliasing (`curMatch`/`defaultReturns`/`matches` share pointers) and the
result cursor are.  Core Lean only. -/
namespace When

abbrev Val := Nat
abbrev Res := Nat

/-- One `reflect.Value` handed to the MakeFunc callback: an ordinary value, or the slice that packs the variadic tail. -/
inductive Arg where
  | one (v : Val)
  | pack (vs : List Val)
  | nilPack            -- the nil slice a compiled call `f(a)` passes when there is no variadic argument
  deriving Repr, DecidableEq

/-- Argument expression (`arg.Expr`): `arg.Any()`, a plain value (`arg.Equals`, `arg/value.go:140`), `arg.In(alts...)`
    after `InExpr.Resolve` (`arg/expr.go:69`): every alternative is a tuple of expressions. -/
inductive Spec where
  | any
  | val (v : Val)
  | isIn (alts : List (List Spec))
  deriving Repr

/-- The shape of the stubbed function as goom sees it: `nIn` parameters after dropping the receiver
    (`reflect.go:37 inTypes`), `funTyp.IsVariadic()`, `isMethod`, `NumOut`. -/
structure Sig where
  nIn : Nat
  variadic : Bool
  isMethod : Bool
  numOut : Nat
  deriving Repr, DecidableEq

/-- Panic / error classes (the probe maps the real messages to the same names). -/
inductive Err where
  | nosuitable   -- when.go:239 / mocker.go:152 "there is no suitable condition matched"
  | arglen       -- when.go:78 checkParams (erro.ArgsNotMatch)
  | retlen       -- when.go:80 checkParams (erro.ReturnsNotMatch "returns lenth not match")
  | whenerr      -- matcher.go:104 "Call When(...) error"
  | inerr        -- matcher.go:167 "create param match fail"
  | reterr       -- matcher.go:29,57 "Return Value (...) error"
  | reflect      -- a panic inside package reflect (Len of a non-slice)
  | runtime      -- nil dereference / index out of range
  | evalerr      -- when.go:229 "Call Eval(...) error" (arg.I2V count check)
  | unmodelled   -- input outside the modelled domain (never generated)
  deriving Repr, DecidableEq

/-! ## Expressions (`arg/expr.go`) -/

mutual
/-- `Expr.Eval([]reflect.Value{x}, false)`: `AnyExpr.Eval` (:31), `EqualsExpr.Eval` (:53; its error branch needs
    `len(input) != 1`, which no caller produces), `InExpr.Eval` (:98) on a single, already expanded argument. -/
def Spec.eval (eqv : Val → Val → Bool) : Spec → Val → Bool
  | .any, _ => true
  | .val v, x => eqv v x
  | .isIn alts, x => evalAlts eqv alts [x]
/-- inner loop of `InExpr.Eval` (:115) and of `DefaultMatcher.Match` (matcher.go:134): position by position. -/
def evalTuple (eqv : Val → Val → Bool) : List Spec → List Val → Bool
  | [], [] => true
  | e :: es, x :: xs => Spec.eval eqv e x && evalTuple eqv es xs
  | _, _ => false
/-- outer loop of `InExpr.Eval` (:111): the first alternative of the right length whose positions all match.
    (Repaired code: an alternative of another length is skipped; the unrepaired code returned false for the whole
    expression at the first such alternative.) -/
def evalAlts (eqv : Val → Val → Bool) : List (List Spec) → List Val → Bool
  | [], _ => false
  | one :: rest, xs => (one.length == xs.length && evalTuple eqv one xs) || evalAlts eqv rest xs
end

mutual
/-- `Expr.Resolve([]reflect.Type{typ}, false)` succeeds (arity part): a nested `arg.In` resolves each alternative with
    `ToExpr(param, [typ], false)` (`arg/expr.go:87`), which demands exactly one element (`arg/value.go:125`). -/
def Spec.resolves : Spec → Bool
  | .any => true
  | .val _ => true
  | .isIn alts => altsResolve1 alts
def tupleResolves : List Spec → Bool
  | [] => true
  | e :: es => Spec.resolves e && tupleResolves es
def altsResolve1 : List (List Spec) → Bool
  | [] => true
  | one :: rest => (one.length == 1 && tupleResolves one) && altsResolve1 rest
end

/-- `arg.ToExpr(args, types, isVariadic)` (`arg/value.go:116`), arity part: the length check and every element's `Resolve`. -/
def toExprOk (args : List Spec) (ntypes : Nat) (isVariadic : Bool) : Bool :=
  (if isVariadic then decide (ntypes - 1 ≤ args.length) else args.length == ntypes) && tupleResolves args

/-! ## Matchers (`matcher.go`) -/

inductive MKind where
  | dflt (exprs : List Spec)            -- DefaultMatcher
  | contains (alts : List (List Spec))  -- ContainsMatcher
  | always                              -- AlwaysMatcher
  | empty                               -- EmptyMatch (embedded *AlwaysMatcher is nil)
  | nilAlways                           -- `newAlwaysMatch(nil)`: a typed nil stored in the interface (when.go:161)
  deriving Repr

/-- `BaseMatcher`: the result tuples in order and the cursor `curNum`. -/
structure Matcher where
  kind : MKind
  results : List Res
  cur : Nat
  deriving Repr

/-- One alternative as the user writes it in `When.In(...)`: `[]interface{}{...}`, a bare value/expression, or a
    typed slice standing for the variadic tail. -/
inductive Alt where
  | tuple (xs : List Spec)
  | bare (x : Spec)
  | slice (vs : List Val)
  deriving Repr

/-- `newDefaultMatch` (matcher.go:93): for a variadic function the type list is the fixed parameters followed by as
    many element types as needed, then `ToExpr(args, argsTypes, false)`. -/
def newDefaultMatch (sig : Sig) (args : List Spec) (results : List Res) : Except Err Matcher :=
  let ntypes := if sig.variadic then max (sig.nIn - 1) args.length else sig.nIn
  if toExprOk args ntypes false then .ok { kind := .dflt args, results := results, cur := 0 }
  else .error .whenerr

/-- `InExpr.Resolve(types, isVariadic)` (arg/expr.go:69): alternative `i` is a tuple as written; a typed slice — for a
    variadic function and `i >= len(types)-1` — is expanded by reflection into one expression per element; every other
    value or expression is a 1-tuple (repaired: the unrepaired code tried to expand *any* value there). -/
def resolveIn (sig : Sig) : Nat → List Alt → Except Err (List (List Spec))
  | _, [] => .ok []
  | i, a :: rest => do
    let param ← match a with
      | .tuple xs => pure xs
      | .bare x => pure [x]
      | .slice vs => if sig.variadic && decide (sig.nIn - 1 ≤ i) then pure (vs.map Spec.val) else throw Err.unmodelled
    if toExprOk param sig.nIn sig.variadic then
      let r ← resolveIn sig (i + 1) rest
      pure (param :: r)
    else throw Err.inerr

/-- `newContainsMatch` (matcher.go:158). -/
def newContainsMatch (sig : Sig) (alts : List Alt) (results : List Res) : Except Err Matcher := do
  let e ← resolveIn sig 0 alts
  pure { kind := .contains e, results := results, cur := 0 }

/-- ordinary (non-slice) arguments as values; a packed slice anywhere but last is outside the model -/
def ones : List Arg → Except Err (List Val)
  | [] => .ok []
  | .one v :: r => match ones r with | .ok vs => .ok (v :: vs) | .error e => .error e
  | .pack _ :: _ => .error .unmodelled
  | .nilPack :: _ => .error .unmodelled

/-- What `Match` does to the callback's arguments before looking at expressions: `args[1:]` for a method
    (matcher.go:116,178), and for a variadic function the **last** argument — the packed tail — is expanded element
    by element (matcher.go:119, arg/expr.go:99, repaired code; `reflect.Value.Len` panics on a non-slice). -/
def normalize (sig : Sig) (args : List Arg) : Except Err (List Val) :=
  let args := if sig.isMethod then args.drop 1 else args
  if sig.variadic && !args.isEmpty then
    match args.getLast? with
    | some (.pack vs) => do let f ← ones args.dropLast; pure (f ++ vs)
    | some .nilPack => ones args.dropLast      -- `reflect.ValueOf([]T(nil)).Len()` is 0: nothing is appended
    | some (.one _) => throw Err.reflect
    | none => throw Err.unmodelled
  else ones args

/-- `Matcher.Match`: `DefaultMatcher.Match` (matcher.go:115: length check, then position by position),
    `ContainsMatcher.Match` (:177), `AlwaysMatcher.Match` (:205). -/
def Matcher.matchArgs (eqv : Val → Val → Bool) (sig : Sig) (m : Matcher) (args : List Arg) : Except Err Bool :=
  match m.kind with
  | .dflt exprs => do
    let xs ← normalize sig args
    pure (if xs.length != exprs.length then false else evalTuple eqv exprs xs)
  | .contains alts => do
    let xs ← normalize sig args
    pure (evalAlts eqv alts xs)
  | .always => pure true
  | .empty => pure true
  | .nilAlways => pure true

/-- What a call produces. -/
inductive Out where
  | ret (r : Res)   -- the result tuple with id `r`
  | unit            -- `EmptyMatch.Result`: no results
  deriving Repr, DecidableEq

/-- `BaseMatcher.Result` (matcher.go:40) / `EmptyMatch.Result` (:73): the result and the new cursor. -/
def Matcher.result (m : Matcher) : Except Err (Out × Matcher) :=
  match m.kind with
  | .empty => .ok (.unit, m)
  | .nilAlways => .error .runtime
  | _ =>
    let n := m.results.length
    if n ≤ 1 then
      match m.results[m.cur]? with
      | some r => .ok (.ret r, m)
      | none => .error .runtime
    else if m.cur ≥ n then
      match m.results[n - 1]? with
      | some r => .ok (.ret r, m)
      | none => .error .runtime
    else
      match m.results[m.cur]? with
      | some r => .ok (.ret r, { m with cur := m.cur + 1 })
      | none => .error .runtime

/-- `BaseMatcher.AddResult` (matcher.go:54): `arg.I2V(results, outTypes, false)` demands exactly `NumOut` values. -/
def Matcher.addResult (sig : Sig) (m : Matcher) (cnt : Nat) (r : Res) : Except Err Matcher :=
  match m.kind with
  | .empty => .error .runtime
  | .nilAlways => .error .runtime
  | _ => if cnt != sig.numOut then .error .reterr else .ok { m with results := m.results ++ [r] }

/-! ## The `When` object (`when.go`) -/

/-- `When`: matcher objects live in `store` (Go pointers), `matches`, `dflt` (`defaultReturns`) and `cur`
    (`curMatch`) refer to them by id, so the aliasing of the Go code is preserved. -/
structure W where
  sig : Sig
  store : Nat → Option Matcher
  next : Nat
  ms : List Nat      -- `matches`, in registration order
  dflt : Option Nat
  cur : Option Nat

def W.alloc (w : W) (m : Matcher) : W × Nat :=
  ({ w with store := fun i => if i = w.next then some m else w.store i, next := w.next + 1 }, w.next)

def W.set (w : W) (id : Nat) (m : Matcher) : W :=
  { w with store := fun i => if i = id then some m else w.store i }

def W.get (w : W) (id : Nat) : Except Err Matcher :=
  match w.store id with
  | some m => .ok m
  | none => .error .unmodelled

/-- `newAlwaysMatch(results, funTyp)` (matcher.go:194) with `newBaseMatcher` (:21): a nil slice gives a typed nil;
    a non-nil list (possibly empty) goes through `arg.I2V`, which demands exactly `NumOut` values. -/
def newAlwaysMatch (sig : Sig) (isNil : Bool) (cnt : Nat) (r : Res) : Except Err Matcher :=
  if isNil then .ok { kind := .nilAlways, results := [], cur := 0 }
  else if cnt != sig.numOut then .error .reterr
  else .ok { kind := .always, results := [r], cur := 0 }

/-- `CreateWhen` (when.go:41) with `checkParams` (:78).  `args = none` is a nil slice (`When()` without arguments,
    or a mocker-level `Return`); `defaults = none` is a nil slice, `some (cnt, r)` a non-nil list of `cnt` values
    (the mockers' `Return` turns "no values" into the empty list, mocker.go:301,560, so the count test applies). -/
def createWhen (sig : Sig) (args : Option (List Spec)) (defaults : Option (Nat × Res)) : Except Err W := do
  match defaults with
  | some (cnt, _) => if cnt < sig.numOut then throw Err.retlen
  | none => pure ()
  match args with
  | some a => if a.length < (if sig.variadic then sig.nIn - 1 else sig.nIn) then throw Err.arglen   -- the variadic slot may stay empty
  | none => pure ()
  let w0 : W := { sig := sig, store := fun _ => none, next := 0, ms := [], dflt := none, cur := none }
  let w1 ← match defaults with
    | some (cnt, r) => do
      let m ← newAlwaysMatch sig false cnt r
      let (w, id) := w0.alloc m
      pure { w with dflt := some id, cur := some id }
    | none =>
      if sig.numOut = 0 then
        let (w, id) := w0.alloc { kind := .empty, results := [], cur := 0 }
        pure { w with dflt := some id, cur := some id }
      else pure w0
  match args with
  | some a => do
    let m ← newDefaultMatch sig a []
    let (w, id) := w1.alloc m
    pure { w with cur := some id }
  | none => pure w1

/-- `When.When` (when.go:121). -/
def W.when (w : W) (specs : List Spec) : Except Err W := do
  let m ← newDefaultMatch w.sig specs []
  let (w, id) := w.alloc m
  pure { w with cur := some id }

/-- `When.In` (when.go:139). -/
def W.isIn (w : W) (alts : List Alt) : Except Err W := do
  let m ← newContainsMatch w.sig alts []
  let (w, id) := w.alloc m
  pure { w with cur := some id }

/-- `When.Return` (when.go:145); `cnt` values were passed, forming result tuple `r`. -/
def W.ret (w : W) (cnt : Nat) (r : Res) : Except Err W :=
  match w.cur with
  | some id => do
    let m ← w.get id
    let m ← m.addResult w.sig cnt r
    pure { w.set id m with ms := w.ms ++ [id] }
  | none =>
    match w.dflt with
    | none => do
      let m ← newAlwaysMatch w.sig (cnt == 0) cnt r   -- `w.Return()` without values: a nil slice
      let (w, id) := w.alloc m
      pure { w with dflt := some id }
    | some id => do
      let m ← w.get id
      let m ← m.addResult w.sig cnt r
      pure (w.set id m)

/-- `When.AndReturn` (when.go:162). -/
def W.andRet (w : W) (cnt : Nat) (r : Res) : Except Err W :=
  match w.cur with
  | none => w.ret cnt r
  | some id => do
    let m ← w.get id
    let m ← m.addResult w.sig cnt r
    pure (w.set id m)

/-- `When.Returns` (when.go:195): the first value through `Return`, the others through `AndReturn`. -/
def W.returns (w : W) : List Res → Except Err W
  | [] => .ok w
  | r :: rs => do
    let w ← w.ret w.sig.numOut r
    rs.foldlM (fun w r => w.andRet w.sig.numOut r) w

/-- `When.Matches` (when.go:171): per pair a fresh `DefaultMatcher` carrying the pair's results is appended;
    `curMatch` and the default are left alone. -/
def W.matchPairs (w : W) : List (List Spec × Res) → Except Err W
  | [] => .ok w
  | (args, r) :: rest => do
    let m ← newDefaultMatch w.sig args [r]
    let (w, id) := w.alloc m
    W.matchPairs { w with ms := w.ms ++ [id] } rest

/-- the loop of `When.invoke` (when.go:214): the first matcher in registration order whose `Match` is true. -/
def W.scan (eqv : Val → Val → Bool) (w : W) (args : List Arg) : List Nat → Except Err (Option Nat)
  | [] => .ok none
  | id :: rest => do
    let m ← w.get id
    if (← m.matchArgs eqv w.sig args) then pure (some id) else W.scan eqv w args rest

/-- `When.invoke` (when.go:214) with `returnDefaults` (:237), as called from `baseMocker.callback`
    (mocker.go:142; its trailing panic needs `m.when == nil`).  Returns the outcome and the state with the advanced
    cursor. -/
def W.invoke (eqv : Val → Val → Bool) (w : W) (args : List Arg) : Except Err (Out × W) := do
  match (← W.scan eqv w args w.ms) with
  | some id => do
    let m ← w.get id
    let (o, m) ← m.result
    pure (o, w.set id m)
  | none =>
    match w.dflt with
    | none => if w.sig.numOut != 0 then throw Err.nosuitable else throw Err.runtime
    | some id => do
      let m ← w.get id
      let (o, m) ← m.result
      pure (o, w.set id m)

/-- How a real call of the stubbed function reaches the callback: receiver first for a method, the fixed
    parameters, then the variadic tail packed into one slice (`nilTail`: the caller is a compiled call site, which
    passes a nil slice when there is no variadic argument). -/
def encodeCallG (nilTail : Bool) (sig : Sig) (recv : Val) (xs : List Val) : List Arg :=
  let tail := xs.drop (sig.nIn - 1)
  let body := if sig.variadic then
                (xs.take (sig.nIn - 1)).map Arg.one ++ [if nilTail && tail.isEmpty then Arg.nilPack else Arg.pack tail]
              else xs.map Arg.one
  if sig.isMethod then Arg.one recv :: body else body

/-- a call through `reflect.Value.Call` / `When.Eval`: the tail slice is never nil -/
def encodeCall (sig : Sig) (recv : Val) (xs : List Val) : List Arg := encodeCallG false sig recv xs

/-- a compiled call site: an empty tail is the nil slice -/
def encodeCallDirect (sig : Sig) (recv : Val) (xs : List Val) : List Arg := encodeCallG true sig recv xs

/-- `When.Eval` (when.go:226, repaired): `arg.I2V` checks the count, then the arguments are shaped like a real call
    (variadic tail packed, a placeholder receiver for methods) before `invoke`. -/
def W.evalCall (eqv : Val → Val → Bool) (w : W) (xs : List Val) : Except Err (Out × W) :=
  let okLen := if w.sig.variadic then decide (w.sig.nIn - 1 ≤ xs.length) else xs.length == w.sig.nIn
  if !okLen then .error .evalerr else w.invoke eqv (encodeCall w.sig 0 xs)

/-! ## Scripts: what a user writes, clause by clause -/

inductive Clause where
  | ret (cnt : Nat) (r : Res)
  | when (specs : Option (List Spec))   -- `none`: `When()` without arguments (a nil slice at creation)
  | isIn (alts : List Alt)
  | andRet (r : Res)
  | returns (rs : List Res)
  | matchPairs (ps : List (List Spec × Res))
  deriving Repr

/-- The first clause goes through the mocker (`DefMocker.When/Return/Returns`, mocker.go, likewise `MethodMocker`
    and the interface mocker), which creates the `When`.  A first `Returns()` without any value is routed through
    `Return()` (mocker.go:323,584): it is checked against the result count.  The mockers offer no `In` before a
    `When`/`Return`; `.isIn` as first clause is `CreateWhen(.., nil, nil, ..)` used directly followed by `In`. -/
def first (sig : Sig) : Clause → Except Err W
  | .ret cnt r => createWhen sig none (some (cnt, r))
  | .when specs => createWhen sig specs none
  | .isIn alts => do let w ← createWhen sig none none; w.isIn alts
  | .returns [] => createWhen sig none (some (0, 0))
  | .returns rs => do
    if sig.numOut = 0 then throw Err.unmodelled
    let w ← createWhen sig none none; w.returns rs
  | .andRet _ => .error .unmodelled
  | .matchPairs _ => .error .unmodelled

def W.step (w : W) : Clause → Except Err W
  | .ret cnt r => w.ret cnt r
  | .when specs => w.when (specs.getD [])
  | .isIn alts => w.isIn alts
  | .andRet r => w.andRet w.sig.numOut r
  | .returns rs => if w.sig.numOut = 0 then .error .unmodelled else w.returns rs
  | .matchPairs ps => if w.sig.numOut = 0 then .error .unmodelled else w.matchPairs ps

def W.steps (w : W) : List Clause → Except Err W
  | [] => .ok w
  | c :: cs => do let w ← w.step c; w.steps cs

/-! ## Histories: registration and calls interleave on the live `When` -/

inductive Step where
  | clause (c : Clause)
  | call (nilTail : Bool) (recv : Val) (xs : List Val)

/-- what an observer sees per step: a clause is accepted (`ok`) or panics (and the script stops); a call returns or
    panics, the panic is recovered by the caller and the stub stays installed with its state unchanged -/
inductive Obs where
  | ok
  | out (o : Out)
  | panic (e : Err)
  | stop
  deriving Repr, DecidableEq

/-- one step: what is observed, and the state afterwards (`none`: the script stopped at a refused clause) -/
def W.stepObs (eqv : Val → Val → Bool) (w : W) : Step → List Obs × Option W
  | .clause c =>
    match w.step c with
    | .ok w' => ([.ok], some w')
    | .error e => ([.panic e, .stop], none)
  | .call nt recv xs =>
    match w.invoke eqv (encodeCallG nt w.sig recv xs) with
    | .ok (o, w') => ([.out o], some w')
    | .error e => ([.panic e], some w)

def W.run (eqv : Val → Val → Bool) : W → List Step → List Obs
  | _, [] => []
  | w, s :: rest =>
    match w.stepObs eqv s with
    | (obs, some w') => obs ++ W.run eqv w' rest
    | (obs, none) => obs

def build (sig : Sig) : List Clause → Except Err W
  | [] => .error .unmodelled
  | c :: cs => do let w ← first sig c; w.steps cs

end When
