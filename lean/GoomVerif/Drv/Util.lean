/-! Line-protocol helpers shared by all driver modules (core Lean only, so `goomdrv` links). -/
namespace Drv

def hexDigit (c : Char) : Option Nat :=
  if '0' ≤ c ∧ c ≤ '9' then some (c.toNat - '0'.toNat)
  else if 'a' ≤ c ∧ c ≤ 'f' then some (c.toNat - 'a'.toNat + 10)
  else if 'A' ≤ c ∧ c ≤ 'F' then some (c.toNat - 'A'.toNat + 10)
  else none

def parseHexDigits (s : List Char) : Option Nat :=
  if s.isEmpty then none else
  s.foldl (fun acc c => do let a ← acc; let d ← hexDigit c; pure (a * 16 + d)) (some 0)

/-- decimal, or hex with `0x` prefix; optional leading `-` yields an `Int` -/
def parseNat (s : String) : Option Nat :=
  match s.toList with
  | '0' :: 'x' :: rest => parseHexDigits rest
  | _ => s.toNat?

def parseInt (s : String) : Option Int :=
  match s.toList with
  | '-' :: rest => (parseNat (String.ofList rest)).map (fun n => - (n : Int))
  | _ => (parseNat s).map (fun n => (n : Int))

def parseBytes (s : String) : Option (List (BitVec 8)) :=
  let rec go : List Char → Option (List (BitVec 8))
    | [] => some []
    | a :: b :: rest => do
      let x ← hexDigit a; let y ← hexDigit b
      let r ← go rest
      pure (BitVec.ofNat 8 (x * 16 + y) :: r)
    | _ => none
  if s = "-" then some [] else go s.toList

def hexChar (n : Nat) : Char := if n < 10 then Char.ofNat (48 + n) else Char.ofNat (87 + n)

def hexByte (b : BitVec 8) : String := String.ofList [hexChar (b.toNat / 16), hexChar (b.toNat % 16)]

def hexBytes (bs : List (BitVec 8)) : String :=
  if bs.isEmpty then "-" else String.join (bs.map hexByte)

def hexNat (n : Nat) : String := "0x" ++ String.ofList (Nat.toDigits 16 n)

def hex64 (x : BitVec 64) : String := hexNat x.toNat

def words (line : String) : List String :=
  (line.splitOn " ").filter (· ≠ "")

end Drv
