import GoomVerif.Drv.Util
import GoomVerif.Model.Patch
/-! Driver for C02: one whole history per line

  `c02.hist T=<size>:<hex16>,.. K=<addr>,.. P=<size>,.. X=<rows of 0, 1 or dash> | <builders> | step ; step ; ...`

  steps: `a b via t k [o]` apply callback k, `r|w b via t v [o]` Return / When(..).Return, `c b via t` Cancel, `x b` Reset;
  via ∈ f (Func) e (ExportFunc) m (Struct.Method) u (Struct.ExportMethod) v (Func of a method value, the `-fm` by-name path);
  `K b` keeps `sm := b.Struct(x)`; `sa|sr|sw|sc|sk b via t ..` are a/r/w/c/k through the kept struct mocker (via m or u);
  `k b via t` looks the mocker up and keeps the handle, `A b via t k` / `R b via t v` / `C b via t` act through the kept handle.
  Answer: per step `<ok|panic:class> d=<symbolic diff of .text> b=<behaviour of every target> n=<neighbours>`, then
  `end d=<diff after Reset of every builder>`. -/
namespace Drv.C02
open Patch

structure DEnv where
  env : Env
  nT : Nat
  nP : Nat
  nB : Nat

def listGet {α} (l : List α) (d : α) (i : Nat) : α := (l[i]?).getD d

def drop2 (s : String) : String := String.ofList (s.toList.drop 2)

def parseT (s : String) : Option (List (Nat × Bytes)) :=
  (s.splitOn ",").mapM (fun e =>
    match e.splitOn ":" with
    | [sz, hx] => do let n ← sz.toNat?; let bs ← parseBytes hx; pure (n, bs)
    | _ => none)

def parseEnv (t k p x : String) : Option DEnv := do
  let ts ← parseT (drop2 t)
  let ks ← ((drop2 k).splitOn ",").mapM parseNat
  let ps ← ((drop2 p).splitOn ",").mapM String.toNat?
  let xs := ((drop2 x).splitOn ",").map (fun r => r.toList)
  if !(t.startsWith "T=" && k.startsWith "K=" && p.startsWith "P=" && x.startsWith "X=") then none
  if ts.any (fun e => e.2.length != 16) then none
  let env : Env := {
    pristine := fun f => (listGet ts (0, List.replicate 16 0#8) f).2   -- EnvOk holds of this instance (functions outside the corpus: 16 bytes)
    funcSize := fun f => (listGet ts (0, []) f).1
    phSize := fun o => listGet ps 0 o
    fixOk := fun f o => listGet (listGet xs [] f) '0' o == '1'
    cbAddr := fun i => BitVec.ofNat 64 (listGet ks 0 i)
    stubAddr := fun n => BitVec.ofNat 64 (0xc000000000 + 16 * n)
    generic := fun f => f == 5 || f == 18                              -- the two instantiations of G5 (harness/c02/generic.go)
    adaptAddr := fun n => BitVec.ofNat 64 (0xd000000000 + 16 * n) }
  pure { env := env, nT := ts.length, nP := ps.length, nB := 0 }

def nCb : Nat := 20

/-- `NOP; MOV RDX, imm64; JMP [RDX]` → `jmp(k<i>)` / `jmp(heap)`, anything else raw -/
def canon13 (d : DEnv) (b : Bytes) : String :=
  match b with
  | [b0, b1, b2, i0, i1, i2, i3, i4, i5, i6, i7, b11, b12] =>
    if b0 = 0x90#8 ∧ b1 = 0x48#8 ∧ b2 = 0xba#8 ∧ b11 = 0xff#8 ∧ b12 = 0x22#8 then
      let imm := [i7, i6, i5, i4, i3, i2, i1, i0].foldl (fun acc x => acc * 256 + x.toNat) 0
      match (List.range nCb).find? (fun k => (d.env.cbAddr k).toNat = imm) with
      | some k => s!"jmp(k{k % 4})"
      | none => "jmp(heap)"
    else s!"raw({hexBytes b})"
  | _ => s!"raw({hexBytes b})"

def diffStr (d : DEnv) (s : St) : String :=
  let fs := (List.range d.nT).filterMap (fun f =>
    let cur := s.text f
    let pr := d.env.pristine f
    if cur = pr then none
    else if cur.length = pr.length ∧ cur.drop 13 = pr.drop 13 then some s!"f{f}={canon13 d (cur.take 13)}"
    else some s!"f{f}!")
  let os := (List.range d.nP).filterMap (fun o => if (s.ph o).isSome then some s!"o{o}" else none)
  let all := fs ++ os
  if all.isEmpty then "-" else String.intercalate "," all

def behStr (d : DEnv) (s : St) : String :=
  let bs := (List.range d.nT).map (fun f =>
    match behaviour d.env s nCb f with
    | .orig => "o"
    | .cb k => s!"c{k % 4}"
    | .stub _ => "s"
    | .unknown => "?")
  "b=" ++ String.intercalate "," bs ++ " n=o,o,o"

def viaCode : String → Option Nat
  | "f" => some 0 | "e" => some 1 | "m" => some 2 | "u" => some 3 | "v" => some 4 | "x" => some 5 | "p" => some 6 | _ => none

/-- corpus layout (harness/c02/targets.go): 0–6 functions (5 generic at int), 7–9 methods of T, 10–11 function literals,
    12–16 methods of L, 17 method M7 of the namesake type T of the second package, 18 the generic instantiated at int64,
    19 the unexported namesake u4 of the second package (reachable through `b.Pkg(path).ExportFunc("u4")`, via p, only),
    20 a function whose loop head lies in its first 13 bytes (relocation into a placeholder is refused by an error return) -/
def isTMethod (t : Nat) : Bool := t ≥ 7 && t ≤ 9
def isLMethod (t : Nat) : Bool := t ≥ 12 && t ≤ 16
def isSMethod (t : Nat) : Bool := t == 17
def isGeneric (t : Nat) : Bool := t == 5 || t == 18
def isMethod (t : Nat) : Bool := isTMethod t || isLMethod t || isSMethod t
def isLiteral (t : Nat) : Bool := t == 10 || t == 11

/-- index of callback class k with the target's signature in the K list (functions; methods of T; of L; of the namesake T; int64) -/
def cbIndex (t k : Nat) : Nat :=
  if isTMethod t then 4 + k else if isLMethod t then 8 + k else if isSMethod t then 12 + k else if t == 18 then 16 + k else k

/-- vias m (Struct(x).Method), u (Struct(x).ExportMethod) and x (ExportStruct("*T").Method) go through a struct-level mocker
    of the builder.  Go keeps one such wrapper per struct type / name; none of them is ever replaced (`scanceled_never`), so
    they are modelled as ONE cache owner per builder with disjoint key spaces (via code and target index are in the key). -/
def isStructVia (v : Nat) : Bool := v == 2 || v == 3 || v == 5

def parseStep (d : DEnv) (toks : List String) : Option Op :=
  let chk (b t : Nat) (via : Nat) (o : Option Nat) : Bool :=
    b < d.nB && t < d.nT && via < 7 && ((via == 6) == (t == 19)) &&
    (via == 6 || via == 0 || (via == 1 && !isLiteral t && !isGeneric t && !isSMethod t) || (via == 2 && (isTMethod t || isSMethod t)) ||
      ((via == 3 || via == 5) && isTMethod t) || (via == 4 && isMethod t)) &&
    (!isLiteral t || via == 0) &&                                                      -- a func literal is reachable through Func(variable) only
    (match o with | some j => j < d.nP && ((j == 3) == isTMethod t) && !isLMethod t && !isSMethod t && t != 18 && t != 19 | none => true)
  -- `kept`: through the kept struct mocker (tokens sa/sr/sw/sc/sk) instead of a fresh Struct(x) lookup
  let mk (kind : String) (kept : Bool) (b v t k : Nat) (o : Option Nat) : Option Op :=
    let key := v * 1000 + t
    let kk := cbIndex t k
    if kept && !((v == 2 || v == 3) && isTMethod t) then none else
    match kind with
    | "a" => if k < 4 then some (if isStructVia v then .sapply b key kk o kept else .apply b key kk o) else none
    | "r" => some (if isStructVia v then .sret b key o kept else .ret b key o)
    | "w" => if isMethod t && v != 2 then none else some (if isStructVia v then .sret b key o kept else .ret b key o)
    | "c" => some (if isStructVia v then .scancel b key kept else .cancel b key)
    | "k" => some (if isStructVia v then .skeep b key kept else .keep b key)
    | _ => none
  match toks with
  | ["x", b] => do let b ← b.toNat?; if b < d.nB then pure (.reset b) else none
  | ["K", b] => do let b ← b.toNat?; if b < d.nB then pure (.keepS b) else none
  | ["Y", b] => do let b ← b.toNat?; if b < d.nB then pure (.other b) else none
  | ["ab", b, "f", t] => do
    let b ← b.toNat?; let t ← t.toNat?
    if b < d.nB && t < d.nT then pure (.applyBad b t) else none
  | [kind, b, via, t] => do
    let b ← b.toNat?; let v ← viaCode via; let t ← t.toNat?
    if !chk b t v none then none
    match kind with
    | "c" => mk "c" false b v t 0 none
    | "k" => mk "k" false b v t 0 none
    | "sc" => mk "c" true b v t 0 none
    | "sk" => mk "k" true b v t 0 none
    | "C" => pure (.cancelH b (v * 1000 + t))
    | _ => none
  | kind :: b :: via :: t :: k :: rest => do
    let b ← b.toNat?; let v ← viaCode via; let t ← t.toNat?; let k ← k.toNat?
    let o ← match rest with
      | [] => some none
      | [o] => o.toNat?.map some
      | _ => none
    if !chk b t v o then none
    match kind with
    | "A" => if k < 4 && o.isNone then pure (.applyH b (v * 1000 + t) (cbIndex t k)) else none
    | "R" => if o.isNone then pure (.retH b (v * 1000 + t)) else none
    | "a" => mk "a" false b v t k o
    | "r" => mk "r" false b v t k o
    | "w" => mk "w" false b v t k o
    | "sa" => mk "a" true b v t k o
    | "sr" => mk "r" true b v t k o
    | "sw" => mk "w" true b v t k o
    | _ => none
  | _ => none

def errStr : Err → String
  | .tooSmall => "panic:too-small"
  | .alreadyPatched => "panic:already-patched"
  | .fixOrigin => "panic:fix-origin"
  | .rejected => "panic:rejected"

def splitSteps (toks : List String) : List (List String) :=
  let (acc, cur) := toks.foldl (fun (p : List (List String) × List String) t =>
    if t = ";" then (p.2.reverse :: p.1, []) else (p.1, t :: p.2)) ([], [])
  (if cur.isEmpty then acc else cur.reverse :: acc).reverse

def runHist (d : DEnv) (steps : List (List String)) : String :=
  let rec go (s : St) (steps : List (List String)) (acc : List String) : St × List String × Bool :=
    match steps with
    | [] => (s, acc, true)
    | st :: rest =>
      match parseStep d st with
      | none => (s, "bad-op" :: acc, false)
      | some op =>
        -- operations through a kept handle need a handle
        let noHandle := match op with
          | .applyH b key _ => (s.handle b key).isNone
          | .retH b key => (s.handle b key).isNone
          | .cancelH b key => (s.handle b key).isNone
          | .sapply b _ _ _ true => (s.shandle b).isNone
          | .sret b _ _ true => (s.shandle b).isNone
          | .scancel b _ true => (s.shandle b).isNone
          | .skeep b _ true => (s.shandle b).isNone
          | _ => false
        if noHandle then (s, "bad-op" :: acc, false) else
        let (s1, e) := step d.env s op
        let r := match e with | none => "ok" | some e => errStr e
        go s1 rest (s!"{r} d={diffStr d s1} {behStr d s1}" :: acc)
  let (s, acc, _) := go (init d.env) steps []
  let sEnd := (List.range d.nB).foldl (fun s b => (step d.env s (.reset b)).1) s
  String.intercalate " ; " ((s!"end d={diffStr d sEnd}" :: acc).reverse)

def handle (toks : List String) : Option String :=
  match toks with
  | "c02.hist" :: t :: k :: p :: x :: "|" :: nb :: "|" :: rest =>
    match parseEnv t k p x, nb.toNat? with
    | some d, some n => if n ≥ 1 ∧ n ≤ 8 then some (runHist { d with nB := n } (splitSteps rest)) else some "bad-op"
    | _, _ => some "bad-op"
  | "c02.hist" :: _ => some "bad-op"
  | _ => none

end Drv.C02
