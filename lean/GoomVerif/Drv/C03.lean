import GoomVerif.Drv.Util
import GoomVerif.Model.Reloc
/-! Driver for C03 (pure layer).

    c03.reloc[.legacy] <from> <funcSize> <least> <e|b> <tramp,tramp,…> <ins> <ins> …
        ins = len:pcrelOff:pcrel:flags:hexbytes     flags ⊆ {r,c,b,z} or `-`
        → one result per trampoline position joined by " | ":  ok n=<n> out=<hex>  |  err:<class>  |  panic:<class>
    c03.fixorigin[.legacy] <from> <tramp> <trampSize> <ins> …     (whole function, jumpInstSize = 13)
        → ok data=<hex> | err:<class> | panic:<class>
    Lines whose instruction list is outside the modelled domain (len ≠ |bytes|, len = 0, field not inside the
    instruction) are answered `bad-op`, never with a default. -/
namespace Drv.C03
open Reloc

def parseIns (s : String) : Option Ins :=
  match s.splitOn ":" with
  | [l, o, p, fl, bs] => do
    let len ← l.toNat?
    let off ← o.toNat?
    let pc ← p.toNat?
    let bytes ← parseBytes bs
    let f := fl.toList
    if f.any (fun ch => !(ch == 'r' || ch == 'c' || ch == 'b' || ch == 'z' || ch == '-')) then none
    else if len = 0 || bytes.length != len || off + pc > len then none
    else some { len := len, pcrelOff := off, pcrel := pc, bytes := bytes, isRet := f.contains 'r', isCall := f.contains 'c',
                backward := f.contains 'b', opZero := f.contains 'z' }
  | _ => none

def parseProg (ts : List String) : Option (List Ins) := ts.mapM parseIns

def parseTail (s : String) : Option Tail :=
  if s = "e" then some .eof else if s = "b" then some .bad else none

def showRes : Except String (Bytes × Nat) → String
  | .ok (out, n) => s!"ok n={n} out={hexBytes out}"
  | .error e => e

def reloc (c : Cfg) (f fs least tl tramps : String) (rest : List String) : String :=
  match parseNat f, parseNat fs, parseNat least, parseTail tl, (tramps.splitOn ",").mapM parseNat, parseProg rest with
  | some fn, some fsz, some le, some t, some trs, some prog =>
    if trs.isEmpty then "bad-op" else
    String.intercalate " | " (trs.map fun tr =>
      showRes (fixRelativeAddr c (BitVec.ofNat 64 fn) (BitVec.ofNat 64 tr) fsz le t prog))
  | _, _, _, _, _, _ => "bad-op"

def fixorigin (c : Cfg) (f tr ts : String) (rest : List String) : String :=
  match parseNat f, parseNat tr, parseNat ts, parseProg rest with
  | some fn, some trn, some tsz, some prog =>
    match fixOrigin c (BitVec.ofNat 64 fn) (BitVec.ofNat 64 trn) tsz 13 prog with
    | .ok d => s!"ok data={hexBytes d}"
    | .error e => e
  | _, _, _, _ => "bad-op"

def handle (toks : List String) : Option String :=
  match toks with
  | "c03.reloc" :: f :: fs :: least :: tl :: tramps :: rest => some (reloc Cfg.fixed f fs least tl tramps rest)
  | "c03.reloc.legacy" :: f :: fs :: least :: tl :: tramps :: rest => some (reloc Cfg.legacy f fs least tl tramps rest)
  | "c03.fixorigin" :: f :: tr :: ts :: rest => some (fixorigin Cfg.fixed f tr ts rest)
  | "c03.fixorigin.legacy" :: f :: tr :: ts :: rest => some (fixorigin Cfg.legacy f tr ts rest)
  | "c03.reloc" :: _ => some "bad-op"
  | "c03.reloc.legacy" :: _ => some "bad-op"
  | "c03.fixorigin" :: _ => some "bad-op"
  | "c03.fixorigin.legacy" :: _ => some "bad-op"
  | _ => none

end Drv.C03
