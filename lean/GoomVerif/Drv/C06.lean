import GoomVerif.Drv.Util
import GoomVerif.Model.Method
/-! Driver for C06.

    `c06.hist <step>.. | <entry>.. | <sym>..`
      step  := `SM~pkg~T~ptr~m~eid` | `SX~pkg~T~ptr~m~eid` | `ES~pkg~raw~m~eid` | `EC~pkg~raw~m~eid` | `R`   (ptr is 0/1;
               `eid` tells the Go probe which generated closure supplies the static Go types and is ignored here;
               `EC` = `ES` without the `Pkg(..)` call: the probe checks that the builder's current package is `pkg`)
      entry := `pkg~T~ptr~m~shape~np`   (shape `-` for an ordinary type); entry id = position
      sym   := a function name of the probe binary (table order)
    answer: `r=<ok|err:cls|nf:name>,.. hit=<id:k:r+:a+|a->,.. after=clean|dirty` -/
namespace Drv.C06
open Method

def splitTilde (s : String) : List String := s.splitOn "~"

def parseStep (t : String) : Option Step :=
  match splitTilde t with
  | ["SM", pkg, ty, p, m, eid] =>
    if (p = "0" ∨ p = "1") ∧ eid.toNat?.isSome then some (.structMethod ⟨pkg.toList, ty.toList, p = "1"⟩ m.toList) else none
  | ["SX", pkg, ty, p, m, eid] =>
    if (p = "0" ∨ p = "1") ∧ eid.toNat?.isSome then some (.structExport ⟨pkg.toList, ty.toList, p = "1"⟩ m.toList) else none
  | ["ES", pkg, raw, m, eid] => if eid.toNat?.isSome then some (.exportStruct pkg.toList raw.toList m.toList) else none
  | ["EC", pkg, raw, m, eid] => if eid.toNat?.isSome then some (.exportStruct pkg.toList raw.toList m.toList) else none
  | ["R"] => some .reset
  | _ => none

def parseEntry (t : String) : Option Entry :=
  match splitTilde t with
  | [pkg, ty, p, m, shape, np] =>
    match np.toNat? with
    | some n => if p = "0" ∨ p = "1" then
        some ⟨pkg.toList, ty.toList, p = "1", m.toList, if shape = "-" then [] else shape.toList, n⟩ else none
    | none => none
  | _ => none

def splitBar (toks : List String) : List (List String) :=
  let rec go (cur : List String) (acc : List (List String)) : List String → List (List String)
    | [] => (cur.reverse :: acc).reverse
    | t :: rest => if t = "|" then go [] (cur.reverse :: acc) rest else go (t :: cur) acc rest
  go [] [] toks

def showRes : Res → String
  | .ok => "ok"
  | .err c => "err:" ++ String.ofList c
  | .notfound n => "nf:" ++ String.ofList n

def enumFrom {α : Type} : Nat → List α → List (Nat × α)
  | _, [] => []
  | n, a :: as => (n, a) :: enumFrom (n + 1) as

def handle (toks : List String) : Option String :=
  match toks with
  | "c06.hist" :: rest0 =>
    -- `@` abbreviates the common import-path prefix of the corpus packages on the wire
    let rest := rest0.map (fun t => t.replace "@" "github.com/tencent/goom/internal/zzverif/c06")
    match splitBar rest with
    | [stoks, etoks, symtoks] =>
      match stoks.mapM parseStep, etoks.mapM parseEntry with
      | some steps, some entries =>
        let syms : List Str := symtoks.map String.toList
        let r := run syms entries BState.init 0 steps
        let hits := (enumFrom 0 entries).filterMap (fun (i, e) =>
          match behavOf syms r.1.patched e with
          | some k => some s!"{i}:{k}:r+:{if e.shape.isEmpty || e.np == 0 then "a+" else "a-"}"
          | none => none)
        let after := (run syms entries r.1 steps.length [Step.reset]).1
        let clean := entries.all (fun e => (behavOf syms after.patched e).isNone)
        some s!"r={String.intercalate "," (r.2.map showRes)} hit={String.intercalate "," hits} after={if clean then "clean" else "dirty"}"
      | _, _ => some "bad-op"
    | _ => some "bad-op"
  | _ => none

end Drv.C06
