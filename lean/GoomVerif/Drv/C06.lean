import GoomVerif.Drv.Util
import GoomVerif.Model.MethodH
import GoomVerif.Model.MethodG
import GoomVerif.Model.InnerFn
/-! Driver for C06.

    `c06.hist <step>.. | <entry>.. | <sym>..`
      lookup := `SM~pkg~T~ptr~m~eid[~tmpl]` | `SX~pkg~T~ptr~m~eid[~tmpl]` | `ES~pkg~raw~m~eid` | `EC~pkg~raw~m~eid`
                (ptr is 0/1; `eid` tells the Go probe which generated closure supplies the static Go types, `tmpl` which
                 template instance is handed to `Struct(..)` (zero value / typed nil pointer / new / filled) — both are
                 ignored here: goom only looks at the template's type; `EC` = `ES` without the `Pkg(..)` call)
      step   := lookup                 lookup + Apply(cb k), handle not kept
              | `L~h~`lookup           h := lookup
              | `D~h~UM~pkg~sn~m~eid` | `D~h~MM~pkg~T~ptr~m~eid[~tmpl]`     h := NewUnexportedMethodMocker(pkg, sn).Method(m) /
                                         NewMethodMocker(_, inst).Method(m): a fresh object outside the builder caches
              | `RD~h~UM~..` | `RD~h~MM~..`    the same object again: h.Method(m')
              | `A~h` | `T~h~v` | `S~h~v1~v2` | `W~h~f~v` | `SW~h~v1~v2~f~v` | `C~h` | `R`
                (Apply(cb k) / Return(v) / Returns(v1,v2) / When(args).Return(v) / Returns(..).When(args).Return(v) /
                 Cancel / builder Reset; f = 1: args are the standard call arguments, 0: other arguments)
      entry  := `pkg~T~ptr~m~shape~np~base`   (shape `-` for an ordinary type; np = ordinary parameters passed in registers;
                base = position of the embedded type's method for a promoted method, else `-`); entry id = position
      sym    := a function name of the probe binary (table order)
    answer: `r=<ok|err:cls|nf:name>,.. hit=<id:k:r+:a+|a-  or  id:t/t/t with t = o|k<k>|s<v>|p>,.. after=clean|dirty` -/
namespace Drv.C06
open Method (Str Entry Res Ty)
open MethodH

def splitTilde (s : String) : List String := s.splitOn "~"

def parseLook : List String → Option Look
  | "SM" :: pkg :: ty :: p :: m :: eid :: rest =>
    if (p = "0" ∨ p = "1") ∧ eid.toNat?.isSome ∧ rest.length ≤ 1 then some (.structMethod ⟨pkg.toList, ty.toList, p = "1"⟩ m.toList) else none
  | "SP" :: pkg :: ty :: p :: m :: eid :: rest =>   -- `Struct(&T{}).Method(m)` for a value method of T (p = 1)
    if p = "1" ∧ eid.toNat?.isSome ∧ rest.length ≤ 1 then some (.structMethod ⟨pkg.toList, ty.toList, true⟩ m.toList) else none
  | "SX" :: pkg :: ty :: p :: m :: eid :: rest =>
    if (p = "0" ∨ p = "1") ∧ eid.toNat?.isSome ∧ rest.length ≤ 1 then some (.structExport ⟨pkg.toList, ty.toList, p = "1"⟩ m.toList) else none
  | ["ES", pkg, raw, m, eid] => if eid.toNat?.isSome then some (.exportStruct pkg.toList raw.toList m.toList) else none
  | ["EF", pkg, fn, eid] => if eid.toNat?.isSome then some (.exportFunc pkg.toList fn.toList) else none
  | ["EC", pkg, raw, m, eid] => if eid.toNat?.isSome then some (.exportStruct pkg.toList raw.toList m.toList) else none
  | _ => none

def parseFlag (s : String) : Option Bool := if s = "1" then some true else if s = "0" then some false else none

def parseDirect : List String → Option Direct
  | ["UM", pkg, sn, m, eid] => if eid.toNat?.isSome then some (.um pkg.toList sn.toList m.toList) else none
  | "MM" :: pkg :: ty :: p :: m :: eid :: rest =>
    if (p = "0" ∨ p = "1") ∧ eid.toNat?.isSome ∧ rest.length ≤ 1 then some (.mm ⟨pkg.toList, ty.toList, p = "1"⟩ m.toList) else none
  | _ => none

def parseStep (t : String) : Option MethodH.Step :=
  match splitTilde t with
  | ["R"] => some .reset
  | "D" :: h :: rest => do let h ← h.toNat?; let d ← parseDirect rest; pure (.direct h d)
  | "RD" :: h :: rest => do let h ← h.toNat?; let d ← parseDirect rest; pure (.redirect h d)
  | "L" :: h :: rest => do let h ← h.toNat?; let l ← parseLook rest; pure (.look h l)
  | ["A", h] => do let h ← h.toNat?; pure (.apply h)
  | ["C", h] => do let h ← h.toNat?; pure (.cancel h)
  | ["O", h] => do let h ← h.toNat?; pure (.origin h)
  | ["T", h, v] => do let h ← h.toNat?; let v ← v.toInt?; pure (.ret h v)
  | ["S", h, v1, v2] => do let h ← h.toNat?; let v1 ← v1.toInt?; let v2 ← v2.toInt?; pure (.rets h v1 v2)
  | ["W", h, f, v] => do let h ← h.toNat?; let f ← parseFlag f; let v ← v.toInt?; pure (.whenRet h f v)
  | ["SW", h, v1, v2, f, v] => do
    let h ← h.toNat?; let v1 ← v1.toInt?; let v2 ← v2.toInt?; let f ← parseFlag f; let v ← v.toInt?
    pure (.retsWhen h v1 v2 f v)
  | toks => (parseLook toks).map .shot

/-- entry plus, for a promoted method, the position of the embedded type's method its wrapper calls -/
def parseEntry (t : String) : Option (Entry × Option Nat) :=
  match splitTilde t with
  | [pkg, ty, p, m, shape, np, base] =>
    match np.toNat? with
    | some n => if (p = "0" ∨ p = "1") ∧ (base = "-" ∨ base.toNat?.isSome) then
        some (⟨pkg.toList, ty.toList, p = "1", m.toList, if shape = "-" then [] else shape.toList, n⟩, base.toNat?) else none
    | none => none
  | _ => none

def splitBar (toks : List String) : List (List String) :=
  let rec go (cur : List String) (acc : List (List String)) : List String → List (List String)
    | [] => (cur.reverse :: acc).reverse
    | t :: rest => if t = "|" then go [] (cur.reverse :: acc) rest else go (t :: cur) acc rest
  go [] [] toks

def showRes : Res → String
  | .ok => "ok"
  | .err c => "err:" ++ String.ofList c
  | .notfound n => "nf:" ++ String.ofList n

def showCall : CallObs → String
  | .orig => "o"
  | .cb k => s!"k{k}"
  | .val v => s!"s{v}"
  | .panic => "p"

/-- call every entry three times (the probe's three instances), in entry order, threading the result cursors -/
def snapshot (syms : List Str) (all : List Entry) (hot : List (Option Str)) :
    HState → Nat → List (Entry × Option Nat) → List String → HState × List String
  | s, _, [], acc => (s, acc.reverse)
  | s, i, (e, b) :: rest, acc =>
    let base := b.bind (fun j => all[j]?)
    -- `hot` = the names at the patched indices (the patch list does not change while calling).  By definition of
    -- `behavOf` an entry none of whose symbols is among them is unpatched, and `callVia` answers `orig` without changing
    -- the state; skipping the three calls for such entries only saves the list walks.
    if !(hot.contains (some e.callSym) || (match base with | some be => hot.contains (some be.callSym) | none => false)) then
      snapshot syms all hot s (i + 1) rest acc
    else
    let r0 := callVia syms s e base
    let r1 := callVia syms r0.1 e base
    let r2 := callVia syms r1.1 e base
    let tok :=
      match r0.2, r1.2, r2.2 with
      | .orig, .orig, .orig => none
      | .cb k0, .cb k1, .cb k2 =>
        -- `r+:a+`: receiver and arguments arrive exactly (theorem C06.receiver_and_args_exact; since fix 79126f8 also for shape bodies)
        if k0 = k1 ∧ k1 = k2 then some s!"{i}:{k0}:r+:a+"
        else some s!"{i}:k{k0}/k{k1}/k{k2}"
      | a, b, c => some s!"{i}:{showCall a}/{showCall b}/{showCall c}"
    snapshot syms all hot r2.1 (i + 1) rest (match tok with | some t => t :: acc | none => acc)

def enumFrom {α : Type} : Nat → List α → List (Nat × α)
  | _, [] => []
  | n, a :: as => (n, a) :: enumFrom (n + 1) as

def parseGStep (t : String) : Option MethodG.GStep :=
  match splitTilde t with
  | ["GN", h, pkg, ty, p, m, eid] =>
    if (p = "0" ∨ p = "1") ∧ eid.toNat?.isSome then h.toNat?.map (fun h => .gnew h ⟨pkg.toList, ty.toList, p = "1"⟩ m.toList) else none
  | ["GA", h] => h.toNat?.map .gapply
  | ["GU", h] => h.toNat?.map .gunpatch
  | _ => none

/-- `c06.guard <gstep>.. | <entry>.. | <sym>..` with gstep := `GN~h~pkg~T~ptr~m~eid` | `GA~h` | `GU~h`
    (patch.InstanceMethod(type, m, cb k) / guard.Apply() / guard.UnpatchWithLock()); same answer format -/
def handleGuard (rest0 : List String) : String :=
  match splitBar rest0 with
  | [stoks, etoks, symtoks] =>
    match stoks.mapM parseGStep, etoks.mapM parseEntry with
    | some steps, some entriesB =>
      let entries := entriesB.map (·.1)
      let syms : List Str := symtoks.map String.toList
      let r := MethodG.grun syms entries MethodG.GState.init 0 steps
      let beh (p : List (Nat × Nat)) (eb : Entry × Option Nat) : Option Nat :=
        match Method.behavOf syms p eb.1, eb.2.bind (fun j => entries[j]?) with
        | none, some b => Method.behavOf syms p b       -- promoted method: the wrapper calls the embedded type's method
        | x, _ => x
      let hits := (enumFrom 0 entriesB).filterMap (fun (i, eb) =>
        (beh r.1.patched eb).map (fun k => s!"{i}:{k}:r+:a+"))
      let hs := steps.filterMap (fun st => match st with | .gnew h _ _ => some h | _ => none)
      let after := hs.foldl (fun s h => (MethodG.gstep syms entries s steps.length (.gunpatch h)).1) r.1
      let clean := entriesB.all (fun eb => (beh after.patched eb).isNone)
      let rs := (String.intercalate "," (r.2.map showRes)).replace "@" "github.com/tencent/goom/internal/zzverif/c06"
      s!"r={rs} hit={String.intercalate "," hits} after={if clean then "clean" else "dirty"}"
    | _, _ => "bad-op"
  | _ => "bad-op"

/-- `c06.inner n<len> | c<rel> | i | p ..` → `inner=<offset>` | `inner=none` -/
def handleInner (toks : List String) : String :=
  let parse (t : String) : Option InnerFn.Ins :=
    if t = "i" then some .int3 else if t = "p" then some .prologue
    else match t.toList with
      | 'n' :: r => (String.ofList r).toNat?.bind (fun n => if 1 ≤ n ∧ n ≤ 8 then some (.fill n) else none)
      | 'c' :: r => (String.ofList r).toInt?.map .call
      | _ => none
  match toks.mapM parse with
  | some (.prologue :: _) => "bad-op"
  | some code => (match InnerFn.inner code with | some o => s!"inner={o}" | none => "inner=none")
  | none => "bad-op"

def handle (toks : List String) : Option String :=
  match toks with
  | "c06.inner" :: rest => some (handleInner rest)
  | "c06.guard" :: rest0 => some (handleGuard rest0)
  | "c06.hist" :: rest0 =>
    -- `@` abbreviates the common import-path prefix of the corpus packages on the wire.  The model only compares and
    -- concatenates names, and every name of the line is abbreviated the same way, so it runs on the abbreviated text; the
    -- prefix is restored in the answer (names inside `nf:`).
    match splitBar rest0 with
    | [stoks, etoks, symtoks] =>
      match stoks.mapM parseStep, etoks.mapM parseEntry with
      | some steps, some entriesB =>
        let entries := entriesB.map (·.1)
        let syms : List Str := symtoks.map String.toList
        let r := run syms entries HState.init 0 steps
        let snap := snapshot syms entries (r.1.patched.map (fun p => syms[p.1]?)) r.1 0 entriesB []
        -- clean-up of the test: Cancel on every directly constructed mocker (the builder does not know them), then Reset
        let directs := steps.filterMap (fun st => match st with | .direct h _ => some h | _ => none)
        let s1 := directs.foldl (fun s h => (step syms entries s steps.length (Step.cancel h)).1) snap.1
        let after := (step syms entries s1 steps.length Step.reset).1
        let clean := entries.all (fun e => (behavOf syms after.patched e).isNone)
        let rs := (String.intercalate "," (r.2.map showRes)).replace "@" "github.com/tencent/goom/internal/zzverif/c06"
        some s!"r={rs} hit={String.intercalate "," snap.2} after={if clean then "clean" else "dirty"}"
      | _, _ => some "bad-op"
    | _ => some "bad-op"
  | _ => none

end Drv.C06
