import GoomVerif.Drv.Util
import GoomVerif.Model.ApiC12
import GoomVerif.Model.LwwC12
/-! Driver for C12.  `c12.hist <op> ; <op> ; …` → per op `<mocker|-|panic:class> <behaviour of the 9 targets>` joined by " ; "
    (model of the repaired code); `c12.asfound …` the same for the code as found; `c12.lww …` the reference model. -/
namespace Drv.C12
open C12M

def parsePkg : String → Option Pkg | "p0" => some .p0 | "p1" => some .p1 | _ => none
def parseNats (ts : List String) : Option (List Nat) := ts.mapM String.toNat?

def parseStub : List String → Option Stub
  | ["ret", v] => v.toNat?.map .ret
  | ["when", a] => a.toNat?.map .when_
  | ["whenret", a, v] => do let a ← a.toNat?; let v ← v.toNat?; pure (.whenRet a v)
  | "rets" :: vs => (parseNats vs).map .rets
  | _ => none

def parseInstr : List String → Option Instr
  | ["look"] => some .look
  | ["cancel"] => some .cancel
  | ["apply", k] => match k.toList with
    | 'k' :: d => (String.ofList d).toNat?.bind fun n => if n < 4 then some (.apply n) else none
    | _ => none
  | ts => (parseStub ts).map .stub

def parseOp : List String → Option Op
  | ["pkg", p] => (parsePkg p).map .pkg
  | ["reset"] => some .reset
  | ["var", "set", n] => n.toNat?.map fun _ => .var
  | ["st", "Mz", "look"] => some .stBad
  | "fn" :: "fA" :: ins => (parseInstr ins).map (.h (.fn false))
  | "fn" :: "fB" :: ins => (parseInstr ins).map (.h (.fn true))
  | "st" :: "M1" :: ins => (parseInstr ins).map (.h (.st false))
  | "st" :: "M2" :: ins => (parseInstr ins).map (.h (.st true))
  | "if" :: "M" :: ins => (parseInstr ins).map (.h .im)
  | "if" :: "M.a0" :: ins => (parseInstr ins).map (.h .im)      -- `.aN`: which function literal the probe hands to As();
  | "if" :: "M.a1" :: ins => (parseInstr ins).map (.h .im)      --   As only stores it (iface.go:98), the model has nothing to record
  | "if" :: "M.a2" :: ins => (parseInstr ins).map (.h .im)
  | "xf" :: "X" :: ins => (parseInstr ins).map (.h (.xf .x))
  | "xf" :: "Y" :: ins => (parseInstr ins).map (.h (.xf .y))
  | "xf" :: "nosuch" :: ins => (parseInstr ins).map (.h (.xf .z))
  | "xs" :: "um" :: ins => (parseInstr ins).map (.h .xs)
  | _ => none

/-- split the token list at ";" -/
def splitOps (ts : List String) : List (List String) :=
  let r := ts.foldl (fun (acc : List (List String) × List String) t =>
    if t = ";" then (acc.1 ++ [acc.2], []) else (acc.1, acc.2 ++ [t])) ([], [])
  r.1 ++ [r.2]

def showRes : Res → String
  | .o => "o" | .k i => s!"k{i}" | .v n => s!"v{n}" | .p => "p" | .idx => "P:index-out-of-range"

def showBeh (rs : List Res) : String :=
  let rec go : List Res → List String
    | a :: b :: rest => (showRes a ++ "." ++ showRes b) :: go rest
    | [a] => [showRes a]
    | [] => []
  String.intercalate "," (go rs)

def showStep : StepRes → String
  | .none => "-"
  | .mid n => s!"m{n}"
  | .err .methodNotFound => "panic:method-mz-not-found"
  | .err .funcNameError => "panic:proxy-func-name-error"
  | .err .symbolNotFound => "panic:function-symbol-not-found"

def runHist (v : Variant) (ops : List Op) : String :=
  String.intercalate " ; " ((run v init ops).map fun (r, o) => showStep r ++ " " ++ showBeh o)

def runLww (ops : List Op) : String :=
  String.intercalate " ; " ((Lww.run Lww.init ops).map showBeh)

def handle (toks : List String) : Option String :=
  match toks with
  | cmd :: rest =>
    if cmd = "c12.hist" ∨ cmd = "c12.asfound" ∨ cmd = "c12.lww" then
      match (splitOps rest).mapM parseOp with
      | none => some "bad-op"
      | some ops =>
        if cmd = "c12.hist" then some (runHist fixed ops)
        else if cmd = "c12.asfound" then some (runHist asFound ops)
        else some (runLww ops)
    else none
  | [] => none

end Drv.C12
