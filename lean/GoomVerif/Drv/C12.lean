import GoomVerif.Drv.Util
import GoomVerif.Model.ApiC12
import GoomVerif.Model.LwwC12
/-! Driver for C12.  `c12.hist <op> ; <op> ; …` → per op `<mocker|-|panic:class> <behaviour of the 9 targets>` joined by " ; "
    (model of the repaired code); `c12.asfound …` the same for the code as found; `c12.lww …` the reference model. -/
namespace Drv.C12
open C12M

def parsePkg : String → Option Pkg | "p0" => some .p0 | "p1" => some .p1 | "pq" => some .pq | _ => none
def parseNats (ts : List String) : Option (List Nat) := ts.mapM String.toNat?

def parseStub : List String → Option Stub
  | ["ret", v] => v.toNat?.map .ret
  | ["when", a] => a.toNat?.map .when_
  | ["whenret", a, v] => do let a ← a.toNat?; let v ← v.toNat?; pure (.whenRet a v)
  | "rets" :: vs => (parseNats vs).map .rets
  | _ => none

def parseInstr : List String → Option Instr
  | ["look"] => some .look
  | ["cancel"] => some .cancel
  | ["apply", k] => match k.toList with
    | 'k' :: d => (String.ofList d).toNat?.bind fun n => if n < 4 then some (.apply n) else none
    | _ => none
  | ts => (parseStub ts).map .stub

def parseHandle : List String → Option Handle
  | ["fn", "fA"] => some (.fn false)
  | ["fn", "fB"] => some (.fn true)
  | ["st", "M1"] => some (.st false)
  | ["st", "M2"] => some (.st true)
  | ["if", "M"] => some .im
  | ["if", "M.a0"] => some .im          -- `.aN`: which function literal the probe hands to As();
  | ["if", "M.a1"] => some .im          --   As only stores it (iface.go:98), the model has nothing to record
  | ["if", "M.a2"] => some .im
  | ["xf", "X"] => some (.xf .x)
  | ["xf", "Y"] => some (.xf .y)
  | ["xf", "nosuch"] => some (.xf .z)
  | ["xs", "um"] => some .xs
  | ["i2", "A"] => some (.i2 false)
  | ["i2", "B"] => some (.i2 true)
  | ["var", "v"] => some (.vr false)
  | ["uvar", "w"] => some (.vr true)
  | _ => none

def isVarHandle : Handle → Bool | .vr _ => true | .i2 _ => true | _ => false       -- handles that are never kept

def parseOp : List String → Option Op
  | ["pkg", p] => (parsePkg p).map .pkg
  | ["reset"] => some .reset
  | ["st", "Mz", "look"] => some .stBad
  | ["xfe"] => some .xfEmpty
  | ["qlook"] => some .qlook
  | ["keep", r, k, n] => do
    let r ← r.toNat?; let hd ← parseHandle [k, n]
    if r < 3 && !isVarHandle hd then some (.keep r hd) else none     -- variable handles are never kept (see Model/ApiC12 header)
  | "on" :: r :: ins => do
    let r ← r.toNat?; let i ← parseInstr ins
    if r < 3 then some (.on r i) else none
  | k :: n :: ins => do
    let hd ← parseHandle [k, n]; let i ← parseInstr ins
    match hd, i with
    | .vr _, .stub _ => none                                         -- VarMock has no Return/When: the probe cannot issue it
    | _, _ => some (.h hd i)
  | _ => none

/-- split the token list at ";" -/
def splitOps (ts : List String) : List (List String) :=
  let r := ts.foldl (fun (acc : List (List String) × List String) t =>
    if t = ";" then (acc.1 ++ [acc.2], []) else (acc.1, acc.2 ++ [t])) ([], [])
  r.1 ++ [r.2]

def showRes : Res → String
  | .o => "o" | .k i => s!"k{i}" | .v n => s!"v{n}" | .p => "p" | .idx => "P:index-out-of-range" | .n => "n"

def showBeh (rs : List Res) : String :=
  let rec go : List Res → List String
    | a :: b :: rest => (showRes a ++ "." ++ showRes b) :: go rest
    | [a] => [showRes a]
    | [] => []
  String.intercalate "," (go rs)

def showStep : StepRes → String
  | .none => "-"
  | .mid _ => "m"                       -- which object it was is not part of the observation (the property does not demand identity)
  | .err .methodNotFound => "panic:method-mz-not-found"
  | .err .funcNameError => "panic:proxy-func-name-error"
  | .err .symbolNotFound => "panic:function-symbol-not-found"
  | .err .funcNameEmpty => "panic:func-name-is-empty"
  | .err .notApplicable => "panic:bad-op"
  | .err .emptyRegister => "panic:bad-op"

/-- a leading `newq` means: the builder was created by the helper package -/
def runHist (v : Variant) (q : Bool) (ops : List Op) : String :=
  let rows := (run v (if q then initP .pq else init) ops).map fun (r, o) => showStep r ++ " " ++ showBeh o
  String.intercalate " ; " (if q then ("- " ++ showBeh ((observe init).2)) :: rows else rows)

def runLww (q : Bool) (ops : List Op) : String :=
  let rows := (Lww.run (if q then Lww.initP .pq else Lww.init) ops).map showBeh
  String.intercalate " ; " (if q then showBeh ((observe init).2) :: rows else rows)

def handle (toks : List String) : Option String :=
  match toks with
  | cmd :: rest =>
    if cmd = "c12.hist" ∨ cmd = "c12.asfound" ∨ cmd = "c12.lww" then
      let parts := splitOps rest
      let q := parts.head? == some ["newq"]
      match (if q then parts.drop 1 else parts).mapM parseOp with
      | none => some "bad-op"
      | some ops =>
        if cmd = "c12.hist" then some (runHist fixed q ops)
        else if cmd = "c12.asfound" then some (runHist asFound q ops)
        else some (runLww q ops)
    else none
  | [] => none

end Drv.C12
