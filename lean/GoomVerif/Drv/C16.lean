import GoomVerif.Drv.Util
import GoomVerif.Model.X86Dec
import GoomVerif.Model.X86Scan
/-! Driver for C16: `c16.dec <hex bytes>` → `err=<class> len=<n> op=<NAME> pcrel=<n> pcreloff=<n> opcode=0x<hex>` from the model interpreter. -/
namespace Drv.C16
open X86Dec

def errName : Err → String
  | .ok => "ok" | .trunc => "trunc" | .unrec => "unrec" | .internal => "internal" | .panic => "panic" | .fuel => "fuel"

def opName (n : Nat) : String :=
  match Gen.X86.opNames[n]? with
  | some s => if s.isEmpty then s!"Op({n})" else s
  | none => s!"Op({n})"

def show_ (r : Res) : String :=
  s!"err={errName r.err} len={r.len} op={opName r.op} pcrel={r.pcrel} pcreloff={r.pcreloff} opcode={hexNat r.opcode}"

def handle (toks : List String) : Option String :=
  match toks with
  | ["c16.dec", hex] =>
    match parseBytes hex with
    | some bs => some (show_ (decode bs))
    | none => some "bad-op"
  | "c16.dec" :: _ => some "bad-op"
  | ["c16.scan", hex] =>
    match parseBytes hex with
    | some bs => some (match scanLoop bs (bs.length + 1) 0 with | some p => s!"pos={p}" | none => "fuel")
    | none => some "bad-op"
  | ["c16.fsize", hex] =>
    match parseBytes hex with
    | some bs => some (match funcSizeLoop bs (bs.length + 2) 0 false with | some p => s!"size={p}" | none => "fuel")
    | none => some "bad-op"
  | "c16.scan" :: _ => some "bad-op"
  | "c16.fsize" :: _ => some "bad-op"
  | _ => none

end Drv.C16
