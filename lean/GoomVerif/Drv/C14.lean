import GoomVerif.Drv.Util
import GoomVerif.Model.Mem
import GoomVerif.Model.MemHist
/-! Driver for C14.

* `c14.ps <a>`                                  → `ps=<PageStart a>`                       (generated `Gen.Page.PageStart`)
* `c14.write <off> <hexdata> <perms>`           → `res=… calls=… win=<start>:<hex> perms=…`
    a scratch region of `len perms` pages at a page-aligned base; `perms` is a comma list, one letter per page:
    `x`=r-x `w`=rwx `r`=r-- `d`=rw- `u`=unmapped; byte `i` of the region initially holds `pat i`.
* `c14.writewx <off> <hexdata> <perms>`         → the same with the kernel refusing write+execute (fall-back path)
* `c14.gen <funcSize> …`                        → `ok len=13` | `err:<class>`               (jumpdata.go size test)
* `c14.install <entryOff> <funcSize> <orig13> …` → install without placeholder on an r-x image, then unpatch
  (further `key=value` tokens name the real function for the probe and are ignored here)
* `c14.survey`, `c14.tramp …`                   → `oracle-only` (no model observation; the check applies the property oracle)
-/
namespace Drv.C14
open Mem

def base : Addr := 0x7f1234560000#64

/-- initial content of the scratch region (the probe fills the real region with the same pattern) -/
def pat (i : Nat) : Byte := BitVec.ofNat 8 ((i * 131 + 7) % 251)

def permOfChar : Char → Option (Option Perm)
  | 'x' => some (some RX)
  | 'w' => some (some RWX)
  | 'r' => some (some ⟨true, false, false⟩)
  | 'd' => some (some ⟨true, true, false⟩)
  | 'u' => some none
  | _ => none

def charOfPerm : Option Perm → String
  | none => "u"
  | some ⟨true, false, true⟩ => "x"
  | some ⟨true, true, true⟩ => "w"
  | some ⟨true, false, false⟩ => "r"
  | some ⟨true, true, false⟩ => "d"
  | some _ => "?"

def parsePerms (s : String) : Option (List (Option Perm)) :=
  (s.splitOn ",").mapM (fun t => match t.toList with | [c] => permOfChar c | _ => none)

def mkState (perms : List (Option Perm)) (content : Nat → Byte) (deny : Bool := false) : State :=
  { denyWX := deny,
    mem := fun q => content (q.toNat - base.toNat),
    perm := fun p =>
      let d := p.toNat - base.toNat
      if base.toNat ≤ p.toNat ∧ d % 4096 = 0 then (perms.getD (d / 4096) none) else none }

def relHex (p : Addr) : String :=
  if base.toNat ≤ p.toNat then "+" ++ hexNat (p.toNat - base.toNat) else "-" ++ hexNat (base.toNat - p.toNat)

def protName (pr : Perm) : String := (if pr.r then "r" else "") ++ (if pr.w then "w" else "") ++ (if pr.x then "x" else "")

def errName : Err → String
  | .enomem _ => "ENOMEM"
  | .eacces _ => "EACCES"
  | .segv _ => "SEGV"

/-- log of one `mprotect` pass: every step is executed with the model's own `Mem.step`; returns the rendered calls, the
    state reached and whether the pass failed (this is `Mem.run` with a log) -/
def tracePass : State → List Step → List String → List String × State × Bool
  | s, [], acc => (acc.reverse, s, false)
  | s, st :: rest, acc =>
    match st, step s st with
    | .mprotect p pr, .ok s' => tracePass s' rest (s!"{relHex p}:{pageSize}:{protName pr}=0" :: acc)
    | .mprotect p pr, .error e => ((s!"{relHex p}:{pageSize}:{protName pr}={errName e}" :: acc).reverse, s, true)
    | .store _ _, .ok s' => tracePass s' rest acc
    | .store _ _, .error _ => (acc.reverse, s, true)

/-- the `mprotect` calls of `WriteTo(a, data)` from state `s`, in order, with results — same control flow as `Mem.writeTo` -/
def callsOf (a : Addr) (data : List Byte) (s : State) : List String :=
  let n := data.length
  let (c1, s1, f1) := tracePass s (protScript a n RWX) []
  if f1 then
    let (c2, s2, f2) := tracePass s1 (protScript a n RW) []
    if f2 then c1 ++ c2 else
    let (s3, e3) := run s2 (copyScript a data)
    if e3.isSome then c1 ++ c2 else
    c1 ++ c2 ++ (tracePass s3 (protScript a n RX) []).1
  else
    let (s2, e2) := run s1 (copyScript a data)
    if e2.isSome then c1 else
    c1 ++ (tracePass s2 (protScript a n RX) []).1

def outcomeName : Outcome → String
  | .ok => "ok"
  | .okFallback _ => "ok-fallback"
  | .panicFallback _ => "panic-fallback"
  | .fault _ => "fault"
  | .panicRX _ => "panic-rx"

def joinOr (xs : List String) : String := if xs.isEmpty then "-" else String.intercalate "," xs

/-- bytes of `[lo,hi)`; `..` for a byte on an unmapped page (the probe cannot read it) -/
def window (s : State) (lo hi : Nat) : String :=
  if hi ≤ lo then "-" else
  String.join ((List.range (hi - lo)).map (fun i =>
    let q := base + BitVec.ofNat 64 (lo + i)
    match s.perm (pageOf q) with
    | none => ".."
    | some _ => hexByte (s.mem q)))

/-- the byte ranges shown in an observation: the whole write with a 16-byte band when it is short; for long writes the
    head, every page boundary inside, and the tail (the probe counts wrong bytes over the *whole* region separately) -/
def segments (off n k : Nat) : List (Nat × Nat) :=
  let top := k * 4096
  if n ≤ 96 then [(off - 16, min top (off + n + 16))]
  else
    let bs := ((List.range (k + 1)).map (· * 4096)).filter (fun b => off < b ∧ b < off + n)
    [(off - 16, off + 32)] ++ bs.map (fun b => (b - 8, b + 8)) ++ [(off + n - 32, min top (off + n + 16))]

def doWrite (off : Nat) (data : List Byte) (perms : List (Option Perm)) (deny : Bool := false) : String :=
  let k := perms.length
  let a := base + BitVec.ofNat 64 off
  let s0 := mkState perms pat deny
  let (s1, o) := writeTo a data s0
  let segs := (segments off data.length k).map (fun (lo, hi) => s!"{lo}:{window s1 lo hi}")
  let ps := (List.range k).map (fun i => charOfPerm (s1.perm (base + BitVec.ofNat 64 (i * 4096))))
  s!"res={outcomeName o} calls={joinOr (callsOf a data s0)} win={String.intercalate ";" segs} perms={String.intercalate "," ps}"

def maskJump (bs : List Byte) : String :=
  match bs with
  | [a, b, c, _, _, _, _, _, _, _, _, d, e] => hexBytes [a, b, c] ++ "<to>" ++ hexBytes [d, e]
  | _ => hexBytes bs

def doInstall (entryOff funcSize : Nat) (orig : List Byte) : String :=
  let origin := base + BitVec.ofNat 64 (4096 + entryOff)
  let to := 0x00c000123456#64
  let content := fun i => if 4096 + entryOff ≤ i ∧ i < 4096 + entryOff + orig.length then orig.getD (i - 4096 - entryOff) 0 else pat i
  let s0 := mkState [some RX, some RX, some RX] content
  match install origin to funcSize none s0 with
  | (_, .refused why) => s!"refused:{why}"
  | (s1, .done o) =>
    let jd0 := Gen.Amd64.jmpToFunctionValue origin to
    let entry := (List.range 13).map (fun i => s1.mem (origin + BitVec.ofNat 64 i))
    let saved := savedOriginBytes s0 origin to          -- what the guard holds (patch.go:123)
    let jd := Gen.Amd64.jmpToFunctionValue origin to
    let (s2, o2) := unpatch origin saved s1
    let back := (List.range 13).map (fun i => s2.mem (origin + BitVec.ofNat 64 i))
    let pg := base + BitVec.ofNat 64 4096
    let rel := fun (cs : List String) => cs  -- calls are printed relative to `base`; the probe prints them relative to page(entry)-4096
    let _ := pg
    s!"apply={outcomeName o} entry={maskJump entry} calls={joinOr (rel (callsOf origin jd0 s0))} unpatch={outcomeName o2} restored={back == orig} calls2={joinOr (callsOf origin saved s1)} lens={saved.length}/{jd.length}"

/-! ### histories: `c14.hist <targets> | <steps>`
  target `T:<slot>:<entryOff>:<fsz>:<first13>:<name>` — a real function in text page number `slot`;
  target `S:<E>:<P>:<fsz>:<first13>:<name>`           — E code bytes + P INT3 bytes + a successor, in its own mapping;
  target `M:<off>:<fsz>:<first13>:<name>`             — a copy of that function at offset `off` of the middle page of its own
                                                          3-page r-x mapping (may straddle the page end);
  steps `patch.i apply.i unpatch.i restore.i unpatchfn.i unpatchall unmap.i`.
  Output per step: `<step>=<res>[<calls>]{<state of every target: o j u ?>}`; page labels `t<slot>` / `m<i>.<k>`. -/

structure HTarget where
  isM : Bool
  org : Addr
  fsz : Nat
  first : List Byte
  region : Addr        -- M: start of its mapping

def hbaseT : Nat := base.toNat
def hbaseM (i : Nat) : Nat := base.toNat + 0x1000000 * (i + 1)

def parseTarget (i : Nat) (t : String) : Option HTarget :=
  match t.splitOn ":" with
  | ["S", _, _, fsz, first, _] => do      -- a short padded function at the start of the middle page of its own mapping
    let f ← parseNat fsz; let b ← parseBytes first
    pure ⟨true, BitVec.ofNat 64 (hbaseM i + 4096), f, b, BitVec.ofNat 64 (hbaseM i)⟩
  | [k, slot, eo, fsz, first, _] => do
    if k != "T" && k != "C" then none
    let sl ← parseNat slot; let e ← parseNat eo; let f ← parseNat fsz; let b ← parseBytes first
    pure ⟨false, BitVec.ofNat 64 (hbaseT + 4096 * (1 + sl) + e), f, b, 0⟩
  | ["M", off, fsz, first, _] => do
    let o ← parseNat off; let f ← parseNat fsz; let b ← parseBytes first
    pure ⟨true, BitVec.ofNat 64 (hbaseM i + 4096 + o), f, b, BitVec.ofNat 64 (hbaseM i)⟩
  | _ => none

def labelOf (ts : List HTarget) (p : Addr) : String :=
  match (List.range ts.length).find? (fun i => match ts[i]? with
      | some t => t.isM && t.region.toNat ≤ p.toNat && p.toNat < t.region.toNat + 3 * 4096
      | none => false) with
  | some i => s!"m{i}.{(p.toNat - (hbaseM i)) / 4096}"
  | none => s!"t{(p.toNat - hbaseT) / 4096 - 1}"

/-- calls of one `WriteTo`, with page labels -/
def hcalls (ts : List HTarget) (a : Addr) (data : List Byte) (s : State) : List String :=
  let n := data.length
  let lab := fun (st : Step) (r : String) => match st with
    | .mprotect p pr => s!"{labelOf ts p}:{protName pr}={r}"
    | .store _ _ => ""
  let pass := fun (s : State) (steps : List Step) =>
    steps.foldl (fun (acc : List String × State × Bool) st =>
      let (out, cur, failed) := acc
      if failed then acc else
      match step cur st with
      | .ok s' => (out ++ [lab st "0"], s', false)
      | .error e => (out ++ [lab st (errName e)], cur, true)) ([], s, false)
  let (c1, s1, f1) := pass s (protScript a n RWX)
  if f1 then
    let (c2, s2, f2) := pass s1 (protScript a n RW)
    if f2 then c1 ++ c2 else
    let (s3, e3) := run s2 (copyScript a data)
    if e3.isSome then c1 ++ c2 else c1 ++ c2 ++ (pass s3 (protScript a n RX)).1
  else
    let (s2, e2) := run s1 (copyScript a data)
    if e2.isSome then c1 else c1 ++ (pass s2 (protScript a n RX)).1

/-- the writes an operation attempts, in order (each is attempted only if the previous one returned) -/
def writesOf (h : HState) : HOp → List (Addr × List Byte)
  | .patch i => match h.table.find? (fun e => e.1 = i) with
    | some (_, true) => match h.slots i with
      | some g => if g.applied then [(g.origin, g.originBytes)] else []
      | none => []
    | _ => []
  | .apply i => match h.slots i with | some g => [(g.origin, g.jumpBytes)] | none => []
  | .unpatch i => match h.slots i with | some g => if g.applied then [(g.origin, g.originBytes)] else [] | none => []
  | .restore i => match h.slots i with | some g => if g.applied then [(g.origin, g.jumpBytes)] else [] | none => []
  | .unpatchFn i => match h.table.find? (fun e => e.1 = i) with
    | some (_, true) => match h.slots i with
      | some g => if g.applied then [(g.origin, g.originBytes)] else []
      | none => []
    | _ => []
  | .unpatchAll => h.table.filterMap (fun e => match e.2, h.slots e.1 with
      | true, some g => if g.applied then some (g.origin, g.originBytes) else none
      | _, _ => none)
  | .unmap _ => []

def groupsOf (ts : List HTarget) (s : State) (ws : List (Addr × List Byte)) : List String :=
  (ws.foldl (fun (acc : List String × State × Bool) w =>
    let (out, cur, stop) := acc
    if stop then acc else
    let cs := hcalls ts w.1 w.2 cur
    let (s', o) := writeTo w.1 w.2 cur
    (out ++ ["(" ++ String.intercalate "," cs ++ ")"], s', !o.returned)) ([], s, false)).1

def insertSorted (x : String) : List String → List String
  | [] => [x]
  | y :: ys => if x ≤ y then x :: y :: ys else y :: insertSorted x ys

def sortStrings (xs : List String) : List String := xs.foldl (fun acc x => insertSorted x acc) []

def isJump (bs : List Byte) : Bool :=
  match bs with
  | [a, b, c, _, _, _, _, _, _, _, _, d, e] => a == 0x90#8 && b == 0x48#8 && c == 0xBA#8 && d == 0xFF#8 && e == 0x22#8
  | _ => false

def stateVec (ts : List HTarget) (s : State) : String :=
  String.join (ts.map (fun t =>
    match s.perm (pageOf t.org) with
    | none => "u"
    | some _ =>
      let cur := readBytes s t.org 13
      if cur == t.first then "o" else if isJump cur then "j" else "?"))

def lensVec (n : Nat) (h : HState) : String :=
  String.intercalate "," ((List.range n).map (fun i => match h.slots i with
    | some g => s!"{g.originBytes.length}/{g.jumpBytes.length}"
    | none => "-"))

def resName : HRes → String
  | .ok => "ok"
  | .noop => "noop"
  | .refused w => "refused:" ++ w
  | .panic => "panic"

def parseStep (ts : List HTarget) (t : String) : Option HOp :=
  match t.splitOn "." with
  | ["patch", i] => (parseNat i).map HOp.patch
  | ["apply", i] => (parseNat i).map HOp.apply
  | ["unpatch", i] => (parseNat i).map HOp.unpatch
  | ["restore", i] => (parseNat i).map HOp.restore
  | ["unpatchfn", i] => (parseNat i).map HOp.unpatchFn
  | ["unpatchall"] => some HOp.unpatchAll
  | ["unmap", i] => do
    let k ← parseNat i
    let t ← ts[k]?
    if t.isM then pure (HOp.unmap (pageOf t.org)) else none      -- the whole mapping goes; the model needs the entry's page(s)
  | _ => none

def doHist (ts : List HTarget) (steps : List String) : String :=
  let L : Layout := { org := fun i => (ts[i]?.map (·.org)).getD 0, fsz := fun i => (ts[i]?.map (·.fsz)).getD 0,
                      to := 0x00c000123456#64 }
  let mem0 : Addr → Byte := fun q =>
    match ts.find? (fun t => t.org.toNat ≤ q.toNat && q.toNat < t.org.toNat + t.first.length) with
    | some t => t.first.getD (q.toNat - t.org.toNat) 0
    | none => pat (q.toNat % 4096)
  let perm0 : Addr → Option Perm := fun p =>
    if p.toNat % 4096 != 0 then none
    else if ts.any (fun t => t.isM && t.region.toNat ≤ p.toNat && p.toNat < t.region.toNat + 3 * 4096) then some RX
    else if hbaseT ≤ p.toNat && p.toNat < hbaseT + 4096 * 64 then some RX else none
  let h0 : HState := { m := { mem := mem0, perm := perm0 }, slots := fun _ => none, table := [] }
  let (out, _, _) := steps.foldl (fun (acc : List String × HState × Bool) st =>
    let (out, h, stop) := acc
    if stop then acc else
    match parseStep ts st with
    | none => (out ++ [st ++ "=bad-step"], h, true)
    | some (HOp.unmap p) =>
      -- unmapping the mapping removes all three pages of the region
      let reg := (ts.find? (fun t => t.isM && pageOf t.org == p)).map (·.region)
      let h' := match reg with
        | some r => [0, 1, 2].foldl (fun hh k => (hstep L hh (HOp.unmap (r + BitVec.ofNat 64 (k * 4096)))).1) h
        | none => h
      (out ++ [st ++ "=ok[]{" ++ stateVec ts h'.m ++ ";" ++ lensVec ts.length h' ++ "}"], h', false)
    | some op =>
      let ws := writesOf h op
      let gs := groupsOf ts h.m ws
      let (h', r) := hstep L h op
      -- UnpatchAll visits goom's map in an unspecified order: if a write in the middle does not return, which targets were
      -- restored before is not determined
      if r == HRes.panic && (match op with | HOp.unpatchAll => true | _ => false) && ws.length > 1 then
        (out ++ [st ++ "=panic[nondet]"], h', true)
      else
        let gs' := match op with | HOp.unpatchAll => sortStrings gs | _ => gs
        (out ++ [st ++ "=" ++ resName r ++ "[" ++ String.join gs' ++ "]{" ++ stateVec ts h'.m ++ ";" ++ lensVec ts.length h' ++ "}"], h', false)) ([], h0, false)
  String.intercalate " " out

def handle (toks : List String) : Option String :=
  match toks with
  | ["c14.ps", a] =>
    match parseNat a with
    | some n => some s!"ps={hex64 (Gen.Page.PageStart (BitVec.ofNat 64 n))}"
    | none => some "bad-op"
  | ["c14.write", off, hx, perms] =>
    match parseNat off, parseBytes hx, parsePerms perms with
    | some o, some d, some ps => some (doWrite o d ps)
    | _, _, _ => some "bad-op"
  | ["c14.writewx", off, hx, perms] =>       -- the same under a W^X kernel policy (RWX requests refused)
    match parseNat off, parseBytes hx, parsePerms perms with
    | some o, some d, some ps => some (doWrite o d ps true)
    | _, _, _ => some "bad-op"
  | "c14.hist" :: tg :: "|" :: steps =>
    match ((tg.splitOn ",").zipIdx.mapM (fun (t, i) => parseTarget i t)) with
    | some ts => some (doHist ts steps)
    | none => some "bad-op"
  | "c14.survey" :: _ => some "oracle-only"
  | "c14.conc" :: _ => some "oracle-only"
  | "c14.tramp" :: _ => some "oracle-only"
  | "c14.gen" :: fs :: _ =>
    match parseNat fs with
    | some n =>
      match genJumpData base (base + 0x1000#64) n with
      | .ok jd => some s!"ok len={jd.length}"
      | .error e => some s!"err:{e}"
    | none => some "bad-op"
  | "c14.install" :: eo :: fs :: orig :: _ =>
    match parseNat eo, parseNat fs, parseBytes orig with
    | some e, some f, some ob => some (doInstall e f ob)
    | _, _, _ => some "bad-op"
  | t :: _ => if t.startsWith "c14." then some "bad-op" else none
  | _ => none

end Drv.C14
