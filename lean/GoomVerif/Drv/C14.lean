import GoomVerif.Drv.Util
import GoomVerif.Model.Mem
/-! Driver for C14.

* `c14.ps <a>`                                  → `ps=<PageStart a>`                       (generated `Gen.Page.PageStart`)
* `c14.write <off> <hexdata> <perms>`           → `res=… calls=… win=<start>:<hex> perms=…`
    a scratch region of `len perms` pages at a page-aligned base; `perms` is a comma list, one letter per page:
    `x`=r-x `w`=rwx `r`=r-- `d`=rw- `u`=unmapped; byte `i` of the region initially holds `pat i`.
* `c14.writewx <off> <hexdata> <perms>`         → the same with the kernel refusing write+execute (fall-back path)
* `c14.gen <funcSize> …`                        → `ok len=13` | `err:<class>`               (jumpdata.go size test)
* `c14.install <entryOff> <funcSize> <orig13> …` → install without placeholder on an r-x image, then unpatch
  (further `key=value` tokens name the real function for the probe and are ignored here)
* `c14.survey`, `c14.tramp …`                   → `oracle-only` (no model observation; the check applies the property oracle)
-/
namespace Drv.C14
open Mem

def base : Addr := 0x7f1234560000#64

/-- initial content of the scratch region (the probe fills the real region with the same pattern) -/
def pat (i : Nat) : Byte := BitVec.ofNat 8 ((i * 131 + 7) % 251)

def permOfChar : Char → Option (Option Perm)
  | 'x' => some (some RX)
  | 'w' => some (some RWX)
  | 'r' => some (some ⟨true, false, false⟩)
  | 'd' => some (some ⟨true, true, false⟩)
  | 'u' => some none
  | _ => none

def charOfPerm : Option Perm → String
  | none => "u"
  | some ⟨true, false, true⟩ => "x"
  | some ⟨true, true, true⟩ => "w"
  | some ⟨true, false, false⟩ => "r"
  | some ⟨true, true, false⟩ => "d"
  | some _ => "?"

def parsePerms (s : String) : Option (List (Option Perm)) :=
  (s.splitOn ",").mapM (fun t => match t.toList with | [c] => permOfChar c | _ => none)

def mkState (perms : List (Option Perm)) (content : Nat → Byte) (deny : Bool := false) : State :=
  { denyWX := deny,
    mem := fun q => content (q.toNat - base.toNat),
    perm := fun p =>
      let d := p.toNat - base.toNat
      if base.toNat ≤ p.toNat ∧ d % 4096 = 0 then (perms.getD (d / 4096) none) else none }

def relHex (p : Addr) : String :=
  if base.toNat ≤ p.toNat then "+" ++ hexNat (p.toNat - base.toNat) else "-" ++ hexNat (base.toNat - p.toNat)

def protName (pr : Perm) : String := (if pr.r then "r" else "") ++ (if pr.w then "w" else "") ++ (if pr.x then "x" else "")

def errName : Err → String
  | .enomem _ => "ENOMEM"
  | .eacces _ => "EACCES"
  | .segv _ => "SEGV"

/-- log of one `mprotect` pass: every step is executed with the model's own `Mem.step`; returns the rendered calls, the
    state reached and whether the pass failed (this is `Mem.run` with a log) -/
def tracePass : State → List Step → List String → List String × State × Bool
  | s, [], acc => (acc.reverse, s, false)
  | s, st :: rest, acc =>
    match st, step s st with
    | .mprotect p pr, .ok s' => tracePass s' rest (s!"{relHex p}:{pageSize}:{protName pr}=0" :: acc)
    | .mprotect p pr, .error e => ((s!"{relHex p}:{pageSize}:{protName pr}={errName e}" :: acc).reverse, s, true)
    | .store _ _, .ok s' => tracePass s' rest acc
    | .store _ _, .error _ => (acc.reverse, s, true)

/-- the `mprotect` calls of `WriteTo(a, data)` from state `s`, in order, with results — same control flow as `Mem.writeTo` -/
def callsOf (a : Addr) (data : List Byte) (s : State) : List String :=
  let n := data.length
  let (c1, s1, f1) := tracePass s (protScript a n RWX) []
  if f1 then
    let (c2, s2, f2) := tracePass s1 (protScript a n RW) []
    if f2 then c1 ++ c2 else
    let (s3, e3) := run s2 (copyScript a data)
    if e3.isSome then c1 ++ c2 else
    c1 ++ c2 ++ (tracePass s3 (protScript a n RX) []).1
  else
    let (s2, e2) := run s1 (copyScript a data)
    if e2.isSome then c1 else
    c1 ++ (tracePass s2 (protScript a n RX) []).1

def outcomeName : Outcome → String
  | .ok => "ok"
  | .okFallback _ => "ok-fallback"
  | .panicFallback _ => "panic-fallback"
  | .fault _ => "fault"
  | .panicRX _ => "panic-rx"

def joinOr (xs : List String) : String := if xs.isEmpty then "-" else String.intercalate "," xs

/-- bytes of `[lo,hi)`; `..` for a byte on an unmapped page (the probe cannot read it) -/
def window (s : State) (lo hi : Nat) : String :=
  if hi ≤ lo then "-" else
  String.join ((List.range (hi - lo)).map (fun i =>
    let q := base + BitVec.ofNat 64 (lo + i)
    match s.perm (pageOf q) with
    | none => ".."
    | some _ => hexByte (s.mem q)))

/-- the byte ranges shown in an observation: the whole write with a 16-byte band when it is short; for long writes the
    head, every page boundary inside, and the tail (the probe counts wrong bytes over the *whole* region separately) -/
def segments (off n k : Nat) : List (Nat × Nat) :=
  let top := k * 4096
  if n ≤ 96 then [(off - 16, min top (off + n + 16))]
  else
    let bs := ((List.range (k + 1)).map (· * 4096)).filter (fun b => off < b ∧ b < off + n)
    [(off - 16, off + 32)] ++ bs.map (fun b => (b - 8, b + 8)) ++ [(off + n - 32, min top (off + n + 16))]

def doWrite (off : Nat) (data : List Byte) (perms : List (Option Perm)) (deny : Bool := false) : String :=
  let k := perms.length
  let a := base + BitVec.ofNat 64 off
  let s0 := mkState perms pat deny
  let (s1, o) := writeTo a data s0
  let segs := (segments off data.length k).map (fun (lo, hi) => s!"{lo}:{window s1 lo hi}")
  let ps := (List.range k).map (fun i => charOfPerm (s1.perm (base + BitVec.ofNat 64 (i * 4096))))
  s!"res={outcomeName o} calls={joinOr (callsOf a data s0)} win={String.intercalate ";" segs} perms={String.intercalate "," ps}"

def maskJump (bs : List Byte) : String :=
  match bs with
  | [a, b, c, _, _, _, _, _, _, _, _, d, e] => hexBytes [a, b, c] ++ "<to>" ++ hexBytes [d, e]
  | _ => hexBytes bs

def doInstall (entryOff funcSize : Nat) (orig : List Byte) : String :=
  let origin := base + BitVec.ofNat 64 (4096 + entryOff)
  let to := 0x00c000123456#64
  let content := fun i => if 4096 + entryOff ≤ i ∧ i < 4096 + entryOff + orig.length then orig.getD (i - 4096 - entryOff) 0 else pat i
  let s0 := mkState [some RX, some RX, some RX] content
  match install origin to funcSize none s0 with
  | (_, .refused why) => s!"refused:{why}"
  | (s1, .done o) =>
    let jd0 := Gen.Amd64.jmpToFunctionValue origin to
    let entry := (List.range 13).map (fun i => s1.mem (origin + BitVec.ofNat 64 i))
    let saved := savedOriginBytes s0 origin to          -- what the guard holds (patch.go:123)
    let jd := Gen.Amd64.jmpToFunctionValue origin to
    let (s2, o2) := unpatch origin saved s1
    let back := (List.range 13).map (fun i => s2.mem (origin + BitVec.ofNat 64 i))
    let pg := base + BitVec.ofNat 64 4096
    let rel := fun (cs : List String) => cs  -- calls are printed relative to `base`; the probe prints them relative to page(entry)-4096
    let _ := pg
    s!"apply={outcomeName o} entry={maskJump entry} calls={joinOr (rel (callsOf origin jd0 s0))} unpatch={outcomeName o2} restored={back == orig} calls2={joinOr (callsOf origin saved s1)} lens={saved.length}/{jd.length}"

def handle (toks : List String) : Option String :=
  match toks with
  | ["c14.ps", a] =>
    match parseNat a with
    | some n => some s!"ps={hex64 (Gen.Page.PageStart (BitVec.ofNat 64 n))}"
    | none => some "bad-op"
  | ["c14.write", off, hx, perms] =>
    match parseNat off, parseBytes hx, parsePerms perms with
    | some o, some d, some ps => some (doWrite o d ps)
    | _, _, _ => some "bad-op"
  | ["c14.writewx", off, hx, perms] =>       -- the same under a W^X kernel policy (RWX requests refused)
    match parseNat off, parseBytes hx, parsePerms perms with
    | some o, some d, some ps => some (doWrite o d ps true)
    | _, _, _ => some "bad-op"
  | "c14.survey" :: _ => some "oracle-only"
  | "c14.tramp" :: _ => some "oracle-only"
  | "c14.gen" :: fs :: _ =>
    match parseNat fs with
    | some n =>
      match genJumpData base (base + 0x1000#64) n with
      | .ok jd => some s!"ok len={jd.length}"
      | .error e => some s!"err:{e}"
    | none => some "bad-op"
  | "c14.install" :: eo :: fs :: orig :: _ =>
    match parseNat eo, parseNat fs, parseBytes orig with
    | some e, some f, some ob => some (doInstall e f ob)
    | _, _, _ => some "bad-op"
  | t :: _ => if t.startsWith "c14." then some "bad-op" else none
  | _ => none

end Drv.C14
