import GoomVerif.Drv.Util
import GoomVerif.Model.Iface
/-! Driver for C07: one whole history per line.
    `c07.hist T:<tid>:<name>/<sig>,.. V:<tid>:<init> .. <op> ..` with ops
    `ap:b:v:name:k  rt:b:v:name:k  wn:b:v:name:k:a  rs:b  dr:b  gc  ca:v  wd:v  od:tid`;
    one observation per op joined by `;`.  The repaired configuration `Cfg.fixed` is the one the theorems are about. -/
namespace Drv.C07
open Iface

structure Env where
  decls : List (Nat × List (String × Nat)) := []     -- type id ↦ declared (name, sig)
  vars : List (Nat × Nat) := []                       -- var id (position) ↦ (type, init)
  created : List Nat := []                            -- callback ids whose closure exists
  maxB : Nat := 0

def declOf (e : Env) (t : Nat) : List (String × Nat) :=
  match e.decls.find? (fun p => p.1 = t) with
  | some p => p.2
  | none => []

def sigOf (e : Env) (t : Nat) (m : String) : Nat :=
  match (declOf e t).find? (fun p => p.1 = m) with
  | some p => p.2
  | none => 0

def hName (n : String) : Nat := (n.toUTF8.foldl (fun a c => a + c.toNat) 0) % 97

def showRes (sig x : Nat) (m : String) : Res → String
  | .cb k => if sig = 2 then s!"s{k}" else if sig = 1 then s!"r{k * 100000 + x * 10 + 2}" else s!"r{k * 100000 + x * 10}"
  | .ret k => if sig = 2 then s!"s{k}" else s!"r{k * 100000 + 99}"
  | .impl id => if sig = 2 then s!"impl{id}" else s!"r-{id * 100000 + hName m * 1000 + x * 10 + (if sig = 1 then 2 else 0)}"
  | .panic c => s!"panic:{c}"

def parseDecl (s : String) : Option (List (String × Nat)) :=
  if s = "" then some [] else
  (s.splitOn ",").mapM fun d =>
    -- `<name>/<sig>`; a qualified name `name@pkg/path` contains slashes itself: the signature is after the last one
    match (d.splitOn "/").reverse with
    | sg :: rest@(_ :: _) => (parseNat sg).map fun g => (String.intercalate "/" rest.reverse, g)
    | _ => none

def natList (l : List Nat) : String := String.intercalate "," (l.map toString)

/-- roots of the collector: every variable (globals of the probe) and every builder the test still holds -/
def roots (e : Env) : List Node :=
  (List.range e.vars.length).map Node.var ++ (List.range (e.maxB + 1)).map Node.bld

def collectable (e : Env) (s : St) : List Nat :=
  let live := bfs s 100000 (roots e) []
  e.created.reverse.filter fun k => !(live.contains (Node.clo k))

def go (e : Env) (s : St) (started : Bool) (toks : List String) (acc : List String) : String :=
  match toks with
  | [] => String.intercalate ";" acc.reverse
  | tk :: rest =>
    let f := tk.splitOn ":"
    -- the state is created when the first op arrives
    let start (e : Env) (s : St) : St :=
      if started then s else
        St.init (fun t => sortMeths ((declOf e t).map (·.1)))
                (fun v => (e.vars.getD v (0, 0)).1)
                (fun v => Words.val (e.vars.getD v (0, 0)).2)
                (fun t => (sortMeths ((declOf e t).map (·.1))).map (sigOf e t))
    match f with
    | ["T", t, d] =>
      match parseNat t, parseDecl d with
      | some t, some d => if started then "bad-op" else go { e with decls := e.decls ++ [(t, d)] } s false rest acc
      | _, _ => "bad-op"
    | ["V", t, i] =>
      match parseNat t, parseNat i with
      | some t, some i => if started then "bad-op" else go { e with vars := e.vars ++ [(t, i)] } s false rest acc
      | _, _ => "bad-op"
    | ["pc", b, v, _called, k, names] =>
      -- another goroutine calls an already mocked method while this one applies further mocks: for the model the
      -- history is the sequence of those mocks (the calls do not change the state)
      let s := start e s
      match parseNat b, parseNat v, parseNat k with
      | some b, some v, some k =>
        if v ≥ e.vars.length ∨ k ≠ s.ncb ∨ ¬ (s.blds b).alive then "bad-op" else
        let rec apply (s : St) (e : Env) (ns : List String) (k : Nat) (res : String) : Option (St × Env × String) :=
          match ns with
          | [] => some (s, e, res)
          | m :: r =>
            match step Cfg.fixed s (.mock b v m .ap (sigOf e (s.vtyp v) m)) with
            | none => none
            | some (s', .ok) => apply s' { e with created := k :: e.created } r (k + 1) res
            | some (s', .panic c) => apply s' e r (k + 1) s!"panic:{c}"
        match apply s e (names.splitOn ",") k "ok" with
        | none => "unmodelled"
        | some (s', e', res) => go { e' with maxB := max e'.maxB b } s' true rest (res :: acc)
      | _, _, _ => "bad-op"
    | kind :: b :: v :: m :: k :: more =>
      let s := start e s
      match parseNat b, parseNat v, parseNat k with
      | some b, some v, some k =>
        if v ≥ e.vars.length ∨ k ≠ s.ncb ∨ ¬ (s.blds b).alive then "bad-op" else
        -- kind token: optional prefix `h` (kept handle), `ap|rt|wn`, optional suffix `x` (callback does not fit the method)
        let kl := kind.toList
        let (viaH, kl) := match kl with | 'h' :: r => (true, r) | r => (false, r)
        let (fits, kl) := match kl.reverse with | 'x' :: r => (false, r.reverse) | _ => (true, kl)
        let kd : Option Kind := match String.ofList kl, more with
          | "ap", [] => some .ap
          | "rt", [] => some .rt
          | "wn", [a] => (parseNat a).map Kind.wn
          | _, _ => none
        match kd with
        | none => "bad-op"
        | some kd =>
          let isWn := match kd with | .wn _ => true | _ => false
          if isWn && sigOf e (s.vtyp v) m == 2 then "bad-op" else
          -- the callback the test wrote fits the method it names (the own-package one); a misfit gets class 100+sig
          let csig := if fits then sigOf e (s.vtyp v) m else 100 + sigOf e (s.vtyp v) m
          let op : Op := if viaH then .mockH b v m kd csig else .mock b v m kd csig
          match step Cfg.fixed s op with
          | none => "unmodelled"
          | some (s', st) =>
            let e := { e with maxB := max e.maxB b }
            match st with
            | .ok => go { e with created := k :: e.created } s' true rest ("ok" :: acc)
            | .panic c => go e s' true rest (s!"panic:{c}" :: acc)
      | _, _, _ => "bad-op"
    | ["as", v, x] =>
      let s := start e s
      match parseNat v, parseNat x with
      | some v, some x =>
        if v ≥ e.vars.length then "bad-op" else
        match step Cfg.fixed s (.assign v x) with
        | some (s', _) => go e s' true rest ("ok" :: acc)
        | none => "unmodelled"
      | _, _ => "bad-op"
    | ["cn", b, v, m] =>
      let s := start e s
      match parseNat b, parseNat v with
      | some b, some v =>
        if v ≥ e.vars.length ∨ ¬ (s.blds b).alive then "bad-op" else
        match step Cfg.fixed s (.cancelM b v m) with
        | none => "unmodelled"
        | some (s', st) =>
          let o := match st with | .ok => "ok" | .panic c => s!"panic:{c}"
          go { e with maxB := max e.maxB b } s' true rest (o :: acc)
      | _, _ => "bad-op"
    | ["rs", b] =>
      let s := start e s
      match parseNat b with
      | some b =>
        if ¬ (s.blds b).alive then "bad-op" else
        match step Cfg.fixed s (.reset b) with
        | some (s', _) => go { e with maxB := max e.maxB b } s' true rest ("ok" :: acc)
        | none => "unmodelled"
      | none => "bad-op"
    | ["dr", b] =>
      let s := start e s
      match parseNat b with
      | some b =>
        match step Cfg.fixed s (.drop b) with
        | some (s', _) => go { e with maxB := max e.maxB b } s' true rest ("ok" :: acc)
        | none => "unmodelled"
      | none => "bad-op"
    | ["mx"] => go e s started rest (toString maxMethod :: acc)
    | ["gc"] =>
      let s := start e s
      go e s true rest (s!"collectable={natList (collectable e s)}" :: acc)
    | ["ca", v] =>
      let s := start e s
      match parseNat v with
      | some v =>
        if v ≥ e.vars.length then "bad-op" else
        let t := s.vtyp v
        let ms := s.types t
        let rs := (List.range ms.length).filterMap fun mi =>
          let m := ms.getD mi ""
          if sigOf e t m == 9 then none else          -- foreign methods the test package cannot call
          some s!"{m}={showRes (sigOf e t m) (7 + mi) m (call s v m (7 + mi))}"
        go e s true rest (String.intercalate "|" rs :: acc)
      | none => "bad-op"
    | ["wd", v] =>
      let s := start e s
      match parseNat v with
      | some v =>
        if v ≥ e.vars.length then "bad-op" else
        let o := match s.vars v with
          | .val 0 => "nil"
          | .val id => s!"impl{id}"
          | .fake _ _ => "fake"
        go e s true rest (o :: acc)
      | none => "bad-op"
    | ["od", t] =>
      match parseNat t with
      | some t => go e s started rest (String.intercalate "," (sortMeths ((declOf e t).map (·.1))) :: acc)
      | none => "bad-op"
    | _ => "bad-op"

def handle (toks : List String) : Option String :=
  match toks with
  | "c07.hist" :: rest => some (go {} (St.init (fun _ => []) (fun _ => 0) (fun _ => .val 0)) false rest [])
  | _ => none

end Drv.C07
