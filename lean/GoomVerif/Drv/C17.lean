import GoomVerif.Drv.Util
import GoomVerif.Model.A64Dec
import GoomVerif.Model.A64Full
/-! Driver for C17.
    `c17.dec <word> <row|->`   → what the model decodes under the oracle that lets exactly the claimed row through
                                 (`A64Dec.claimEnv`): equal to the implementation's observation iff that observation is
                                 consistent with the regenerated table and the interpreted argument decoders.
    `c17.def <word>`           → `def …` when the result is the same for every oracle, `indef` otherwise.
    `c17.inner <w0> <w1> …`    → GetInnerFunc on the code words (zero words follow), all words must be env-independent.
    `c17.size <0|1> <w0> …`    → GetFuncSize. -/
namespace Drv.C17
open A64Dec

def showArg : Arg → String
  | .pcrel d => s!"p{d.toInt}"
  | .reg x n => (if x then "X" else "W") ++ toString n
  | .cond c => s!"c{c}"
  | .imm v => s!"i{v}"
  | .imm64 v => s!"q{v.toNat}"
  | .immShift a b => s!"s{a}:{b}"
  | .mem rn off => s!"m{rn}:{off}"
  | .other => "?"

def showRes : Option Res → String
  | none => "err:unknown"
  | some r => s!"row={r.row} op={opName r.op} args={if r.args.isEmpty then "-" else String.intercalate "," (r.args.map showArg)}"

def parseWords : List String → Option (List (BitVec 32))
  | [] => some []
  | t :: ts => do
    let n ← parseNat t
    if n ≥ 2 ^ 32 then none
    let r ← parseWords ts
    pure (BitVec.ofNat 32 n :: r)

def memOf (ws : Array (BitVec 32)) (c : Nat) : BitVec 32 := if c % 4 == 0 then ws.getD (c / 4) 0#32 else 0#32

/-- the words a scan can decode must be env-independent: everything before the first prologue triple at an offset > 0
    (the scans test for the prologue before decoding at that offset and return), plus the zero padding. -/
def decodedPart : List (BitVec 32) → Nat → List (BitVec 32)
  | [], _ => []
  | w :: ws, i =>
    if i > 0 && (w :: ws).take 3 == prologue then [] else w :: decodedPart ws (i + 1)

def fbF : Env := { condOk := fun _ _ _ => false, argOk := fun _ _ _ => false }
def fbT : Env := { condOk := fun _ _ _ => true, argOk := fun _ _ _ => true }

/-- a word is modelled when the oracle-free decoder gives the same answer whether the (two) untranslated predicates hold or not -/
def allDef (ws : List (BitVec 32)) : Bool := (decodedPart ws 0 ++ [0#32]).all (fun w => decodeFull fbF w == decodeFull fbT w)

def handle (toks : List String) : Option String :=
  match toks with
  | ["c17.dec", w, c] =>
    match parseNat w, (if c = "-" then some none else (parseNat c).map some) with
    | some n, some claim => if n ≥ 2 ^ 32 then some "bad-op" else some (showRes (decode (claimEnv claim) (BitVec.ofNat 32 n)))
    | _, _ => some "bad-op"
  | ["c17.full", w, c] =>
    match parseNat w, (if c = "-" then some none else (parseNat c).map some) with
    | some n, some claim => if n ≥ 2 ^ 32 then some "bad-op" else some (showRes (decodeFull (claimEnv claim) (BitVec.ofNat 32 n)))
    | _, _ => some "bad-op"
  | ["c17.arg", k, w] =>
    match parseNat k, parseNat w with
    | some kn, some n => if n ≥ 2 ^ 32 then some "bad-op" else
      match Gen.A64Args.decodeArgOut kn (BitVec.ofNat 32 n) with
      | .val => some "val"
      | .nil => some "nil"
      | .panic => some "panic"
      | .unknown => some "untranslated"
    | _, _ => some "bad-op"
  | ["c17.cond", name, w] =>
    match parseNat w with
    | some n => if n ≥ 2 ^ 32 then some "bad-op" else
      match Gen.A64Args.condByName name with
      | some f => some (if f (BitVec.ofNat 32 n) then "true" else "false")
      | none => some "untranslated"
    | none => some "bad-op"
  | ["c17.short", w, n] =>
    match parseNat w, parseNat n with
    | some wn, some k => if wn ≥ 2 ^ 32 || k ≥ 4 then some "bad-op" else
      let x := BitVec.ofNat 32 wn
      let bytes : List (BitVec 8) := [x.setWidth 8, (x >>> 8).setWidth 8, (x >>> 16).setWidth 8, (x >>> 24).setWidth 8]
      match decodeSrc (claimEnv none) (bytes.take k) with
      | .short => some "err:short"
      | .unknown => some "err:unknown"
      | .ok _ => some "decoded"
    | _, _ => some "bad-op"
  | ["c17.def", w] =>
    match parseNat w with
    | some n => if n ≥ 2 ^ 32 then some "bad-op" else
      match decodeDef (BitVec.ofNat 32 n) with
      | some r => some ("def " ++ showRes r)
      | none => some "indef"
    | none => some "bad-op"
  | "c17.inner" :: ws =>
    match parseWords ws with
    | some l =>
      if !allDef l then some "unmodelled" else
      let start : BitVec 64 := 0x10000000000#64
      match getInnerFunc (genEnv fbF) (memOf l.toArray) start 1100 0 false with
      | .target a => some s!"target={(a - start).toInt}"
      | .zero => some "zero"
      | .err => some "err"
      | .fuel => some "fuel"
    | none => some "bad-op"
  | "c17.size" :: m :: ws =>
    match parseWords ws, (if m = "0" then some false else if m = "1" then some true else none) with
    | some l, some minimal =>
      if !allDef l then some "unmodelled" else
      match getFuncSize (genEnv fbF) (memOf l.toArray) minimal (l.length + 2) 0 false with
      | some n => some s!"size={n}"
      | none => some "fuel"
    | _, _ => some "bad-op"
  | "c17.size2" :: m :: ws =>
    match parseWords ws, (if m = "0" then some false else if m = "1" then some true else none) with
    | some l, some minimal =>
      if !allDef l then some "unmodelled" else
      match getFuncSizeCached (genEnv fbF) (memOf l.toArray) minimal (l.length + 2) none with
      | some (n1, c1) =>
        match getFuncSizeCached (genEnv fbF) (memOf l.toArray) minimal (l.length + 2) c1 with
        | some (n2, c2) => some s!"size={n1} again={n2} cached={c2.isSome}"
        | none => some "fuel"
      | none => some "fuel"
    | _, _ => some "bad-op"
  | t :: _ => if t.startsWith "c17." then some "bad-op" else none
  | _ => none

end Drv.C17
