import GoomVerif.Drv.Util
import GoomVerif.Model.Debug
/-! Driver for C19.
    `c19.s <cfg> <target> <op> ; <op> ; ...`  → `T=<transcript> W=<wrapper bits> L=<call-log lines>`
    `c19.sv <kind>:<val> ...`                  → `sv=<SprintV text, blanks as _>`
    The value zoo and the targets are those of harness/c19/probe_test.go. -/
namespace Drv.C19
open Debug

def strAtom (t : String) : Val := .atom { kind := .str, isNil := false, tok := t, n := (t.length : Int) - 1 }

def allLower (cs : List Char) : Bool := cs.all (fun c => ('a' ≤ c ∧ c ≤ 'z') || ('0' ≤ c ∧ c ≤ '9'))

/-- canonical decimal only (what the generators emit), so tokens compare like values -/
def parseIntTok (t : String) : Option Int :=
  match parseInt t with
  | some z => if toString z == t then some z else none
  | none => none

def parseNodeTok (t : String) : Option Val :=
  if t == "nil" then some nilPtr
  else match t.toList with
    | 'n' :: r => match (String.ofList r).toNat? with
      | some k => if k < 4 && toString k == String.ofList r then some (.atom { kind := .ptr, isNil := false, tok := t }) else none
      | none => none
    | _ => none

def zooIds : List Nat := [0, 1, 2, 3, 4, 5, 6, 7, 8, 9, 10, 11, 12, 13, 14, 15, 16, 17, 20, 21, 22, 23]

/-- zoo values whose String() / Error() method records an event in the probe -/
def renderEventsDrv (v : Val) : List String :=
  if v.tok == "z16" then ["!str"] else if v.tok == "z17" then ["!err"] else []

def parseAnyTok (t : String) : Option Val :=
  let mk : Val := .atom { kind := .iface, isNil := false, tok := t }
  if t == "nil" then some nilIface
  else if t == "tn" then some mk
  else match t.toList with
    | 'p' :: r => (parseNodeTok (String.ofList r)).bind (fun v => if v.isNil then none else some mk)
    | 'i' :: r => (parseIntTok (String.ofList r)).map (fun _ => mk)
    | 't' :: r => if allLower r then some mk else none
    | 'z' :: r => match (String.ofList r).toNat? with
      | some k => if zooIds.contains k && toString k == String.ofList r then some mk else none
      | none => none
    | _ => none

def parseByKind (k : Kind) (t : String) : Option Val :=
  match k with
  | .int => (parseIntTok t).map intVal
  | .str => match t.toList with
    | 's' :: r => if allLower r then some (strAtom t) else none
    | _ => none
  | .ptr => parseNodeTok t
  | .iface => parseAnyTok t
  | _ => none

def unAtom : Val → Option Atom
| .atom a => some a
| .pack _ => none

structure Target where
  sig : Sig
  kind : MKind
  base : Int            -- the original returns base + numbers of its arguments
  pa : Bool             -- (*node, interface{}) → (*node, interface{}) shape
  name : String := "probe-target"
  recvTok : String := "recv"
  org : Bool := false   -- leaf target mocked with an Origin placeholder: callbacks may call the original

def recvK : List Kind := [.ptr]

def target (t : String) : Option Target :=
  match t with
  | "f2" => some { sig := { params := [.int, .str], velem := none, nOut := 1, isMethod := false }, kind := .patch, base := 1000, pa := false }
  | "fv" => some { sig := { params := [], velem := some .int, nOut := 1, isMethod := false }, kind := .patch, base := 2000, pa := false }
  | "fm" => some { sig := { params := [.str], velem := some .int, nOut := 1, isMethod := false }, kind := .patch, base := 3000, pa := false }
  | "fp" => some { sig := { params := [.ptr, .iface], velem := none, nOut := 2, isMethod := false }, kind := .patch, base := 0, pa := true }
  | "fa" => some { sig := { params := [.iface], velem := none, nOut := 1, isMethod := false }, kind := .patch, base := 6000, pa := false }
  | "it" => some { sig := { params := [.int], velem := none, nOut := 1, isMethod := false }, kind := .patch, base := 0, pa := false,
                   name := "strconv.Itoa" }
  | "ow" => some { sig := { params := [], velem := none, nOut := 1, isMethod := false }, kind := .patch, base := 57, pa := false, org := true }
  | "ox" => some { sig := { params := [.int], velem := none, nOut := 1, isMethod := false }, kind := .patch, base := 12, pa := false, org := true }
  | "oz" => some { sig := { params := [.int], velem := none, nOut := 1, isMethod := false }, kind := .patch, base := 7, pa := false, org := true }
  | "f0" => some { sig := { params := [.int], velem := none, nOut := 0, isMethod := false }, kind := .patch, base := 0, pa := false }
  | "rs" => some { sig := { params := recvK ++ [.int, .str], velem := none, nOut := 1, isMethod := true }, kind := .patch, base := 9000, pa := false,
                   recvTok := "recvS" }   -- receiver type whose String() calls the mocked method
  | "ms" => some { sig := { params := recvK ++ [.int, .str], velem := none, nOut := 1, isMethod := true }, kind := .patch, base := 4000, pa := false }
  | "mv" => some { sig := { params := recvK ++ [.str], velem := some .int, nOut := 1, isMethod := true }, kind := .patch, base := 5000, pa := false }
  | "ia" => some { sig := { params := recvK ++ [.int, .str], velem := none, nOut := 1, isMethod := true }, kind := .iface, base := 7000, pa := false }
  | "iv" => some { sig := { params := recvK ++ [.str], velem := some .int, nOut := 1, isMethod := true }, kind := .iface, base := 8000, pa := false }
  | "ip" => some { sig := { params := recvK ++ [.ptr, .iface], velem := none, nOut := 2, isMethod := true }, kind := .iface, base := 0, pa := true }
  | _ => none

/-- fmt as far as the driver needs it: total except on the slice/map cycles z20..z23 (finding F13) -/
def renderDrv (v : Val) : Option String :=
  match v with
  | .pack es => some ("[" ++ joinWith "_" (es.map (·.tok)) ++ "]")
  | .atom a =>
    if a.tok == "z20" || a.tok == "z21" || a.tok == "z22" || a.tok == "z23" || a.tok == "recvS" then none
    else match a.kind with
      | .int => some a.tok
      | .str => some (String.ofList (a.tok.toList.drop 1))
      | .map => some "map[]"
      | .ptr => if a.tok == "n0" then some "&{1_<nil>_<nil>__<nil>}" else some "ADDR"
      | .iface =>
        if a.tok == "tn" then some "<nil>"
        else match a.tok.toList with
          | 'i' :: r => some (String.ofList r)
          | 't' :: r => some (String.ofList r)
          | 'e' :: r => some (String.ofList r)
          | _ => some ("?" ++ a.tok)
      | _ => some ("?" ++ a.tok)

def paramKindsNoRecv (tg : Target) : List Kind := if tg.sig.isMethod then tg.sig.params.drop 1 else tg.sig.params

/-- comma list of argument tokens → values (fixed parameters by kind, the rest packed) -/
def parseArgs (tg : Target) (s : String) : Option (List Val) :=
  let parts := if s == "-" then [] else s.splitOn ","
  let ks := paramKindsNoRecv tg
  if parts.length < ks.length then none
  else
    let fixed := (ks.zip parts).mapM (fun (k, t) => parseByKind k t)
    let rest := parts.drop ks.length
    match fixed, tg.sig.velem with
    | some f, none => if rest.isEmpty then some f else none
    | some f, some e =>
      match rest.mapM (fun t => (parseByKind e t).bind unAtom) with
      | some es => some (f ++ [.pack es])
      | none => none
    | none, _ => none

def parsePats (tg : Target) (s : String) : Option (List String) :=
  let parts := s.splitOn ","
  let ks := paramKindsNoRecv tg
  (parts.zipIdx.mapM (fun (t, i) =>
    let k := match ks[i]? with | some k => k | none => (tg.sig.velem.getD .int)
    if k == .int || k == .str then (parseByKind k t).map Val.tok else none))

def parseResults (tg : Target) (s : String) : Option (List Val) :=
  if tg.sig.nOut = 0 then (if s == "-" then some [] else none) else
  let parts := s.splitOn ","
  parts.zipIdx.mapM (fun (t, i) =>
    if tg.pa then (if i == 0 then parseNodeTok t else parseAnyTok t) else (parseIntTok t).map intVal)

def parseCb (tg : Target) (t : String) : Option Cb :=
  let num (p : String) : Option Int := parseIntTok (String.ofList (t.toList.drop p.length))
  if t.startsWith "sum" then (if tg.pa then none else (num "sum").map (fun k => { name := t, kind := .sum, k := k }))
  else if t.startsWith "pan" then (num "pan").map (fun k => { name := t, kind := .pan, k := k })
  else if t.startsWith "org" then (if tg.org then (num "org").map (fun k => { name := t, kind := .org, k := k }) else none)
  else if t == "nilp" then some { name := t, kind := .nilp, k := 0 }
  else if t == "echo" then (if tg.pa then some { name := t, kind := .echo, k := 0 } else none)
  else if t == "retn" then (if tg.pa then some { name := t, kind := .retn, k := 0 } else none)
  else none

def recvAtomOf (tg : Target) : Val := .atom { kind := .ptr, isNil := false, tok := tg.recvTok }

def parseOp (tg : Target) (ws : List String) : Option Op :=
  match ws with
  | ["apply", cb] => (parseCb tg cb).map Op.apply
  | ["applybad"] => some Op.applyBad
  | ["ret", vs] => (parseResults tg vs).map Op.ret
  | ["when", a, vs] => do let p ← parsePats tg a; let r ← parseResults tg vs; pure (Op.when p r)
  | ["rets", seq] => ((seq.splitOn "|").mapM (parseResults tg)).map Op.rets
  | ["call", a] => (parseArgs tg a).map (fun as => Op.call (if tg.sig.isMethod then recvAtomOf tg :: as else as))
  | ["cancel"] => some Op.cancel
  | ["dbg", "on"] => some (Op.dbg .on)
  | ["dbg", "off"] => some (Op.dbg .off)
  | ["dbg", "tron"] => some (Op.dbg .tron)
  | ["dbg", "troff"] => some (Op.dbg .troff)
  | _ => none

def splitOps : List String → List String → List (List String)
| [], cur => [cur.reverse]
| ";" :: r, cur => cur.reverse :: splitOps r []
| t :: r, cur => splitOps r (t :: cur)

def parseCfg : String → Option Cfg
| "off" => some .off | "debug" => some .debug | "trace" => some .trace | "env" => some .env | _ => none

def origOf (tg : Target) (a : List Val) : List Val :=
  if tg.sig.nOut = 0 then [] else
  if tg.pa then [.atom { kind := .ptr, isNil := false, tok := "n0" }, .atom { kind := .iface, isNil := false, tok := "torig" }]
  else [intVal (tg.base + sumV a)]

def envOf (tg : Target) : Env :=
  { sig := tg.sig, kind := tg.kind, name := tg.name, render := renderDrv, orig := origOf tg, renderEvents := renderEventsDrv }

def bits (ws : List Bool) : String :=
  if ws.isEmpty then "-" else String.ofList (ws.map (fun b => if b then '1' else '0'))

def runScenario (cfg : Cfg) (tg : Target) (ops : List Op) : String :=
  let (ts, s) := run (envOf tg) (initSt cfg) ops
  "T=" ++ joinWith "|" ts ++ " W=" ++ bits s.wraps ++ " L=" ++ toString s.log.length

def parseSvTok (t : String) : Option Val :=
  match t.splitOn ":" with
  | [k, v] =>
    match k with
    | "I" => parseByKind .int v
    | "S" => parseByKind .str v
    | "P" => parseNodeTok v
    | "A" => parseAnyTok v
    | "E" => if v == "nil" then some nilIface
             else match v.toList with
               | 's' :: r => if allLower r then some (.atom { kind := .iface, isNil := false, tok := "e" ++ String.ofList r }) else none
               | _ => none
    | "V" => if v == "-" then some (.pack [])
             else ((v.splitOn ".").mapM (fun t => (parseByKind .int t).bind unAtom)).map Val.pack
    | "M" => some (.atom { kind := .map, isNil := true, tok := "m" })
    | "Q" => if v == "nil" then some nilPtr else some (.atom { kind := .ptr, isNil := false, tok := "q" })
    | _ => none
  | _ => none

def handle0 (toks : List String) : Option String :=
  match toks with
  | "c19.s" :: cfg :: tgt :: rest =>
    match parseCfg cfg, target tgt with
    | some c, some tg =>
      match (splitOps rest []).mapM (parseOp tg) with
      | some ops => if ops.isEmpty then some "bad-op" else
          let r := runScenario c tg ops
          if (r.splitOn "bad-op").length > 1 then some "bad-op" else some r
      | none => some "bad-op"
    | _, _ => some "bad-op"
  | "c19.s" :: _ => some "bad-op"
  | ["c19.lib", cfg, fn] =>
    if fn.startsWith "time.Now" then
      -- time.Now through any handle: mocker.String() is "time.Now", the wrappers return before logging (debug.go:29/:50)
      match parseCfg cfg with
      | some c =>
        let env : Env := { sig := { params := [], velem := none, nOut := 1, isMethod := false }, kind := .patch, name := excludeFunc,
                           render := renderDrv, orig := fun _ => [intVal 0] }
        let ops : List Op := if fn.endsWith "ret" || fn.endsWith "as" then [.ret [intVal 1], .call [], .cancel]
                             else [.apply { name := "m", kind := .sum, k := 0 }, .call [], .cancel]
        let (_, s) := run env (initSt c) ops
        some (if s.dead then "lib dead" else "lib r=m")
      | none => some "bad-op"
    else
    -- a one-string-parameter stand-in: Apply(callback); one call; Reset — for a function the logger does not call
    match parseCfg cfg with
    | some c =>
      let env : Env := { sig := { params := [.str], velem := none, nOut := 1, isMethod := false }, kind := .patch, name := "lib",
                         render := renderDrv, orig := fun _ => [intVal 0] }
      -- `sites<N>`: N calls from N distinct source lines; everything else: one call
      let n := if fn.startsWith "sites" then ((String.ofList (fn.toList.drop 5)).toNat?).getD 1
               else if fn == "two.nested" then 2 else 1
      let (_, s) := run env (initSt c) ([.apply { name := "m", kind := .sum, k := 0 }] ++ List.replicate n (.call [strAtom "sx"]) ++ [.cancel])
      some ("lib n=" ++ toString s.wraps.length ++ (if s.dead then " dead" else " r=m"))
    | none => some "bad-op"
  | "c19.lib" :: _ => some "bad-op"
  | "c19.sv" :: vals =>
    match vals.mapM parseSvTok with
    | some vs =>
      match sprintV renderDrv vs with
      | some s => some ("sv=" ++ s)
      | none => some "sv-CRASH"
    | none => some "bad-op"
  | _ => none

/-- variable-mock lane: `c19.v <cfg> <var> <op> ; ...`  var: vp/up (*node, nil before), vq/uq (*node, n0 before), vi/ui (int 7) -/
def varInitial (var : String) : Option (Val × Bool) :=
  match var with
  | "vp" => some (nilPtr, true) | "up" => some (nilPtr, true)
  | "vq" => some (.atom { kind := .ptr, isNil := false, tok := "n0" }, true) | "uq" => some (.atom { kind := .ptr, isNil := false, tok := "n0" }, true)
  | "vi" => some (intVal 7, false) | "ui" => some (intVal 7, false)
  | _ => none

def parseVarOp (isPtr : Bool) (ws : List String) : Option VarOp :=
  let val (t : String) : Option Val := if isPtr then parseNodeTok t else (parseIntTok t).map intVal
  match ws with
  | ["set", t] => (val t).map VarOp.set
  | ["apply", t] => (val t).map VarOp.apply
  | ["reset"] => some .reset
  | ["read"] => some .read
  | ["dbg", "on"] => some (.dbg .on)
  | ["dbg", "off"] => some (.dbg .off)
  | ["dbg", "tron"] => some (.dbg .tron)
  | ["dbg", "troff"] => some (.dbg .troff)
  | _ => none

def handleVar (toks : List String) : Option String :=
  match toks with
  | "c19.v" :: cfg :: var :: rest =>
    match parseCfg cfg, varInitial var with
    | some c, some (v0, isPtr) =>
      match (splitOps rest []).mapM (parseVarOp isPtr) with
      | some ops =>
        let (ts, s) := varRun (varInit c v0) ops
        some ("T=" ++ joinWith "|" ts ++ " W=- L=" ++ toString s.log.length)
      | none => some "bad-op"
    | _, _ => some "bad-op"
  | "c19.v" :: _ => some "bad-op"
  | _ => none

/-- `c19.h` = the same scenarios, replayed in a process whose log file cannot be opened (the model has no file) -/
def handle (toks : List String) : Option String :=
  match toks with
  | "c19.h" :: rest => handle0 ("c19.s" :: rest)
  | "c19.v" :: _ => handleVar toks
  | _ => handle0 toks

end Drv.C19
