import GoomVerif.Drv.Util
import GoomVerif.Model.Reject
/-! Driver for C13: one configuration call per line (`c13 func|nonfunc|method|export|iface …`), answered with the
    canonical observation the in-package probe prints for the real goom code (without its `after=` field, which is
    an oracle on the implementation only). -/
namespace Drv.C13
open Reject

def tyOf (tok : String) : Option Ty :=
  match tok with
  | "bool" => some ⟨.bool, 1, 20, false, 0⟩ | "i8" => some ⟨.int, 1, 21, false, 0⟩ | "i16" => some ⟨.int, 2, 22, false, 0⟩
  | "i32" => some ⟨.int, 4, 23, false, 0⟩ | "i64" => some ⟨.int, 8, 24, false, 0⟩ | "int" => some ⟨.int, 8, 25, false, 0⟩
  | "uint" => some ⟨.int, 8, 26, false, 0⟩ | "u32" => some ⟨.int, 4, 27, false, 0⟩ | "f32" => some ⟨.float, 4, 28, false, 0⟩
  | "f64" => some ⟨.float, 8, 29, false, 0⟩ | "c128" => some ⟨.complex, 16, 30, false, 0⟩ | "str" => some ⟨.str, 16, 31, false, 0⟩
  | "sl" => some ⟨.slice, 24, 32, false, 0⟩ | "err" => some ⟨.iface, 16, idError, false, 1⟩ | "any" => some ⟨.iface, 16, 33, false, 0⟩
  | "pi" => some ⟨.ptr, 8, 34, false, 0⟩ | "ps" => some ⟨.ptr, 8, 35, false, 0⟩ | "pe" => some ⟨.ptr, 8, 36, true, 0⟩
  | "prc" => some ⟨.ptr, 8, 37, false, 0⟩ | "s8" => some ⟨.strct, 8, 38, false, 0⟩ | "s16" => some ⟨.strct, 16, 39, false, 0⟩
  | "s16b" => some ⟨.strct, 16, 40, false, 0⟩ | "s24" => some ⟨.strct, 24, 41, false, 0⟩ | "a12" => some ⟨.array, 12, 42, false, 0⟩
  | "map" => some ⟨.map, 8, 43, false, 0⟩ | "ch" => some ⟨.chan, 8, 44, false, 0⟩
  | "ictx" => some ⟨.ptr, 8, idMockerICtx, false, 0⟩
  | "fn" => some ⟨.func, 8, 48, false, 0⟩
  | "dup" => some ⟨.strct, 16, 45, false, 0⟩ | "dupl" => some ⟨.strct, 4, 46, false, 0⟩ | "dupp" => some ⟨.strct, 1, 47, false, 0⟩
  | _ => none

def list? (s : String) : List String := if s = "-" then [] else s.splitOn ","

def tys? (s : String) : Option (List Ty) := (list? s).mapM tyOf

/-- the value the probe hands over for a value token: the stub value's DYNAMIC type -/
def valOf (tok : String) : Option V :=
  match tok with
  | "nil" => some .nil
  | "any()" => some .expr
  | "iictx" => some (.val ⟨.ptr, 8, idIfaceICtx, false, 0⟩)
  | "err" => (tyOf "pe").map .val      -- error(&ZErr{..})
  | "any" => (tyOf "int").map .val     -- interface{}(7)
  | t => (tyOf t).map .val

def vals? (s : String) : Option (Option (List V)) :=
  if s = "-" then some none else ((s.splitOn ",").mapM valOf).map some

def sig? (ins outs var : String) : Option Sig := do
  let i ← tys? ins
  let o ← tys? outs
  let v := var = "1"
  let elem ← tyOf "int"
  pure { ins := i, outs := o, variadic := v, velem := elem }

def errName : ErrT → String
  | .str => "str" | .reflect => "reflect" | .runtime => "runtime" | .plain => "plain" | .traceable => "traceable"
  | .illegalParam => "illegalparam" | .illegalParamType => "illegalparamtype"
  | .argsNotMatch g w => s!"argsnotmatch({g}/{w})" | .returnsNotMatch g w => s!"returnsnotmatch({g}/{w})"

def clsName : Cls → String
  | .sigArgsLen => "sig-args-len" | .sigRetsLen => "sig-rets-len" | .sigArgSize i => s!"sig-arg-size:{i}"
  | .sigRetSize i => s!"sig-ret-size:{i}" | .reflect => "reflect" | .runtime => "runtime" | .argsNotMatch => "argsnotmatch"
  | .returnsNotMatch => "returnsnotmatch" | .retvalCount => "retval-count" | .retvalType => "retval-type"
  | .whenCount => "when-count" | .whenType => "when-type" | .methodEmpty => "method-empty" | .methodNotFound => "method-not-found"
  | .symbolNotFound => "symbol-not-found" | .trampKind => "tramp-kind" | .trampSmall => "tramp-small" | .funcSmall => "func-small"
  | .alreadyPatched => "already-patched" | .illegalParam => "illegalparam" | .illegalParamType => "illegalparamtype"
  | .ictxReturn => "ictx-return" | .ifaceNoAs => "iface-no-as" | .nameEmpty => "name-empty" | .funcDefEmpty => "funcdef-empty"
  | .targetKind => "target-kind" | .replKind => "repl-kind" | .inCount => "in-count" | .inType => "in-type"

/-- what `erro.CauseBy` answers for the Traceable nodes of the walk (`k/n`) and for an unrelated Traceable (`,x`) -/
def cbyStr (chain : List ErrT) : String :=
  match chain with
  | [.str] | [.reflect] | [.runtime] => "-"
  | _ => let n := leadingTraceable chain; s!"{n}/{n},0"

def resStr : R Unit → String
  | .ok _ => "ok chain=- walk=- cby=-"
  | .error r =>
    let w := match walk r.chain with | some e => errName e | none => "-"
    s!"rej:{clsName r.cls} chain={String.intercalate ">" (r.chain.map errName)} walk={w} cby={cbyStr r.chain}"

def behName : Beh → String | .orig => "orig" | .cb => "cb" | .stub => "stub" | .nomatch => "nomatch"

/-- behaviour of a result-less target: with nothing to return the always-present empty matcher answers (`stub`) -/
def regName (g : G) (t : Nat) : String :=
  match g.patches t with
  | none => "none"
  | some e => if !e.complete then "stale" else if !e.applied then "idle" else "live"

def diffStr (before after : G) (t : Nat) (tr : Option Nat) (accepted : Bool) : String :=
  let parts := (if before.text t ≠ after.text t then ["tgt"] else [])
    ++ (match tr with
        | some i => if !accepted && before.tramp i ≠ after.tramp i then ["tramp"] else []
        | none => [])
  if parts.isEmpty then "none" else String.intercalate "+" parts

def action? : List String → Option Action
  | ["apply", ci, co, cv] => (sig? ci co cv).map (fun s => .apply (.fn s))
  | ["applyval", tok] => (valOf tok).map .apply
  | ["return", vs] => (vals? vs).map .ret
  | ["when", as] => (vals? as).map (fun a => .when_ a none)
  | ["when", as, "return", vs] => do let a ← vals? as; let v ← vals? vs; pure (.when_ a (some v))
  | _ => none

def originOf (s : String) : Option OriginV :=
  match s with
  | "none" => some .none
  | "ok" => some (.ptrFunc ⟨1, 64, 30⟩)
  | "small" => some (.ptrFunc ⟨2, 32, 30⟩)
  | "fnval" => some (.funcVal ⟨3, 64, 30⟩)
  | "int" => some (.value .int)
  | "str" => some (.value .str)
  | "pint" => some (.ptrTo .int)
  | _ => none

def trampId : OriginV → Option Nat | .ptrFunc tr => some tr.id | .funcVal tr => some tr.id | _ => none

def tgtId (name : String) : Option Nat := (name.drop 1).toNat?

def preState (t : Nat) : G :=
  { G.init with text := upd G.init.text t (some 900), writes := 1, patches := upd G.init.patches t (some ⟨900, true, true⟩) }

def kindOfTok (tok : String) : Kind :=
  match valOf tok with
  | some (.val t) => t.kind
  | some (.fn _) => .func
  | some .expr => .ptr
  | _ => .invalid

/-! ### sequences -/

def splitSemi : List String → List (List String)
  | [] => [[]]
  | t :: rest =>
    match splitSemi rest with
    | [] => [[t]]
    | cur :: more => if t = ";" then [] :: cur :: more else (t :: cur) :: more

def vlist? (s : String) : Option (List V) := (list? s).mapM valOf

/-- does a matcher built from these value tokens match the probe's call (which passes the stub value of every
    parameter type)?  token-wise: `any()` or the parameter's own token -/
def hitOf (args : String) (ins : List String) : Bool :=
  let a := list? args
  a.length = ins.length && (a.zip ins).all (fun (x, y) => x = "any()" || x = y)

def groups? (s : String) (ins : List String) : Option (List (InArg × Bool)) :=
  (s.splitOn "|").mapM (fun g => (vlist? g).map (fun v =>
    match v with
    | [one] => (InArg.bare one, hitOf g ins)     -- the probe hands a one-token group over bare
    | _ => (InArg.list v, hitOf g ins)))

def pairs? (s : String) (ins : List String) : Option (List (List V × Bool × List V)) :=
  (s.splitOn "|").mapM (fun p => match p.splitOn "=" with
    | [a, r] => do let av ← vlist? a; let rv ← vlist? r; pure (av, hitOf a ins, rv)
    | _ => none)

def step? (ins : List String) (holderHas : Bool := true) : List String → Option Step
  | ["holder"] => some (.holder holderHas)
  | ["returns", "()"] => some (.returns [])
  | ["apply", ci, co, cv] => (sig? ci co cv).map (fun s => .apply (.fn s))
  | ["return", vs] => (vals? vs).map .ret
  | ["when", as] => (vals? as).map (fun a => .when_ a (hitOf as ins))
  | ["returns", gs] => ((gs.splitOn "|").mapM vlist?).map .returns
  | ["andreturn", vs] => (vals? vs).map .andReturn
  | ["in", gs] => (groups? gs ins).map .in_
  | ["matches", ps] => (pairs? ps ins).map .matchPairs
  | ["again"] => some .again
  | ["applyval", tok] => (valOf tok).map .apply
  | ["lookup", name, found] => some (.lookup (if name = "-" then "" else name) (found = "1"))
  | ["as", ci, co] => (sig? ci co "0").map .asFn
  | _ => none

def steps? (ins : List String) (toks : List String) (holderHas : Bool := true) : Option (List Step) :=
  (splitSemi toks).mapM (step? ins holderHas)

def behIface (s : IS) : String :=
  if !s.set then "nil" else match s.imp with
    | .none => "nil" | .cb => "cb"
    | .whenFn => match s.when with
      | some w => if w.anyHit || w.hasDefault then "stub" else "nomatch"
      | none => "nomatch"

def trailStr (rs : List (R Unit)) : String :=
  String.intercalate "," (rs.map (fun r => match r with | .ok _ => "ok" | .error e => s!"rej:{clsName e.cls}"))

/-- what every method of the interface does when called through the variable: only the named one is ever mocked -/
def methStr (s : IS) (name names : String) : String :=
  if !s.set then "nil" else
  String.intercalate "," ((list? names).map (fun n => if n = name then s!"{n}:{behIface s}" else s!"{n}:unimpl"))

/-- the parameter tokens a matching condition list has for the probe's call: a variadic call passes ONE element (`[]int{7}`) -/
def hitIns (ins : List String) (var : String) : List String :=
  if var = "1" then ins.dropLast ++ ["int"] else ins

def handleSeq (toks : List String) : Option String :=
  match toks with
  | "c13" :: "seqf" :: tgt :: ins :: outs :: var :: pre :: st =>
    match tgtId tgt, sig? ins outs var, steps? (hitIns (list? ins) var) st with
    | some t, some s, some steps =>
      let g0 := if pre = "1" then preState t else G.init
      let b0 : Beh := if pre = "1" then .cb else .orig
      let (a, b, r, i) := runSeq { id := t, sig := s } false 901 ⟨g0, none, .none⟩ steps 0
      let acc := match r with | .ok _ => true | .error _ => false
      some s!"{resStr r} step={i} before={behName (behOf b0 a)} diff={diffStr a.g b.g t none acc} beh={behName (behOf b0 b)} reg={regName b.g t}"
    | _, _, _ => some "bad-op"
  | "c13" :: "seqm" :: _name :: ins :: outs :: var :: st =>
    match sig? ins outs var, steps? (hitIns ((list? ins).drop 1) var) st with
    | some s, some steps =>
      let (a, b, r, i) := runSeq { id := 0, sig := s } true 901 ⟨G.init, none, .none⟩ steps 0
      let acc := match r with | .ok _ => true | .error _ => false
      some s!"{resStr r} step={i} before={behName (behOf .orig a)} diff={diffStr a.g b.g 0 none acc} beh={behName (behOf .orig b)} reg={regName b.g 0}"
    | _, _ => some "bad-op"
  | "c13" :: "seqi" :: name0 :: names :: mins :: mouts :: ci :: co :: st =>
    let name := (name0.splitOn "@").headD name0
    match sig? mins mouts "0", sig? ci co "0", steps? ((list? ci).drop 1) st (!name0.endsWith "@n") with
    | some m, some fn, some steps =>
      let (a, b, r, i) := runIfaceSeq m ⟨false, none, .none, fn, false⟩ steps 0
      some s!"{resStr r} step={i} before={behIface a} beh={behIface b} var={if b.set then "set" else "nil"} meth={methStr b name names}"
    | _, _, _ => some "bad-op"
  | "c13" :: "rtf" :: tgt :: ins :: outs :: var :: pre :: st =>
    match tgtId tgt, sig? ins outs var, steps? (hitIns (list? ins) var) st with
    | some t, some s, some steps =>
      let g0 := if pre = "1" then preState t else G.init
      let b0 : Beh := if pre = "1" then .cb else .orig
      let (a, b, rs) := runAll { id := t, sig := s } false 901 ⟨g0, none, .none⟩ steps 0
      let r := rs.getLast?.getD (pure ())
      let acc := match r with | .ok _ => true | .error _ => false
      some s!"{resStr r} trail={trailStr rs} before={behName (behOf b0 a)} diff={diffStr a.g b.g t none acc} beh={behName (behOf b0 b)} reg={regName b.g t}"
    | _, _, _ => some "bad-op"
  | "c13" :: "rtm" :: _name :: ins :: outs :: var :: st =>
    match sig? ins outs var, steps? (hitIns ((list? ins).drop 1) var) st with
    | some s, some steps =>
      let (a, b, rs) := runAll { id := 0, sig := s } true 901 ⟨G.init, none, .none⟩ steps 0
      let r := rs.getLast?.getD (pure ())
      let acc := match r with | .ok _ => true | .error _ => false
      some s!"{resStr r} trail={trailStr rs} before={behName (behOf .orig a)} diff={diffStr a.g b.g 0 none acc} beh={behName (behOf .orig b)} reg={regName b.g 0}"
    | _, _ => some "bad-op"
  | "c13" :: "rti" :: name0 :: names :: mins :: mouts :: ci :: co :: st =>
    let name := (name0.splitOn "@").headD name0
    match sig? mins mouts "0", sig? ci co "0", steps? ((list? ci).drop 1) st (!name0.endsWith "@n") with
    | some m, some fn, some steps =>
      let (a, b, rs) := runIfaceAll m ⟨false, none, .none, fn, false⟩ steps
      let r := rs.getLast?.getD (pure ())
      some s!"{resStr r} trail={trailStr rs} before={behIface a} beh={behIface b} var={if b.set then "set" else "nil"} meth={methStr b name names}"
    | _, _, _ => some "bad-op"
  | _ => none

def handleMore (toks : List String) : Option String :=
  match toks with
  | "c13" :: "fm" :: _m :: ins :: outs :: var :: act =>
    match sig? ins outs var, tyOf "prc", action? act with
    | some ms, some rc, some a =>
      let full : Sig := { ms with ins := rc :: ms.ins }
      let (g1, r, beh) := fmCall G.init { id := 0, sig := full } ms 901 a
      let acc := match r with | .ok _ => true | .error _ => false
      let b := match beh with | some x => behName x | none => "skip"
      some s!"{resStr r} diff={diffStr G.init g1 0 none acc} beh={b} reg={regName g1 0}"
    | _, _, _ => some "bad-op"
  | "c13" :: "nonfunc" :: "pfn" :: act =>
    match sig? "int" "int" "0", action? act with
    | some s3, some (.apply cb) =>
      let (_, r) := ptrFuncApply G.init { id := 3, sig := s3 } cb 901
      match r with
      | .ok _ => some s!"{resStr r} diff=other regdelta=1"
      | .error _ => some s!"{resStr r} diff=none regdelta=0"
    | some _, some _ => some s!"{resStr (nonFuncCall .ptr)} diff=none regdelta=0"
    | _, _ => some "bad-op"
  | ["c13", "export", "func", "known", "asapply", ai, ao, av, ci, co] =>
    match sig? ai ao av, sig? ci co "0" with
    | some sa, some cb =>
      let (_, r) := exportAsApply G.init { id := 0, sig := sa } (.fn cb) 901
      match r with
      | .ok _ => some s!"{resStr r} diff=other regdelta=1 afterdiff=none"
      | .error _ => some s!"{resStr r} diff=none regdelta=0 afterdiff=none"
    | _, _ => some "bad-op"
  | ["c13", "export", "func", "known", "asreturn", ai, ao, av, vs] =>
    match sig? ai ao av, vals? vs with
    | some sa, some v =>
      let r : R Unit := match createWhen sa none (firstReturnValues v) false with
        | .error e => .error e
        | .ok _ => (exportAsApply G.init { id := 0, sig := sa } (.fn sa) 901).2
      match r with
      | .ok _ => some s!"{resStr r} diff=other regdelta=1 afterdiff=none"
      | .error _ => some s!"{resStr r} diff=none regdelta=0 afterdiff=none"
    | _, _ => some "bad-op"
  | _ => none

def handle (toks0 : List String) : Option String :=
  let toks := match toks0 with | "c13" :: "dbg" :: rest => "c13" :: rest | _ => toks0    -- debug mode must change nothing
  match handleSeq toks with
  | some r => some r
  | none =>
  match handleMore toks with
  | some r => some r
  | none =>
  match toks with
  | "c13" :: "func" :: tgt :: ins :: outs :: var :: pre :: org :: act =>
    match tgtId tgt, sig? ins outs var, originOf org, action? act with
    | some t, some s, some o, some a =>
      let g0 := if pre = "1" then preState t else G.init
      let b0 : Beh := if pre = "1" then .cb else .orig
      let out := funcCall g0 { id := t, sig := s } b0 o 901 a
      let acc := match out.res with | .ok _ => true | .error _ => false
      some s!"{resStr out.res} before={behName out.behBefore} diff={diffStr out.gBefore out.g t (trampId o) acc} beh={behName out.beh} reg={regName out.g t}"
    | _, _, _, _ => some "bad-op"
  | "c13" :: "nonfunc" :: tok :: act =>
    match action? act with
    | some _ => some s!"{resStr (nonFuncCall (kindOfTok tok))} diff=none regdelta=0"
    | none => some "bad-op"
  | "c13" :: "method" :: name :: found :: ins :: outs :: var :: act =>
    match sig? ins outs var, action? act with
    | some s, some a =>
      let nm := if name = "-" then "" else name
      let out := methodCall G.init nm (found = "1") { id := 0, sig := s } 901 a
      let acc := match out.res with | .ok _ => true | .error _ => false
      let known := nm ≠ "" && found = "1"
      let beh := if known then behName out.beh else "-"
      let reg := if known then regName out.g 0 else "-"
      let rd := if (out.g.patches 0).isSome then 1 else 0
      some s!"{resStr out.res} diff={diffStr out.gBefore out.g 0 none acc} beh={beh} reg={reg} regdelta={rd}"
    | _, _ => some "bad-op"
  | ["c13", "export", form, nk, call, ci, co, cv] =>
    match sig? ci co cv with
    | some _ =>
      let f := if form = "func" then ExportForm.func else .struct
      let r := exportCall f (nk = "empty") (nk = "known") (call = "as")
      match r with
      | .ok _ => if call = "as" then some s!"{resStr r} diff=none regdelta=0 afterdiff=none"
                 else some s!"{resStr r} diff=other regdelta=1 afterdiff=none"
      | .error _ => some s!"{resStr r} diff=none regdelta=0 afterdiff=none"
    | none => some "bad-op"
  | "c13" :: "iface" :: vk :: name :: found :: mins :: mouts :: act =>
    let v? : Option IfaceVar := match vk with
      | "ok" => some .ptrIface | "nonptr" => some (.value .strct false) | "int" => some (.value .int false)
      | "slice" => some (.value .slice (found = "1")) | "array" => some (.value .array (found = "1"))
      | "map" => some (.value .map (found = "1")) | "chan" => some (.value .chan (found = "1"))
      | "func" => some (.value .func false) | "pptr" => some (.ptrTo .ptr false) | "nilv" => some .nilValue
      | "pint" => some (.ptrTo .int false) | "pstruct" => some (.ptrTo .strct (found = "1")) | _ => none
    let a? : Option IfaceAction := match act with
      | ["apply", ci, co] => (sig? ci co "0").map (fun s => .apply (.fn s))
      | ["applyval", tok] => (valOf tok).map .apply
      | ["as", ci, co, "return", vs] => do let s ← sig? ci co "0"; let v ← vals? vs; pure (.asRet s v)
      | ["as", ci, co, "when", as] => do let s ← sig? ci co "0"; let a ← vals? as; pure (.asWhen s a none)
      | ["as", ci, co, "when", as, "return", vs] => do
          let s ← sig? ci co "0"; let a ← vals? as; let v ← vals? vs; pure (.asWhen s a (some v))
      | _ => none
    match v?, sig? mins mouts "0", a? with
    | some v, some m, some a =>
      let nm := if name = "-" then "" else name
      let (r, set) := ifaceCall v nm (found = "1") m a
      some s!"{resStr r} diff=none var={if set then "set" else "nil"} regdelta=0 afterreset=nil"
    | _, _, _ => some "bad-op"
  | "c13" :: _ => some "bad-op"
  | _ => none

end Drv.C13
