import GoomVerif.Drv.Util
import GoomVerif.Model.ConvertNow
/-! Driver for C09.  Lines (everything after `;;` is the table `name Ty ;; name Ty …` of the catalogue types used):

    c09.tv  <out> <box>                         toValue + V2I on the result
    c09.isz <type> <payload>                    isZero
    c09.i2v <0|1> <nt> out*nt <no> box*no       I2V (arity / variadic)
    c09.ret <nt> out*nt <no> box*no             Return(values...) on a fresh mocker, then one call
    c09.eval <nt> out*nt <no> box*no            Return(values...) then When.Eval()  (V2I ∘ I2V)
    c09.when <param> <box>                      When(box) on func(param) int: accepted or configuration panic

    box     := nil | <type> <payload>
    payload := b0|b1 | i<int> | u<nat> | f<bits> | c <re> <im> | s<hex|-> | z | r<id> | agg <n> payload*n | inil | iof <type> payload
    Ty      := p.<prim> | arr <n> Ty | slice Ty | map Ty Ty | ptr Ty | chan <dir> Ty | func <sig> | strct <nv> m*nv <np> m*np <n> (<fname> Ty)*n
             | iface <n> m*n | named <name> <nv> m*nv <np> m*np Ty -/
namespace Drv.C09
open Convert

abbrev P (α : Type) := List String → Option (α × List String)

def parsePrim : String → Option Prim
  | "bool" => some .bool | "int" => some .int | "int8" => some .int8 | "int16" => some .int16 | "int32" => some .int32
  | "int64" => some .int64 | "uint" => some .uint | "uint8" => some .uint8 | "uint16" => some .uint16
  | "uint32" => some .uint32 | "uint64" => some .uint64 | "uintptr" => some .uintptr | "float32" => some .float32
  | "float64" => some .float64 | "complex64" => some .complex64 | "complex128" => some .complex128
  | "string" => some .string | "unsafePointer" => some .unsafePointer | _ => none

def takeN (n : Nat) (toks : List String) : Option (List String × List String) :=
  if toks.length < n then none else some (toks.take n, toks.drop n)

def parseStrList : P (List String)
  | [] => none
  | n :: rest => do
    let k ← n.toNat?
    takeN k rest

mutual
def parseTy : Nat → P Ty
  | 0, _ => none
  | fuel + 1, toks =>
    match toks with
    | [] => none
    | "arr" :: n :: rest => do
      let k ← n.toNat?
      let (e, r) ← parseTy fuel rest
      pure (.arr k e, r)
    | "slice" :: rest => do let (e, r) ← parseTy fuel rest; pure (.slice e, r)
    | "ptr" :: rest => do let (e, r) ← parseTy fuel rest; pure (.ptr e, r)
    | "map" :: rest => do
      let (k, r) ← parseTy fuel rest
      let (v, r') ← parseTy fuel r
      pure (.map k v, r')
    | "chan" :: d :: rest => do
      let dir ← d.toNat?
      let (e, r) ← parseTy fuel rest
      pure (.chan dir e, r)
    | "func" :: sig :: rest => some (.func sig, rest)
    | "iface" :: rest => do let (ms, r) ← parseStrList rest; pure (.iface ms, r)
    | "strct" :: rest => do
      let (vms, r1) ← parseStrList rest
      let (pms, r2) ← parseStrList r1
      let n ← r2.head?
      let k ← n.toNat?
      let (fs, r) ← parseTys fuel k r2.tail
      pure (.strct vms pms fs, r)
    | "named" :: name :: rest => do
      let (vms, r1) ← parseStrList rest
      let (pms, r2) ← parseStrList r1
      let (u, r3) ← parseTy fuel r2
      pure (.named name vms pms u, r3)
    | t :: rest =>
      if t.startsWith "p." then (parsePrim (t.drop 2).toString).map (fun p => (.prim p, rest)) else none
def parseTys : Nat → Nat → P Tys
  | 0, _, _ => none
  | _ + 1, 0, toks => some (.nil, toks)
  | fuel + 1, k + 1, toks =>
    match toks with
    | fname :: rest => do
      let (t, r) ← parseTy fuel rest
      let (ts, r') ← parseTys fuel k r
      pure (.cons fname t ts, r')
    | [] => none
end

abbrev Tbl := List (String × Ty)

/-- the table after `;;` -/
def parseTable (fuel : Nat) : Nat → List String → Option Tbl
  | 0, _ => none
  | _, [] => some []
  | n + 1, ";;" :: name :: rest => do
    let (t, r) ← parseTy fuel rest
    let tl ← parseTable fuel n r
    pure ((name, t) :: tl)
  | _, _ => none

def hexPairs : List Char → Option (List Nat)
  | [] => some []
  | a :: b :: rest => do
    let x ← hexDigit a; let y ← hexDigit b
    let r ← hexPairs rest
    pure ((x * 16 + y) :: r)
  | _ => none

def tail1 (s : String) : String := (s.drop 1).toString

mutual
def parsePayload (tbl : Tbl) : Nat → P Val
  | 0, _ => none
  | fuel + 1, toks =>
    match toks with
    | [] => none
    | "b0" :: r => some (.bool false, r)
    | "b1" :: r => some (.bool true, r)
    | "z" :: r => some (.nilp, r)
    | "inil" :: r => some (.ifaceNil, r)
    | "c" :: re :: im :: r => do
      let a ← re.toNat?; let b ← im.toNat?
      pure (.complex a b, r)
    | "agg" :: n :: r => do
      let k ← n.toNat?
      let (fs, r') ← parsePayloads tbl fuel k r
      pure (.agg fs, r')
    | "iof" :: name :: r => do
      let t ← tbl.lookup name
      let (v, r') ← parsePayload tbl fuel r
      pure (.ifaceOf t v, r')
    | t :: r =>
      match t.toList with
      | 'i' :: ds => (parseInt (String.ofList ds)).map (fun z => (.int z, r))
      | 'u' :: ds => ((String.ofList ds).toNat?).map (fun n => (.uint n, r))
      | 'f' :: ds => ((String.ofList ds).toNat?).map (fun n => (.float n, r))
      | 'r' :: ds => ((String.ofList ds).toNat?).map (fun n => (.ref n, r))
      | 's' :: ds => if ds = ['-'] then some (.str [], r) else (hexPairs ds).map (fun bs => (.str bs, r))
      | _ => none
def parsePayloads (tbl : Tbl) : Nat → Nat → P Vals
  | 0, _, _ => none
  | _ + 1, 0, toks => some (.nil, toks)
  | fuel + 1, k + 1, toks => do
    let (v, r) ← parsePayload tbl fuel toks
    let (vs, r') ← parsePayloads tbl fuel k r
    pure (.cons v vs, r')
end

def parseBox (tbl : Tbl) (fuel : Nat) : P Boxed
  | "nil" :: r => some (none, r)
  | name :: r => do
    let t ← tbl.lookup name
    let (v, r') ← parsePayload tbl fuel r
    pure (some (t, v), r')
  | [] => none

def parseBoxes (tbl : Tbl) (fuel : Nat) : Nat → P (List Boxed)
  | 0, toks => some ([], toks)
  | k + 1, toks => do
    let (b, r) ← parseBox tbl fuel toks
    let (bs, r') ← parseBoxes tbl fuel k r
    pure (b :: bs, r')

def parseTypes (tbl : Tbl) : Nat → P (List Ty)
  | 0, toks => some ([], toks)
  | k + 1, n :: r => do
    let t ← tbl.lookup n
    let (ts, r') ← parseTypes tbl k r
    pure (t :: ts, r')
  | _, [] => none

/-! ### rendering -/

def kindStr : Kind → String
  | .bool => "bool" | .int => "int" | .uint => "uint" | .float => "float" | .complex => "complex" | .str => "str"
  | .arr => "arr" | .slice => "slice" | .map => "map" | .ptr => "ptr" | .strct => "strct" | .iface => "iface"
  | .func => "func" | .chan => "chan" | .uptr => "uptr"

def nameOf (tbl : Tbl) (t : Ty) : String :=
  match tbl.find? (fun e => decide (e.2 = t)) with
  | some e => e.1
  | none => "?"

/-- harness `cat.Shape`: by payload -/
def shape (tbl : Tbl) : Val → String
  | .nilp => "nil"
  | .ref _ => "nonnil"
  | .ifaceNil => "iface:nil"
  | .ifaceOf t _ => "iface:" ++ nameOf tbl t
  | _ => "val"

def desc (tbl : Tbl) (v : RV) : String := s!"{nameOf tbl v.ty}/{kindStr v.fk}/{shape tbl v.val}"

def boxDesc (tbl : Tbl) : Boxed → String
  | none => "nil"
  | some (t, x) => s!"{nameOf tbl t}/{shape tbl x}"

def failStr : Fail → String
  | .errSize => "err:size" | .errArity => "err:arity" | .panicZeroValue => "panic:zerovalue" | .panicAssign => "panic:assign"
  | .panicIContext => "panic:icontext" | .panicElem => "panic:elem" | .unmodelled => "unmodelled" | .panicNilCast => "panic:nilderef"

def failClass : Fail → String
  | .errSize => "size" | .errArity => "arity" | .panicZeroValue => "zerovalue" | .panicAssign => "assign"
  | .panicIContext => "icontext" | .panicElem => "elem" | .unmodelled => "unmodelled" | .panicNilCast => "nilderef"

def parseGroup (tbl : Tbl) (fuel : Nat) : P PairRet
  | "one" :: r => do
    let (b, r') ← parseBox tbl fuel r
    pure (.one b, r')
  | "list" :: n :: r => do
    let k ← n.toNat?
    let (bs, r') ← parseBoxes tbl fuel k r
    pure (.list bs, r')
  | _ => none

def parseGroups (tbl : Tbl) (fuel : Nat) : Nat → P (List PairRet)
  | 0, toks => some ([], toks)
  | k + 1, toks => do
    let (g, r) ← parseGroup tbl fuel toks
    let (gs, r') ← parseGroups tbl fuel k r
    pure (g :: gs, r')

def callStr (tbl : Tbl) : CallRes → String
  | .cfgPanic e => "cfgpanic:" ++ failClass e
  | .cfgReturnsMismatch => "cfgpanic:returns"
  | .callPanic => "callpanic:assign"
  | .callUnmodelled => "cfgok call=unmodelled"
  | .got rs => String.intercalate " " ("got" :: rs.map (desc tbl))

def splitTrailer (toks : List String) : List String × List String :=
  (toks.takeWhile (· ≠ ";;"), toks.dropWhile (· ≠ ";;"))

def run (toks : List String) : Option String := do
  let (head, trailer) := splitTrailer toks
  let fuel := toks.length + 1
  let tbl ← parseTable fuel fuel trailer
  match head with
  | "c09.tv" :: out :: rest =>
    let o ← tbl.lookup out
    let (b, r) ← parseBox tbl fuel rest
    if !r.isEmpty then none else
    match toValue K b o with
    | .error e => pure (failStr e)
    | .ok v =>
      let v2 := match V2I K [v] [o] with
        | .ok [x] => boxDesc tbl x
        | .ok _ => "?"
        | .error e => failStr e
      pure s!"ok {desc tbl v} v2i={v2}"
  | "c09.isz" :: rest =>
    let (b, r) ← parseBox tbl fuel rest
    if !r.isEmpty then none else
    match b with
    | some (_, x) => pure (toString (isZeroVal x))
    | none => none
  | "c09.i2v" :: variadic :: nt :: rest =>
    let k ← nt.toNat?
    let (types, r1) ← parseTypes tbl k rest
    let no ← r1.head?
    let n ← no.toNat?
    let (objs, r2) ← parseBoxes tbl fuel n r1.tail
    if !r2.isEmpty then none else
    match I2V K objs types (variadic == "1") with
    | .error e => pure (failStr e)
    | .ok vs => pure (String.intercalate " " (["ok", toString vs.length] ++ vs.map (desc tbl)))
  | "c09.matches" :: nt :: rest =>
    let k ← nt.toNat?
    let (types, r1) ← parseTypes tbl k rest
    let (g, r2) ← parseGroup tbl fuel r1
    if !r2.isEmpty then none else
    pure (callStr tbl (matchesE2E K g types))
  | "c09.meth" :: _ :: out :: no :: rest =>
    -- Return(values...) on a method mock / interface-variable mock: same conversion path as `c09.ret`
    let o ← tbl.lookup out
    let n ← no.toNat?
    let (objs, r2) ← parseBoxes tbl fuel n rest
    if !r2.isEmpty then none else
    pure (callStr tbl (returnE2E K objs [o]))
  | "c09.in" :: p1 :: p2 :: kk :: rest =>
    -- one arg.In(values...) used for two declared parameter types: each use converts every value at ITS declared type
    let t1 ← tbl.lookup p1
    let t2 ← tbl.lookup p2
    let k ← kk.toNat?
    let (objs, r2) ← parseBoxes tbl fuel k rest
    if !r2.isEmpty then none else
    let one := fun (t : Ty) => match whenConfigure K (objs.map (fun b => (b, t))) with
      | .error e => "cfgpanic:" ++ failClass e
      | .ok _ => "ok"
    pure s!"t1={one t1} t2={one t2}"
  | "c09.when2" :: a :: b :: rest =>
    let ta ← tbl.lookup a
    let tb ← tbl.lookup b
    let (ba, r1) ← parseBox tbl fuel rest
    let (bb, r2) ← parseBox tbl fuel r1
    if !r2.isEmpty then none else
    match whenConfigure K [(ba, ta), (bb, tb)] with
    | .error e => pure ("cfgpanic:" ++ failClass e)
    | .ok _ => pure "ok"
  | "c09.whenv" :: e :: kk :: rest =>
    let te ← tbl.lookup e
    let k ← kk.toNat?
    let (objs, r2) ← parseBoxes tbl fuel k rest
    if !r2.isEmpty then none else
    match whenConfigure K (objs.map (fun b => (b, te))) with
    | .error e => pure ("cfgpanic:" ++ failClass e)
    | .ok _ => pure "ok"
  | "c09.seq" :: nt :: rest =>
    let k ← nt.toNat?
    let (types, r1) ← parseTypes tbl k rest
    let ng ← r1.head?
    let n ← ng.toNat?
    let (gs, r2) ← parseGroups tbl fuel n r1.tail
    if !r2.isEmpty || n == 0 then none else
    match seqConfigure K types gs with
    | .error e => pure ("cfgpanic:" ++ failClass e)
    | .ok stored =>
      if stored.any (fun vs => vs.any (fun v => !v.wellFlagged)) then pure "cfgok call=unmodelled" else
      pure (String.intercalate " | " ((List.range (n + 1)).map (fun i => callStr tbl (seqCall stored types i))))
  | lane :: nt :: rest =>
    if lane == "c09.ret" || lane == "c09.eval" then
      let k ← nt.toNat?
      let (types, r1) ← parseTypes tbl k rest
      let no ← r1.head?
      let n ← no.toNat?
      let (objs, r2) ← parseBoxes tbl fuel n r1.tail
      if !r2.isEmpty then none else
      if lane == "c09.ret" then
        match returnE2E K objs types with
        | .cfgPanic e => pure ("cfgpanic:" ++ failClass e)
        | .cfgReturnsMismatch => pure "cfgpanic:returns"
        | .callPanic => pure "callpanic:assign"
        | .callUnmodelled => pure "cfgok call=unmodelled"
        | .got rs => pure (String.intercalate " " ("got" :: rs.map (desc tbl)))
      else
        if objs.length < types.length then pure "cfgpanic:returns" else
        match I2V K objs types false with
        | .error e => pure ("cfgpanic:" ++ failClass e)
        | .ok vs =>
          match V2I K vs types with
          | .error e => pure ("eval " ++ failStr e)
          | .ok bs => pure (String.intercalate " " ("eval" :: bs.map (boxDesc tbl)))
    else if lane == "c09.when" then
      -- here `nt` is the parameter type name
      let p ← tbl.lookup nt
      let (b, r) ← parseBox tbl fuel rest
      if !r.isEmpty then none else
      match toValue K b p with
      | .error e => pure ("cfgpanic:" ++ failClass e)
      | .ok _ => pure "ok"
    else none
  | _ => none

def handle (toks : List String) : Option String :=
  match toks with
  | t :: rest =>
    if t == "c09.whenseq" || t == "c09.whenand" then
      -- When(1).Returns(g…) / When(1).Return(g₁).AndReturn(g₂)…: the same conversion and cursor as `c09.seq`
      some ((run ("c09.seq" :: rest)).getD "bad-op")
    else if t.startsWith "c09." then some ((run toks).getD "bad-op") else none
  | [] => none

end Drv.C09
