import GoomVerif.Drv.Util
import GoomVerif.Model.Stub
/-! Driver for C20.
    `c20.seq <off> <min> <max> <req>…`      req = `h<len>` (acquireFromHolder called directly), `d<len>` (Acquire with new mappings denied by RLIMIT_AS), `f<len>` (Acquire, the kernel
                                            refuses the mapping), `m<len>` (Acquire, the kernel grants it)
        → per request `H+<addr-min>:<len>` | `M:<len>` | `E`, then `off=+<off-min>`
    `c20.sched <off> <min> <max> <len,len,…> <i,i,…>`   run a schedule of micro-steps → per requester result
    `c20.admits <off> <min> <max> <len,…> <res,…> <ev,…>`   res = `o<addr-min>` | `e` | `n`; ev = `i<k>` | `r<k>`
        → `admitted` | `rejected` | `malformed`
    `c20.explains <off> <min> <max> <len,…> <res,…> <i,i,…>`   does this schedule reproduce every observed result?
        → `explained` | `unexplained` | `malformed`
    `c20.owrite <m|h> <regionLen> <dataLen>`   one stub.Write of dataLen bytes into a region of regionLen bytes
        → `err` | `wrote=<n> dropped=<k> beyond=<b>` (bytes stored / silently dropped / stored past the region's end)
    `c20.writes <m|h> <len> <n>`   n successive stub.Write calls on one region of the mmap / reserve path
        → `ok perm=<rwx|rx>` (protection left behind) | `fault@<k>` -/
namespace Drv.C20
open Stub

def splitNats (s : String) : Option (List Nat) :=
  if s = "-" then some [] else (s.splitOn ",").mapM parseNat

def parseReq (s : String) : Option (Int × Mmap) :=
  match s.toList with
  | 'h' :: r => (parseInt (String.ofList r)).map (fun n => (n, Mmap.fail))
  | 'f' :: r => (parseInt (String.ofList r)).map (fun n => (n, Mmap.fail))
  | 'd' :: r => (parseInt (String.ofList r)).map (fun n => (n, Mmap.fail))
  | 'm' :: r => (parseInt (String.ofList r)).map (fun n => (n, Mmap.fresh 0))
  | _ => none

/-- a slice length as Go prints it (`int`): lengths ≥ 2^63 are negative -/
def signed (n : Nat) : Int := if n < 9223372036854775808 then (n : Int) else (n : Int) - 18446744073709551616

def showSpace (min : Nat) : Option Space → String
  | none => "E"
  | some sp => if sp.typ = typeHolder then s!"H+{(sp.addr : Int) - (min : Int)}:{signed sp.len}" else if sp.typ = typeMMap then s!"M:{sp.len}" else "?"

def showRes (min : Nat) : Option Res → String
  | none => "n"
  | some .err => "e"
  | some (.ok a l) => s!"o{a - min}:{l}"

def parseRes (min : Nat) (len : Nat) (s : String) : Option (Option Res) :=
  match s.toList with
  | ['n'] => some none
  | ['e'] => some (some .err)
  | 'o' :: r => (parseNat (String.ofList r)).map (fun a => some (.ok (min + a) len))
  | _ => none

def parseEv (s : String) : Option Ev :=
  match s.toList with
  | 'i' :: r => (parseNat (String.ofList r)).map Ev.inv
  | 'r' :: r => (parseNat (String.ofList r)).map Ev.resp
  | _ => none

def handle (toks : List String) : Option String :=
  match toks with
  | "c20.seq" :: off :: min :: max :: reqs =>
    match parseNat off, parseNat min, parseNat max, reqs.mapM parseReq with
    | some off, some min, some max, some rs =>
      let out := (runSeq off min max rs).map (fun q => showSpace min q.2)
      some (String.intercalate " " (out ++ [s!"off=+{(offSeq off min max rs : Int) - (min : Int)}"]))
    | _, _, _, _ => some "bad-op"
  | ["c20.sched", off, min, max, lens, sched] =>
    match parseNat off, parseNat min, parseNat max, splitNats lens, splitNats sched with
    | some off, some min, some max, some ls, some σ =>
      let s := run (init off min max ls) σ
      some (String.intercalate " " ((List.range ls.length).map (fun i => showRes min (resultOf s i)) ++ [s!"off=+{s.off - min}"]))
    | _, _, _, _, _ => some "bad-op"
  | ["c20.admits", off, min, max, lens, res, evs] =>
    match parseNat off, parseNat min, parseNat max, splitNats lens with
    | some off, some min, some max, some ls =>
      let rtoks := if res = "-" then [] else res.splitOn ","
      let etoks := if evs = "-" then [] else evs.splitOn ","
      if rtoks.length ≠ ls.length then some "malformed" else
      match (rtoks.zip ls).mapM (fun (r, l) => parseRes min l r), etoks.mapM parseEv with
      | some rs, some es =>
        let h : Hist := ⟨off, min, max, ls, rs, es⟩
        if !h.wellFormed then some "malformed" else some (if admits h then "admitted" else "rejected")
      | _, _ => some "bad-op"
    | _, _, _, _ => some "bad-op"
  | ["c20.explains", off, min, max, lens, res, sched] =>
    match parseNat off, parseNat min, parseNat max, splitNats lens, splitNats sched with
    | some off, some min, some max, some ls, some σ =>
      let rtoks := if res = "-" then [] else res.splitOn ","
      if rtoks.length ≠ ls.length then some "malformed" else
      match (rtoks.zip ls).mapM (fun (r, l) => parseRes min l r) with
      | some rs =>
        let h : Hist := ⟨off, min, max, ls, rs, []⟩
        if !h.wellFormed then some "malformed" else some (if explains h σ then "explained" else "unexplained")
      | none => some "bad-op"
    | _, _, _, _, _ => some "bad-op"
  | ["c20.owrite", path, rl, dl] =>
    match parseNat rl, parseNat dl with
    | some rl, some dl =>
      if path ≠ "m" ∧ path ≠ "h" then some "bad-op" else
      let sp : Space := ⟨0, rl, if path = "m" then typeMMap else typeHolder⟩
      match writeFootprint sp dl with
      | none => some "err"
      | some (a, n) => some s!"wrote={n} dropped={dl - n} beyond={(a + n) - (sp.addr + sp.len)}"
    | _, _ => some "bad-op"
  | ["c20.writes", path, _len, n] =>
    match parseNat n with
    | some n =>
      let typ := if path = "m" then typeMMap else typeHolder
      if path ≠ "m" ∧ path ≠ "h" then some "bad-op" else
      -- first failing write, if any
      let rec firstFail (p : Perm) (k : Nat) (fuel : Nat) : String :=
        match fuel with
        | 0 => match p with | .rwx => "ok perm=rwx" | .rx => "ok perm=rx"
        | fuel + 1 => match writeOnce typ p with
          | none => s!"fault@{k}"
          | some p' => firstFail p' (k + 1) fuel
      some (firstFail (initPerm typ) 1 n)
    | none => some "bad-op"
  | tok :: _ => if tok.startsWith "c20." then some "bad-op" else none
  | [] => none

end Drv.C20
