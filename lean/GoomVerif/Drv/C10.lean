import GoomVerif.Drv.Util
import GoomVerif.Model.Sym
/-! Driver for C10.  One line = one process history:

    c10.hist <cfg> mf=<addr> mv=<addr> af=<name> av=<name> elf=ok|bad text=<addr>|- pcln=-|bad|<n> <n × name@off>
             syms=-|<m> <m × name@value> q=<k> <k × (f|v|x):name>

    Names are percent-encoded by the check (injective; no blanks, no `@`), the model only ever compares them.
    Answer: the result of every query, blank separated: `ok:0x<addr>` | `err:<class>`. -/
namespace Drv.C10
open Sym

def stripPrefix? (p s : String) : Option String :=
  if s.startsWith p then some (String.ofList (s.toList.drop p.length)) else none

def parseEntry (tok : String) : Option (String × Addr) :=
  match tok.splitOn "@" with
  | [n, v] => (parseNat v).map (fun x => (n, BitVec.ofNat 64 x))
  | _ => none

/-- ELF symbol: `name@value` (has an address) or `name@value!` (undefined / file / section / TLS entry) -/
def parseSym (tok : String) : Option (String × Addr × Bool) :=
  match tok.splitOn "@" with
  | [n, v] =>
    if v.endsWith "!" then (parseNat (String.ofList (v.toList.dropLast))).map (fun x => (n, BitVec.ofNat 64 x, false))
    else (parseNat v).map (fun x => (n, BitVec.ofNat 64 x, true))
  | _ => none

def parseSyms : Nat → List String → Option (List (String × Addr × Bool) × List String)
  | 0, rest => some ([], rest)
  | n + 1, tok :: rest => do
    let e ← parseSym tok
    let (es, rest') ← parseSyms n rest
    pure (e :: es, rest')
  | _ + 1, [] => none

def parseEntries : Nat → List String → Option (List (String × Addr) × List String)
  | 0, rest => some ([], rest)
  | n + 1, tok :: rest => do
    let e ← parseEntry tok
    let (es, rest') ← parseEntries n rest
    pure (e :: es, rest')
  | _ + 1, [] => none

/-- a query is a call of the model, or (public-API forms only) an argument check that panics before any lookup -/
inductive Q
  | op (o : Op String)
  | fixed (obs : String)

/-- `f: v: x:` are the calls of `internal/unexports2`; `F: M: V:` are the public API (builder.go:122 ExportStruct,
    :144 ExportFunc, :180 UnExportedVar; mocker.go:359,431 objName = `pkg.name` / `pkg.type.method`, a type with `*`
    is parenthesised; ue_var.go:33) -/
def parseOp (tok : String) : Option Q :=
  match tok.toList with
  | 'f' :: ':' :: n => some (.op (.findFunc (String.ofList n)))
  | 'v' :: ':' :: n => some (.op (.findVar (String.ofList n)))
  | 'x' :: ':' :: n => some (.op (.expose (String.ofList n)))
  | 'V' :: ':' :: n => some (.op (.findVar (String.ofList n)))
  -- `a:<what the caller does to the returned set>`: AllFunctions(); the mutation is the caller's business, not the model's
  | 'a' :: ':' :: _ => some (.op .allFuncs)
  | 'F' :: ':' :: rest =>
    match (String.ofList rest).splitOn "|" with
    | [pkg, name] => if name = "" then some (.fixed "panic:empty-name") else some (.op (.findFunc (pkg ++ "." ++ name)))
    | _ => none
  | 'M' :: ':' :: rest =>
    match (String.ofList rest).splitOn "|" with
    | [pkg, ty, meth] =>
      let recv := if ty.contains '*' then "(" ++ ty ++ ")" else ty
      some (.op (.findFunc (pkg ++ "." ++ recv ++ "." ++ meth)))
    | _ => none
  | _ => none

def opsOf : List Q → List (Op String)
  | [] => []
  | .op o :: r => o :: opsOf r
  | .fixed _ :: r => opsOf r

/-- put the model's results back between the fixed observations -/
def weave : List Q → List String → List String
  | [], _ => []
  | .fixed s :: r, rs => s :: weave r rs
  | .op _ :: r, x :: rs => x :: weave r rs
  | .op _ :: r, [] => "?" :: weave r []

def errName : Err → String
  -- errors that come out of debug/elf, debug/gosym or os carry library texts: one observation class for both
  | .open => "read" | .elf => "read" | .pclnData => "read" | .noText => "no-text" | .noPcln => "no-pclntab"
  | .noFunc => "nofunc" | .noVar => "novar"

def showRes : Res → String
  | .ok a => s!"ok:{hex64 a}"
  | .err e => s!"err:{errName e}"
  | .set k => s!"set:{k}"

def parseHist (toks : List String) : Option (Env String × List Q) := do
  match toks with
  | _cfg :: mf :: mv :: af :: av :: elf :: text :: pcln :: rest =>
    let mf ← (stripPrefix? "mf=" mf).bind parseNat
    let mv ← (stripPrefix? "mv=" mv).bind parseNat
    let af ← stripPrefix? "af=" af
    let av ← stripPrefix? "av=" av
    let (openOk, elfOk) ← match elf with
      | "elf=ok" => some (true, true) | "elf=bad" => some (true, false) | "elf=noopen" => some (false, false) | _ => none
    let text ← match text with
      | "text=-" => some none
      | t => ((stripPrefix? "text=" t).bind parseNat).map (fun x => some (BitVec.ofNat 64 x))
    let (pc, rest) ← match pcln with
      | "pcln=-" => some (none, rest)
      | "pcln=bad" => some (some none, rest)
      | p => do
        let n ← (stripPrefix? "pcln=" p).bind String.toNat?
        let (es, rest') ← parseEntries n rest
        pure (some (some es), rest')
    match rest with
    | syms :: rest =>
      let (sy, rest) ← match syms with
        | "syms=-" => some (none, rest)
        | p => do
          let n ← (stripPrefix? "syms=" p).bind String.toNat?
          let (es, rest') ← parseSyms n rest
          pure (some es, rest')
      match rest with
      | q :: qs =>
        let k ← (stripPrefix? "q=" q).bind String.toNat?
        if k ≠ qs.length then none else
        let ops ← qs.mapM parseOp
        let file : File String := { openOk := openOk, elfOk := elfOk, text := text, pcln := pc, symtab := sy }
        pure ({ file := file, anchorF := af, anchorV := av, memF := BitVec.ofNat 64 mf, memV := BitVec.ofNat 64 mv }, ops)
      | [] => none
    | [] => none
  | _ => none

def handleHist (rest : List String) : Option String :=
  match parseHist rest with
  | some (env, qs) =>
    let rs := weave qs ((run env {} (opsOf qs)).2.map showRes)
    some (if rs.isEmpty then "-" else String.intercalate " " rs)
  | none => some "bad-op"

/-- `c10.conc <cfg> g=<N> …`: the same calls issued by N goroutines released together.  By `C10.conc_any_schedule`
    the answer to each call is the same under every schedule, so it is computed with the sequential one. -/
def dropG : List String → List String
  | cfg :: g :: rest => if g.startsWith "g=" then cfg :: rest else cfg :: g :: rest
  | l => l

def handle (toks : List String) : Option String :=
  match toks with
  | "c10.conc" :: rest => handleHist (dropG rest)
  | "c10.hist" :: rest => handleHist rest
  | _ => none

end Drv.C10
