import GoomVerif.Drv.Util
import GoomVerif.Model.Conc
/-! Driver for C11.

`c11.round y=<0|1> K=<n> | S mock f kind v wo | B1 mock f kind v wo | B1 chk | B1 reset | C1 f g | N 2`
→ the canonical observation of the round: what every builder saw when calling its own targets after each of its
operations, what every caller saw on the steadily mocked targets, and whether all targets are pristine at
quiescence.  The model is run on ONE schedule (steady builder's mocks, every builder to completion in turn, every
caller, the steady builder's reset); theorems `C11.isolation` / `C11.steady_calls` say the observation is the same
on every schedule, which is what the concurrent implementation is compared against.

`c11.shuffle <seed> <round…>` runs the model on a pseudo-random interleaving of the builder and caller threads (with
stutter steps on held locks) between the steady builder's mocks and its reset; the check compares it with the
sequential observation and with the implementation on every quick run.

`c11.sched <same line> :: t t t ...` runs the model on an explicit micro-step schedule (thread numbers in order of
appearance) and prints the same observation (used to replay interleavings, including stutter steps on held locks).

`c11.skel <name>` prints the lock/access skeleton of the model's sections (compared with the skeleton extracted
from the Go source). -/
namespace Drv.C11
open Conc

abbrev AOp := BOp

structure PThread where
  name : String
  ops : List AOp := []
  targets : List Nat := []    -- builders: own targets ascending; callers: targets to call

def splitBar (toks : List String) : List (List String) :=
  toks.foldr (fun t acc => if t = "|" then [] :: acc else match acc with
    | [] => [[t]]
    | a :: rest => (t :: a) :: rest) [[]]

def parseRepl (k v : String) : Option Repl := do
  let n ← v.toNat?
  match k with
  | "ret" => some (.ret n)
  | "cb" => some (.cb n)
  | "cbo" => some (.cbo n)
  | "tab" => some (.tab n)
  | "tin" => some (.tin n)
  | "tov" => some (.tov n)
  | _ => none

/-- 48 ordinary targets + 6 variadic steady targets (locations 48..53; the probe encodes the argument as a tuple) -/
def NT : Nat := 60   -- + 54..57 function-literal targets, 58..59 generic instantiations of distinct GC shapes

def addSeg (ths : List PThread) (seg : List String) : Option (List PThread) := do
  match seg with
  | name :: rest =>
    let (found, others) := (ths.find? (·.name = name), ths)
    let th : PThread := found.getD { name := name }
    let th' ← (
      if name.startsWith "C" then do
        let ns ← rest.mapM (·.toNat?)
        if ns.all (· < NT) && !ns.isEmpty then some { th with targets := th.targets ++ ns } else none
      else match rest with
        | ["ext", f] => do
          let fn ← f.toNat?
          if fn < NT then some { th with ops := th.ops ++ [.ext fn] } else none
        | [m, f, k, v, wo] => do
          if m != "mock" && m != "mockn" then none   -- mockn: the probe addresses the target by name; same sections
          let fn ← f.toNat?
          let r ← parseRepl k v
          let w ← wo.toNat?
          if fn < NT then some { th with ops := th.ops ++ [.mock fn r (w != 0)], targets := insertSorted fn th.targets } else none
        | ["chk"] => some { th with ops := th.ops ++ [.chk] }
        | ["reset"] => some { th with ops := th.ops ++ [.reset] }
        | _ => none)
    if found.isSome then some (others.map (fun t => if t.name = name then th' else t)) else some (others ++ [th'])
  | [] => none

structure Round where
  k : Nat
  threads : List PThread
  plh : List (Nat × Nat) := []    -- `P f p`: target f uses placeholder variable p (default: its own)

def parseRound (toks : List String) : Option Round := do
  match splitBar toks with
  | hdr :: segs =>
    let kv ← hdr.mapM (fun s => match s.splitOn "=" with
      | [a, b] => b.toNat?.map (fun n => (a, n))
      | _ => none)
    if !(kv.all (fun p => p.1 = "y" || p.1 = "K" || p.1 = "d")) then none
    let k := ((kv.find? (·.1 = "K")).map (·.2)).getD 1
    let segs := segs.filter (fun s => s.head? != some "N")
    let psegs := segs.filter (fun s => s.head? == some "P")
    let segs := segs.filter (fun s => s.head? != some "P")
    let plh ← psegs.mapM (fun s => match s with
      | [_, f, p] => do
        let fn ← f.toNat?
        let pn ← p.toNat?
        if fn < 48 && pn < 48 then some (fn, pn) else none
      | _ => none)
    let ths ← segs.foldlM addSeg []
    if segs.any (fun s => s.length < 2) then none
    some { k := k, threads := ths, plh := plh }
  | [] => none

/-- builder API → critical sections: `Conc.compileOps` (the class `Conc.builderProg` of theorem `C11.quiescent_restored_builders`
    is this function applied to `ops ++ [reset, chk]`, which is how every generated builder program ends) -/
def compileB (th : PThread) : List Sec := compileOps th.targets th.ops []

def compileC (k : Nat) (ci : Nat) (th : PThread) : List Sec :=
  (List.range k).flatMap (fun i => th.targets.map (fun f => Sec.call f ((ci + i) % 4 + 1)))

def layout : Layout := { plh := fun f => f + 1000, pages := fun l => [l / 4], orig := fun f a => a * 7 + f }

/-- layout of a round: placeholder assignment from the `P` segments -/
def layoutOf (r : Round) : Layout :=
  { layout with plh := fun f => match r.plh.find? (·.1 = f) with
      | some (_, p) => p + 1000
      | none => f + 1000 }

structure Sys where
  prog : Tid → List Sec
  names : List String          -- thread i ↦ name (S-reset thread appended last)
  sReset : List Sec

/-- threads of a round: the steady builder's mocks (thread 0, phase 1), builders and callers (phase 2), the steady builder's
    reset `S'` (last thread, phase 3).  As ONE system this is not `Disjoint` (S writes what the callers call); the theorems
    apply phase-wise: `JAt_after_solo` (phase 1), the quiet-state theorems with `prog2` = builders + callers (phase 2),
    `steady_targets_restored` (phase 3).  The schedules the driver runs (`seqSchedule`, `shuffleSchedule`) respect the phases. -/
def mkSys (r : Round) : Sys :=
  let callers := r.threads.filter (·.name.startsWith "C")
  let progs : List (List Sec) := r.threads.map (fun th =>
    if th.name.startsWith "C" then compileC r.k ((callers.findIdx? (·.name = th.name)).getD 0) th
    else if th.name.startsWith "S" then compileB { th with ops := th.ops.filter (fun o => match o with | .mock .. => true | _ => false) }
    else compileB th)
  let sreset := (r.threads.filter (·.name.startsWith "S")).flatMap (fun th => th.targets.map Sec.unpatch)
  let all := progs ++ [sreset]
  { prog := fun t => all.getD t [], names := r.threads.map (·.name) ++ ["S'"], sReset := sreset }

def fuelOf (sy : Sys) (t : Nat) : Nat := 40 * (sy.prog t).length + 8

def runThread (sy : Sys) (t : Nat) (s : St) : St := run layout sy.prog (List.replicate (fuelOf sy t) t) s

def showRes : Option Nat → String
  | some v => toString v
  | none => "X"

def insStr (x : String) : List String → List String
  | [] => [x]
  | y :: ys => if x < y then x :: y :: ys else y :: insStr x ys

def observe (sy : Sys) (s : St) : String :=
  let n := sy.names.length
  let parts := (List.range n).filterMap (fun t =>
    let name := sy.names.getD t ""
    let mine := (s.calls.reverse.filter (fun c => c.1 = t))
    if name.startsWith "B" then
      some (name ++ "=[" ++ ",".intercalate (mine.map (fun c => showRes c.2.2)) ++ "]")
    else if name.startsWith "C" then
      let keys := mine.map (fun c => match (sy.prog t)[c.2.1]? with
        | some (.call f a) => toString f ++ ":" ++ toString a ++ ">" ++ showRes c.2.2
        | _ => "?")
      let distinct := keys.foldl (fun acc k => if acc.contains k then acc else acc ++ [k]) []
      let items := distinct.map (fun k => k ++ "*" ++ toString (keys.count k))
      some (name ++ "={" ++ ";".intercalate (items.foldr insStr []) ++ "}")
    else none)
  let dirty := (List.range NT).filter (fun f => s.text f != .pristine)
  let unfinished := (List.range n).filter (fun t => decide ((s.th t).ip < (sy.prog t).length))
  " ".intercalate parts ++ " final=" ++ (if dirty.isEmpty then "pristine" else "dirty:" ++ toString dirty.length)
    ++ (if s.faults.isEmpty then "" else " faults=" ++ toString s.faults.length)
    ++ (if unfinished.isEmpty then "" else " unfinished=" ++ toString unfinished.length)
    ++ (if s.acc.all (fun a => a.holdsP && (a.v == .patches || a.holdsM)) then "" else " lockset-broken")
    ++ (if (List.range 300).all (fun pg => (s.perm pg).x && !(s.perm pg).w) then "" else " perm-broken")

def seqSchedule (sy : Sys) : List Nat :=
  (List.range sy.names.length).flatMap (fun t => List.replicate (fuelOf sy t) t)

/-- a pseudo-random interleaving: the steady builder's mocks (phase 1), then `n` slots drawn by an LCG among the builder
    and caller threads — slots of a thread waiting for a held lock are stutter steps —, then every thread to completion,
    then the steady builder's reset (phase 3).  This is the decomposition of theorem `C11.steady_targets_restored`. -/
def shuffleSchedule (sy : Sys) (seed : Nat) : List Nat :=
  let n := sy.names.length
  let mids := (List.range n).filter (fun t => t != 0 ∧ t + 1 != n)
  let first := if (sy.names.getD 0 "").startsWith "S" then [0] else []
  let mids := if first.isEmpty then (List.range n).filter (fun t => t + 1 != n) else mids
  let total := mids.foldl (fun a t => a + fuelOf sy t) 0
  let rec go (k : Nat) (x : Nat) (acc : List Nat) : List Nat :=
    match k with
    | 0 => acc.reverse
    | k + 1 =>
      let x' := (x * 1103515245 + 12345) % 2147483648
      go k x' ((mids.getD ((x' / 65536) % (max mids.length 1)) 0) :: acc)
  first.flatMap (fun t => List.replicate (fuelOf sy t) t) ++ go (total / 2) (seed + 1) []
    -- two completion passes: a thread that waits for the lock holder left over from the random part finishes in the second
    ++ mids.flatMap (fun t => List.replicate (fuelOf sy t) t) ++ mids.flatMap (fun t => List.replicate (fuelOf sy t) t)
    ++ List.replicate (fuelOf sy (n - 1)) (n - 1)

/-- lock / access skeleton of the model's sections in the vocabulary of harness/c11/skel (which extracts the same
    from the Go source).  The section bodies come from `Conc.bodyOf` / `Conc.wscript`, so the strings change when the
    model changes. -/
def tokMI (inReplace : Bool) : MI → String
  | .write (.restore _) => if inReplace then "get-patches unpatchValue" else "if-applied{ WriteTo }"
  | .unregister _ => ""                                   -- the delete inside unpatchValue (monkey.go:157)
  | .register _ _ => "set-patches genJumpData get-patches checkAndReadOriginBytes"
  | .write (.tramp _) => "fixOrigin"
  | .setApplied _ => "set-applied"
  | .write (.jump _) => "WriteTo"

def tokW : WStep → String
  | .prot _ p => (if p.w then (if p.x then "mprotect-RWX" else "mprotect-RW") else (if p.x then "mprotect-RX" else "mprotect-R"))
      ++ (if p.w then " writeTo" else "")     -- writeTo: darwin fallback inside the error branch (mwrite_amd64.go:26)
  | .copy => "copy"

def joinToks (l : List String) : String := " ".intercalate (l.filter (· ≠ ""))

def skel : String → Option String
  | "patch.go:lock" => some "patchesLock.Lock"
  | "patch.go:unlock" => some "patchesLock.Unlock"
  | "patch.go:m:replaceFunc" => some (joinToks (["lock", "defer-unlock"] ++ (bodyOf (.replace 0 (.ret 0) true)).map (tokMI true)))
  | "guard.go:m:Apply" => some (joinToks (["lock", "defer-unlock"] ++ (bodyOf (.apply 0)).map (tokMI false)))
  | "guard.go:m:UnpatchWithLock" => some "lock defer-unlock Unpatch"
  | "guard.go:m:Unpatch" => some (joinToks ((bodyOf (.unpatch 0)).map (tokMI false)))
  | "guard.go:m:Restore" => some "lock defer-unlock if-applied{ WriteTo }"          -- not reachable from the builder API
  | "monkey.go:unpatchValue" => some "get-patches unpatch delete-patches"             -- = [write restore, unregister]
  | "monkey.go:Unpatch" => some "unpatchValue"                                        -- NO lock: outside the builder API
  | "monkey.go:UnpatchAll" => some "range-patches unpatch delete-patches"             -- NO lock: outside the builder API
  | "mwrite_amd64.go:WriteTo" =>
      some (joinToks (["memoryAccessLock.Lock", "defer-memoryAccessLock.Unlock"] ++ (wscript layout (.jump 0)).map tokW))
  | "mwrite_unix.go:mProtectCrossPage" => some "for Mprotect"
  | "memory.go:RawRead" => some "memoryAccessLock.RLock defer-memoryAccessLock.RUnlock copy"
  | "func_amd64.go:GetFuncSize" =>
      some "funcSizeReadLock.Lock defer{ set-funcSizeCache funcSizeReadLock.Unlock } get-funcSizeCache RawRead for RawRead"
  | _ => none

def handle (toks : List String) : Option String :=
  match toks with
  | "c11.round" :: _ =>
    match parseRound toks.tail with
    | some r =>
      let sy := mkSys r
      some (observe sy (run (layoutOf r) sy.prog (seqSchedule sy) (init (fun _ => .pristine))))
    | none => some "bad-op"
  | "c11.sched" :: rest =>
    let (line, sched) := rest.span (· != "::")
    match parseRound line, (sched.drop 1).mapM (·.toNat?) with
    | some r, some σ =>
      let sy := mkSys r
      some (observe sy (run (layoutOf r) sy.prog σ (init (fun _ => .pristine))))
    | _, _ => some "bad-op"
  | "c11.shuffle" :: sd :: rest =>
    match sd.toNat?, parseRound rest with
    | some seed, some r =>
      let sy := mkSys r
      some (observe sy (run (layoutOf r) sy.prog (shuffleSchedule sy seed) (init (fun _ => .pristine))))
    | _, _ => some "bad-op"
  | "c11.writes" :: _ =>
    match parseRound toks.tail with
    | some r =>
      let sy := mkSys r
      let s := run (layoutOf r) sy.prog (seqSchedule sy) (init (fun _ => .pristine))
      some s!"copies={(s.acc.filter (fun a => a.v == .text && a.write)).length}"
    | none => some "bad-op"
  | ["c11.skel", name] => some ((skel name).getD "bad-op")
  | "c11.skel" :: _ => some "bad-op"
  | _ => none

end Drv.C11
