import GoomVerif.Drv.Util
import GoomVerif.Model.When
/-! Driver for C04: `c04 <mode> <target> <sig> | clause ; ... | call ; ...` → one token per clause and per call
    (see harness/c04/probe_test.go for the grammar).  Values are the domain indices, `n` (nil) is 99; argument
    equality is equality of indices (the probe's domains are pairwise different under goom's `equal`). -/
namespace Drv.C04
open When

def valOf (c : Char) : Option Val :=
  if c = 'n' then some 99 else if c.isDigit then some (c.toNat - 48) else none

mutual
def pSpec : Nat → List Char → Option (Spec × List Char)
  | 0, _ => none
  | _+1, [] => none
  | _+1, '*' :: r => some (.any, r)
  | f+1, '{' :: r => do
    let (alts, r) ← pAlts f r
    match r with
    | '}' :: r => some (.isIn alts, r)
    | _ => none
  | _+1, c :: r => (valOf c).map (fun v => (.val v, r))
def pAlts : Nat → List Char → Option (List (List Spec) × List Char)
  | 0, _ => none
  | f+1, s => do
    let (a, r) ← pAlt f s
    match r with
    | '|' :: r => do let (as, r) ← pAlts f r; some (a :: as, r)
    | _ => some ([a], r)
def pAlt : Nat → List Char → Option (List Spec × List Char)
  | 0, _ => none
  | _+1, '[' :: ']' :: r => some ([], r)
  | f+1, '[' :: r => do
    let (xs, r) ← pList f r
    match r with
    | ']' :: r => some (xs, r)
    | _ => none
  | f+1, s => do let (x, r) ← pSpec f s; some ([x], r)
def pList : Nat → List Char → Option (List Spec × List Char)
  | 0, _ => none
  | f+1, s => do
    let (x, r) ← pSpec f s
    match r with
    | ',' :: r => do let (xs, r) ← pList f r; some (x :: xs, r)
    | _ => some ([x], r)
end

def parseSpecs (s : String) : Option (List Spec) :=
  if s = "-" then some [] else
  match pList (4 * s.length + 4) s.toList with
  | some (xs, []) => some xs
  | _ => none

def parseVals (s : String) : Option (List Val) :=
  if s = "-" || s = "" then some [] else
  (s.splitOn ",").mapM (fun t => match t.toList with | [c] => valOf c | _ => none)

/-- alternative of a `When.In` clause: bare spec, `[..]` tuple, `<..>` typed slice -/
def parseInAlt (s : String) : Option Alt :=
  match s.toList with
  | '<' :: rest =>
    match rest.reverse with
    | '>' :: body => (parseVals (String.ofList body.reverse)).map Alt.slice
    | _ => none
  | '[' :: _ =>
    match pAlt (4 * s.length + 4) s.toList with
    | some (xs, []) => some (.tuple xs)
    | _ => none
  | cs =>
    match pSpec (4 * s.length + 4) cs with
    | some (x, []) => some (.bare x)
    | _ => none

def parsePair (s : String) : Option (List Spec × Res) :=
  match s.splitOn "=" with
  | [a, k] => do
    let r ← k.toNat?
    match pAlt (4 * a.length + 4) a.toList with
    | some (xs, []) => some (xs, r)
    | _ => none
  | _ => none

def parseSig (s : String) : Option Sig :=
  match (s.splitOn ",").map (fun kv => kv.splitOn "=") with
  | [["n", n], ["v", v], ["m", m], ["o", o]] => do
    let n ← n.toNat?; let v ← v.toNat?; let m ← m.toNat?; let o ← o.toNat?
    some { nIn := n, variadic := v != 0, isMethod := m != 0, numOut := o }
  | _ => none

def parseClause (sig : Sig) : List String → Option Clause
  | ["ret", k] => k.toNat?.map (Clause.ret sig.numOut)
  | ["retx", k, c] => do let k ← k.toNat?; let c ← c.toNat?; some (.ret c k)
  | ["andret", k] => k.toNat?.map Clause.andRet
  | "returns" :: ks => (ks.mapM String.toNat?).map Clause.returns
  | ["when", s] => if s = "-" then some (.when none) else (parseSpecs s).map (fun x => .when (some x))
  | "in" :: alts => (alts.mapM parseInAlt).map Clause.isIn
  | "matches" :: ps => (ps.mapM parsePair).map Clause.matchPairs
  | _ => none

def splitOnTok (sep : String) (toks : List String) : List (List String) :=
  let (acc, cur) := toks.foldl (fun (acc, cur) t => if t = sep then (acc ++ [cur], []) else (acc, cur ++ [t])) (([] : List (List String)), ([] : List String))
  acc ++ [cur]

def errName : Err → String
  | .nosuitable => "nosuitable" | .arglen => "arglen" | .retlen => "retlen" | .whenerr => "whenerr" | .inerr => "inerr"
  | .reterr => "reterr" | .reflect => "reflect" | .runtime => "runtime" | .evalerr => "evalerr"
  | .unmodelled => "unmodelled"

def eqIdx (a b : Val) : Bool := a == b

def showOut (sig : Sig) : Out → String
  | .ret r => if sig.numOut = 0 then "ret:-" else s!"ret:{r}"
  | .unit => "ret:-"

/-- run the clauses; returns the observation tokens and the state unless a clause panicked -/
def runClauses (sig : Sig) : Option W → List Clause → List String → List String × Option W
  | w, [], acc => (acc, w)
  | none, c :: cs, acc =>
    match first sig c with
    | .ok w => runClauses sig (some w) cs (acc ++ ["ok"])
    | .error e => (acc ++ [s!"panic:{errName e}", "stop"], none)
  | some w, c :: cs, acc =>
    match w.step c with
    | .ok w => runClauses sig (some w) cs (acc ++ ["ok"])
    | .error e => (acc ++ [s!"panic:{errName e}", "stop"], none)

def parseCall : List String → Option (Val × List Val)
  | ["call", r, a] => do
    let recv ← if r = "-" then some 0 else r.toNat?.map (· + 1000)
    let xs ← parseVals a
    some (recv, xs)
  | _ => none

def runCalls (evalMode : Bool) : W → List (Val × List Val) → List String → List String
  | _, [], acc => acc
  | w, (recv, xs) :: cs, acc =>
    let r := if evalMode then w.evalCall eqIdx xs else w.invoke eqIdx (encodeCall w.sig recv xs)
    match r with
    | .ok (o, w') => runCalls evalMode w' cs (acc ++ [showOut w.sig o])
    | .error e => runCalls evalMode w cs (acc ++ [s!"panic:{errName e}"])

def handle (toks : List String) : Option String :=
  match toks with
  | "c04" :: rest =>
    match splitOnTok "|" ("c04" :: rest) with
    | [["c04", mode, _target, sigS], cl, ca] =>
      if mode != "call" && mode != "callm" && mode != "eval" then some "bad-op" else
      match parseSig sigS with
      | none => some "bad-op"
      | some sig =>
        let cls := (splitOnTok ";" cl).filter (· ≠ [])
        let cas := (splitOnTok ";" ca).filter (· ≠ [])
        match cls.mapM (parseClause sig), cas.mapM parseCall with
        | some clauses, some calls =>
          match runClauses sig none clauses [] with
          | (acc, some w) => some (String.intercalate " " (runCalls (mode == "eval") w calls acc))
          | (acc, none) => if clauses.isEmpty then some "bad-op" else some (String.intercalate " " acc)
        | _, _ => some "bad-op"
    | _ => some "bad-op"
  | _ => none

end Drv.C04
