import GoomVerif.Drv.Util
import GoomVerif.Model.When
/-! Driver for C04: `c04 <mode> <target> <sig> | clause ; ... | call ; ...` → one token per clause and per call
    (see harness/c04/probe_test.go for the grammar).  Values are the domain indices, `n` (nil) is 99; argument
    equality is equality of indices (the probe's domains are pairwise different under goom's `equal`). -/
namespace Drv.C04
open When

def valOf (c : Char) : Option Val :=
  if c = 'n' then some 99 else if c.isDigit then some (c.toNat - 48) else none

mutual
def pSpec : Nat → List Char → Option (Spec × List Char)
  | 0, _ => none
  | _+1, [] => none
  | _+1, '*' :: r => some (.any, r)
  | f+1, '{' :: r => do
    let (alts, r) ← pAlts f r
    match r with
    | '}' :: r => some (.isIn alts, r)
    | _ => none
  | _+1, c :: r => (valOf c).map (fun v => (.val v, r))
def pAlts : Nat → List Char → Option (List (List Spec) × List Char)
  | 0, _ => none
  | f+1, s => do
    let (a, r) ← pAlt f s
    match r with
    | '|' :: r => do let (as, r) ← pAlts f r; some (a :: as, r)
    | _ => some ([a], r)
def pAlt : Nat → List Char → Option (List Spec × List Char)
  | 0, _ => none
  | _+1, '[' :: ']' :: r => some ([], r)
  | f+1, '[' :: r => do
    let (xs, r) ← pList f r
    match r with
    | ']' :: r => some (xs, r)
    | _ => none
  | f+1, s => do let (x, r) ← pSpec f s; some ([x], r)
def pList : Nat → List Char → Option (List Spec × List Char)
  | 0, _ => none
  | f+1, s => do
    let (x, r) ← pSpec f s
    match r with
    | ',' :: r => do let (xs, r) ← pList f r; some (x :: xs, r)
    | _ => some ([x], r)
end

def parseSpecs (s : String) : Option (List Spec) :=
  if s = "-" then some [] else
  match pList (4 * s.length + 4) s.toList with
  | some (xs, []) => some xs
  | _ => none

def parseVals (s : String) : Option (List Val) :=
  if s = "-" || s = "" then some [] else
  (s.splitOn ",").mapM (fun t => match t.toList with | [c] => valOf c | _ => none)

/-- alternative of a `When.In` clause: bare spec, `[..]` tuple, `<..>` typed slice -/
def parseInAlt (s : String) : Option Alt :=
  match s.toList with
  | '<' :: rest =>
    match rest.reverse with
    | '>' :: body => (parseVals (String.ofList body.reverse)).map Alt.slice
    | _ => none
  | '[' :: _ =>
    match pAlt (4 * s.length + 4) s.toList with
    | some (xs, []) => some (.tuple xs)
    | _ => none
  | cs =>
    match pSpec (4 * s.length + 4) cs with
    | some (x, []) => some (.bare x)
    | _ => none

def parsePair (s : String) : Option (List Spec × Res) :=
  match s.splitOn "=" with
  | [a, k] => do
    let r ← k.toNat?
    match pAlt (4 * a.length + 4) a.toList with
    | some (xs, []) => some (xs, r)
    | _ => none
  | _ => none

/-- `m=2`: an unexported method mocked through `ExportMethod(..).As(..)`: goom is handed a plain function whose
    parameter 0 is the receiver (`DefMocker`, `isMethod = false`); the flag says calls carry the receiver as argument 0 -/
def parseSig (s : String) : Option (Sig × Bool) :=
  match (s.splitOn ",").map (fun kv => kv.splitOn "=") with
  | [["n", n], ["v", v], ["m", m], ["o", o]] => do
    let n ← n.toNat?; let v ← v.toNat?; let m ← m.toNat?; let o ← o.toNat?
    if m = 2 then some ({ nIn := n + 1, variadic := v != 0, isMethod := false, numOut := o }, true)
    else some ({ nIn := n, variadic := v != 0, isMethod := m != 0, numOut := o }, false)
  | _ => none

def parseClause (sig : Sig) : List String → Option Clause
  | ["ret", k] => k.toNat?.map (Clause.ret sig.numOut)
  | ["retx", k, c] => do let k ← k.toNat?; let c ← c.toNat?; some (.ret c k)
  | ["andret", k] => k.toNat?.map Clause.andRet
  | "returns" :: ks => (ks.mapM String.toNat?).map Clause.returns
  | ["when", s] => if s = "-" then some (.when none) else (parseSpecs s).map (fun x => .when (some x))
  | "in" :: alts => (alts.mapM parseInAlt).map Clause.isIn
  | "matches" :: ps => (ps.mapM parsePair).map Clause.matchPairs
  | _ => none

def splitOnTok (sep : String) (toks : List String) : List (List String) :=
  let (acc, cur) := toks.foldl (fun (acc, cur) t => if t = sep then (acc ++ [cur], []) else (acc, cur ++ [t])) (([] : List (List String)), ([] : List String))
  acc ++ [cur]

def errName : Err → String
  | .nosuitable => "nosuitable" | .reflect => "reflect" | .runtime => "runtime" | .unmodelled => "unmodelled"
  | .arglen | .retlen | .whenerr | .inerr | .reterr | .evalerr => "reject"   -- goom refuses with an explicit message

def eqIdx (a b : Val) : Bool := a == b

def showOut (sig : Sig) : Out → String
  | .ret r => if sig.numOut = 0 then "ret:-" else s!"ret:{r}"
  | .unit => "ret:-"

def showObs (sig : Sig) : Obs → String
  | .ok => "ok"
  | .out o => showOut sig o
  | .panic e => s!"panic:{errName e}"
  | .stop => "stop"

inductive DStep where
  | clause (c : Clause)
  | call (recv : Val) (xs : List Val)
  | conc (calls : List (Val × List Val))

def parseRecvArgs (asMeth : Bool) (r a : String) : Option (Val × List Val) := do
  let recv ← if r = "-" then some 0 else r.toNat?.map (· + 1000)
  let xs ← parseVals a
  some (recv, if asMeth then recv :: xs else xs)

def parseStep (sig : Sig) (asMeth : Bool) : List String → Option DStep
  | ["call", r, a] => (parseRecvArgs asMeth r a).map (fun p => .call p.1 p.2)
  | "conc" :: _reps :: jobs =>
    (jobs.mapM (fun (t : String) => match t.splitOn ":" with
      | [r, a] => parseRecvArgs asMeth r a
      | _ => none)).map DStep.conc
  | toks => (parseClause sig toks).map DStep.clause

/-- one call as the mode makes it: `eval` through `When.Eval`, `calld` a compiled call site, else reflect -/
def oneCall (mode : String) (w : W) (recv : Val) (xs : List Val) : List Obs × Option W :=
  if mode == "eval" then
    match w.evalCall eqIdx xs with
    | .ok (o, w') => ([.out o], some w')
    | .error e => ([.panic e], some w)
  else w.stepObs eqIdx (.call (mode == "calld") recv xs)

def concObs (mode : String) (w : W) (sig : Sig) (calls : List (Val × List Val)) : String :=
  "conc:" ++ String.intercalate "/" (calls.map (fun p =>
    String.intercalate " " ((oneCall mode w p.1 p.2).1.map (showObs sig))))

def runSteps (mode : String) (sig : Sig) : Option W → List DStep → List String → List String
  | _, [], acc => acc
  | none, .clause c :: rest, acc =>
    -- only a When made by CreateWhen directly (eval mode) can start with In
    if mode != "eval" && (match c with | .isIn _ => true | _ => false) then ["bad-op"] else
    match first sig c with
    | .ok w => runSteps mode sig (some w) rest (acc ++ ["ok"])
    | .error e => acc ++ [s!"panic:{errName e}", "stop"]
  | none, _ :: _, _ => ["bad-op"]
  | some w, .clause c :: rest, acc =>
    match w.stepObs eqIdx (.clause c) with
    | (obs, some w') => runSteps mode sig (some w') rest (acc ++ obs.map (showObs sig))
    | (obs, none) => acc ++ obs.map (showObs sig)
  | some w, .call recv xs :: rest, acc =>
    match oneCall mode w recv xs with
    | (obs, some w') => runSteps mode sig (some w') rest (acc ++ obs.map (showObs sig))
    | (obs, none) => acc ++ obs.map (showObs sig)
  | some w, .conc calls :: rest, acc => runSteps mode sig (some w) rest (acc ++ [concObs mode w sig calls])

def handle (toks : List String) : Option String :=
  match toks with
  | "c04" :: _ =>
    match splitOnTok "|" toks with
    | hd :: secs =>
      match hd with
      | "c04" :: mode :: _target :: sigS :: opts =>
        if mode != "call" && mode != "callm" && mode != "calld" && mode != "eval" then some "bad-op" else
        if !(opts == [] || opts == ["s"] || opts == ["d"] || opts == ["sd"]) then some "bad-op" else
        if secs.isEmpty then some "bad-op" else
        match parseSig sigS with
        | none => some "bad-op"
        | some (sig, asMeth) =>
          let steps := (secs.flatMap (splitOnTok ";")).filter (· ≠ [])
          match steps.mapM (parseStep sig asMeth) with
          | some ds =>
            if !(ds.any (fun d => match d with | .clause _ => true | _ => false)) then some "bad-op" else
            some (String.intercalate " " (runSteps mode sig none ds []))
          | none => some "bad-op"
      | _ => some "bad-op"
    | [] => some "bad-op"
  | _ => none

end Drv.C04
