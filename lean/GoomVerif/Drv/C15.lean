import GoomVerif.Drv.Util
import GoomVerif.Gen.JmpAmd64
import GoomVerif.Gen.JmpArm64
import GoomVerif.Gen.Jmp386
import GoomVerif.Gen.JmpIfaceAmd64
import GoomVerif.Gen.JmpIfaceArm64
import GoomVerif.Model.X86Mini
import GoomVerif.Model.A64Mini
/-! Driver for C15: `emit <kind> <from> <to>` → `bytes=<hex> run=<symbolic result>`.
    Memory is the fixed injective marker `mem64 a = ~~~a`, so "jumped through [a]" is visible in RIP.
    The same `emit` lines are used for the call-site lane: the check turns what the real call sites left in memory
    (`from` = where the bytes sit, `to` = the destination computed independently) into `emit` lines.
    `c15.cap <arch> <hexbytes>` → `patched=<bool>` | `panic` (Go indexes `origin[0]`: an empty slice panics; the generated
    definition is totalised with `getD`, the driver restores the bounds check here). -/
namespace Drv.C15

def x86Run (bs : List (BitVec 8)) (from_ : BitVec 64) : String :=
  let m0 : X86.Mach := { rip := from_, rdx := 0xdddddddddddddddd#64, mem64 := fun a => ~~~a }
  match X86.exec bs m0 with
  | some m => s!"rip={hex64 m.rip} rdx={hex64 m.rdx}"
  | none => "undecodable"

def a64Run (bs : List (BitVec 8)) (from_ : BitVec 64) : String :=
  let m0 : A64.Mach := { pc := from_, x := fun r => BitVec.ofNat 64 (0xa0a0a0a000 + r), mem64 := fun a => ~~~a }
  match A64.exec bs m0 with
  | some m =>
    let changed := (List.range 31).filter (fun r => m.x r != m0.x r)
    let regs := String.intercalate "," (changed.map (fun r => s!"x{r}={hex64 (m.x r)}"))
    s!"pc={hex64 m.pc} {regs}"
  | none => "undecodable"

def i386Run (bs : List (BitVec 8)) : String :=
  let m0 : X86.Mach32 := { eip := 0#32, edx := 0xdddddddd#32, mem32 := fun a => ~~~a }
  match X86.exec32 bs m0 with
  | some m => s!"eip={hexNat m.eip.toNat} edx={hexNat m.edx.toNat}"
  | none => "undecodable"

def handle (toks : List String) : Option String :=
  match toks with
  | ["emit", kind, f, t] =>
    match parseNat f, parseNat t with
    | some fn, some tn =>
      let from_ := BitVec.ofNat 64 fn
      let to := BitVec.ofNat 64 tn
      match kind with
      | "amd64.entry" => let bs := Gen.Amd64.jmpToFunctionValue from_ to; some s!"bytes={hexBytes bs} {x86Run bs from_}"
      | "amd64.origin" => let bs := Gen.Amd64.jmpToOriginFunctionValue from_ to; some s!"bytes={hexBytes bs} {x86Run bs from_}"
      | "amd64.stub" => let bs := Gen.IfaceAmd64.jmpWithRdx to; some s!"bytes={hexBytes bs} {x86Run bs from_}"
      | "amd64.relative" => some s!"relative={Gen.Amd64.relative from_ to}"
      | "arm64.entry" => let bs := Gen.Arm64.jmpToFunctionValue from_ to; some s!"bytes={hexBytes bs} {a64Run bs from_}"
      | "arm64.stub" => let bs := Gen.IfaceArm64.jmpWithRdx to; some s!"bytes={hexBytes bs} {a64Run bs from_}"
      | "arm64.stubctx" => let bs := Gen.IfaceArm64.jmpWithRdxAndCtx to from_ (~~~from_); some s!"bytes={hexBytes bs} {a64Run bs from_}"
      | "arm64.origin" =>
        match Gen.Arm64.jmpToOriginFunctionValue from_ to with
        | .ok bs => some s!"bytes={hexBytes bs} {a64Run bs from_}"
        | .error _ => some "panic"
      | "i386.entry" =>
        let bs := Gen.I386.jmpToFunctionValue (BitVec.ofNat 32 fn) (BitVec.ofNat 32 tn)
        some s!"bytes={hexBytes bs} {i386Run bs}"
      | _ => some "bad-op"
    | _, _ => some "bad-op"
  | ["c15.cap", arch, hx] =>
    match parseBytes hx with
    | some bs =>
      if bs.isEmpty then some "panic"
      else match arch with
        | "amd64" => some s!"patched={Gen.Amd64.checkAlreadyPatch bs}"
        | "i386" => some s!"patched={Gen.I386.checkAlreadyPatch bs}"
        | _ => some "bad-op"
    | none => some "bad-op"
  | "c15.cap" :: _ => some "bad-op"
  | ["conc", _, _, _] => some "conc ok"      -- concurrent callers of a pure emitter: every result equals the sequential one
  | "emit" :: _ => some "bad-op"
  | _ => none

end Drv.C15
