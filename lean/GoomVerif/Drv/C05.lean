import GoomVerif.Drv.Util
import GoomVerif.Model.Cursor
/-! Driver for C05.
    `c05.serve <n> <cur>`                         → `idx=<i> cur=<c>`  (`idx=oob` when the index is out of range: Go panics)
    `c05.seq <target> <op> <op> …`                → observations of the calls, then the final `When` state
       ops: `mR:v` `mW:<cond>` `mS:v,v,…` `wR:v` `wA:v` `wS:v,v,…` `wW:<cond>` `wM:a=v,a=v,…` (Matches) `C:a`; cond = `e<a>` | `i<a>,<b>,…` | `y`
    `c05.hist <n> <ev> <ev> …`                    → `admitted cur=<c> calls=<k>` | `rejected at <index>`
       events: `i<t>` (inv) `s<t>` (internal step) `r<t>=<v>` (resp) -/
namespace Drv.C05
open Cursor

def parseList (s : String) : Option (List Nat) :=
  if s.isEmpty then some [] else (s.splitOn ",").mapM parseNat

def parseCond (s : String) : Option Cond :=
  match s.toList with
  | ['y'] => some .any
  | 'e' :: r => (parseNat (String.ofList r)).map .eq
  | 'i' :: r => (parseList (String.ofList r)).map .isIn
  | _ => none

def parsePairs (s : String) : Option (List (Nat × Nat)) :=
  (s.splitOn ",").mapM (fun p => match p.splitOn "=" with
    | [a, v] => do let a ← parseNat a; let v ← parseNat v; pure (a, v)
    | _ => none)

def parseOp (tok : String) : Option Op :=
  match tok.splitOn ":" with
  | [k, a] =>
    match k with
    | "mR" => (parseNat a).map .mRet
    | "mW" => (parseCond a).map .mWhen
    | "mS" => (parseList a).map .mRets
    | "wR" => (parseNat a).map .wRet
    | "wA" => (parseNat a).map .wAnd
    | "wS" => (parseList a).map .wRets
    | "wW" => (parseCond a).map .wWhen
    | "wM" => (parsePairs a).map .wMatches
    | "C" => (parseNat a).map .call
    | _ => none
  | _ => none

/-- targets whose result type is an interface or a slice configure token `t` as nil when `t % 5 = 0` -/
def nilKinds : List String := ["fe", "fi", "fb"]

def showObs (tgt : String) : Obs → String
  | .val v => if nilKinds.contains tgt && v % 5 == 0 then "vnil" else s!"v{v}"
  | .nomatch => "P"
  | .oob => "O"
  | .orig => "G"
  | .rejected => "R"

def showM (w : When) (i : Nat) : String :=
  match w.ms[i]? with
  | some m => s!"{m.results.length}:{m.cur}"
  | none => "?"

def showState : Option When → String
  | none => "nowhen"
  | some w =>
    let ml := String.intercalate "," (w.mlist.map (showM w))
    let d := match w.dflt with | some d => showM w d | none => "-"
    let c := match w.curMatch with
      | none => "-"
      | some i =>
        if w.dflt == some i then "d"
        else match w.mlist.findIdx? (· == i) with
          | some k => s!"m{k}"
          | none => "new" ++ showM w i
    s!"m=[{ml}] d={d} c={c}"

def parseEv (tok : String) : Option Ev :=
  match tok.toList with
  | 'i' :: r => (parseNat (String.ofList r)).map .inv
  | 's' :: r => (parseNat (String.ofList r)).map .step
  | 'r' :: r =>
    match (String.ofList r).splitOn "=" with
    | [t, v] => do let t ← parseNat t; let v ← parseNat v; pure (.resp t v)
    | _ => none
  | _ => none

def kinds : List String := ["f1", "f2", "me", "if", "v0", "v1", "v2", "vm", "fe", "fi", "fb", "xf"]
def siblingKinds : List String := ["f1", "me", "if", "fe"]

/-- an op of the model, or `T:k` = continue on target `k` (two targets of the same signature mocked through one builder:
    in the model two mockers share nothing) -/
def parseTok (tok : String) : Option (Op ⊕ Nat) :=
  match tok.splitOn ":" with
  | ["T", k] => (parseNat k).map .inr
  | ["L", "d"] => some (.inr 100)   -- OpenDebug / OpenTrace for the rest of the history: logging is not part of the model
  | ["L", "t"] => some (.inr 100)   -- (it must not change anything a caller sees)
  | _ => (parseOp tok).map .inl

/-- (observations in call order, state of target 0, state of target 1, target 1 was used) -/
def runTwo (ops : List (Op ⊕ Nat)) : List Obs × Option When × Option When × Bool :=
  let step := fun (acc : List Obs × Option When × Option When × Nat × Bool) (o : Op ⊕ Nat) =>
    let (obs, s0, s1, act, used) := acc
    match o with
    | .inr k => if k == 100 then acc else (obs, s0, s1, k, used || k == 1)
    | .inl op =>
      let r := opStep (if act == 0 then s0 else s1) op
      let obs' := match r.2 with | some ob => ob :: obs | none => obs
      if act == 0 then (obs', r.1, s1, act, used) else (obs', s0, r.1, act, used)
  let (obs, s0, s1, _, used) := ops.foldl step ([], none, none, 0, false)
  (obs.reverse, s0, s1, used)

def handle (toks : List String) : Option String :=
  match toks with
  | ["c05.serve", n, c] =>
    match parseNat n, parseNat c with
    | some n, some c =>
      let r := serve n c
      some (if r.1 < n then s!"idx={r.1} cur={r.2}" else s!"idx=oob cur={c}")
    | _, _ => some "bad-op"
  | "c05.seq" :: tgt :: ops =>
    if !(kinds.contains tgt) then some "bad-op" else   -- all mocker kinds share one model
    match ops.mapM parseTok with
    | some ops =>
      if ops.any (fun o => match o with | .inr k => (k > 1 && k != 100) || (k == 1 && !(siblingKinds.contains tgt)) | _ => false) then some "bad-op" else
      let r := runTwo ops
      let o := if r.1.isEmpty then "-" else String.intercalate " " (r.1.map (showObs tgt))
      let st := if r.2.2.2 then s!"{showState r.2.1} || {showState r.2.2.1}" else showState r.2.1
      some s!"{o} | {st}"
    | none => some "bad-op"
  | "c05.hist" :: n :: evs =>
    match parseNat n, evs.mapM parseEv with
    | some n, some evs =>
      match run n init evs with
      | some s => some s!"admitted cur={s.cur} calls={(evs.filter (fun e => match e with | .resp _ _ => true | _ => false)).length}"
      | none => some s!"rejected at {(failsAt n init evs 0).getD 0}"
    | _, _ => some "bad-op"
  | t :: _ => if t.startsWith "c05." then some "bad-op" else none
  | [] => none

end Drv.C05
