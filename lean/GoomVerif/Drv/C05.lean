import GoomVerif.Drv.Util
import GoomVerif.Model.Cursor
/-! Driver for C05.
    `c05.serve <n> <cur>`                         → `idx=<i> cur=<c>`  (`idx=oob` when the index is out of range: Go panics)
    `c05.seq <target> <op> <op> …`                → observations of the calls, then the final `When` state
       ops: `mR:v` `mW:<cond>` `mS:v,v,…` `wR:v` `wA:v` `wS:v,v,…` `wW:<cond>` `wM:a=v,a=v,…` (Matches) `C:a`; cond = `e<a>` | `i<a>,<b>,…` | `y`
    `c05.hist <n> <ev> <ev> …`                    → `admitted cur=<c> calls=<k>` | `rejected at <index>`
       events: `i<t>` (inv) `s<t>` (internal step) `r<t>=<v>` (resp) -/
namespace Drv.C05
open Cursor

def parseList (s : String) : Option (List Nat) :=
  if s.isEmpty then some [] else (s.splitOn ",").mapM parseNat

def parseCond (s : String) : Option Cond :=
  match s.toList with
  | ['y'] => some .any
  | 'e' :: r => (parseNat (String.ofList r)).map .eq
  | 'i' :: r => (parseList (String.ofList r)).map .isIn
  | _ => none

def parsePairs (s : String) : Option (List (Nat × Nat)) :=
  (s.splitOn ",").mapM (fun p => match p.splitOn "=" with
    | [a, v] => do let a ← parseNat a; let v ← parseNat v; pure (a, v)
    | _ => none)

def parseOp (tok : String) : Option Op :=
  match tok.splitOn ":" with
  | [k, a] =>
    match k with
    | "mR" => (parseNat a).map .mRet
    | "mW" => (parseCond a).map .mWhen
    | "mS" => (parseList a).map .mRets
    | "wR" => (parseNat a).map .wRet
    | "wA" => (parseNat a).map .wAnd
    | "wS" => (parseList a).map .wRets
    | "wW" => (parseCond a).map .wWhen
    | "wM" => (parsePairs a).map .wMatches
    | "C" => (parseNat a).map .call
    | _ => none
  | _ => none

def showObs : Obs → String
  | .val v => s!"v{v}"
  | .nomatch => "P"
  | .oob => "O"
  | .orig => "G"

def showM (w : When) (i : Nat) : String :=
  match w.ms[i]? with
  | some m => s!"{m.results.length}:{m.cur}"
  | none => "?"

def showState : Option When → String
  | none => "nowhen"
  | some w =>
    let ml := String.intercalate "," (w.mlist.map (showM w))
    let d := match w.dflt with | some d => showM w d | none => "-"
    let c := match w.curMatch with
      | none => "-"
      | some i =>
        if w.dflt == some i then "d"
        else match w.mlist.findIdx? (· == i) with
          | some k => s!"m{k}"
          | none => "new" ++ showM w i
    s!"m=[{ml}] d={d} c={c}"

def parseEv (tok : String) : Option Ev :=
  match tok.toList with
  | 'i' :: r => (parseNat (String.ofList r)).map .inv
  | 's' :: r => (parseNat (String.ofList r)).map .step
  | 'r' :: r =>
    match (String.ofList r).splitOn "=" with
    | [t, v] => do let t ← parseNat t; let v ← parseNat v; pure (.resp t v)
    | _ => none
  | _ => none

def handle (toks : List String) : Option String :=
  match toks with
  | ["c05.serve", n, c] =>
    match parseNat n, parseNat c with
    | some n, some c =>
      let r := serve n c
      some (if r.1 < n then s!"idx={r.1} cur={r.2}" else s!"idx=oob cur={c}")
    | _, _ => some "bad-op"
  | "c05.seq" :: tgt :: ops =>
    if !(["f1", "f2", "me", "if", "v0", "v1", "v2", "vm"].contains tgt) then some "bad-op" else   -- all mocker kinds share one model
    match ops.mapM parseOp with
    | some ops =>
      let obs := runOps none ops
      let o := if obs.isEmpty then "-" else String.intercalate " " (obs.map showObs)
      some s!"{o} | {showState (endState none ops)}"
    | none => some "bad-op"
  | "c05.hist" :: n :: evs =>
    match parseNat n, evs.mapM parseEv with
    | some n, some evs =>
      match run n init evs with
      | some s => some s!"admitted cur={s.cur} calls={(evs.filter (fun e => match e with | .resp _ _ => true | _ => false)).length}"
      | none => some s!"rejected at {(failsAt n init evs 0).getD 0}"
    | _, _ => some "bad-op"
  | t :: _ => if t.startsWith "c05." then some "bad-op" else none
  | [] => none

end Drv.C05
