import GoomVerif.Drv.Util
import GoomVerif.Model.C01Dispatch
/-! Driver for C01.

`c01.hist <sig> ; <step> ; …` — one mocker-level history of one target function per line:
  `A b k` builder b applies callback k · `R b toks` builder b `.Return(toks…)` · `X b` builder b resets ·
  `D b` the test drops builder b (and everything it holds) · `G` collections · `C form args res` call.
Answer: one observation per step joined by ` | `.

`c01.patch <step> ; …` — one patch-layer history over four functions per line (f3 begins with the NOP sentinel):
  `rep f r` · `app g` · `unp g` · `res g` · `unf f` · `all` · `gc` · `call f`;
answer per step: `<text f0>/<registration f0>,<…f1>,<…f2>,<…f3>` (or the behaviour for `call`).
-/
namespace Drv.C01
open C01M

/-- functions 0–2 are ordinary Go functions; function 3 starts with a NOP byte (the assembly target of the probe) -/
def env : Env :=
  { nf := 4, entry := fun f => BitVec.ofNat 64 (0x401000 + 64 * f),
    pristine := fun f => if f = 3 then [0x90#8, 0x48#8, 0xc7#8, 0xc0#8, 0x07#8, 0x00#8, 0x00#8, 0x00#8, 0x48#8, 0x89#8, 0x44#8, 0x24#8, 0x08#8]
      else [0x49#8, 0x3b#8, 0x66#8, 0x10#8, 0x76#8, 0x30#8, 0x55#8, 0x48#8, 0x89#8, 0xe5#8, 0x48#8, 0x83#8, 0xec#8],
    funcSize := fun _ => 64 }

def cbCode : Addr := 0x4a0000#64          -- all callbacks share one code pointer; they differ by closure object
def stubCode : Addr := 0x45f000#64        -- reflect.makeFuncStub
def cbAddr (k : Nat) : Addr := BitVec.ofNat 64 (0xc000000000 + 64 * (k + 1))
def stubAddr (i : Nat) : Addr := BitVec.ofNat 64 (0xc000800000 + 64 * (i + 1))

def splitSteps (toks : List String) : List (List String) :=
  let rec go : List String → List String → List (List String) → List (List String)
    | [], cur, acc => (cur.reverse :: acc).reverse
    | t :: ts, cur, acc => if t = ";" then go ts [] (cur.reverse :: acc) else go ts (t :: cur) acc
  (go toks [] []).filter (fun s => !s.isEmpty)

def toksOf (s : String) : Toks := if s = "-" then [] else s.splitOn ","
def showToks (t : Toks) : String := if t.isEmpty then "-" else String.intercalate "," t

def outcomeStr : Outcome → String
  | .ok _ => "ok"
  | .errSize => "rej:size"
  | .errAlreadyPatched => "rej:patched"
  | .illFormed => "bad-op"

/-- driver state for `c01.hist`: model state, line-builder → model-builder id, next fresh builder id -/
structure HS where
  s : AState
  bmap : Nat → Nat
  nextB : Nat
  nstep : Nat

def target : Nat := 1

/-- external roots at a collection: what the live builders hold (their mockers' `imp`) -/
def keepOf (h : HS) (nb : Nat) : Addr → Bool := fun a =>
  (List.range nb).any (fun b =>
    (List.range env.nf).any (fun f =>
      match h.s.mockers (h.bmap b) f with
      | some m => (match m.imp with | some i => decide (i = a) | none => false)
      | none => false))

def histStep (h : HS) (st : List String) : Option (HS × String) :=
  let h := { h with nstep := h.nstep + 1 }
  match st with
  | [op, b, k] =>
    if op = "A" ∨ op = "Ah" then do
      let b ← b.toNat?; let k ← k.toNat?
      let (s', out) := astepO env h.s (.applyCb (h.bmap b) target (op == "Ah") ⟨0, cbAddr k, 19⟩ k cbCode)
      pure ({ h with s := s' }, outcomeStr out)
    else if op = "R" ∨ op = "Rh" then do
      let b ← b.toNat?
      let (s', out) := astepO env h.s (.ret (h.bmap b) target (op == "Rh") ⟨0, stubAddr h.nstep, 19⟩ stubCode (toksOf k))
      pure ({ h with s := s' }, outcomeStr out)
    else none
  | [op, b, c, r] =>
    if op = "W" ∨ op = "Wh" then do
      let b ← b.toNat?
      let (s', out) := astepO env h.s (.whenRet (h.bmap b) target (op == "Wh") ⟨0, stubAddr h.nstep, 19⟩ stubCode (toksOf c) (toksOf r))
      pure ({ h with s := s' }, outcomeStr out)
    else if op = "C" ∨ op = "Cr" then
      let o := match see env h.s target (toksOf c) with
        | .orig => "orig"
        | .cb k => s!"cb{k} a={showToks (toksOf c)} r={showToks (toksOf r)} id=ok"
        | .stubRet [res] => s!"stub r={showToks res}"
        | .stubRet rs => s!"stub seq={rs.length}"
        | .stubOrig => "stub-orig"
        | .stubPanic => "panic:there-is-no-suitable"
        | .crash => "crash"
      pure (h, o)
    else none
  | ["X", b] => do
    let b ← b.toNat?
    pure ({ h with s := astep env h.s (.reset (h.bmap b)) }, "ok")
  | ["D", b] => do
    let b ← b.toNat?
    pure ({ h with bmap := fun x => if x = b then h.nextB else h.bmap x, nextB := h.nextB + 1 }, "ok")
  | ["G"] => pure ({ h with s := astep env h.s (.gc (keepOf h 4)) }, "ok")
  | _ => none

def runHist (steps : List (List String)) : Option String := do
  let mut h : HS := { s := ainit env, bmap := fun b => b, nextB := 100, nstep := 0 }
  let mut outs : List String := []
  for st in steps do
    let (h', o) ← histStep h st
    h := h'
    outs := o :: outs
  pure (String.intercalate " | " outs.reverse)

/-! patch layer -/

def replAddr (r : Nat) : Addr := BitVec.ofNat 64 (0xc000100000 + 64 * (r + 1))
def replOf (a : Addr) : String :=
  let n := a.toNat - 0xc000100000
  s!"r{n / 64 - 1}"

def showFn (s : PState) (f : Nat) : String :=
  let t := if s.text f = env.pristine f then "pristine"
    else match X86.exec (s.text f) { rip := env.entry f, rdx := 0#64, mem64 := fun a => ~~~a } with
      | some m => if s.text f = jmp env f m.rdx then s!"jmp:{replOf m.rdx}" else "other"
      | none => "other"
  let r := match s.patches f with
    | none => "none"
    | some p => s!"{replOf p.repl}:" ++ (match p.guard with | some g => s!"g{g}" | none => "-")
  s!"{t}/{r}"

def showAll (s : PState) : String := String.intercalate "," ((List.range env.nf).map (showFn s))

def showBeh : Beh → String
  | .orig => "orig"
  | .enter o a => (match o.ctx with | .cb k => if replAddr k = a then s!"cb{k}" else "wild" | .stub _ _ => "stub")
  | .wild => "wild"

/-- guards are numbered by creation order in both the model and the probe -/
def patchStep (s : PState) (st : List String) : Option (PState × String) :=
  match st with
  | ["rep", f, r] => do
    let f ← f.toNat?; let r ← r.toNat?
    let (s', out) := replace env s f ⟨0, replAddr r, 19⟩ ⟨cbCode, .cb r⟩
    pure (s', s!"{outcomeStr out} {showAll s'}")
  | ["app", g] => do let g ← g.toNat?; let s' := step env s (.apply g); pure (s', showAll s')
  | ["unp", g] => do let g ← g.toNat?; let s' := step env s (.unpatch g); pure (s', showAll s')
  | ["res", g] => do let g ← g.toNat?; let s' := step env s (.restore g); pure (s', showAll s')
  | ["unf", f] => do let f ← f.toNat?; let s' := step env s (.unpatchFn f); pure (s', showAll s')
  | ["all"] => let s' := step env s .unpatchAll; pure (s', showAll s')
  | ["gc"] => let s' := step env s (.gc (fun _ => false)); pure (s', showAll s')
  | ["call", f] => do let f ← f.toNat?; pure (s, showBeh (call env s f))
  | _ => none

def runPatch (steps : List (List String)) : Option String := do
  let mut s := init env
  let mut outs : List String := []
  for st in steps do
    let (s', o) ← patchStep s st
    s := s'
    outs := o :: outs
  pure (String.intercalate " | " outs.reverse)

def handle (toks : List String) : Option String :=
  match toks with
  | "c01.hist" :: _sig :: rest =>
    match runHist (splitSteps rest) with
    | some o => some o
    | none => some "bad-op"
  | "c01.patch" :: rest =>
    match runPatch (splitSteps rest) with
    | some o => some o
    | none => some "bad-op"
  | "c01.getptr" :: _ => some "data-word=funcval first-word=code"
  | ["c01.fm", _form, a, b, r] =>
    -- Apply through a method value, call, Reset, call: the model has no signature notion — it says which code runs
    let s1 := astep env (ainit env) (.applyCb 0 target false ⟨0, cbAddr 0, 19⟩ 0 cbCode)
    let o1 := match see env s1 target [a, b] with | .cb _ => s!"cb a={a},{b} r={r}" | .orig => "orig" | _ => "other"
    let o2 := match see env (astep env s1 (.reset 0)) target [a, b] with | .orig => "orig" | _ => "other"
    some s!"{o1} | {o2}"
  | _ => none

end Drv.C01
