import GoomVerif.Drv.Util
import GoomVerif.Model.Var
/-! Driver for C08.

* `c08.hist <var>=<val> … ; <op> ; <op> …` — one whole history per line, run on `Var.step false` (the code with fix F8);
  `c08.legacy.hist …` runs the same history on `Var.step true` (the code as published).  Answer: one observation per
  op, joined by ` ; `: `<outcome>|<var>=<val>,…|<canceled flag of every handle>|<pkgName of builders 0 and 1: 0 = caller's package, p = Pkg(p)>`.
* `c08.asg <value type> <variable type>` — `Var.assignable` on the type table (tie for the table itself).

Variables are named `<type>`, `<type>2` or `x<type>` (a variable of another package); values are `nil` or `<type>:<rep>`. -/
namespace Drv.C08
open Var

/-- the type universe of the probe (harness/c08): name, Ty.  Method ids: 1 = Error, 2 = String. -/
def tyTable : List (String × Ty) := [
  ("int",    ⟨1, .int, true, 1, []⟩),
  ("int8",   ⟨2, .int, true, 2, []⟩),
  ("uint16", ⟨3, .uint, true, 3, []⟩),
  ("int64",  ⟨4, .int, true, 4, []⟩),
  ("uint64", ⟨5, .uint, true, 5, []⟩),
  ("f64",    ⟨6, .float, true, 6, []⟩),
  ("bool",   ⟨7, .bool, true, 7, []⟩),
  ("string", ⟨8, .str, true, 8, []⟩),
  ("c128",   ⟨9, .complex, true, 9, []⟩),
  ("arr",    ⟨10, .arr, false, 10, []⟩),
  ("slice",  ⟨11, .slice, false, 11, []⟩),
  ("map",    ⟨12, .map, false, 12, []⟩),
  ("struct", ⟨13, .strct, true, 13, []⟩),
  ("ptr",    ⟨14, .ptr, false, 14, []⟩),
  ("func",   ⟨15, .func, false, 15, []⟩),
  ("chan",   ⟨16, .chan, false, 16, []⟩),
  ("uptr",   ⟨17, .uptr, true, 17, []⟩),
  ("myint",  ⟨18, .int, true, 1, []⟩),
  ("islice", ⟨19, .slice, true, 11, []⟩),
  ("uintptr",⟨20, .uint, true, 20, []⟩),
  ("err",    ⟨21, .iface, true, 21, [1]⟩),
  ("any",    ⟨22, .iface, false, 22, []⟩),
  ("str",    ⟨23, .iface, true, 23, [2]⟩),
  ("big",    ⟨26, .strct, true, 26, []⟩),
  ("perr",   ⟨24, .ptr, false, 24, [1]⟩),
  ("verr",   ⟨25, .strct, true, 25, [1, 2]⟩)]

def tyOf (name : String) : Option Ty := (tyTable.find? (fun p => p.1 == name)).map (·.2)

def tyName (t : Ty) : String :=
  match tyTable.find? (fun p => p.2.id == t.id) with
  | some p => p.1
  | none => "?"

/-- `int2` → type `int`: a trailing `2` marks the second variable of a type -/
def varTy (v : String) : Option Ty :=
  match tyOf v with
  | some t => some t
  | none =>
    if v.endsWith "2" then tyOf (String.ofList v.toList.dropLast)
    else if v.startsWith "x" then tyOf (String.ofList (v.toList.drop 1))     -- `xint`: the variable of the other package
    else none

def parseVal (s : String) : Option Boxed :=
  if s == "nil" then some none else
  match s.splitOn ":" with
  | [t, r] =>
    match tyOf t, r.toNat? with
    | some ty, some n => if ty.isIface then none else some (some ⟨ty, n⟩)
    | _, _ => none
  | _ => none

def showVal : Boxed → String
  | none => "nil"
  | some v => s!"{tyName v.ty}:{v.rep}"

def showPanic : Panic → String
  | .setZeroValue => "setZeroValue" | .notAssignable => "notAssignable" | .elemZeroValue => "elemZeroValue"
  | .nilType => "nilType" | .notFunc => "notFunc" | .nilFunc => "nilFunc" | .fewArgs => "fewArgs"
  | .retCount => "retCount" | .cbPanic => "cbPanic" | .notPtr => "notPtr" | .pointerOnNonPtr => "pointerOnNonPtr"
  | .notFound => "notFound"

def showOutcome : Outcome → String
  | .ok => "ok"
  | .panic p => "panic:" ++ showPanic p
  | .undefined => "undefined"

def parseCb (s : String) : Option Cb :=
  match s with
  | "notfunc" => some .notFunc | "nilfunc" => some .nilFunc | "args" => some .takesArgs
  | "rets0" => some .zeroRets | "rets2" => some .twoRets | "panics" => some .panics
  | _ =>
    if s.startsWith "vret:" then (parseVal (String.ofList (s.toList.drop 5))).map Cb.ret
    else if s.startsWith "ret:" then (parseVal (String.ofList (s.toList.drop 4))).map Cb.ret
    else if s.startsWith "reti:" then (parseVal (String.ofList (s.toList.drop 5))).map Cb.ret
    else none

def parseBad (s : String) : Option Panic :=
  match s with
  | "missing" => some .notFound | "stripped" => some .notFound
  | "nonptr-int" => some .pointerOnNonPtr | "nil" => some .pointerOnNonPtr
  | "nonptr-map" => some .notPtr
  | _ => none

/-- driver-level bookkeeping around the model state: variable names, handles, per-builder key order -/
structure D where
  s : State
  vars : List String
  handles : List Nat
  keys : List (Nat × Bool × Nat)

def varIdx (d : D) (v : String) : Option Nat :=
  let i := d.vars.findIdx (· == v)
  if i < d.vars.length then some i else none

def observe (d : D) (o : Outcome) : String :=
  let vals := (List.range d.vars.length).map (fun i => s!"{d.vars.getD i "?"}={showVal (d.s.mem i).cur}")
  let flags := String.join (d.handles.map (fun i => if (d.s.mks i).canceled then "1" else "0"))
  s!"{showOutcome o}|{String.intercalate "," vals}|{flags}|{d.s.pkg 0}{d.s.pkg 1}"

/-- one op: `none` = unparsable -/
def opStep (lg : Bool) (d : D) (toks : List String) : Option (D × Outcome) :=
  match toks with
  | ["look", b, mode, v] =>
    match b.toNat?, varIdx d v with
    | some b, some c =>
      if mode != "p" && mode != "u" then none else
      let ue := mode == "u"
      let (s', o) := step lg d.s (.look b ue c)
      let keys := if d.keys.contains (b, ue, c) then d.keys else d.keys ++ [(b, ue, c)]
      some ({ d with s := s', handles := d.handles ++ [s'.ret], keys := keys }, o)
    | _, _ => none
  | ["pkg", b, p] =>
    match b.toNat?, p.toNat? with
    | some b, some p => let (s', o) := step lg d.s (.pkg b p); some ({ d with s := s' }, o)
    | _, _ => none
  | ["misc", b, _] =>                    -- Struct/Func/Interface/ExportFunc lookup: another cache key; ends with reset2CurPkg
    match b.toNat? with
    | some b => let (s', o) := step lg d.s (.pkg b 0); some ({ d with s := s' }, o)
    | none => none
  | ["gc"] => some (d, .ok)              -- garbage collection: not a model notion (saved origins are values, always reachable)
  | ["lookbad", k] | ["lookbad", k, _] =>
    (parseBad k).map (fun p => let (s', o) := step lg d.s (.lookBad p); ({ d with s := s' }, o))
  | ["set", h, v] =>
    match h.toNat?.bind (d.handles[·]?), parseVal v with
    | some i, some x => let (s', o) := step lg d.s (.set i x); some ({ d with s := s' }, o)
    | _, _ => none
  | ["apply", h, cb] =>
    match h.toNat?.bind (d.handles[·]?), parseCb cb with
    | some i, some c => let (s', o) := step lg d.s (.apply i c); some ({ d with s := s' }, o)
    | _, _ => none
  | ["cancel", h] =>
    match h.toNat?.bind (d.handles[·]?) with
    | some i => let (s', o) := step lg d.s (.cancel i); some ({ d with s := s' }, o)
    | none => none
  | ["reset", b] =>
    match b.toNat? with
    | some b =>
      let ord := (d.keys.filter (fun k => k.1 == b)).map (fun k => k.2)
      let (s', o) := step lg d.s (.reset b ord); some ({ d with s := s' }, o)
    | none => none
  | ["write", v, x] =>
    match varIdx d v, parseVal x with
    | some c, some x => let (s', o) := step lg d.s (.write c x); some ({ d with s := s' }, o)
    | _, _ => none
  | _ => none

def splitOps (toks : List String) : List (List String) :=
  let (acc, cur) := toks.foldl (fun (p : List (List String) × List String) t =>
    if t == ";" then (p.1 ++ [p.2], []) else (p.1, p.2 ++ [t])) ([], [])
  acc ++ [cur]

def parseHeader (toks : List String) : Option (List (String × Ty × Boxed)) :=
  toks.mapM (fun t =>
    match t.splitOn "=" with
    | [v, x] =>
      match varTy v, parseVal x with
      | some ty, some b => some (v, ty, b)
      | _, _ => none
    | _ => none)

def runHist (lg : Bool) (toks : List String) : String :=
  match splitOps toks with
  | [] => "bad-op"
  | hdr :: ops =>
    match parseHeader hdr with
    | none => "bad-op"
    | some vs =>
      let dflt : Cell := { ty := ⟨0, .int, true, 0, []⟩, cur := none }
      let mem : Nat → Cell := fun i => match vs[i]? with
        | some (_, ty, b) => { ty := ty, cur := b }
        | none => dflt
      let d0 : D := { s := init mem, vars := vs.map (·.1), handles := [], keys := [] }
      let rec go (d : D) (ops : List (List String)) (acc : List String) (fuel : Nat) : Option (List String) :=
        match fuel, ops with
        | 0, _ => some acc
        | _, [] => some acc
        | fuel + 1, op :: rest =>
          match opStep lg d op with
          | none => none
          | some (d', .undefined) => some (acc ++ [observe d' .undefined])
          | some (d', o) => go d' rest (acc ++ [observe d' o]) fuel
      match go d0 ops [] (ops.length + 1) with
      | none => "bad-op"
      | some obs => String.intercalate " ; " obs

def handle (toks : List String) : Option String :=
  match toks with
  | "c08.hist" :: rest => some (runHist false rest)
  | "c08.legacy.hist" :: rest => some (runHist true rest)
  | ["c08.asg", v, t] =>
    match tyOf v, tyOf t with
    | some a, some b => some s!"asg={assignable a b}"
    | _, _ => some "bad-op"
  | "c08.asg" :: _ => some "bad-op"
  | _ => none

end Drv.C08
