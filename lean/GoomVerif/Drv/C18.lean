import GoomVerif.Drv.Util
import GoomVerif.Model.Equal
import GoomVerif.Model.ShareC18
/-! Driver for C18.

`c18.ev <nT> <T>* <expr> <k> <input-tuple>*`  →  `R=<resolve> E=<answer>,<answer>,…`
* `T`     = `name:kind:size:impl1,impl2|-|*`
* `expr`  = `any` | `eq <arg>` | `in <n> <item>*`;   `item` = `c <comp>` | `t <m> <comp>*`;   `comp` = `v <arg>` | `e <expr>`
* `arg`   = `nil` | `<size> <term>`
* input tuple = `nT` × (`nil` | `<term>`): the argument as `reflect.MakeFunc` hands it over, i.e. of the parameter type
  (boxed into the interface type when the parameter is one).
* `term`  = `b ty 0|1` | `i ty s|u z` | `f ty 32|64 0xbits txthex` | `s ty hex|- pi|- 0xpf|-` | `st ty n term*` | `ar ty n term*`
          | `sl ty nil` | `sl ty id n term*` | `mp ty nil` | `mp ty id n (k v)*` | `p ty nil` | `p ty addr term`
          | `if ty nil` | `if ty term` | `fn ty nil` | `fn ty code env`
          | `ss ty bid lo hi n term*`  = `backing[lo:hi]` of the backing array `bid` whose n elements follow (sub-slices sharing storage;
            the model keeps the elements lo..hi and the data-pointer label (bid, lo), everything else about sharing is erased)
`c18.evv <nT> <T>* <ElemT> in … <k> (<fixed inputs> <m> <m elements>)*` — `In` with tuple items in variadic mode, the last `T` is the
variadic slice type, `ElemT` its element type; the probe packs the m elements into one slice as a real call does.
Strings are hex of their bytes (one `Char` per byte). -/
namespace Drv.C18
open C18M

abbrev P (α : Type) := List String → Option (α × List String)

def bytesToString (bs : List (BitVec 8)) : String := String.ofList (bs.map (fun b => Char.ofNat b.toNat))

def pStr (t : String) : Option String := (parseBytes t).map bytesToString

def parseKind : String → Option Kind
  | "bool" => some .bool | "int" => some .int | "uint" => some .uint | "f32" => some .f32 | "f64" => some .f64
  | "str" => some .str | "strct" => some .strct | "arr" => some .arr | "slice" => some .slice | "map" => some .map
  | "ptr" => some .ptr | "iface" => some .iface | "func" => some .func | _ => none

def parseTy (s : String) : Option Ty :=
  match s.splitOn ":" with
  | [n, k, sz, im] => do
    let k ← parseKind k
    let sz ← parseNat sz
    pure { name := n, kind := k, size := sz, impls := if im = "-" then [] else im.splitOn "," }
  | _ => none

def keyLt : Val → Val → Bool
  | .bool _ a, .bool _ b => !a && b
  | .int _ _ a, .int _ _ b => a < b
  | .str _ a _ _, .str _ b _ _ => a < b
  | _, _ => false

def sortedKeys : List Val → Bool
  | a :: b :: r => keyLt a b && sortedKeys (b :: r)
  | _ => true

mutual
def pTerm (fuel : Nat) : P Val := fun toks =>
  match fuel with
  | 0 => none
  | fuel + 1 =>
    match toks with
    | "b" :: ty :: "0" :: r => some (.bool ty false, r)
    | "b" :: ty :: "1" :: r => some (.bool ty true, r)
    | "i" :: ty :: "s" :: z :: r => (parseInt z).map (fun z => (.int ty true z, r))
    | "i" :: ty :: "u" :: z :: r => (parseInt z).bind (fun z => if z < 0 then none else some (.int ty false z, r))
    | "f" :: ty :: w :: bits :: txt :: r => do
      let w64 ← (if w = "64" then some true else if w = "32" then some false else none)
      let b ← parseNat bits
      let t ← pStr txt
      pure (.flt ty w64 b t, r)
    | "s" :: ty :: hex :: pi :: pf :: r => do
      let s ← pStr hex
      let pi ← (if pi = "-" then some none else (parseInt pi).map some)
      let pf ← (if pf = "-" then some none else (parseNat pf).map some)
      pure (.str ty s pi pf, r)
    | "st" :: ty :: n :: r => do
      let n ← parseNat n
      let (vs, r) ← pTerms fuel n r
      pure (.strct ty (Vals.ofList vs), r)
    | "ar" :: ty :: n :: r => do
      let n ← parseNat n
      let (vs, r) ← pTerms fuel n r
      pure (.arr ty (Vals.ofList vs), r)
    | "sl" :: ty :: "nil" :: r => some (.nilslice ty, r)
    | "sl" :: ty :: id :: n :: r => do
      let id ← parseNat id
      let n ← parseNat n
      let (vs, r) ← pTerms fuel n r
      pure (.slice ty (2 * id) (Vals.ofList vs), r)
    | "ss" :: ty :: bid :: lo :: hi :: n :: r => do      -- backing[lo:hi] of the backing array `bid` with the n given elements
      let bid ← parseNat bid
      let lo ← parseNat lo
      let hi ← parseNat hi
      let n ← parseNat n
      let (vs, r) ← pTerms fuel n r
      if bid = 0 || lo > hi || hi > n then none
      else pure (.slice ty (2 * (bid * 65536 + lo) + 1) (Vals.ofList ((vs.drop lo).take (hi - lo))), r)
    | "mp" :: ty :: "nil" :: r => some (.nilmap ty, r)
    | "mp" :: ty :: id :: n :: r => do
      let id ← parseNat id
      let n ← parseNat n
      let (kvs, r) ← pTerms fuel (2 * n) r
      let rec split : List Val → List Val × List Val
        | k :: v :: rest => let (ks, vs) := split rest; (k :: ks, v :: vs)
        | _ => ([], [])
      let (ks, vs) := split kvs
      -- maps are canonical lists with bool/integer/string keys only: pointer, interface and struct keys (looked up by identity /
      -- by ==, not by pointee) are outside the model and rejected here
      if sortedKeys ks && ks.all (fun k => match k with | .bool .. | .int .. | .str .. => true | _ => false) then pure (.map ty id (Vals.ofList ks) (Vals.ofList vs), r) else none
    | "p" :: ty :: "nil" :: r => some (.nilptr ty, r)
    | "p" :: ty :: addr :: r => do
      let a ← parseNat addr
      let (v, r) ← pTerm fuel r
      pure (.ptr ty a v, r)
    | "if" :: ty :: "nil" :: r => some (.nilif ty, r)
    | "if" :: ty :: r => do
      let (v, r) ← pTerm fuel r
      match v with
      | .iface .. | .nilif .. => none
      | _ => pure (.iface ty v, r)
    | "fn" :: ty :: "nil" :: r => some (.nilfunc ty, r)
    | "fn" :: ty :: c :: e :: r => do
      let c ← parseNat c
      let e ← parseNat e
      if c = 0 then none else pure (.func ty c e, r)
    | _ => none
def pTerms (fuel : Nat) : Nat → P (List Val)
  | 0, toks => some ([], toks)
  | n + 1, toks =>
    match fuel with
    | 0 => none
    | fuel + 1 => do
      let (v, r) ← pTerm fuel toks
      let (vs, r) ← pTerms fuel n r
      pure (v :: vs, r)
end

def pArg (fuel : Nat) : P Arg := fun toks =>
  match toks with
  | "nil" :: r => some (none, r)
  | sz :: r => do
    let sz ← parseNat sz
    let (v, r) ← pTerm fuel r
    match v with
    | .iface .. | .nilif .. => none       -- an `interface{}` never holds an interface
    | _ => pure (some (v, sz), r)
  | _ => none

mutual
def pExpr (fuel : Nat) : P Expr := fun toks =>
  match fuel with
  | 0 => none
  | fuel + 1 =>
    match toks with
    | "any" :: r => some (.any, r)
    | "eq" :: r => (pArg (fuel + 1) r).map (fun (a, r) => (.equals a, r))
    | "in" :: n :: r => do
      let n ← parseNat n
      let (items, r) ← pItems fuel n r
      pure (.inE items, r)
    | _ => none
def pItems (fuel : Nat) : Nat → P Items
  | 0, toks => some (.nil, toks)
  | n + 1, toks =>
    match fuel with
    | 0 => none
    | fuel + 1 =>
      match toks with
      | "c" :: r => do
        let (c, r) ← pComp fuel r
        let (rest, r) ← pItems fuel n r
        pure (.one c rest, r)
      | "t" :: m :: r => do
        let m ← parseNat m
        let (cs, r) ← pComps fuel m r
        let (rest, r) ← pItems fuel n r
        pure (.tuple cs rest, r)
      | _ => none
def pComp (fuel : Nat) : P Comp := fun toks =>
  match fuel with
  | 0 => none
  | fuel + 1 =>
    match toks with
    | "v" :: r => (pArg (fuel + 1) r).map (fun (a, r) => (.val a, r))
    | "e" :: r => (pExpr fuel r).map (fun (e, r) => (.sub e, r))
    | _ => none
def pComps (fuel : Nat) : Nat → P Comps
  | 0, toks => some (.nil, toks)
  | n + 1, toks =>
    match fuel with
    | 0 => none
    | fuel + 1 => do
      let (c, r) ← pComp fuel toks
      let (cs, r) ← pComps fuel n r
      pure (.cons c cs, r)
end

def pTys : Nat → P (List Ty)
  | 0, toks => some ([], toks)
  | n + 1, t :: r => do
    let ty ← parseTy t
    let (tys, r) ← pTys n r
    pure (ty :: tys, r)
  | _, _ => none

/-- The argument as the mocked function receives it: a value of the parameter type. -/
def pInput (fuel : Nat) (t : Ty) : P (Option Val) := fun toks =>
  match toks with
  | "nil" :: r => (nilableZero t).map (fun v => (some v, r))
  | _ => do
    let (v, r) ← pTerm fuel toks
    if t.kind == .iface then
      match v with
      | .iface .. | .nilif .. => none
      | _ => if assignable t v.ty then pure (some (.iface t.name v), r) else none
    else if v.ty == t.name then pure (some v, r) else none

def pTuple (fuel : Nat) : List Ty → P (List (Option Val))
  | [], toks => some ([], toks)
  | t :: ts, toks => do
    let (v, r) ← pInput fuel t toks
    let (vs, r) ← pTuple fuel ts r
    pure (v :: vs, r)

def pTuples (fuel : Nat) (tys : List Ty) : Nat → P (List (List (Option Val)))
  | 0, toks => some ([], toks)
  | n + 1, toks => do
    let (t, r) ← pTuple fuel tys toks
    let (ts, r) ← pTuples fuel tys n r
    pure (t :: ts, r)

def showRes {α} (f : α → String) : Res α → String
  | .ok a => f a
  | .err c => "err:" ++ c
  | .panic c => "panic:" ++ c
  | .unmodelled => "unmodelled"

def showObs : Obs → String
  | .resolved r => showRes (fun _ => "ok") r
  | .answered r => showRes (fun b => if b then "t" else "f") r

def pElems (fuel : Nat) (t : Ty) : Nat → P (List (Option Val))
  | 0, toks => some ([], toks)
  | n + 1, toks => do
    let (v, r) ← pInput fuel t toks
    let (vs, r) ← pElems fuel t n r
    pure (v :: vs, r)

/-- variadic input tuples: the fixed arguments, then `<m>` and the m elements of the packed last argument -/
def pTuplesV (fuel : Nat) (fixed : List Ty) (elemT : Ty) : Nat → P (List (List (Option Val) × List (Option Val)))
  | 0, toks => some ([], toks)
  | n + 1, toks => do
    let (f, r) ← pTuple fuel fixed toks
    let (m, r) ← (match r with | m :: r => (parseNat m).map (fun m => (m, r)) | [] => none)
    let (es, r) ← pElems fuel elemT m r
    let (ts, r) ← pTuplesV fuel fixed elemT n r
    pure ((f, es) :: ts, r)

def handleV (toks : List String) : Option String :=
  match toks with
  | "c18.evv" :: n :: rest =>
    let fuel := toks.length + 1
    let go : Option String := do
      let n ← parseNat n
      let (tys, r) ← pTys n rest
      let (elemT, r) ← (match r with | t :: r => (parseTy t).map (fun t => (t, r)) | [] => none)
      if tys.isEmpty then none else
      let fixed := tys.dropLast
      let (e, r) ← pExpr fuel r
      let (k, r) ← (match r with | k :: r => (parseNat k).map (fun k => (k, r)) | [] => none)
      let (inputs, r) ← pTuplesV fuel fixed elemT k r
      if !r.isEmpty then none else
      match e with
      | .inE items =>
        match resolveInV items fixed elemT with
        | .ok rx =>
          let ans := inputs.map (fun (f, es) => showRes (fun b => if b then "t" else "f") (evalInV rx f es))
          pure s!"R=ok E={String.intercalate "," ans}"
        | other => pure s!"R={showRes (fun _ => "ok") other}"
      | _ => none
    some (go.getD "bad-op")
  | _ => none

/-! `c18.sh <nObj> <objdef>* <nSteps> <step>*` — shared expression objects.
    `objdef` = `any` | `anyvalues` | `eq <arg>` | `in <n> (c <comp> | t <m> <comp>*)*`, `comp` = `v <arg>` | `r <id>` (an earlier object);
    `step` = `R <id> <n> <T>*` | `E <id> <n> <T>* <input>*`.  Answer `S=` one observation per step. -/

def pSComp (fuel : Nat) : P SComp := fun toks =>
  match toks with
  | "v" :: r => (pArg fuel r).map (fun (a, r) => (.val a, r))
  | "r" :: id :: r => (parseNat id).map (fun id => (.ref id, r))
  | _ => none

def pSComps (fuel : Nat) : Nat → P (List SComp)
  | 0, toks => some ([], toks)
  | n + 1, toks => do
    let (c, r) ← pSComp fuel toks
    let (cs, r) ← pSComps fuel n r
    pure (c :: cs, r)

def pSItems (fuel : Nat) : Nat → P (List SItem)
  | 0, toks => some ([], toks)
  | n + 1, toks =>
    match toks with
    | "c" :: r => do
      let (c, r) ← pSComp fuel r
      let (rest, r) ← pSItems fuel n r
      pure (.one c :: rest, r)
    | "t" :: m :: r => do
      let m ← parseNat m
      let (cs, r) ← pSComps fuel m r
      let (rest, r) ← pSItems fuel n r
      pure (.tuple cs :: rest, r)
    | _ => none

def pSExpr (fuel : Nat) : P SExpr := fun toks =>
  match toks with
  | "any" :: r => some (.any, r)
  | "anyvalues" :: r => some (.any, r)
  | "eq" :: r => (pArg fuel r).map (fun (a, r) => (.equals a, r))
  | "in" :: n :: r => do
    let n ← parseNat n
    let (items, r) ← pSItems fuel n r
    pure (.inE items, r)
  | _ => none

def pSObjs (fuel : Nat) : Nat → P (List SObj)
  | 0, toks => some ([], toks)
  | n + 1, toks => do
    let (e, r) ← pSExpr fuel toks
    let (os, r) ← pSObjs fuel n r
    pure ({ src := e, st := initState e } :: os, r)

def pSSteps (fuel : Nat) : Nat → P (List SStep)
  | 0, toks => some ([], toks)
  | n + 1, toks =>
    match toks with
    | "R" :: id :: k :: r => do
      let id ← parseNat id
      let k ← parseNat k
      let (tys, r) ← pTys k r
      let (ss, r) ← pSSteps fuel n r
      pure (.resolve id tys :: ss, r)
    | "E" :: id :: k :: r => do
      let id ← parseNat id
      let k ← parseNat k
      let (tys, r) ← pTys k r
      let (inp, r) ← pTuple fuel tys r
      let (ss, r) ← pSSteps fuel n r
      pure (.eval id inp :: ss, r)
    | _ => none

def showSObs : SObs → String
  | .resolved r => showRes (fun _ => "ok") r
  | .answered r => showRes (fun b => if b then "t" else "f") r

def handleS (toks : List String) : Option String :=
  match toks with
  | "c18.sh" :: n :: rest =>
    let fuel := toks.length + 1
    let go : Option String := do
      let n ← parseNat n
      let (objs, r) ← pSObjs fuel n rest
      let (k, r) ← (match r with | k :: r => (parseNat k).map (fun k => (k, r)) | [] => none)
      let (steps, r) ← pSSteps fuel k r
      if !r.isEmpty then none else
      pure s!"S={String.intercalate "," ((runS (n + 2) objs steps).map showSObs)}"
    some (go.getD "bad-op")
  | _ => none

def handleEv (toks : List String) : Option String :=
  match handleS toks with
  | some s => some s
  | none =>
  match handleV toks with
  | some s => some s
  | none =>
  match toks with
  | "c18.ev" :: n :: rest =>
    let fuel := toks.length + 1
    let go : Option String := do
      let n ← parseNat n
      let (tys, r) ← pTys n rest
      let (e, r) ← pExpr fuel r
      let (k, r) ← (match r with | k :: r => (parseNat k).map (fun k => (k, r)) | [] => none)
      let (inputs, r) ← pTuples fuel tys k r
      if !r.isEmpty then none else
      let o : Obj := { src := e, res := none }
      let (o1, ob) := step o (.resolve tys)
      match ob with
      | .resolved (.ok _) =>
        let obs := run o1 (inputs.map Call.eval)
        pure s!"R=ok E={String.intercalate "," (obs.map showObs)}"
      | ob => pure s!"R={showObs ob}"
    some (go.getD "bad-op")
  | _ => none

/-- `c18.mu …` (the probe mutates ONE argument object in place between the Evals) is, to the model, `c18.ev` on independent inputs. -/
def handle (toks : List String) : Option String :=
  match toks with
  | "c18.mu" :: rest => handleEv ("c18.ev" :: rest)
  | _ => handleEv toks

end Drv.C18
