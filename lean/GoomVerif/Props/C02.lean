import GoomVerif.Lemmas.C02L
/-! # C02 — Reset/Cancel restore behaviour and the exact bytes; only entry jumps differ

All statements are about `Patch.step`/`Patch.run` (Model/Patch.lean), for every measured environment `env` whose functions
span at least 16 bytes (`EnvOk`: entry alignment), every number of builders/targets/callbacks/placeholders and every
finite list of public-API operations. -/
namespace C02
open Patch C02L

/-- the entry jump written by `Guard.Apply` is 13 bytes for every destination (emitter regenerated from the Go source) -/
theorem jump_length (to : BitVec 64) : (jumpTo to).length = 13 := C02L.jump_length to

/-- **Invariant, step.** Every public-API call preserves the invariant. -/
theorem inv_step {env : Env} (he : EnvOk env) {s : St} (hi : Inv env s) (op : Op) : Inv env (step env s op).1 := by
  cases op with
  | apply b key k origin =>
    have g := getMocker_spec hi b key
    exact (applyCb_spec he (setOrigin_spec g.1 _ origin).1 _ _).1
  | ret b key origin =>
    have g := getMocker_spec hi b key
    have so := setOrigin_spec g.1 (getMocker s b key).2 origin
    simp only [step]
    split
    · exact so.1
    · exact (applyImp_spec he (whens_spec so.1 _).1 _ _).1
  | cancel b key =>
    have g := getMocker_spec hi b key
    exact (cancelMocker_spec he g.1 _).1
  | reset b => exact (cancelKeys_spec he b _ hi).1
  | keep b key =>
    have g := (getMocker_spec hi b key).1
    exact ⟨g.saved, g.txt, g.reg, g.mg, g.ck⟩
  | applyH b key k =>
    simp only [step]
    cases s.handle b key with
    | none => exact hi
    | some id => exact (applyCb_spec he hi id k).1
  | retH b key =>
    simp only [step]
    cases s.handle b key with
    | none => exact hi
    | some id =>
      simp only []
      split
      · exact hi
      · exact (applyImp_spec he (whens_spec hi id).1 _ _).1
  | cancelH b key =>
    simp only [step]
    cases s.handle b key with
    | none => exact hi
    | some id => exact (cancelMocker_spec he hi id).1

/-- **Invariant, all histories.** It holds after every finite history from the pristine state. -/
theorem reachable_inv {env : Env} (he : EnvOk env) (ops : List Op) : ∀ {s : St}, Inv env s → Inv env (run env s ops) := by
  induction ops with
  | nil => intro s hi; exact hi
  | cons op ops ih => intro s hi; exact ih (inv_step he hi op)

theorem reachable_inv_init {env : Env} (he : EnvOk env) (ops : List Op) : Inv env (run env (init env) ops) :=
  reachable_inv he ops (inv_init env)

/-- **Saved bytes are pristine.** After any history, every guard's `originBytes` are the pristine first 13 bytes of its target
    (never a snapshot of an already patched entry). -/
theorem saved_bytes_pristine {env : Env} (he : EnvOk env) (ops : List Op) (g : Nat)
    (hg : g < (run env (init env) ops).nGuards) :
    ((run env (init env) ops).guards g).originBytes = (env.pristine ((run env (init env) ops).guards g).origin).take 13 :=
  ((reachable_inv_init he ops).saved g hg).1

/-- **Only entry jumps differ.** After any history the bytes of every function are pristine, or pristine with exactly the
    first 13 bytes replaced by the jump of a guard that is registered for this function and applied; in both cases
    nothing past byte 13 differs and the extent is unchanged. -/
theorem only_entry_jumps {env : Env} (he : EnvOk env) (ops : List Op) (f : Nat) :
    let s := run env (init env) ops
    (s.text f = env.pristine f ∨
      ∃ p g, s.patches f = some p ∧ p.guard = some g ∧ (s.guards g).applied = true ∧ (s.guards g).jumpBytes.length = 13 ∧
        s.text f = overwrite (env.pristine f) (s.guards g).jumpBytes) ∧
    (s.text f).drop 13 = (env.pristine f).drop 13 ∧ (s.text f).length = (env.pristine f).length := by
  intro s
  have hi : Inv env s := reachable_inv_init he ops
  rcases hi.txt f with h | ⟨p, g, h1, h2, h3, h4⟩
  · exact ⟨Or.inl h, by rw [h], by rw [h]⟩
  · have hl := ((hi.saved g (hi.reg f p g h1 h2).1)).2
    refine ⟨Or.inr ⟨p, g, h1, h2, h3, hl, h4⟩, ?_, ?_⟩
    · rw [h4, ← hl]; exact overwrite_drop _ _
    · rw [h4]; exact overwrite_length _ _ (by have := he f; omega)

/-- **Reset restores.** In any reachable state, `Reset` of builder `b` — cancelling its cached mockers in ANY order `ks` that
    covers the cache — leaves every function that one of the builder's mockers had patched byte-for-byte pristine, hence with
    the original behaviour class. -/
theorem reset_restores {env : Env} (he : EnvOk env) (ops : List Op) (b : Nat) (ks : List Nat) (nCb : Nat)
    (key id g : Nat) (hk : key ∈ ks)
    (hc : (run env (init env) ops).cache b key = some id)
    (hg : ((run env (init env) ops).mockers id).guard = some g)
    (ha : ((run env (init env) ops).guards g).applied = true) :
    let s' := cancelKeys (run env (init env) ops) b ks
    s'.text (key % 1000) = env.pristine (key % 1000) ∧ behaviour env s' nCb (key % 1000) = .orig := by
  intro s'
  have hi := reachable_inv_init he ops
  have h := (cancelKeys_spec he b ks hi).2.2.2.2.2.2.2.1 key hk id g hc hg ha
  refine ⟨h, ?_⟩
  show behaviour env (cancelKeys (run env (init env) ops) b ks) nCb (key % 1000) = .orig
  unfold behaviour
  rw [h]; simp

/-- the list `Reset` actually ranges over covers the builder's cache -/
theorem reset_covers_cache {env : Env} (he : EnvOk env) (ops : List Op) (b key id : Nat)
    (hc : (run env (init env) ops).cache b key = some id) : key ∈ (run env (init env) ops).keys b :=
  ((reachable_inv_init he ops).ck b key id hc).2.1

/-- **Second Reset is idempotent** on the image: it changes no byte. -/
theorem reset_idempotent {env : Env} (he : EnvOk env) (ops : List Op) (b : Nat) (f : Nat) :
    let s1 := (step env (run env (init env) ops) (.reset b)).1
    (step env s1 (.reset b)).1.text f = s1.text f := by
  intro s1
  have hi := reachable_inv_init he ops
  obtain ⟨i1, _, c1, k1, g1, m1, _, r1, _⟩ := cancelKeys_spec he b ((run env (init env) ops).keys b) hi
  -- second reset: every write is a pristine write over pristine bytes
  have h2 := cancelKeys_spec he b (s1.keys b) i1
  show (cancelKeys s1 b (s1.keys b)).text f = s1.text f
  -- generalise: cancelling keys whose guards' targets are already pristine changes nothing
  have gen : ∀ (ks : List Nat) {s : St}, Inv env s →
      (∀ k, k ∈ ks → ∀ id g, s.cache b k = some id → (s.mockers id).guard = some g → (s.guards g).applied = true →
        s.text (k % 1000) = env.pristine (k % 1000)) → ∀ x, (cancelKeys s b ks).text x = s.text x := by
    intro ks
    induction ks with
    | nil => intro s _ _ x; rfl
    | cons k ks ih =>
      intro s hs hp x
      cases hc : s.cache b k with
      | none =>
        have : cancelKeys s b (k :: ks) = cancelKeys s b ks := by simp [cancelKeys, hc]
        rw [this]; exact ih hs (fun k' hk' => hp k' (List.mem_cons_of_mem _ hk')) x
      | some id =>
        have hdef : cancelKeys s b (k :: ks) = cancelKeys (cancelMocker s id) b ks := by simp [cancelKeys, hc]
        obtain ⟨c1, c2, c3, c4, c5, c6, c7, c8, c9⟩ := cancelMocker_spec he hs id
        have ht := (hs.ck b k id hc).1
        have same : ∀ y, (cancelMocker s id).text y = s.text y := by
          intro y
          by_cases hy : y = (s.mockers id).target
          · cases hgd : (s.mockers id).guard with
            | none => simp [cancelMocker, cancelGuard, hgd, markCanceled]
            | some g =>
              by_cases hap : (s.guards g).applied = true
              · rw [hy, c4 g hgd hap, ht]; exact (hp k List.mem_cons_self id g hc hgd hap).symm
              · simp [cancelMocker, cancelGuard, hgd, markCanceled, guardUnpatch, hap]
          · exact c2 y hy
        rw [hdef, ih c1 ?_ x, same x]
        intro k' hk' id' g' h1 h2 h3
        rw [same]; rw [c5] at h1; rw [(c9 id').2.1] at h2; rw [c7] at h3
        exact hp k' (List.mem_cons_of_mem _ hk') id' g' h1 h2 h3
  apply gen (s1.keys b) i1
  intro k hk id g h1 h2 h3
  have hk' : k ∈ (run env (init env) ops).keys b := by
    have : s1.keys = (run env (init env) ops).keys := k1
    rw [this] at hk; exact hk
  rw [c1] at h1; rw [g1] at h3; rw [(m1 id).2.1] at h2
  exact r1 k hk' id g h1 h2 h3

/-- **Operations on one target never change another.** `Apply`/`Return`/`When`/`Origin`/`Cancel` issued for a key whose
    target is `key % 1000` leave the bytes of every other function untouched (in any state satisfying the invariant, so in
    particular after any history); `Reset b` touches only targets of keys in `b`'s cache list; operations through a kept
    handle touch only the target of the mocker the handle refers to; a bare lookup touches nothing. -/
theorem other_targets_untouched {env : Env} (he : EnvOk env) {s : St} (hi : Inv env s) (op : Op) (f : Nat) :
    (match op with
      | .apply _ key _ _ => key % 1000 ≠ f
      | .ret _ key _ => key % 1000 ≠ f
      | .cancel _ key => key % 1000 ≠ f
      | .reset b => ∀ k, k ∈ s.keys b → k % 1000 ≠ f
      | .keep _ _ => True
      | .applyH b key _ => ∀ id, s.handle b key = some id → (s.mockers id).target ≠ f
      | .retH b key => ∀ id, s.handle b key = some id → (s.mockers id).target ≠ f
      | .cancelH b key => ∀ id, s.handle b key = some id → (s.mockers id).target ≠ f) →
    (step env s op).1.text f = s.text f := by
  cases op with
  | apply b key k origin =>
    intro hne
    obtain ⟨g1, g2, g3, _, _⟩ := getMocker_spec hi b key
    obtain ⟨o1, o2, _, _, _, o6⟩ := setOrigin_spec g1 (getMocker s b key).2 origin
    have a := (applyImp_spec he o1 (getMocker s b key).2 (.cb k)).2.1 f (by rw [(o6 _).1, g3]; exact fun h => hne h.symm)
    show (applyCb env _ _ _).1.text f = _
    rw [(applyCb_spec he o1 _ k).2.1, a, o2, g2]
  | ret b key origin =>
    intro hne
    obtain ⟨g1, g2, g3, _, _⟩ := getMocker_spec hi b key
    obtain ⟨o1, o2, _, _, _, o6⟩ := setOrigin_spec g1 (getMocker s b key).2 origin
    simp only [step]
    split
    · rw [o2, g2]
    · obtain ⟨w1, w2, _, _, w5⟩ := whens_spec o1 (getMocker s b key).2
      have a := (applyImp_spec he w1 (getMocker s b key).2 (.stub (setOrigin (getMocker s b key).1 (getMocker s b key).2 origin).nStubs)).2.1 f
        (by rw [(w5 _).1, (o6 _).1, g3]; exact fun h => hne h.symm)
      rw [a, w2, o2, g2]
  | cancel b key =>
    intro hne
    obtain ⟨g1, g2, g3, _, _⟩ := getMocker_spec hi b key
    have c := (cancelMocker_spec he g1 (getMocker s b key).2).2.1 f (by rw [g3]; exact fun h => hne h.symm)
    show (cancelMocker _ _).text f = _
    rw [c, g2]
  | reset b =>
    intro hne
    exact (cancelKeys_spec he b (s.keys b) hi).2.2.2.2.2.2.1 f hne
  | keep b key =>
    intro _
    show (getMocker s b key).1.text f = _
    rw [(getMocker_spec hi b key).2.1]
  | applyH b key k =>
    intro hne
    simp only [step]
    cases hh : s.handle b key with
    | none => rfl
    | some id =>
      simp only []
      rw [(applyCb_spec he hi id k).2.1]
      exact (applyImp_spec he hi id (.cb k)).2.1 f (fun h => hne id hh h.symm)
  | retH b key =>
    intro hne
    simp only [step]
    cases hh : s.handle b key with
    | none => rfl
    | some id =>
      simp only []
      split
      · rfl
      · obtain ⟨w1, w2, _, _, w5⟩ := whens_spec hi id
        rw [(applyImp_spec he w1 id (.stub s.nStubs)).2.1 f (by rw [(w5 id).1]; exact fun h => hne id hh h.symm), w2]
  | cancelH b key =>
    intro hne
    simp only [step]
    cases hh : s.handle b key with
    | none => rfl
    | some id => exact (cancelMocker_spec he hi id).2.1 f (fun h => hne id hh h.symm)

/-- **Re-mock after Reset works.** After any history followed by `Reset b`, `b.…Apply(cb k)` on a key of `b` (no `Origin`)
    succeeds whenever goom's own preconditions hold for the target (longer than the jump, first byte not the NOP sentinel),
    and leaves exactly the jump to the callback over the pristine bytes. -/
theorem remock_after_reset {env : Env} (he : EnvOk env) (ops : List Op) (b key k : Nat)
    (hsz : 13 < env.funcSize (key % 1000))
    (hnop : Gen.Amd64.checkAlreadyPatch ((env.pristine (key % 1000)).take 13) = false) :
    let s1 := (step env (run env (init env) ops) (.reset b)).1
    (step env s1 (.apply b key k none)).2 = none ∧
    (step env s1 (.apply b key k none)).1.text (key % 1000) = overwrite (env.pristine (key % 1000)) (jumpTo (env.cbAddr k)) := by
  intro s1
  have hi := reachable_inv_init he ops
  obtain ⟨i1, _, c1, k1, _, _, _, _, cn1⟩ := cancelKeys_spec he b ((run env (init env) ops).keys b) hi
  have i1' : Inv env s1 := i1
  -- the mocker handed out after Reset is fresh: no sticky Origin
  have hfresh : ((getMocker s1 b key).1.mockers (getMocker s1 b key).2).origin = none ∧
      ((getMocker s1 b key).1.mockers (getMocker s1 b key).2).target = key % 1000 := by
    refine ⟨?_, (getMocker_spec i1' b key).2.2.1⟩
    unfold getMocker
    cases hc : s1.cache b key with
    | none => simp [getMocker.fresh, upd]
    | some id =>
      have hc0 : (run env (init env) ops).cache b key = some id := by
        have : s1.cache = (run env (init env) ops).cache := c1
        rw [← this]; exact hc
      have hcan : (s1.mockers id).canceled = true := cn1 key ((hi.ck b key id hc0).2.1) id hc0
      simp [hcan, getMocker.fresh, upd]
  obtain ⟨g1, g2, g3, _, _⟩ := getMocker_spec i1' b key
  -- replaceFunc takes the success exit
  have hok : (applyImp env (getMocker s1 b key).1 (getMocker s1 b key).2 (.cb k)).2 = none := by
    have hp := (unpatchValue_spec he g1 (key % 1000)).2.1
    unfold applyImp replaceFunc
    simp only [hfresh.1, hfresh.2, C02L.jump_length, register]
    have : ¬ (13 ≥ env.funcSize (key % 1000)) := by omega
    simp only [this, if_false, hp, hnop]
    simp [mkGuard]
  have a := applyImp_spec he g1 (getMocker s1 b key).2 (.cb k)
  have c := applyCb_spec he g1 (getMocker s1 b key).2 k
  have hstep : step env s1 (.apply b key k none) = applyCb env (getMocker s1 b key).1 (getMocker s1 b key).2 k := rfl
  rw [hstep]
  refine ⟨by rw [c.2.2.1]; exact hok, ?_⟩
  have := a.2.2.1 hok
  rw [hfresh.2] at this
  rw [c.2.1]
  exact this

/-- **A kept handle that is re-applied is live again for the builder.**  If the handle kept for (b, key) is the builder's
    cache entry and `Apply` through it succeeds (e.g. after the handle's own `Cancel`), the next builder lookup of the same
    key returns that same mocker and creates nothing — so `Cancel` after a fresh lookup and `Reset` (`reset_restores`) reach the live
    mock.  (This is what `m.canceled = false` in `applyBy*` is for.) -/
theorem relookup_after_handle_apply {env : Env} (he : EnvOk env) {s : St} (hi : Inv env s) (b key k id : Nat)
    (hh : s.handle b key = some id) (hc : s.cache b key = some id)
    (hok : (step env s (.applyH b key k)).2 = none) :
    getMocker (step env s (.applyH b key k)).1 b key = ((step env s (.applyH b key k)).1, id) := by
  have hst : step env s (.applyH b key k) = applyCb env s id k := by simp [step, hh]
  rw [hst] at hok ⊢
  obtain ⟨_, _, _, c4, c5⟩ := applyCb_spec he hi id k
  have hcache : (applyCb env s id k).1.cache b key = some id := by rw [c4]; exact hc
  unfold getMocker
  simp [hcache, c5 hok]

/-- the hypotheses of the theorems above are satisfiable by a non-trivial state: two builders mock the same 16-byte
    function one after the other, the first builder resets: the image is pristine again and the invariant's
    right-hand alternative was inhabited in between. -/
def exEnv : Env where
  pristine := fun _ => [0x49#8, 0x3b#8, 0x66#8, 0x10#8, 0x76#8, 0x62#8, 0x55#8, 0x48#8, 0x89#8, 0xe5#8, 0x48#8, 0x83#8, 0xec#8, 0x18#8, 0x48#8, 0xb9#8]
  funcSize := fun _ => 64
  phSize := fun _ => 224
  fixOk := fun _ _ => true
  cbAddr := fun k => BitVec.ofNat 64 (0x6b3900 + 8 * k)
  stubAddr := fun n => BitVec.ofNat 64 (0xc000000000 + 16 * n)

example : EnvOk exEnv := by intro f; simp [exEnv]

example : let s := run exEnv (init exEnv) [.apply 0 3 1 none, .apply 1 3 2 (some 0)]
    s.text 3 ≠ exEnv.pristine 3 ∧ behaviour exEnv s 4 3 = .cb 2 ∧ s.cache 0 3 = some 0 ∧ (s.mockers 0).guard = some 0 ∧
    (s.guards 0).applied = true ∧ s.ph 0 = some 3 := by decide

example : let s := run exEnv (init exEnv) [.apply 0 3 1 none, .apply 1 3 2 (some 0), .reset 0]
    s.text 3 = exEnv.pristine 3 ∧ behaviour exEnv s 4 3 = .orig := by decide

example : 13 < exEnv.funcSize (3 % 1000) ∧ Gen.Amd64.checkAlreadyPatch ((exEnv.pristine (3 % 1000)).take 13) = false := by decide

end C02
