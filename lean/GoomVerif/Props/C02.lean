import GoomVerif.Model.Patch
namespace C02
open Patch

/-- the emitted entry jump is 13 bytes for every destination (regenerated emitter) -/
theorem jump_length (to : BitVec 64) : (jumpTo to).length = 13 := by
  simp [jumpTo, Gen.Amd64.jmpToFunctionValue]

end C02
