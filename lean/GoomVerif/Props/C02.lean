import GoomVerif.Lemmas.C02L
/-! # C02 — Reset/Cancel restore behaviour and the exact bytes; only entry jumps differ

All statements are about `Patch.step`/`Patch.run` (Model/Patch.lean), for every measured environment `env` whose functions
span at least 16 bytes (`EnvOk`: entry alignment), every number of builders/targets/callbacks/placeholders and every
finite list of public-API operations. -/
namespace C02
open Patch C02L

/-- the entry jump written by `Guard.Apply` is 13 bytes for every destination (emitter regenerated from the Go source) -/
theorem jump_length (to : BitVec 64) : (jumpTo to).length = 13 := C02L.jump_length to

/-- **Invariant, step.** Every public-API call preserves the invariant. -/
theorem inv_step {env : Env} (he : EnvOk env) {s : St} (hi : Inv env s) (op : Op) : Inv env (step env s op).1 := by
  cases op with
  | apply b key k origin => exact (doApply_spec he hi b key k origin).1
  | ret b key origin => exact (doRet_spec he hi b key origin).1
  | cancel b key => exact (doCancel_spec he hi b key).1
  | reset b =>
    show Inv env (resetB s b)
    unfold resetB
    cases s.scache b with
    | none => exact (cancelKeys_spec he b _ hi).1
    | some o => exact (cancelKeys_spec he o _ (cancelKeys_spec he b _ hi).1).1
  | keep b key => exact (doKeep_spec hi b b key).1
  | applyH b key k =>
    simp only [step]
    cases s.handle b key with
    | none => exact hi
    | some id => exact (applyCb_spec he hi id k).1
  | retH b key =>
    simp only [step]
    cases s.handle b key with
    | none => exact hi
    | some id =>
      simp only []
      split
      · exact hi
      · exact (applyImp_spec he (whens_spec hi id).1 _ _).1
  | cancelH b key =>
    simp only [step]
    cases s.handle b key with
    | none => exact hi
    | some id => exact (cancelMocker_spec he hi id).1
  | keepS b =>
    have g := (getStruct_spec hi b).1
    exact ⟨g.saved, g.txt, g.reg, g.mg, g.ck⟩
  | sapply b key k origin kept =>
    simp only [step]
    cases h : structOf s b kept with
    | none => exact hi
    | some r => exact (doApply_spec he (structOf_spec hi b kept r h).1 r.2 key k origin).1
  | sret b key origin kept =>
    simp only [step]
    cases h : structOf s b kept with
    | none => exact hi
    | some r => exact (doRet_spec he (structOf_spec hi b kept r h).1 r.2 key origin).1
  | scancel b key kept =>
    simp only [step]
    cases h : structOf s b kept with
    | none => exact hi
    | some r => exact (doCancel_spec he (structOf_spec hi b kept r h).1 r.2 key).1
  | skeep b key kept =>
    simp only [step]
    cases h : structOf s b kept with
    | none => exact hi
    | some r => exact (doKeep_spec (structOf_spec hi b kept r h).1 r.2 b key).1

/-- **Invariant, all histories.** It holds after every finite history from the pristine state. -/
theorem reachable_inv {env : Env} (he : EnvOk env) (ops : List Op) : ∀ {s : St}, Inv env s → Inv env (run env s ops) := by
  induction ops with
  | nil => intro s hi; exact hi
  | cons op ops ih => intro s hi; exact ih (inv_step he hi op)

theorem reachable_inv_init {env : Env} (he : EnvOk env) (ops : List Op) : Inv env (run env (init env) ops) :=
  reachable_inv he ops (inv_init env)

/-- **Saved bytes are pristine.** After any history, every guard's `originBytes` are the pristine first 13 bytes of its target
    (never a snapshot of an already patched entry). -/
theorem saved_bytes_pristine {env : Env} (he : EnvOk env) (ops : List Op) (g : Nat)
    (hg : g < (run env (init env) ops).nGuards) :
    ((run env (init env) ops).guards g).originBytes = (env.pristine ((run env (init env) ops).guards g).origin).take 13 :=
  ((reachable_inv_init he ops).saved g hg).1

/-- **Only entry jumps differ.** After any history the bytes of every function are pristine, or pristine with exactly the
    first 13 bytes replaced by the jump of a guard that is registered for this function and applied; in both cases
    nothing past byte 13 differs and the extent is unchanged. -/
theorem only_entry_jumps {env : Env} (he : EnvOk env) (ops : List Op) (f : Nat) :
    let s := run env (init env) ops
    (s.text f = env.pristine f ∨
      ∃ p g, s.patches f = some p ∧ p.guard = some g ∧ (s.guards g).applied = true ∧ (s.guards g).jumpBytes.length = 13 ∧
        s.text f = overwrite (env.pristine f) (s.guards g).jumpBytes) ∧
    (s.text f).drop 13 = (env.pristine f).drop 13 ∧ (s.text f).length = (env.pristine f).length := by
  intro s
  have hi : Inv env s := reachable_inv_init he ops
  rcases hi.txt f with h | ⟨p, g, h1, h2, h3, h4⟩
  · exact ⟨Or.inl h, by rw [h], by rw [h]⟩
  · have hl := ((hi.saved g (hi.reg f p g h1 h2).1)).2
    refine ⟨Or.inr ⟨p, g, h1, h2, h3, hl, h4⟩, ?_, ?_⟩
    · rw [h4, ← hl]; exact overwrite_drop _ _
    · rw [h4]; exact overwrite_length _ _ (by have := he f; omega)

/-- **Reset restores.** In any reachable state, `Reset` of builder `b` — cancelling its cached mockers in ANY order `ks` that
    covers the cache — leaves every function that one of the builder's mockers had patched byte-for-byte pristine, hence with
    the original behaviour class. -/
theorem reset_restores {env : Env} (he : EnvOk env) (ops : List Op) (b : Nat) (ks : List Nat) (nCb : Nat)
    (key id g : Nat) (hk : key ∈ ks)
    (hc : (run env (init env) ops).cache b key = some id)
    (hg : ((run env (init env) ops).mockers id).guard = some g)
    (ha : ((run env (init env) ops).guards g).applied = true) :
    let s' := cancelKeys (run env (init env) ops) b ks
    s'.text (key % 1000) = env.pristine (key % 1000) ∧ behaviour env s' nCb (key % 1000) = .orig := by
  intro s'
  have hi := reachable_inv_init he ops
  have h := (cancelKeys_spec he b ks hi).2.2.2.2.2.2.2.1 key hk id g hc hg ha
  refine ⟨h, ?_⟩
  show behaviour env (cancelKeys (run env (init env) ops) b ks) nCb (key % 1000) = .orig
  unfold behaviour
  rw [h]; simp

/-- the list `Reset` actually ranges over covers the builder's cache -/
theorem reset_covers_cache {env : Env} (he : EnvOk env) (ops : List Op) (b key id : Nat)
    (hc : (run env (init env) ops).cache b key = some id) : key ∈ (run env (init env) ops).keys b :=
  ((reachable_inv_init he ops).ck b key id hc).2.1

/-- **Second Reset is idempotent** on the image: it changes no byte (both levels: the builder's own entries and the
    children of its struct mocker). -/
theorem reset_idempotent {env : Env} (he : EnvOk env) (ops : List Op) (b : Nat) (f : Nat) :
    let s1 := (step env (run env (init env) ops) (.reset b)).1
    (step env s1 (.reset b)).1.text f = s1.text f := by
  intro s1
  have hi := reachable_inv_init he ops
  show (resetB (resetB (run env (init env) ops) b) b).text f = (resetB (run env (init env) ops) b).text f
  generalize run env (init env) ops = s0 at hi
  have ia := (cancelKeys_spec he b (s0.keys b) hi).1
  have ka : (cancelKeys s0 b (s0.keys b)).keys = s0.keys := (cancelKeys_spec he b (s0.keys b) hi).2.2.2.1
  have ra := restored_after he hi b (s0.keys b)
  cases hs : s0.scache b with
  | none =>
    have e1 : resetB s0 b = cancelKeys s0 b (s0.keys b) := by simp [resetB, hs]
    have hs1 : (cancelKeys s0 b (s0.keys b)).scache b = none := by rw [cancelKeys_scache]; exact hs
    rw [e1]
    have e2 : resetB (cancelKeys s0 b (s0.keys b)) b
        = cancelKeys (cancelKeys s0 b (s0.keys b)) b ((cancelKeys s0 b (s0.keys b)).keys b) := by simp [resetB, hs1]
    rw [e2, ka]
    exact cancelKeys_noop he b (s0.keys b) ia ra f
  | some o =>
    have e1 : resetB s0 b = cancelKeys (cancelKeys s0 b (s0.keys b)) o ((cancelKeys s0 b (s0.keys b)).keys o) := by
      simp [resetB, hs]
    rw [e1, ka]
    -- sa: after the builder's own entries, s1': after the struct mocker's children
    have i1 := (cancelKeys_spec he o (s0.keys o) ia).1
    have k1 : (cancelKeys (cancelKeys s0 b (s0.keys b)) o (s0.keys o)).keys = s0.keys := by
      rw [(cancelKeys_spec he o (s0.keys o) ia).2.2.2.1, ka]
    have hs1 : (cancelKeys (cancelKeys s0 b (s0.keys b)) o (s0.keys o)).scache b = some o := by
      rw [cancelKeys_scache, cancelKeys_scache]; exact hs
    have rb := restored_preserved he ia b o (s0.keys b) (s0.keys o) ra
    have ro := restored_after he ia o (s0.keys o)
    generalize cancelKeys (cancelKeys s0 b (s0.keys b)) o (s0.keys o) = s1' at i1 k1 hs1 rb ro
    have e2 : resetB s1' b = cancelKeys (cancelKeys s1' b (s1'.keys b)) o ((cancelKeys s1' b (s1'.keys b)).keys o) := by
      simp [resetB, hs1]
    have kb : (cancelKeys s1' b (s1'.keys b)).keys = s0.keys := by
      rw [(cancelKeys_spec he b (s1'.keys b) i1).2.2.2.1, k1]
    rw [e2, kb, k1]
    have ib := (cancelKeys_spec he b (s0.keys b) i1).1
    have n1 := cancelKeys_noop he b (s0.keys b) i1 rb
    have ro' := restored_preserved he i1 o b (s0.keys o) (s0.keys b) ro
    rw [cancelKeys_noop he o (s0.keys o) ib ro' f, n1 f]

/-- **Operations on one target never change another.** `Apply`/`Return`/`When`/`Origin`/`Cancel` issued for a key whose
    target is `key % 1000` — through a builder lookup, through a struct mocker (kept or freshly looked up) — leave the bytes
    of every other function untouched (in any state satisfying the invariant, so in particular after any history);
    `Reset b` touches only targets of keys in `b`'s cache list and in the list of its struct mocker; operations through a
    kept handle touch only the target of the mocker the handle refers to; bare lookups touch nothing. -/
theorem other_targets_untouched {env : Env} (he : EnvOk env) {s : St} (hi : Inv env s) (op : Op) (f : Nat) :
    (match op with
      | .apply _ key _ _ => key % 1000 ≠ f
      | .ret _ key _ => key % 1000 ≠ f
      | .cancel _ key => key % 1000 ≠ f
      | .reset b => (∀ k, k ∈ s.keys b → k % 1000 ≠ f) ∧ (∀ o, s.scache b = some o → ∀ k, k ∈ s.keys o → k % 1000 ≠ f)
      | .keep _ _ => True
      | .applyH b key _ => ∀ id, s.handle b key = some id → (s.mockers id).target ≠ f
      | .retH b key => ∀ id, s.handle b key = some id → (s.mockers id).target ≠ f
      | .cancelH b key => ∀ id, s.handle b key = some id → (s.mockers id).target ≠ f
      | .keepS _ => True
      | .sapply _ key _ _ _ => key % 1000 ≠ f
      | .sret _ key _ _ => key % 1000 ≠ f
      | .scancel _ key _ => key % 1000 ≠ f
      | .skeep _ _ _ => True) →
    (step env s op).1.text f = s.text f := by
  cases op with
  | apply b key k origin => intro hne; exact (doApply_spec he hi b key k origin).2 f hne
  | ret b key origin => intro hne; exact (doRet_spec he hi b key origin).2 f hne
  | cancel b key => intro hne; exact (doCancel_spec he hi b key).2 f hne
  | reset b =>
    intro hne
    show (resetB s b).text f = _
    have ia := (cancelKeys_spec he b (s.keys b) hi).1
    have ta := (cancelKeys_spec he b (s.keys b) hi).2.2.2.2.2.2.1 f hne.1
    have ka : (cancelKeys s b (s.keys b)).keys = s.keys := (cancelKeys_spec he b (s.keys b) hi).2.2.2.1
    unfold resetB
    cases hs : s.scache b with
    | none => exact ta
    | some o =>
      simp only []
      rw [(cancelKeys_spec he o _ ia).2.2.2.2.2.2.1 f (by rw [ka]; exact hne.2 o hs), ta]
  | keep b key => intro _; exact congrFun (doKeep_spec hi b b key).2 f
  | applyH b key k =>
    intro hne
    simp only [step]
    cases hh : s.handle b key with
    | none => rfl
    | some id =>
      simp only []
      rw [(applyCb_spec he hi id k).2.1]
      exact (applyImp_spec he hi id (.cb k)).2.1 f (fun h => hne id hh h.symm)
  | retH b key =>
    intro hne
    simp only [step]
    cases hh : s.handle b key with
    | none => rfl
    | some id =>
      simp only []
      split
      · rfl
      · obtain ⟨w1, w2, _, _, w5⟩ := whens_spec hi id
        rw [(applyImp_spec he w1 id (.stub s.nStubs)).2.1 f (by rw [(w5 id).1]; exact fun h => hne id hh h.symm), w2]
  | cancelH b key =>
    intro hne
    simp only [step]
    cases hh : s.handle b key with
    | none => rfl
    | some id => exact (cancelMocker_spec he hi id).2.1 f (fun h => hne id hh h.symm)
  | keepS b => intro _; exact congrFun (getStruct_spec hi b).2 f
  | sapply b key k origin kept =>
    intro hne
    simp only [step]
    cases h : structOf s b kept with
    | none => rfl
    | some r =>
      obtain ⟨ir, tr⟩ := structOf_spec hi b kept r h
      simp only []
      rw [(doApply_spec he ir r.2 key k origin).2 f hne, tr]
  | sret b key origin kept =>
    intro hne
    simp only [step]
    cases h : structOf s b kept with
    | none => rfl
    | some r =>
      obtain ⟨ir, tr⟩ := structOf_spec hi b kept r h
      simp only []
      rw [(doRet_spec he ir r.2 key origin).2 f hne, tr]
  | scancel b key kept =>
    intro hne
    simp only [step]
    cases h : structOf s b kept with
    | none => rfl
    | some r =>
      obtain ⟨ir, tr⟩ := structOf_spec hi b kept r h
      simp only []
      rw [(doCancel_spec he ir r.2 key).2 f hne, tr]
  | skeep b key kept =>
    intro _
    simp only [step]
    cases h : structOf s b kept with
    | none => rfl
    | some r =>
      obtain ⟨ir, tr⟩ := structOf_spec hi b kept r h
      simp only []
      rw [(doKeep_spec ir r.2 b key).2, tr]

/-- **Re-mock after Reset works.** After any history followed by `Reset b`, `b.…Apply(cb k)` on a key of `b` (no `Origin`)
    succeeds whenever goom's own preconditions hold for the target (longer than the jump, first byte not the NOP sentinel),
    and leaves exactly the jump to the callback over the pristine bytes. -/
theorem remock_after_reset {env : Env} (he : EnvOk env) (ops : List Op) (b key k : Nat)
    (hsz : 13 < env.funcSize (key % 1000))
    (hnop : Gen.Amd64.checkAlreadyPatch ((env.pristine (key % 1000)).take 13) = false) :
    let s1 := (step env (run env (init env) ops) (.reset b)).1
    (step env s1 (.apply b key k none)).2 = none ∧
    (step env s1 (.apply b key k none)).1.text (key % 1000) = overwrite (env.pristine (key % 1000)) (jumpTo (env.cbAddr k)) := by
  intro s1
  have hi := reachable_inv_init he ops
  obtain ⟨i1, c1, _, cn1, _⟩ := resetB_spec he hi b
  have i1' : Inv env s1 := i1
  -- the mocker handed out after Reset is fresh: no sticky Origin
  have hfresh : ((getMocker s1 b key).1.mockers (getMocker s1 b key).2).origin = none ∧
      ((getMocker s1 b key).1.mockers (getMocker s1 b key).2).target = key % 1000 := by
    refine ⟨?_, (getMocker_spec i1' b key).2.2.1⟩
    unfold getMocker
    cases hc : s1.cache b key with
    | none => simp [getMocker.fresh, upd]
    | some id =>
      have hc0 : (run env (init env) ops).cache b key = some id := by
        have : s1.cache = (run env (init env) ops).cache := c1
        rw [← this]; exact hc
      have hcan : (s1.mockers id).canceled = true := cn1 key id hc0
      simp [hcan, getMocker.fresh, upd]
  obtain ⟨g1, g2, g3, _, _⟩ := getMocker_spec i1' b key
  -- replaceFunc takes the success exit
  have hok : (applyImp env (getMocker s1 b key).1 (getMocker s1 b key).2 (.cb k)).2 = none := by
    have hp := (unpatchValue_spec he g1 (key % 1000)).2.1
    unfold applyImp replaceFunc
    simp only [hfresh.1, hfresh.2, C02L.jump_length, register]
    have : ¬ (13 ≥ env.funcSize (key % 1000)) := by omega
    simp only [this, if_false, hp, hnop]
    simp [mkGuard]
  have a := applyImp_spec he g1 (getMocker s1 b key).2 (.cb k)
  have c := applyCb_spec he g1 (getMocker s1 b key).2 k
  have hstep : step env s1 (.apply b key k none) = applyCb env (getMocker s1 b key).1 (getMocker s1 b key).2 k := rfl
  rw [hstep]
  refine ⟨by rw [c.2.2.1]; exact hok, ?_⟩
  have := a.2.2.1 hok
  rw [hfresh.2] at this
  rw [c.2.1]
  exact this

/-- **A kept handle that is re-applied is live again for the builder.**  If the handle kept for (b, key) is the builder's
    cache entry and `Apply` through it succeeds (e.g. after the handle's own `Cancel`), the next builder lookup of the same
    key returns that same mocker and creates nothing — so `Cancel` after a fresh lookup and `Reset` (`reset_restores`) reach the live
    mock.  (This is what `m.canceled = false` in `applyBy*` is for.) -/
theorem relookup_after_handle_apply {env : Env} (he : EnvOk env) {s : St} (hi : Inv env s) (b key k id : Nat)
    (hh : s.handle b key = some id) (hc : s.cache b key = some id)
    (hok : (step env s (.applyH b key k)).2 = none) :
    getMocker (step env s (.applyH b key k)).1 b key = ((step env s (.applyH b key k)).1, id) := by
  have hst : step env s (.applyH b key k) = applyCb env s id k := by simp [step, hh]
  rw [hst] at hok ⊢
  obtain ⟨_, _, _, c4, c5⟩ := applyCb_spec he hi id k
  have hcache : (applyCb env s id k).1.cache b key = some id := by rw [c4]; exact hc
  unfold getMocker
  simp [hcache, c5 hok]

/-- **Looking the struct mocker up again returns the same one.**  `b.Struct(x)` hands out the cached `*CachedMethodMocker`
    as long as its `Canceled()` is false — also before its first `.Method()` call, when it has no children yet — so mocks
    made through a kept `sm := b.Struct(x)` and through later `b.Struct(x)` lookups live in the same child cache, which is the
    one `Reset` walks (`resetB`, `reset_restores` with the struct mocker as cache owner). -/
theorem struct_lookup_stable (s : St) (b o : Nat) (hc : s.scache b = some o) (hn : s.scanceled o = false) :
    getStruct s b = (s, o) := by
  unfold getStruct
  simp [hc, hn]

/-- the hypotheses of the theorems above are satisfiable by a non-trivial state: two builders mock the same 16-byte
    function one after the other, the first builder resets: the image is pristine again and the invariant's
    right-hand alternative was inhabited in between. -/
def exEnv : Env where
  pristine := fun _ => [0x49#8, 0x3b#8, 0x66#8, 0x10#8, 0x76#8, 0x62#8, 0x55#8, 0x48#8, 0x89#8, 0xe5#8, 0x48#8, 0x83#8, 0xec#8, 0x18#8, 0x48#8, 0xb9#8]
  funcSize := fun _ => 64
  phSize := fun _ => 224
  fixOk := fun _ _ => true
  cbAddr := fun k => BitVec.ofNat 64 (0x6b3900 + 8 * k)
  stubAddr := fun n => BitVec.ofNat 64 (0xc000000000 + 16 * n)

example : EnvOk exEnv := by intro f; simp [exEnv]

example : let s := run exEnv (init exEnv) [.apply 0 3 1 none, .apply 1 3 2 (some 0)]
    s.text 3 ≠ exEnv.pristine 3 ∧ behaviour exEnv s 4 3 = .cb 2 ∧ s.cache 0 3 = some 0 ∧ (s.mockers 0).guard = some 0 ∧
    (s.guards 0).applied = true ∧ s.ph 0 = some 3 := by decide

example : let s := run exEnv (init exEnv) [.apply 0 3 1 none, .apply 1 3 2 (some 0), .reset 0]
    s.text 3 = exEnv.pristine 3 ∧ behaviour exEnv s 4 3 = .orig := by decide

/-- a struct mocker kept before its first `.Method()`, a fresh lookup in between, mocks through both: Reset restores both -/
example : let s := run exEnv (init exEnv) [.keepS 0, .sapply 0 2007 1 none false, .sapply 0 2008 2 none true]
    s.text 7 ≠ exEnv.pristine 7 ∧ s.text 8 ≠ exEnv.pristine 8 ∧ s.scache 0 = some 100 ∧ s.shandle 0 = some 100 ∧
    s.scanceled 100 = false ∧ (step exEnv s (.reset 0)).1.text 7 = exEnv.pristine 7 ∧
    (step exEnv s (.reset 0)).1.text 8 = exEnv.pristine 8 := by decide

example : 13 < exEnv.funcSize (3 % 1000) ∧ Gen.Amd64.checkAlreadyPatch ((exEnv.pristine (3 % 1000)).take 13) = false := by decide

end C02
