import GoomVerif.Lemmas.C02B
import GoomVerif.Props.C15
/-! # C02 — Reset/Cancel restore behaviour and the exact bytes; only entry jumps differ

All statements are about `Patch.step`/`Patch.run` (Model/Patch.lean), for every measured environment `env` whose functions
span at least 16 bytes (`EnvOk`: entry alignment), every number of builders/targets/callbacks/placeholders and every
finite list of public-API operations. -/
namespace C02
open Patch C02L

/-- the entry jump written by `Guard.Apply` is 13 bytes for every destination (emitter regenerated from the Go source) -/
theorem jump_length (to : BitVec 64) : (jumpTo to).length = 13 := C02L.jump_length to

/-- **Invariant, step.** Every public-API call preserves the invariant. -/
theorem inv_step {env : Env} (he : EnvOk env) {s : St} (hi : Inv env s) (op : Op) : Inv env (step env s op).1 := by
  cases op with
  | apply b key k origin => exact (doApply_spec he hi b key k origin).1
  | ret b key origin => exact (doRet_spec he hi b key origin).1
  | cancel b key => exact (doCancel_spec he hi b key).1
  | reset b =>
    show Inv env (resetB s b)
    unfold resetB
    cases s.scache b with
    | none => exact (cancelKeys_spec he b _ hi).1
    | some o => exact (cancelKeys_spec he o _ (cancelKeys_spec he b _ hi).1).1
  | keep b key => exact (doKeep_spec hi b b key).1
  | applyH b key k =>
    simp only [step]
    cases s.handle b key with
    | none => exact hi
    | some id => exact (applyCb_spec he hi id k).1
  | retH b key =>
    simp only [step]
    cases s.handle b key with
    | none => exact hi
    | some id =>
      simp only []
      split
      · exact hi
      · exact (applyImp_spec he (whens_spec hi id).1 _ _).1
  | cancelH b key =>
    simp only [step]
    cases s.handle b key with
    | none => exact hi
    | some id => exact (cancelMocker_spec he hi id).1
  | keepS b =>
    have g := (getStruct_spec hi b).1
    exact ⟨g.saved, g.txt, g.reg, g.mg, g.ck⟩
  | sapply b key k origin kept =>
    simp only [step]
    cases h : structOf s b kept with
    | none => exact hi
    | some r => exact (doApply_spec he (structOf_spec hi b kept r h).1 r.2 key k origin).1
  | sret b key origin kept =>
    simp only [step]
    cases h : structOf s b kept with
    | none => exact hi
    | some r => exact (doRet_spec he (structOf_spec hi b kept r h).1 r.2 key origin).1
  | scancel b key kept =>
    simp only [step]
    cases h : structOf s b kept with
    | none => exact hi
    | some r => exact (doCancel_spec he (structOf_spec hi b kept r h).1 r.2 key).1
  | skeep b key kept =>
    simp only [step]
    cases h : structOf s b kept with
    | none => exact hi
    | some r => exact (doKeep_spec (structOf_spec hi b kept r h).1 r.2 b key).1
  | other b => exact hi
  | applyBad b key => exact (getMocker_spec hi b key).1

/-- **Invariant, all histories.** It holds after every finite history from the pristine state. -/
theorem reachable_inv {env : Env} (he : EnvOk env) (ops : List Op) : ∀ {s : St}, Inv env s → Inv env (run env s ops) := by
  induction ops with
  | nil => intro s hi; exact hi
  | cons op ops ih => intro s hi; exact ih (inv_step he hi op)

theorem reachable_inv_init {env : Env} (he : EnvOk env) (ops : List Op) : Inv env (run env (init env) ops) :=
  reachable_inv he ops (inv_init env)

/-- **Saved bytes are pristine.** After any history, every guard's `originBytes` are the pristine first 13 bytes of its target
    (never a snapshot of an already patched entry). -/
theorem saved_bytes_pristine {env : Env} (he : EnvOk env) (ops : List Op) (g : Nat)
    (hg : g < (run env (init env) ops).nGuards) :
    ((run env (init env) ops).guards g).originBytes = (env.pristine ((run env (init env) ops).guards g).origin).take 13 :=
  ((reachable_inv_init he ops).saved g hg).1

/-- **Only entry jumps differ.** After any history the bytes of every function are pristine, or pristine with exactly the
    first 13 bytes replaced by the jump of a guard that is registered for this function and applied; in both cases
    nothing past byte 13 differs and the extent is unchanged. -/
theorem only_entry_jumps {env : Env} (he : EnvOk env) (ops : List Op) (f : Nat) :
    let s := run env (init env) ops
    (s.text f = env.pristine f ∨
      ∃ p g, s.patches f = some p ∧ p.guard = some g ∧ (s.guards g).applied = true ∧ (s.guards g).jumpBytes.length = 13 ∧
        s.text f = overwrite (env.pristine f) (s.guards g).jumpBytes) ∧
    (s.text f).drop 13 = (env.pristine f).drop 13 ∧ (s.text f).length = (env.pristine f).length := by
  intro s
  have hi : Inv env s := reachable_inv_init he ops
  rcases hi.txt f with h | ⟨p, g, h1, h2, h3, h4⟩
  · exact ⟨Or.inl h, by rw [h], by rw [h]⟩
  · have hl := ((hi.saved g (hi.reg f p g h1 h2).1)).2
    refine ⟨Or.inr ⟨p, g, h1, h2, h3, hl, h4⟩, ?_, ?_⟩
    · rw [h4, ← hl]; exact overwrite_drop _ _
    · rw [h4]; exact overwrite_length _ _ (by have := he f; omega)

/-- **Reset restores.** In any reachable state, `Reset` of builder `b` — cancelling its cached mockers in ANY order `ks` that
    covers the cache — leaves every function that one of the builder's mockers had patched byte-for-byte pristine, hence with
    the original behaviour class. -/
theorem reset_restores {env : Env} (he : EnvOk env) (ops : List Op) (b : Nat) (ks : List Nat) (nCb : Nat)
    (key id g : Nat) (hk : key ∈ ks)
    (hc : (run env (init env) ops).cache b key = some id)
    (hg : ((run env (init env) ops).mockers id).guard = some g)
    (ha : ((run env (init env) ops).guards g).applied = true) :
    let s' := cancelKeys (run env (init env) ops) b ks
    s'.text (key % 1000) = env.pristine (key % 1000) ∧ behaviour env s' nCb (key % 1000) = .orig := by
  intro s'
  have hi := reachable_inv_init he ops
  have h := (cancelKeys_spec he b ks hi).2.2.2.2.2.2.2.1 key hk id g hc hg ha
  refine ⟨h, ?_⟩
  show behaviour env (cancelKeys (run env (init env) ops) b ks) nCb (key % 1000) = .orig
  unfold behaviour
  rw [h]; simp

/-- **Reset — the whole step, both cache levels — restores.**  After any history, `Reset b` leaves byte-for-byte pristine (class
    `orig`) every function patched by a mocker that is in the builder's own cache or in the child cache of the builder's struct
    mocker (`Struct(x).Method` / `ExportMethod` / `ExportStruct(..).Method`).  This is the provable part of the clause "after a
    builder's Reset every function it mocked is restored": see `ResetRestoresAll` below for the full statement, which is false
    for a mocker the builder has replaced in its cache (Findings/C02Orphan.lean). -/
theorem reset_step_restores {env : Env} (he : EnvOk env) (ops : List Op) (b key id g o nCb : Nat)
    (hc : (run env (init env) ops).cache b key = some id ∨
          ((run env (init env) ops).scache b = some o ∧ (run env (init env) ops).cache o key = some id))
    (hg : ((run env (init env) ops).mockers id).guard = some g)
    (ha : ((run env (init env) ops).guards g).applied = true) :
    let s' := (step env (run env (init env) ops) (.reset b)).1
    s'.text (key % 1000) = env.pristine (key % 1000) ∧ behaviour env s' nCb (key % 1000) = .orig := by
  intro s'
  have hi := reachable_inv_init he ops
  have htext : (resetB (run env (init env) ops) b).text (key % 1000) = env.pristine (key % 1000) := by
    generalize run env (init env) ops = s0 at hi hc hg ha
    obtain ⟨ia, _, ca, ka, ga, ma, _, ra, _⟩ := cancelKeys_spec he b (s0.keys b) hi
    unfold resetB
    cases hs : s0.scache b with
    | none =>
      rcases hc with h | ⟨h, _⟩
      · exact ra key (hi.ck b key id h).2.1 id g h hg ha
      · rw [hs] at h; cases h
    | some o' =>
      simp only []
      obtain ⟨_, tb, _, _, _, _, _, rb, _⟩ := cancelKeys_spec he o' ((cancelKeys s0 b (s0.keys b)).keys o') ia
      rcases hc with h | ⟨h, h2⟩
      · rcases tb (key % 1000) with e | e
        · rw [e]; exact ra key (hi.ck b key id h).2.1 id g h hg ha
        · exact e
      · rw [hs] at h; cases h
        exact rb key (by rw [ka]; exact (hi.ck _ key id h2).2.1) id g (by rw [ca]; exact h2) (by rw [(ma id).2.1]; exact hg)
          (by rw [ga]; exact ha)
  refine ⟨htext, ?_⟩
  show behaviour env (resetB (run env (init env) ops) b) nCb (key % 1000) = .orig
  unfold behaviour
  rw [htext]; simp

/-- the builder an operation is issued on -/
def opBuilder : Op → Nat
  | .apply b _ _ _ | .ret b _ _ | .cancel b _ | .reset b | .keep b _ | .applyH b _ _ | .retH b _ | .cancelH b _ | .keepS b
  | .sapply b _ _ _ _ | .sret b _ _ _ | .scancel b _ _ | .skeep b _ _ | .other b | .applyBad b _ => b

/-- **The Reset clause at full strength** (one builder): after any history that uses only builder `b`, `Reset b` leaves every
    function byte-for-byte pristine.  NOT a theorem: it is false for goom as it is (a kept handle that was cancelled, replaced in
    the builder's cache by a fresh lookup and then applied again is unknown to `Reset`) — `Findings.not_resetRestoresAll`.
    The proved part is `reset_step_restores` (= `reset_restores_partial`): everything still in the builder's caches. -/
def ResetRestoresAll (env : Env) : Prop :=
  ∀ (ops : List Op) (b : Nat), (∀ op, op ∈ ops → opBuilder op = b) →
    ∀ f, (step env (run env (init env) ops) (.reset b)).1.text f = env.pristine f

theorem reset_restores_partial {env : Env} (he : EnvOk env) (ops : List Op) (b key id g o : Nat)
    (hcached : (run env (init env) ops).cache b key = some id ∨
          ((run env (init env) ops).scache b = some o ∧ (run env (init env) ops).cache o key = some id))
    (hg : ((run env (init env) ops).mockers id).guard = some g)
    (ha : ((run env (init env) ops).guards g).applied = true) :
    (step env (run env (init env) ops) (.reset b)).1.text (key % 1000) = env.pristine (key % 1000) :=
  (reset_step_restores he ops b key id g o 0 hcached hg ha).1

/-- **A mocker's Cancel restores** (`b.Func(f).Cancel()`, `Struct(x).Method(m).Cancel()` … with `o` the cache owner): if the
    owner's live (not cancelled) entry for the key holds an applied guard, the target is byte-for-byte pristine afterwards. -/
theorem cancel_restores {env : Env} (he : EnvOk env) {s : St} (hi : Inv env s) (o key id g nCb : Nat)
    (hc : s.cache o key = some id) (hn : (s.mockers id).canceled = false)
    (hg : (s.mockers id).guard = some g) (ha : (s.guards g).applied = true) :
    (doCancel s o key).text (key % 1000) = env.pristine (key % 1000) ∧ behaviour env (doCancel s o key) nCb (key % 1000) = .orig := by
  have hget : getMocker s o key = (s, id) := by unfold getMocker; simp [hc, hn]
  have ht := (hi.ck o key id hc).1
  have h : (doCancel s o key).text (key % 1000) = env.pristine (key % 1000) := by
    unfold doCancel
    rw [hget]
    have := (cancelMocker_spec he hi id).2.2.2.1 g hg ha
    rw [ht] at this; exact this
  exact ⟨h, by unfold behaviour; rw [h]; simp⟩

/-- the same through a kept handle: `m.Cancel()` -/
theorem cancelH_restores {env : Env} (he : EnvOk env) {s : St} (hi : Inv env s) (b key id g : Nat)
    (hh : s.handle b key = some id) (hg : (s.mockers id).guard = some g) (ha : (s.guards g).applied = true) :
    (step env s (.cancelH b key)).1.text (s.mockers id).target = env.pristine (s.mockers id).target := by
  simp only [step, hh]
  exact (cancelMocker_spec he hi id).2.2.2.1 g hg ha

/-- the list `Reset` actually ranges over covers the builder's cache -/
theorem reset_covers_cache {env : Env} (he : EnvOk env) (ops : List Op) (b key id : Nat)
    (hc : (run env (init env) ops).cache b key = some id) : key ∈ (run env (init env) ops).keys b :=
  ((reachable_inv_init he ops).ck b key id hc).2.1

/-- **Second Reset is idempotent** on the image: it changes no byte (both levels: the builder's own entries and the
    children of its struct mocker). -/
theorem reset_idempotent {env : Env} (he : EnvOk env) (ops : List Op) (b : Nat) (f : Nat) :
    let s1 := (step env (run env (init env) ops) (.reset b)).1
    (step env s1 (.reset b)).1.text f = s1.text f := by
  intro s1
  have hi := reachable_inv_init he ops
  show (resetB (resetB (run env (init env) ops) b) b).text f = (resetB (run env (init env) ops) b).text f
  generalize run env (init env) ops = s0 at hi
  have ia := (cancelKeys_spec he b (s0.keys b) hi).1
  have ka : (cancelKeys s0 b (s0.keys b)).keys = s0.keys := (cancelKeys_spec he b (s0.keys b) hi).2.2.2.1
  have ra := restored_after he hi b (s0.keys b)
  cases hs : s0.scache b with
  | none =>
    have e1 : resetB s0 b = cancelKeys s0 b (s0.keys b) := by simp [resetB, hs]
    have hs1 : (cancelKeys s0 b (s0.keys b)).scache b = none := by rw [cancelKeys_scache]; exact hs
    rw [e1]
    have e2 : resetB (cancelKeys s0 b (s0.keys b)) b
        = cancelKeys (cancelKeys s0 b (s0.keys b)) b ((cancelKeys s0 b (s0.keys b)).keys b) := by simp [resetB, hs1]
    rw [e2, ka]
    exact cancelKeys_noop he b (s0.keys b) ia ra f
  | some o =>
    have e1 : resetB s0 b = cancelKeys (cancelKeys s0 b (s0.keys b)) o ((cancelKeys s0 b (s0.keys b)).keys o) := by
      simp [resetB, hs]
    rw [e1, ka]
    -- sa: after the builder's own entries, s1': after the struct mocker's children
    have i1 := (cancelKeys_spec he o (s0.keys o) ia).1
    have k1 : (cancelKeys (cancelKeys s0 b (s0.keys b)) o (s0.keys o)).keys = s0.keys := by
      rw [(cancelKeys_spec he o (s0.keys o) ia).2.2.2.1, ka]
    have hs1 : (cancelKeys (cancelKeys s0 b (s0.keys b)) o (s0.keys o)).scache b = some o := by
      rw [cancelKeys_scache, cancelKeys_scache]; exact hs
    have rb := restored_preserved he ia b o (s0.keys b) (s0.keys o) ra
    have ro := restored_after he ia o (s0.keys o)
    generalize cancelKeys (cancelKeys s0 b (s0.keys b)) o (s0.keys o) = s1' at i1 k1 hs1 rb ro
    have e2 : resetB s1' b = cancelKeys (cancelKeys s1' b (s1'.keys b)) o ((cancelKeys s1' b (s1'.keys b)).keys o) := by
      simp [resetB, hs1]
    have kb : (cancelKeys s1' b (s1'.keys b)).keys = s0.keys := by
      rw [(cancelKeys_spec he b (s1'.keys b) i1).2.2.2.1, k1]
    rw [e2, kb, k1]
    have ib := (cancelKeys_spec he b (s0.keys b) i1).1
    have n1 := cancelKeys_noop he b (s0.keys b) i1 rb
    have ro' := restored_preserved he i1 o b (s0.keys o) (s0.keys b) ro
    rw [cancelKeys_noop he o (s0.keys o) ib ro' f, n1 f]

/-- **Operations on one target never change another.** `Apply`/`Return`/`When`/`Origin`/`Cancel` issued for a key whose
    target is `key % 1000` — through a builder lookup, through a struct mocker (kept or freshly looked up) — leave the bytes
    of every other function untouched (in any state satisfying the invariant, so in particular after any history);
    `Reset b` touches only targets of keys in `b`'s cache list and in the list of its struct mocker; operations through a
    kept handle touch only the target of the mocker the handle refers to; bare lookups touch nothing. -/
theorem other_targets_untouched {env : Env} (he : EnvOk env) {s : St} (hi : Inv env s) (op : Op) (f : Nat) :
    (match op with
      | .apply _ key _ _ => key % 1000 ≠ f
      | .ret _ key _ => key % 1000 ≠ f
      | .cancel _ key => key % 1000 ≠ f
      | .reset b => (∀ k, k ∈ s.keys b → k % 1000 ≠ f) ∧ (∀ o, s.scache b = some o → ∀ k, k ∈ s.keys o → k % 1000 ≠ f)
      | .keep _ _ => True
      | .applyH b key _ => ∀ id, s.handle b key = some id → (s.mockers id).target ≠ f
      | .retH b key => ∀ id, s.handle b key = some id → (s.mockers id).target ≠ f
      | .cancelH b key => ∀ id, s.handle b key = some id → (s.mockers id).target ≠ f
      | .keepS _ => True
      | .sapply _ key _ _ _ => key % 1000 ≠ f
      | .sret _ key _ _ => key % 1000 ≠ f
      | .scancel _ key _ => key % 1000 ≠ f
      | .skeep _ _ _ => True
      | .other _ => True
      | .applyBad _ _ => True) →
    (step env s op).1.text f = s.text f := by
  cases op with
  | apply b key k origin => intro hne; exact (doApply_spec he hi b key k origin).2 f hne
  | ret b key origin => intro hne; exact (doRet_spec he hi b key origin).2 f hne
  | cancel b key => intro hne; exact (doCancel_spec he hi b key).2 f hne
  | reset b =>
    intro hne
    show (resetB s b).text f = _
    have ia := (cancelKeys_spec he b (s.keys b) hi).1
    have ta := (cancelKeys_spec he b (s.keys b) hi).2.2.2.2.2.2.1 f hne.1
    have ka : (cancelKeys s b (s.keys b)).keys = s.keys := (cancelKeys_spec he b (s.keys b) hi).2.2.2.1
    unfold resetB
    cases hs : s.scache b with
    | none => exact ta
    | some o =>
      simp only []
      rw [(cancelKeys_spec he o _ ia).2.2.2.2.2.2.1 f (by rw [ka]; exact hne.2 o hs), ta]
  | keep b key => intro _; exact congrFun (doKeep_spec hi b b key).2 f
  | applyH b key k =>
    intro hne
    simp only [step]
    cases hh : s.handle b key with
    | none => rfl
    | some id =>
      simp only []
      rw [(applyCb_spec he hi id k).2.1]
      exact (applyImp_spec he hi id (.cb k)).2.1 f (fun h => hne id hh h.symm)
  | retH b key =>
    intro hne
    simp only [step]
    cases hh : s.handle b key with
    | none => rfl
    | some id =>
      simp only []
      split
      · rfl
      · obtain ⟨w1, w2, _, _, w5⟩ := whens_spec hi id
        rw [(applyImp_spec he w1 id (.stub s.nStubs)).2.1 f (by rw [(w5 id).1]; exact fun h => hne id hh h.symm), w2]
  | cancelH b key =>
    intro hne
    simp only [step]
    cases hh : s.handle b key with
    | none => rfl
    | some id => exact (cancelMocker_spec he hi id).2.1 f (fun h => hne id hh h.symm)
  | keepS b => intro _; exact congrFun (getStruct_spec hi b).2 f
  | sapply b key k origin kept =>
    intro hne
    simp only [step]
    cases h : structOf s b kept with
    | none => rfl
    | some r =>
      obtain ⟨ir, tr⟩ := structOf_spec hi b kept r h
      simp only []
      rw [(doApply_spec he ir r.2 key k origin).2 f hne, tr]
  | sret b key origin kept =>
    intro hne
    simp only [step]
    cases h : structOf s b kept with
    | none => rfl
    | some r =>
      obtain ⟨ir, tr⟩ := structOf_spec hi b kept r h
      simp only []
      rw [(doRet_spec he ir r.2 key origin).2 f hne, tr]
  | scancel b key kept =>
    intro hne
    simp only [step]
    cases h : structOf s b kept with
    | none => rfl
    | some r =>
      obtain ⟨ir, tr⟩ := structOf_spec hi b kept r h
      simp only []
      rw [(doCancel_spec he ir r.2 key).2 f hne, tr]
  | skeep b key kept =>
    intro _
    simp only [step]
    cases h : structOf s b kept with
    | none => rfl
    | some r =>
      obtain ⟨ir, tr⟩ := structOf_spec hi b kept r h
      simp only []
      rw [(doKeep_spec ir r.2 b key).2, tr]
  | other b => intro _; rfl
  | applyBad b key => intro _; exact congrFun (getMocker_spec hi b key).2.1 f

/-- **Looking the struct mocker up again returns the same one.**  `b.Struct(x)` hands out the cached `*CachedMethodMocker`
    as long as its `Canceled()` is false — also before its first `.Method()` call, when it has no children yet — so mocks
    made through a kept `sm := b.Struct(x)` and through later `b.Struct(x)` lookups live in the same child cache, which is the
    one `Reset` walks (`resetB`, `reset_restores` with the struct mocker as cache owner). -/
theorem struct_lookup_stable (s : St) (b o : Nat) (hc : s.scache b = some o) (hn : s.scanceled o = false) :
    getStruct s b = (s, o) := by
  unfold getStruct
  simp [hc, hn]

/-- "function `t` is mocked with implementation `imp`" in state `post`: its bytes are the pristine bytes with exactly one entry jump,
    which differs from the pristine entry and leads to `imp` — to the implementation's own funcval, or, for a generic
    target, to an installed dictionary-dropping adapter that forwards to it -/
def MockedWith (env : Env) (post : St) (t : Nat) (imp : Imp) : Prop :=
  ∃ a, post.text t = overwrite (env.pristine t) (jumpTo a) ∧ jumpTo a ≠ (env.pristine t).take 13 ∧ Denotes env post a imp ∧
    (env.generic t = false → a = impAddr env imp)

/-- re-mock through any cache owner whose entry for the key is cancelled (or absent): `Apply` succeeds -/
theorem remock_core {env : Env} (he : EnvOk env) {s1 : St} (i1 : Inv env s1) (o key k : Nat)
    (hcan : ∀ id, s1.cache o key = some id → (s1.mockers id).canceled = true)
    (hsz : 13 < env.funcSize (key % 1000))
    (hnop : Gen.Amd64.checkAlreadyPatch ((env.pristine (key % 1000)).take 13) = false) :
    (doApply env s1 o key k none).2 = none ∧ MockedWith env (doApply env s1 o key k none).1 (key % 1000) (.cb k) := by
  -- the mocker handed out is fresh: no sticky Origin
  have hfresh : ((getMocker s1 o key).1.mockers (getMocker s1 o key).2).origin = none ∧
      ((getMocker s1 o key).1.mockers (getMocker s1 o key).2).target = key % 1000 := by
    refine ⟨?_, (getMocker_spec i1 o key).2.2.1⟩
    unfold getMocker
    cases hc : s1.cache o key with
    | none => simp [getMocker.fresh, upd]
    | some id => simp [hcan id hc, getMocker.fresh, upd]
  obtain ⟨g1, g2, g3, _, _⟩ := getMocker_spec i1 o key
  -- replaceFunc takes the success exit
  have hok : (applyImp env (getMocker s1 o key).1 (getMocker s1 o key).2 (.cb k)).2 = none := by
    have hp := (unpatchValue_spec he g1 (key % 1000)).2.1
    unfold applyImp replaceFunc
    simp only [hfresh.1, hfresh.2, C02L.jump_length, register]
    have : ¬ (13 ≥ env.funcSize (key % 1000)) := by omega
    simp only [this, if_false, hp, hnop]
    simp [mkGuard]
  have c := applyCb_spec he g1 (getMocker s1 o key).2 k
  have hstep : doApply env s1 o key k none = applyCb env (getMocker s1 o key).1 (getMocker s1 o key).2 k := rfl
  have hok' : (doApply env s1 o key k none).2 = none := by rw [hstep, c.2.2.1]; exact hok
  exact ⟨hok', doApply_ok he i1 o key k none hok'⟩

/-- **Re-mock after Reset works.** After any history followed by `Reset b`, `b.…Apply(cb k)` on a key of `b` (no `Origin`)
    succeeds whenever goom's own preconditions hold for the target (longer than the jump, first byte not the NOP sentinel),
    and leaves exactly one entry jump over the pristine bytes that leads to the callback (`MockedWith`). -/
theorem remock_after_reset {env : Env} (he : EnvOk env) (ops : List Op) (b key k : Nat)
    (hsz : 13 < env.funcSize (key % 1000))
    (hnop : Gen.Amd64.checkAlreadyPatch ((env.pristine (key % 1000)).take 13) = false) :
    let s1 := (step env (run env (init env) ops) (.reset b)).1
    (step env s1 (.apply b key k none)).2 = none ∧ MockedWith env (step env s1 (.apply b key k none)).1 (key % 1000) (.cb k) := by
  intro s1
  have hi := reachable_inv_init he ops
  obtain ⟨i1, c1, _, cn1, _⟩ := resetB_spec he hi b
  refine remock_core he i1 b key k ?_ hsz hnop
  intro id hc
  exact cn1 key id (by rw [← c1]; exact hc)

/-- **A refused (re-)mock installs nothing.**  When `Apply` panics — the origin placeholder is refused inside `replaceFunc`, after
    the previous patch has been taken off — the target has its pristine bytes: neither the new jump nor the jump of an earlier,
    already reset mock is (re-)installed. -/
theorem refused_apply_leaves_pristine {env : Env} (he : EnvOk env) {s : St} (hi : Inv env s) (o key k : Nat) (origin : Option Nat) (e : Err)
    (h : (doApply env s o key k origin).2 = some e) :
    (doApply env s o key k origin).1.text (key % 1000) = env.pristine (key % 1000) := by
  obtain ⟨g1, _, g3, _, _⟩ := getMocker_spec hi o key
  obtain ⟨o1, _, _, _, _, o6⟩ := setOrigin_spec g1 (getMocker s o key).2 origin
  have ht : ((setOrigin (getMocker s o key).1 (getMocker s o key).2 origin).mockers (getMocker s o key).2).target = key % 1000 := by
    rw [(o6 _).1, g3]
  obtain ⟨_, c2, c3, _, _⟩ := applyCb_spec he o1 (getMocker s o key).2 k
  have h' : (applyImp env (setOrigin (getMocker s o key).1 (getMocker s o key).2 origin) (getMocker s o key).2 (.cb k)).2 ≠ none := by
    rw [← c3]; intro hn; rw [show (applyCb env _ _ k).2 = (doApply env s o key k origin).2 from rfl, h] at hn; cases hn
  have a := (applyImp_spec he o1 (getMocker s o key).2 (.cb k)).2.2.2.1 h'
  rw [ht] at a
  show (applyCb env _ _ _).1.text _ = _
  rw [c2]; exact a

/-- **A function shorter than the entry jump is refused every time it is offered**, whatever the patch table holds (a refused
    origin is registered too), and nothing is written to it or to anything else. -/
theorem too_short_always_refused {env : Env} (he : EnvOk env) {s : St} (hi : Inv env s) (f : Nat) (to : BitVec 64) (tramp : Option Nat)
    (hshort : env.funcSize f ≤ 13) :
    (replaceFunc env s f to tramp).2 = .error .tooSmall ∧ (replaceFunc env s f to tramp).1.text f = env.pristine f ∧
    ∀ x, x ≠ f → (replaceFunc env s f to tramp).1.text x = s.text x := by
  obtain ⟨_, r2, r3, _⟩ := replaceFunc_spec he hi f to tramp
  refine ⟨?_, r2, r3⟩
  unfold replaceFunc
  simp only [C02L.jump_length]
  have : 13 ≥ env.funcSize f := hshort
  simp [this]

/-- **`Unpatch` of a function that carries no patch changes nothing** (monkey.go:150 `unpatchValue`): in particular not the code of
    the functions it calls. -/
theorem unpatch_unpatched_noop (s : St) (f : Nat) (h : s.patches f = none) : unpatchValue s f = s := by
  unfold unpatchValue; simp [h]

/-- no operation changes what `Canceled()` answers for a struct mocker: it stays false -/
theorem scanceled_never {env : Env} (ops : List Op) (o : Nat) : (run env (init env) ops).scanceled o = false := by
  have key : ∀ (ops : List Op) (s : St), (run env s ops).scanceled = s.scanceled := by
    intro ops
    induction ops with
    | nil => intro s; rfl
    | cons op ops ih => intro s; show (run env (step env s op).1 ops).scanceled = _; rw [ih, step_scanceled]
  rw [key]; rfl

/-- **Re-mock after Reset works for method keys too** (vias `Struct(x).Method(m)` / `.ExportMethod(m)`): after any history
    followed by `Reset b`, `Apply(cb k)` on a method key — through a fresh `b.Struct(x)` lookup (`kept = false`) or through
    the kept struct mocker (`kept = true`), provided that one is the builder's struct mocker `o` — succeeds under goom's own
    preconditions and leaves exactly the jump to the callback. -/
theorem remock_after_reset_struct {env : Env} (he : EnvOk env) (ops : List Op) (b key k o : Nat) (kept : Bool)
    (hsc : (run env (init env) ops).scache b = some o)
    (hkept : kept = true → (run env (init env) ops).shandle b = some o)
    (hsz : 13 < env.funcSize (key % 1000))
    (hnop : Gen.Amd64.checkAlreadyPatch ((env.pristine (key % 1000)).take 13) = false) :
    let s1 := (step env (run env (init env) ops) (.reset b)).1
    (step env s1 (.sapply b key k none kept)).2 = none ∧
    MockedWith env (step env s1 (.sapply b key k none kept)).1 (key % 1000) (.cb k) := by
  intro s1
  have hi := reachable_inv_init he ops
  obtain ⟨i1, c1, sc1, _, cn2⟩ := resetB_spec he hi b
  have haux := resetB_aux (run env (init env) ops) b
  have hscan : s1.scanceled o = false := by
    have e : s1.scanceled = (run env (init env) ops).scanceled := congrArg (fun t => t.2.2.2.2.2.1) haux
    rw [e]; exact scanceled_never ops o
  have hsh : s1.shandle = (run env (init env) ops).shandle := congrArg (fun t => t.2.2.2.2.2.2) haux
  have hsc1 : s1.scache b = some o := by
    have : s1.scache = (run env (init env) ops).scache := sc1
    rw [this]; exact hsc
  have hst : structOf s1 b kept = some (s1, o) := by
    unfold structOf
    cases kept with
    | true => simp [hsh, hkept rfl]
    | false => simp [struct_lookup_stable s1 b o hsc1 hscan]
  have hstep : step env s1 (.sapply b key k none kept) = doApply env s1 o key k none := by
    simp [step, hst]
  rw [hstep]
  refine remock_core he i1 o key k ?_ hsz hnop
  intro id hc
  exact cn2 o key id hsc (by rw [← c1]; exact hc)

/-- **A kept handle that is re-applied is live again for the builder.**  If the handle kept for (b, key) is the builder's
    cache entry and `Apply` through it succeeds (e.g. after the handle's own `Cancel`), the next builder lookup of the same
    key returns that same mocker and creates nothing — so `Cancel` after a fresh lookup and `Reset` (`reset_restores`) reach the live
    mock.  (This is what `m.canceled = false` in `applyBy*` is for.) -/
theorem relookup_after_handle_apply {env : Env} (he : EnvOk env) {s : St} (hi : Inv env s) (b key k id : Nat)
    (hh : s.handle b key = some id) (hc : s.cache b key = some id)
    (hok : (step env s (.applyH b key k)).2 = none) :
    getMocker (step env s (.applyH b key k)).1 b key = ((step env s (.applyH b key k)).1, id) := by
  have hst : step env s (.applyH b key k) = applyCb env s id k := by simp [step, hh]
  rw [hst] at hok ⊢
  obtain ⟨_, _, _, c4, c5⟩ := applyCb_spec he hi id k
  have hcache : (applyCb env s id k).1.cache b key = some id := by rw [c4]; exact hc
  unfold getMocker
  simp [hcache, c5 hok]

/-! ## behaviour classes -/

/-- **The entry jump dispatches to the funcval it names** (C15's `amd64_entry` for the regenerated emitter): executing the 13
    bytes `jumpTo a` at any entry address loads `RDX := a` and continues at the code pointer stored in the funcval, `[a]`. -/
theorem entry_dispatch (e a : BitVec 64) (m : X86.Mach) :
    X86.exec (jumpTo a) { m with rip := e } = some { m with rip := m.mem64 a, rdx := a } :=
  C15.amd64_entry e a m

/-- the class an implementation has when it runs -/
def classOf : Imp → Beh
  | .cb k => .cb k
  | .stub n => .stub n

/-- **The behaviour class is determined by the entry bytes** (any state, distinct funcvals at distinct addresses):
    pristine entry ⇒ `orig`; the jump to callback `k`'s funcval ⇒ `cb k`; the jump to the `n`-th MakeFunc stub ⇒ `stub n`;
    the jump to an installed adapter (generic targets) ⇒ the class of what the adapter forwards to. -/
theorem behaviour_of_text {env : Env} {nCb nS nA : Nat} (ha : AddrOk env nCb nS nA) (s : St) (f : Nat)
    (hS : s.nStubs ≤ nS) (hA : s.nAdapt ≤ nA) :
    ((s.text f).take 13 = (env.pristine f).take 13 → behaviour env s nCb f = .orig) ∧
    (∀ k, k < nCb → (s.text f).take 13 = jumpTo (env.cbAddr k) → jumpTo (env.cbAddr k) ≠ (env.pristine f).take 13 →
      behaviour env s nCb f = .cb k) ∧
    (∀ n, n < s.nStubs → (s.text f).take 13 = jumpTo (env.stubAddr n) → jumpTo (env.stubAddr n) ≠ (env.pristine f).take 13 →
      behaviour env s nCb f = .stub n) ∧
    (∀ n imp, n < s.nAdapt → s.adapt n = some imp → (s.text f).take 13 = jumpTo (env.adaptAddr n) →
      jumpTo (env.adaptAddr n) ≠ (env.pristine f).take 13 → behaviour env s nCb f = classOf imp) := by
  refine ⟨fun h => by simp [behaviour, h], ?_, ?_, ?_⟩
  · intro k hk h hne
    have hfind : (List.range nCb).find? (fun k' => decide ((s.text f).take 13 = jumpTo (env.cbAddr k'))) = some k := by
      apply find?_unique _ k _ (List.mem_range.mpr hk) (by simp [h])
      intro x hx hp
      have hp' : (s.text f).take 13 = jumpTo (env.cbAddr x) := by simpa using hp
      exact ha.cb_inj x k (List.mem_range.mp hx) hk (jumpTo_inj _ _ (by rw [← hp', h]))
    unfold behaviour
    simp only []
    rw [if_neg (by rw [h]; exact hne), hfind]
  · intro n hn h hne
    have hcb : (List.range nCb).find? (fun k' => decide ((s.text f).take 13 = jumpTo (env.cbAddr k'))) = none := by
      rw [List.find?_eq_none]
      intro x hx hp
      have hp' : (s.text f).take 13 = jumpTo (env.cbAddr x) := by simpa using hp
      exact ha.disjoint x n (by omega) (jumpTo_inj _ _ (by rw [← hp', h]))
    have hfind : (List.range s.nStubs).find? (fun n' => decide ((s.text f).take 13 = jumpTo (env.stubAddr n'))) = some n := by
      apply find?_unique _ n _ (List.mem_range.mpr hn) (by simp [h])
      intro x hx hp
      have hp' : (s.text f).take 13 = jumpTo (env.stubAddr x) := by simpa using hp
      have := List.mem_range.mp hx
      exact ha.stub_inj x n (by omega) (by omega) (jumpTo_inj _ _ (by rw [← hp', h]))
    unfold behaviour
    simp only []
    rw [if_neg (by rw [h]; exact hne), hcb]
    simp only []
    rw [hfind]
  · intro n imp hn hi h hne
    have hcb : (List.range nCb).find? (fun k' => decide ((s.text f).take 13 = jumpTo (env.cbAddr k'))) = none := by
      rw [List.find?_eq_none]
      intro x hx hp
      have hp' : (s.text f).take 13 = jumpTo (env.cbAddr x) := by simpa using hp
      exact ha.adapt_cb x n (by omega) (jumpTo_inj _ _ (by rw [← hp', h]))
    have hst : (List.range s.nStubs).find? (fun n' => decide ((s.text f).take 13 = jumpTo (env.stubAddr n'))) = none := by
      rw [List.find?_eq_none]
      intro x hx hp
      have hp' : (s.text f).take 13 = jumpTo (env.stubAddr x) := by simpa using hp
      have := List.mem_range.mp hx
      exact ha.adapt_stub x n (by omega) (by omega) (jumpTo_inj _ _ (by rw [← hp', h]))
    have hfind : (List.range s.nAdapt).find? (fun n' => decide ((s.text f).take 13 = jumpTo (env.adaptAddr n'))) = some n := by
      apply find?_unique _ n _ (List.mem_range.mpr hn) (by simp [h])
      intro x hx hp
      have hp' : (s.text f).take 13 = jumpTo (env.adaptAddr x) := by simpa using hp
      have := List.mem_range.mp hx
      exact ha.adapt_inj x n (by omega) (by omega) (jumpTo_inj _ _ (by rw [← hp', h]))
    unfold behaviour
    simp only []
    rw [if_neg (by rw [h]; exact hne), hcb]
    simp only []
    rw [hst]
    simp only []
    unfold adaptClass
    rw [hfind]
    simp only [hi]
    cases imp <;> rfl

theorem hb_cb {nCb N k : Nat} (h : k < nCb) :
    (∀ k', Imp.cb k = Imp.cb k' → k' < nCb) ∧ (∀ n, Imp.cb k = Imp.stub n → n < N) := by
  constructor
  · intro k' e; cases e; exact h
  · intro n e; cases e

theorem hb_stub {nCb N n : Nat} (h : n < N) :
    (∀ k', Imp.stub n = Imp.cb k' → k' < nCb) ∧ (∀ n', Imp.stub n = Imp.stub n' → n' < N) := by
  constructor
  · intro k' e; cases e
  · intro n' e; cases e; exact h

/-- the class of a function whose entry is a jump to something that runs `imp` -/
theorem behaviour_of_denotes {env : Env} {nCb nS nA : Nat} (ha : AddrOk env nCb nS nA) (s : St) (f : Nat)
    (hS : s.nStubs ≤ nS) (hA : s.nAdapt ≤ nA) (a : BitVec 64) (imp : Imp)
    (h5 : (s.text f).take 13 = jumpTo a) (h6 : jumpTo a ≠ (env.pristine f).take 13) (hd : Denotes env s a imp)
    (hb : (∀ k, imp = .cb k → k < nCb) ∧ (∀ n, imp = .stub n → n < s.nStubs)) :
    behaviour env s nCb f = classOf imp := by
  rcases hd with e | ⟨n, hn, e, hi⟩
  · subst e
    cases imp with
    | cb k => exact (behaviour_of_text ha s f hS hA).2.1 k (hb.1 k rfl) h5 h6
    | stub n => exact (behaviour_of_text ha s f hS hA).2.2.1 n (hb.2 n rfl) h5 h6
  · subst e
    exact (behaviour_of_text ha s f hS hA).2.2.2 n imp hn hi h5 h6

/-- **Ownership, all histories.** -/
theorem reachable_own {env : Env} (he : EnvOk env) (ops : List Op) : ∀ {s : St}, Inv env s → Own env s → Own env (run env s ops) := by
  induction ops with
  | nil => intro s _ ho; exact ho
  | cons op ops ih => intro s hi ho; exact ih (inv_step he hi op) (own_step he hi ho op)

/-- what the entry bytes of `f` are in a state satisfying both invariants -/
theorem entry_cases {env : Env} (he : EnvOk env) {s : St} (hi : Inv env s) (ho : Own env s) (f : Nat) :
    s.text f = env.pristine f ∨
    ∃ id imp a, id < s.nMockers ∧ (s.mockers id).target = f ∧ (s.mockers id).imp = some imp ∧ (s.mockers id).canceled = false ∧
      s.text f = overwrite (env.pristine f) (jumpTo a) ∧ Denotes env s a imp ∧
      (s.text f).take 13 = jumpTo a ∧ jumpTo a ≠ (env.pristine f).take 13 ∧
      (∀ n, imp = .stub n → (s.mockers id).hasWhen = true ∧ n < s.nStubs) := by
  rcases hi.txt f with h | ⟨p, g, h1, h2, h3, h4⟩
  · exact Or.inl h
  · by_cases hp : s.text f = env.pristine f
    · exact Or.inl hp
    · right
      obtain ⟨id, imp, hlt, hg, him, ⟨a, hj, hd⟩, hc, hs⟩ := ho.own f p g trivial h1 h2 h3 hp
      have hr := hi.reg f p g h1 h2
      have htg : (s.mockers id).target = f := by rw [← (hi.mg id g hg).2]; exact hr.2
      rw [hj] at h4
      refine ⟨id, imp, a, hlt, htg, him, hc, h4, hd, ?_, ?_, hs⟩
      · rw [h4]; have := overwrite_takeJ (env.pristine f) (jumpTo a); rw [C02L.jump_length] at this; exact this
      · intro e
        apply hp
        rw [h4, e]
        exact overwrite_take _ _ (by have := he f; omega)

/-- **Behaviour classes over all reachable states.**  After any history, every function either has its pristine bytes and
    class `orig`, or its entry is exactly one jump that leads — directly, or for a generic target through an installed
    dictionary-dropping adapter — to the current implementation of an allocated, not cancelled mocker `μ` of that function:
    class `cb k` if `μ.imp` is callback `k`, class `stub n` if it is the `n`-th MakeFunc stub, and then `μ` still owns the
    `When` that stub serves (`hasWhen`). -/
theorem behaviour_reachable {env : Env} {nCb nS nA : Nat} (he : EnvOk env) (ha : AddrOk env nCb nS nA) (ops : List Op) (f : Nat)
    (hS : (run env (init env) ops).nStubs ≤ nS) (hA : (run env (init env) ops).nAdapt ≤ nA) :
    let s := run env (init env) ops
    (s.text f = env.pristine f ∧ behaviour env s nCb f = .orig) ∨
    ∃ μ imp a, μ < s.nMockers ∧ (s.mockers μ).target = f ∧ (s.mockers μ).imp = some imp ∧ (s.mockers μ).canceled = false ∧
      s.text f = overwrite (env.pristine f) (jumpTo a) ∧ Denotes env s a imp ∧ s.text f ≠ env.pristine f ∧
      (∀ k, imp = .cb k → k < nCb → behaviour env s nCb f = .cb k) ∧
      (∀ n, imp = .stub n → (s.mockers μ).hasWhen = true ∧ behaviour env s nCb f = .stub n) := by
  intro s
  have hi : Inv env s := reachable_inv_init he ops
  have ho : Own env s := reachable_own he ops (inv_init env) (own_init env)
  rcases entry_cases he hi ho f with h | ⟨id, imp, a, hlt, htg, him, hc, h4, hd, h5, h6, hs⟩
  · exact Or.inl ⟨h, (behaviour_of_text ha s f hS hA).1 (by rw [h])⟩
  · right
    refine ⟨id, imp, a, hlt, htg, him, hc, h4, hd, ?_, ?_, ?_⟩
    · intro e; apply h6; rw [← h5, e]
    · intro k hk hlt'; subst hk
      exact behaviour_of_denotes ha s f hS hA a (.cb k) h5 h6 hd (hb_cb hlt')
    · intro n hn; subst hn
      exact ⟨(hs n rfl).1, behaviour_of_denotes ha s f hS hA a (.stub n) h5 h6 hd (hb_stub (hs n rfl).2)⟩

/-- **A step that does not write `g` does not change `g`'s class** (reachable states; the stub counter and the adapter table may grow). -/
theorem behaviour_stable {env : Env} {nCb nS nA : Nat} (he : EnvOk env) (ha : AddrOk env nCb nS nA) (ops : List Op) (op : Op) (g : Nat)
    (hS : (step env (run env (init env) ops) op).1.nStubs ≤ nS) (hA : (step env (run env (init env) ops) op).1.nAdapt ≤ nA) :
    let s := run env (init env) ops
    (step env s op).1.text g = s.text g → behaviour env (step env s op).1 nCb g = behaviour env s nCb g := by
  intro s htx
  have hS : (step env s op).1.nStubs ≤ nS := hS
  have hA : (step env s op).1.nAdapt ≤ nA := hA
  have hi : Inv env s := reachable_inv_init he ops
  have ho : Own env s := reachable_own he ops (inv_init env) (own_init env)
  have hmono := step_nStubs_mono env s op
  have hle := step_adaptLe env s op
  rcases entry_cases he hi ho g with h | ⟨id, imp, a, _, _, _, _, _, hd, h5, h6, hs⟩
  · rw [(behaviour_of_text ha s g (by omega) (by have := hle.1; omega)).1 (by rw [h]),
        (behaviour_of_text ha _ g hS hA).1 (by rw [htx, h])]
  · -- same bytes; the class is read off what the jump denotes, which the step does not change
    have h5' : ((step env s op).1.text g).take 13 = jumpTo a := by rw [htx]; exact h5
    cases imp with
    | cb k =>
      by_cases hk : k < nCb
      · rw [behaviour_of_denotes ha _ g hS hA a (.cb k) h5' h6 (hd.mono hle) (hb_cb hk),
            behaviour_of_denotes ha s g (by omega) (by have := hle.1; omega) a (.cb k) h5 h6 hd (hb_cb hk)]
      · -- a callback the observer does not know: reached only through an adapter, or unknown in both states
        rcases hd with e | ⟨n, hn, e, hin⟩
        · subst e
          -- neither search sees it, in either state
          have nost : ∀ N, N ≤ nS → (List.range N).find? (fun n => decide ((s.text g).take 13 = jumpTo (env.stubAddr n))) = none := by
            intro N hN
            rw [List.find?_eq_none]
            intro x hx hp
            have hp' : (s.text g).take 13 = jumpTo (env.stubAddr x) := by simpa using hp
            have := List.mem_range.mp hx
            exact ha.disjoint k x (by omega) (jumpTo_inj _ _ (by have h5'' : (s.text g).take 13 = jumpTo (env.cbAddr k) := h5; rw [← h5'', hp']))
          have noad : ∀ (st : St), st.nAdapt ≤ nA → adaptClass env st ((s.text g).take 13) = .unknown := by
            intro st hst
            unfold adaptClass
            have : (List.range st.nAdapt).find? (fun n => decide ((s.text g).take 13 = jumpTo (env.adaptAddr n))) = none := by
              rw [List.find?_eq_none]
              intro x hx hp
              have hp' : (s.text g).take 13 = jumpTo (env.adaptAddr x) := by simpa using hp
              have := List.mem_range.mp hx
              exact ha.adapt_cb k x (by omega) (jumpTo_inj _ _ (by have h5'' : (s.text g).take 13 = jumpTo (env.cbAddr k) := h5; rw [← h5'', hp']))
            rw [this]
          unfold behaviour
          simp only [htx, nost _ hS, nost _ (by omega : s.nStubs ≤ nS), noad _ hA, noad s (by have := hle.1; omega)]
        · subst e
          rw [(behaviour_of_text ha _ g hS hA).2.2.2 n (.cb k) (Nat.lt_of_lt_of_le hn hle.1) (by rw [hle.2 n hn]; exact hin) h5' h6,
              (behaviour_of_text ha s g (by omega) (by have := hle.1; omega)).2.2.2 n (.cb k) hn hin h5 h6]
    | stub n =>
      have hlt := (hs n rfl).2
      rw [behaviour_of_denotes ha _ g hS hA a (.stub n) h5' h6 (hd.mono hle) (hb_stub (by omega)),
          behaviour_of_denotes ha s g (by omega) (by have := hle.1; omega) a (.stub n) h5 h6 hd (hb_stub hlt)]

/-- the function and callback an `Apply` goes to, for every way of reaching the mocker: builder lookup, struct-level lookup
    (fresh or through a kept struct mocker), kept mocker handle -/
def applyTarget (s : St) : Op → Option (Nat × Nat)
  | .apply _ key k _ => some (key % 1000, k)
  | .sapply b key k _ kept => (structOf s b kept).map (fun _ => (key % 1000, k))
  | .applyH b key k => (s.handle b key).map (fun id => ((s.mockers id).target, k))
  | _ => none

/-- the function a `Return`/`When` goes to -/
def retTarget (s : St) : Op → Option Nat
  | .ret _ key _ => some (key % 1000)
  | .sret b key _ kept => (structOf s b kept).map (fun _ => key % 1000)
  | .retH b key => (s.handle b key).map (fun id => (s.mockers id).target)
  | _ => none

/-- the class of a function that is `MockedWith` an implementation the observer knows -/
theorem class_of_mockedWith {env : Env} {nCb nS nA : Nat} (ha : AddrOk env nCb nS nA) (post : St) (t : Nat) (imp : Imp)
    (hS : post.nStubs ≤ nS) (hA : post.nAdapt ≤ nA) (hm : MockedWith env post t imp)
    (hb : (∀ k, imp = .cb k → k < nCb) ∧ (∀ n, imp = .stub n → n < post.nStubs)) :
    behaviour env post nCb t = classOf imp := by
  obtain ⟨a, h1, h2, h3, _⟩ := hm
  refine behaviour_of_denotes ha post t hS hA a imp ?_ h2 h3 hb
  rw [h1]
  have := overwrite_takeJ (env.pristine t) (jumpTo a); rw [C02L.jump_length] at this; exact this

/-- **After a successful `Apply(cb k)` — through any via — the target's class is exactly `cb k`**: its bytes are the pristine bytes
    with one entry jump that leads to that callback's funcval (`entry_dispatch` says the jump enters the funcval it names) — for
    a generic target through a freshly installed adapter that drops the dictionary word and forwards the arguments. -/
theorem apply_class {env : Env} {nCb nS nA : Nat} (he : EnvOk env) (ha : AddrOk env nCb nS nA) {s : St} (hi : Inv env s) (op : Op) (t k : Nat)
    (hop : applyTarget s op = some (t, k)) (hok : (step env s op).2 = none) (hk : k < nCb)
    (hS : (step env s op).1.nStubs ≤ nS) (hA : (step env s op).1.nAdapt ≤ nA) :
    MockedWith env (step env s op).1 t (.cb k) ∧ behaviour env (step env s op).1 nCb t = .cb k := by
  have key : MockedWith env (step env s op).1 t (.cb k) := by
    cases op with
    | apply b key k' origin =>
      simp only [applyTarget, Option.some.injEq, Prod.mk.injEq] at hop
      obtain ⟨rfl, rfl⟩ := hop
      exact doApply_ok he hi b key k' origin hok
    | sapply b key k' origin kept =>
      simp only [applyTarget] at hop
      cases hs : structOf s b kept with
      | none => rw [hs] at hop; cases hop
      | some r =>
        rw [hs] at hop
        simp only [Option.map_some, Option.some.injEq, Prod.mk.injEq] at hop
        obtain ⟨rfl, rfl⟩ := hop
        simp only [step, hs] at hok ⊢
        exact doApply_ok he (structOf_spec hi b kept r hs).1 r.2 key k' origin hok
    | applyH b key k' =>
      simp only [applyTarget] at hop
      cases hh : s.handle b key with
      | none => rw [hh] at hop; cases hop
      | some id =>
        rw [hh] at hop
        simp only [Option.map_some, Option.some.injEq, Prod.mk.injEq] at hop
        obtain ⟨rfl, rfl⟩ := hop
        simp only [step, hh] at hok ⊢
        obtain ⟨_, c2, c3, _, _⟩ := applyCb_spec he hi id k'
        have h' : (applyImp env s id (.cb k')).2 = none := by rw [← c3]; exact hok
        refine ⟨dest env s id (.cb k'), by rw [c2]; exact (applyImp_spec he hi id (.cb k')).2.2.1 h', applyImp_ok_ne he hi id (.cb k') h',
          ((applyImp_adapt env s id (.cb k')).2 h').mono (adaptLe_of_aux2 (applyCb_aux2 env s id k')), ?_⟩
        intro hng; simp [dest, hng]
    | _ => simp [applyTarget] at hop
  exact ⟨key, class_of_mockedWith ha _ t (.cb k) hS hA key (hb_cb hk)⟩

/-- **After a successful `Return`/`When` that builds a new `When` — through any via — the target's class is exactly the
    new stub**: the stub counter grew by one, and the entry is one jump over the pristine bytes that leads to that stub (through a
    fresh adapter for a generic target). -/
theorem ret_class {env : Env} {nCb nS nA : Nat} (he : EnvOk env) (ha : AddrOk env nCb nS nA) {s : St} (hi : Inv env s) (op : Op) (t : Nat)
    (hop : retTarget s op = some t) (hok : (step env s op).2 = none) (hnew : (step env s op).1.nStubs = s.nStubs + 1)
    (hS : (step env s op).1.nStubs ≤ nS) (hA : (step env s op).1.nAdapt ≤ nA) :
    MockedWith env (step env s op).1 t (.stub s.nStubs) ∧ behaviour env (step env s op).1 nCb t = .stub s.nStubs := by
  have fresh : ∀ (s0 : St) (o key : Nat) (origin : Option Nat), (doRet env s0 o key origin).1.nStubs = s0.nStubs + 1 →
      ((setOrigin (getMocker s0 o key).1 (getMocker s0 o key).2 origin).mockers (getMocker s0 o key).2).hasWhen = false := by
    intro s0 o key origin h
    cases hw : ((setOrigin (getMocker s0 o key).1 (getMocker s0 o key).2 origin).mockers (getMocker s0 o key).2).hasWhen with
    | false => rfl
    | true =>
      exfalso
      have e : (setOrigin (getMocker s0 o key).1 (getMocker s0 o key).2 origin).nStubs = s0.nStubs := by
        rw [aux_ns (setOrigin_aux _ _ _), getMocker_nStubs]
      unfold doRet at h
      simp only [hw, if_true] at h
      omega
  have key : MockedWith env (step env s op).1 t (.stub s.nStubs) := by
    cases op with
    | ret b key origin =>
      simp only [retTarget, Option.some.injEq] at hop
      subst hop
      exact (doRet_ok he hi b key origin (fresh s b key origin hnew) hok).1
    | sret b key origin kept =>
      simp only [retTarget] at hop
      cases hs : structOf s b kept with
      | none => rw [hs] at hop; cases hop
      | some r =>
        rw [hs] at hop
        simp only [Option.map_some, Option.some.injEq] at hop
        subst hop
        simp only [step, hs] at hok hnew ⊢
        have hn := structOf_nStubs s b kept r hs
        rw [← hn] at hnew ⊢
        exact (doRet_ok he (structOf_spec hi b kept r hs).1 r.2 key origin (fresh r.1 r.2 key origin hnew) hok).1
    | retH b key =>
      simp only [retTarget] at hop
      cases hh : s.handle b key with
      | none => rw [hh] at hop; cases hop
      | some id =>
        rw [hh] at hop
        simp only [Option.map_some, Option.some.injEq] at hop
        subst hop
        simp only [step, hh] at hok hnew ⊢
        cases hw : (s.mockers id).hasWhen with
        | true => simp only [hw, if_true] at hnew; omega
        | false =>
          simp only [hw, Bool.false_eq_true, if_false] at hok hnew ⊢
          obtain ⟨w1, _, _, _, w5⟩ := whens_spec hi id
          have a := (applyImp_spec he w1 id (.stub s.nStubs)).2.2.1 hok
          have b' := applyImp_ok_ne he w1 id (.stub s.nStubs) hok
          have d := (applyImp_adapt env (whens s id) id (.stub s.nStubs)).2 hok
          rw [(w5 id).1] at a b'
          refine ⟨_, a, b', d, ?_⟩
          intro hng; simp [dest, (w5 id).1, hng]
    | _ => simp [retTarget] at hop
  exact ⟨key, class_of_mockedWith ha _ t (.stub s.nStubs) hS hA key (hb_stub (by omega))⟩

/-- **Operations on one target never change another target's class**: `other_targets_untouched` (bytes) with
    `behaviour_stable` (class), over all reachable states. -/
theorem other_targets_class_unchanged {env : Env} {nCb nS nA : Nat} (he : EnvOk env) (ha : AddrOk env nCb nS nA) (ops : List Op) (op : Op)
    (f : Nat) (hS : (step env (run env (init env) ops) op).1.nStubs ≤ nS) (hA : (step env (run env (init env) ops) op).1.nAdapt ≤ nA)
    (hframe : (step env (run env (init env) ops) op).1.text f = (run env (init env) ops).text f) :
    behaviour env (step env (run env (init env) ops) op).1 nCb f = behaviour env (run env (init env) ops) nCb f :=
  behaviour_stable he ha ops op f hS hA hframe

/-- the hypotheses of the theorems above are satisfiable by a non-trivial state: two builders mock the same 16-byte
    function one after the other, the first builder resets: the image is pristine again and the invariant's
    right-hand alternative was inhabited in between. -/
def exEnv : Env where
  pristine := fun _ => [0x49#8, 0x3b#8, 0x66#8, 0x10#8, 0x76#8, 0x62#8, 0x55#8, 0x48#8, 0x89#8, 0xe5#8, 0x48#8, 0x83#8, 0xec#8, 0x18#8, 0x48#8, 0xb9#8]
  funcSize := fun _ => 64
  phSize := fun _ => 224
  fixOk := fun _ _ => true
  cbAddr := fun k => BitVec.ofNat 64 (0x6b3900 + 8 * (k % 1024))
  stubAddr := fun n => BitVec.ofNat 64 (0xc000000000 + 16 * n)
  generic := fun f => f == 5
  adaptAddr := fun n => BitVec.ofNat 64 (0xd000000000 + 16 * n)

example : EnvOk exEnv := by intro f; simp [exEnv]

example : let s := run exEnv (init exEnv) [.apply 0 3 1 none, .apply 1 3 2 (some 0)]
    s.text 3 ≠ exEnv.pristine 3 ∧ behaviour exEnv s 4 3 = .cb 2 ∧ s.cache 0 3 = some 0 ∧ (s.mockers 0).guard = some 0 ∧
    (s.guards 0).applied = true ∧ s.ph 0 = some 3 := by decide

example : let s := run exEnv (init exEnv) [.apply 0 3 1 none, .apply 1 3 2 (some 0), .reset 0]
    s.text 3 = exEnv.pristine 3 ∧ behaviour exEnv s 4 3 = .orig := by decide

/-- a struct mocker kept before its first `.Method()`, a fresh lookup in between, mocks through both: Reset restores both -/
example : let s := run exEnv (init exEnv) [.keepS 0, .sapply 0 2007 1 none false, .sapply 0 2008 2 none true]
    s.text 7 ≠ exEnv.pristine 7 ∧ s.text 8 ≠ exEnv.pristine 8 ∧ s.scache 0 = some 100 ∧ s.shandle 0 = some 100 ∧
    s.scanceled 100 = false ∧ (step exEnv s (.reset 0)).1.text 7 = exEnv.pristine 7 ∧
    (step exEnv s (.reset 0)).1.text 8 = exEnv.pristine 8 := by decide

example : AddrOk exEnv 4 16 16 := by
  refine ⟨?_, ?_, ?_, ?_, ?_, ?_⟩
  · intro k k' hk hk' h
    have := congrArg BitVec.toNat h
    simp only [exEnv, BitVec.toNat_ofNat] at this
    omega
  · intro n n' hn hn' h
    have := congrArg BitVec.toNat h
    simp only [exEnv, BitVec.toNat_ofNat] at this
    omega
  · intro k n hn h
    have := congrArg BitVec.toNat h
    simp only [exEnv, BitVec.toNat_ofNat] at this
    omega
  · intro n n' hn hn' h
    have := congrArg BitVec.toNat h
    simp only [exEnv, BitVec.toNat_ofNat] at this
    omega
  · intro k n hn h
    have := congrArg BitVec.toNat h
    simp only [exEnv, BitVec.toNat_ofNat] at this
    omega
  · intro m n hm hn h
    have := congrArg BitVec.toNat h
    simp only [exEnv, BitVec.toNat_ofNat] at this
    omega

/-- a generic target (function 5): the entry jump leads to an adapter, the class is the callback's / the stub's; Reset restores -/
example : let s := run exEnv (init exEnv) [.apply 0 5 1 none, .ret 1 5 none]
    s.nAdapt = 2 ∧ s.adapt 0 = some (.cb 1) ∧ s.adapt 1 = some (.stub 0) ∧ behaviour exEnv s 4 5 = .stub 0 ∧
    behaviour exEnv (run exEnv (init exEnv) [.apply 0 5 1 none]) 4 5 = .cb 1 ∧
    (run exEnv (init exEnv) [.apply 0 5 1 none]).text 5 = overwrite (exEnv.pristine 5) (jumpTo (exEnv.adaptAddr 0)) ∧
    (step exEnv s (.reset 1)).1.text 5 = exEnv.pristine 5 := by decide

/-- hypotheses of `apply_class` / `ret_class` / `behaviour_stable`: a callback through a kept struct mocker, then a stub on
    another function through a kept handle; both succeed, a new stub is created, the first target's class is unchanged -/
example : let s := run exEnv (init exEnv) [.keepS 0, .sapply 0 2007 1 none true, .keep 0 3]
    applyTarget (run exEnv (init exEnv) [.keepS 0]) (.sapply 0 2007 1 none true) = some (7, 1) ∧
    retTarget s (.retH 0 3) = some 3 ∧ (step exEnv s (.retH 0 3)).2 = none ∧
    (step exEnv s (.retH 0 3)).1.nStubs = s.nStubs + 1 ∧ (step exEnv s (.retH 0 3)).1.nStubs ≤ 16 ∧
    behaviour exEnv (step exEnv s (.retH 0 3)).1 4 3 = .stub 0 ∧ behaviour exEnv (step exEnv s (.retH 0 3)).1 4 7 = .cb 1 := by
  decide

/-- hypotheses of `remock_after_reset_struct`: the kept struct mocker is the builder's -/
example : let s := run exEnv (init exEnv) [.keepS 0, .sapply 0 2007 1 none false]
    s.scache 0 = some 100 ∧ s.shandle 0 = some 100 ∧
    (step exEnv (step exEnv s (.reset 0)).1 (.sapply 0 2007 2 none true)).2 = none := by decide

/-- hypotheses of `reset_step_restores` (struct level) and `cancel_restores` -/
example : let s := run exEnv (init exEnv) [.sapply 0 2007 1 none false, .apply 0 3 2 none]
    s.scache 0 = some 100 ∧ s.cache 100 2007 = some 0 ∧ (s.mockers 0).guard = some 0 ∧ (s.guards 0).applied = true ∧
    s.cache 0 3 = some 1 ∧ (s.mockers 1).canceled = false ∧ (s.mockers 1).guard = some 1 ∧ (s.guards 1).applied = true := by decide

/-- hypotheses of `refused_apply_leaves_pristine`: a re-mock after Reset whose placeholder is refused -/
example : let env := { exEnv with fixOk := fun _ _ => false }
    let s := run env (init env) [.apply 0 3 1 none, .reset 0]
    (doApply env s 0 3 2 (some 0)).2 = some .fixOrigin ∧ (doApply env s 0 3 2 (some 0)).1.text 3 = env.pristine 3 := by decide

example : 13 < exEnv.funcSize (3 % 1000) ∧ Gen.Amd64.checkAlreadyPatch ((exEnv.pristine (3 % 1000)).take 13) = false := by decide

end C02
