import GoomVerif.Model.Iface
import GoomVerif.Lemmas.C07L
/-! C07 — interface-variable mocks dispatch each method to its own replacement and restore. -/
namespace C07
open Iface

/-- **slot = index in the type's method set.**  `methodIndexOf` (the slot goom writes) is the position at which a compiled
    call finds the method: `typ.Method(methodIndexOf typ m).Name = m`, it is the first such position, and it equals
    `List.idxOf`, for every method set and every method in it. -/
theorem slot_is_type_index (ms : List String) (m : String) (h : m ∈ ms) :
    ms[methodIndexOf ms m]? = some m ∧ (∀ j < methodIndexOf ms m, ms[j]? ≠ some m) ∧ methodIndexOf ms m = ms.idxOf m := by
  obtain ⟨j, h1, h2, h3⟩ := C07L.methodIndexFrom_spec ms m 0 h
  have e : methodIndexOf ms m = j := by simp [methodIndexOf, h1]
  refine ⟨by rw [e]; exact h2, by rw [e]; exact h3, ?_⟩
  simp [methodIndexOf, C07L.methodIndexFrom_idxOf ms m 0 h]

example : methodIndexOf (sortMeths ["b", "Zed", "Abc", "_x"]) "_x" = 2 := by decide

end C07
