import GoomVerif.Model.Iface
import GoomVerif.Lemmas.C07L
/-! C07 — interface-variable mocks dispatch each method to its own replacement and restore.

All theorems are about `Model/Iface.lean` in the repaired configuration `Cfg.fixed` (F11: mocker cache keyed by variable,
F9: every callback retained in `PContext`); the counter-examples for the unrepaired configuration are in
`Findings/C07F.lean`.  "Reachable" = result of `run` on an arbitrary list of builder-API operations (`mock.Interface(&v).Method(..)..` with fitting
or rejected callbacks, `mock.Reset()`, dropping the builder) from an initial state in which every variable holds nil or a
real implementation.  Operations through a *kept* `CachedInterfaceMocker` handle (`Op.mockH`) are modelled and run
differentially; about them only the function-level theorems `canceled_context_fresh_itab` and `within_bound` are proved. -/
namespace C07
open Iface C07L

/-- reachable states of the repaired code -/
def Reachable (s : St) : Prop :=
  ∃ types vtyp vars0 sigs ops, (∀ v, ∃ x, vars0 v = Words.val x) ∧ (∀ op ∈ ops, op.builderApi = true)
    ∧ run Cfg.fixed (St.init types vtyp vars0 sigs) ops = some s

theorem reachable_inv {s : St} (h : Reachable s) : Inv Cfg.fixed s := by
  obtain ⟨types, vtyp, vars0, sigs, ops, hv, hapi, hr⟩ := h
  exact inv_run Cfg.fixed ops _ s (inv_init Cfg.fixed types vtyp vars0 sigs hv) hapi hr

/-- **slot = index in the type's method set — full statement** (kept visible; FALSE for the code as it is, finding F27: an
    embedded interface of another package can bring an unexported method with the same *name* as an own method, and
    `methodIndexOf` compares names only, see `Findings/C07F.lean`). -/
def SlotIsTypeIndex : Prop :=
  ∀ (ms : List String) (m : String), m ∈ ms → ms[methodIndexOf ms m]? = some m

/-- **slot = index in the type's method set** for every method whose name is not shadowed (`NoShadow`: no other member of
    the method set has the same name — always true unless a foreign unexported method of the same name is embedded):
    `typ.Method(methodIndexOf typ m)` is `m`, it is the first such position, and it equals `List.idxOf` — for every method
    set, exported or not, any position. -/
theorem slot_is_type_index_partial (ms : List String) (m : String) (h : m ∈ ms) (hns : NoShadow ms m) :
    ms[methodIndexOf ms m]? = some m ∧ (∀ j < methodIndexOf ms m, ms[j]? ≠ some m) ∧ methodIndexOf ms m = ms.idxOf m := by
  obtain ⟨j, h1, h2, h3⟩ := methodIndexFrom_spec ms m 0 h hns
  have e : methodIndexOf ms m = j := by simp [methodIndexOf, h1]
  refine ⟨by rw [e]; exact h2, by rw [e]; exact h3, methodIndexOf_eq_idxOf ms m h hns⟩

/-- `NoShadow` holds for every method of a set whose names are pairwise different (the usual case) -/
theorem noShadow_of_unique_names (ms : List String) (m : String) (hm : m ∈ ms)
    (huniq : ∀ x ∈ ms, ∀ y ∈ ms, baseName x = baseName y → x = y) (hb : baseName m = m) : NoShadow ms m := by
  intro x hx
  constructor
  · intro e
    exact (huniq x hx m hm (by rw [hb, ← e])).symm
  · intro e; rw [← e, hb]

example : methodIndexOf (sortMeths ["b", "Zed", "Abc", "_x"]) "_x" = 2 := by decide

/-- **a mocked method reaches its own (latest) replacement, with the caller's argument; the variable is non-nil.**
    In every reachable state, after `b.Interface(&v).Method(m).Apply(cb)` / `.As(cb).Return(r)` / `.As(cb).When(a).Return(r)`
    succeeded, the variable holds a fake interface and calling `m` through it reaches exactly the new callback `k`
    (`Res.cb k` = the user's closure runs on the caller's arguments; `Res.ret k` = the stubbed value; a `When(a)` stub answers
    only for argument `a`). -/
theorem dispatch_mocked (s s' : St) (hr : Reachable s) (b v : Nat) (m : String) (kind : Kind)
    (csig : Nat) (hns : NoShadow (s.types (s.vtyp v)) m)
    (hs : step Cfg.fixed s (.mock b v m kind csig) = some (s', .ok)) (x : Nat) :
    (∃ f c, s'.vars v = .fake f c) ∧
    call s' v m x = (match kind with
      | .ap => .cb s.ncb
      | .rt => .ret s.ncb
      | .wn a => if x = a then .ret s.ncb else .panic "nomatch") := by
  obtain ⟨f, c, g, i, h1, h2, h3, h4, h5, h6, h7, h8, h9⟩ :=
    mock_dispatch Cfg.fixed rfl s s' b v m kind csig (reachable_inv hr) hns hs
  refine ⟨⟨f, c, h1⟩, ?_⟩
  simp only [call, h1, h2, h3, h5, upd_same, h7]
  cases kind with
  | ap => rfl
  | rt => simp [cbOf, h8, whenOf, invokeWhen]
  | wn a =>
    simp only [cbOf, h8, whenOf, invokeWhen, List.find?]
    by_cases e : x = a
    · subst e; simp
    · have : ¬ (a = x) := fun h => e h.symm
      simp [e, this]

/-- the hypotheses are satisfiable: a successful `When` mock of an unexported method in a three-method interface -/
example : (step Cfg.fixed (St.init (fun _ => sortMeths ["b", "Zed", "Abc"]) (fun _ => 0) (fun _ => .val 0) (fun _ => [0, 0, 0]))
    (.mock 0 1 "b" (.wn 9) 0)).map (·.2) = some .ok := by decide

theorem idxOf_inj (ms : List String) (a b : String) (ha : a ∈ ms) (h : ms.idxOf a = ms.idxOf b) : a = b := by
  induction ms with
  | nil => cases ha
  | cons x xs ih =>
    rw [List.idxOf_cons, List.idxOf_cons] at h
    by_cases e1 : x = a
    · by_cases e2 : x = b
      · rw [← e1, ← e2]
      · have h1 : (x == a) = true := by simpa using e1
        have h2 : (x == b) = false := by simpa using e2
        rw [h1, h2] at h; simp at h
    · have h1 : (x == a) = false := by simpa using e1
      by_cases e2 : x = b
      · have h2 : (x == b) = true := by simpa using e2
        rw [h1, h2] at h; simp at h
      · have h2 : (x == b) = false := by simpa using e2
        rw [h1, h2] at h
        simp only [cond_false, Nat.add_right_cancel_iff] at h
        have ha' : a ∈ xs := by
          cases ha with
          | head => exact absurd rfl e1
          | tail _ h' => exact h'
        exact ih ha' h

/-- **every other method keeps its slot; an unmocked method panics "method not implements".**  After a successful mock of
    `m`, for every other method `m'` of the interface (any order of mocking, any subset): if this was the first mock in the
    mocker's context the itab is fresh and calling `m'` panics with the not-implemented message; otherwise the itab is the
    one the context already had and `m'` keeps exactly the slot it had — so, by induction over the history, each method's slot
    is its own latest replacement or `notImplement`. -/
theorem dispatch_frame (s s' : St) (hr : Reachable s) (b v : Nat) (m m' : String) (kind : Kind) (csig : Nat)
    (hns : NoShadow (s.types (s.vtyp v)) m) (hs : step Cfg.fixed s (.mock b v m kind csig) = some (s', .ok)) (hm' : m' ∈ s.types (s.vtyp v)) (hne : m' ≠ m) (x : Nat) :
    ∃ f c, s'.vars v = .fake f c ∧
      ((f = s.nfake ∧ call s' v m' x = .panic "notimpl") ∨
       (f < s.nfake ∧ (s'.fakes f).fn ((s.types (s.vtyp v)).idxOf m') = (s.fakes f).fn ((s.types (s.vtyp v)).idxOf m'))) := by
  obtain ⟨f, c, g, i, h1, h2, h3, h4, h5, h6, h7, h8, h9⟩ :=
    mock_dispatch Cfg.fixed rfl s s' b v m kind csig (reachable_inv hr) hns hs
  have hidx : (s.types (s.vtyp v)).idxOf m' ≠ (s.types (s.vtyp v)).idxOf m :=
    fun h => hne (idxOf_inj _ _ _ hm' h)
  refine ⟨f, c, h1, ?_⟩
  rcases h6 with ⟨e1, e2⟩ | ⟨e1, e2⟩
  · left
    refine ⟨e1, ?_⟩
    simp only [call, h1, h2, h3, h5, upd_other _ _ _ _ hidx, e2]
  · right
    exact ⟨e1, by rw [h5, upd_other _ _ _ _ hidx, e2]⟩

/-- (definitional: one arm of `call`) **unmocked ⇒ panics**: a slot that still holds `notImplement` makes the call panic with the not-implemented class. -/
theorem unmocked_panics (s : St) (v f c : Nat) (m : String) (x : Nat) (hv : s.vars v = .fake f c)
    (hslot : (s.fakes f).fn ((s.types (s.vtyp v)).idxOf m) = .notImpl) : call s v m x = .panic "notimpl" := by
  simp only [call, hv, hslot]

/-- **different variables are mocked independently.**  In every reachable state, whatever `b.Interface(&v).Method(m)…`
    does (success or panic), every other variable `w` — of the same interface type or not — keeps its two words and the
    function table it dispatches through. -/
theorem vars_independent (s s' : St) (hr : Reachable s) (b v : Nat) (m : String) (kind : Kind) (csig : Nat) (st : Status)
    (hs : step Cfg.fixed s (.mock b v m kind csig) = some (s', st)) (w : Nat) (hw : w ≠ v) :
    s'.vars w = s.vars w ∧ ∀ f c, s.vars w = .fake f c → s'.fakes f = s.fakes f :=
  mock_other_vars Cfg.fixed rfl s s' b v m kind csig st (reachable_inv hr) hs w hw

/-- **a rejected mock changes nothing a caller can see.**  If the callback's signature does not fit the method
    (`proxy.Interface` returns an error), the call panics and no variable, fake interface or context (hence no backup,
    no canceled flag) changes — for the mocked variable too. -/
theorem rejected_mock_changes_nothing (s s' : St) (hr : Reachable s) (b v : Nat) (m : String) (kind : Kind) (csig : Nat)
    (st : Status) (hrej : sigFits s (s.vtyp v) m csig = false)
    (hs : step Cfg.fixed s (.mock b v m kind csig) = some (s', st)) :
    (∃ c, st = .panic c) ∧ s'.vars = s.vars ∧ s'.fakes = s.fakes := by
  cases st with
  | ok =>
    obtain ⟨s2, _, j, _, hI2, hj, _, hvar, _, _, _, _, _, e5, _, _, _, hfit⟩ :=
      mockStep_ok Cfg.fixed s s' b v m kind csig (reachable_inv hr) hs
    have htyp : (s2.cms j).typ = s.vtyp v := by rw [(hI2.e j hj).2, hvar rfl, e5]
    rw [htyp, hrej] at hfit
    cases hfit
  | panic c =>
    obtain ⟨_, h1, h2⟩ := mockStep_panic Cfg.fixed s s' b v m kind csig c (reachable_inv hr) hs
    exact ⟨⟨c, rfl⟩, h1, h2⟩

example : (step Cfg.fixed (St.init (fun _ => sortMeths ["b", "Zed"]) (fun _ => 0) (fun _ => .val 0) (fun _ => [0, 0, 0]))
    (.mock 0 1 "b" .ap 7)).map (·.2) = some (.panic "applyerr") := by decide

/-- Reset puts back the saved words — special case kept for reference (builder whose interface mocks all belong to one
    variable's context `c`); the general statement is `reset_restores_all` / `reset_any_order` below: after
    `b.Reset()` the variable saved in the context holds exactly the saved words again if any mock had been applied, no
    other variable changes, and the context is canceled (so the next `Interface(&v)` starts a fresh context). -/
theorem reset_restores_words (s s' : St) (b c v : Nat) (w : Words)
    (hone : ∀ i ∈ mmsOf s b, (s.mms i).ctx = c) (hb : (s.ctxs c).backup = some (v, w))
    (hs : step Cfg.fixed s (.reset b) = some (s', .ok)) :
    ((∃ i ∈ mmsOf s b, (s.mms i).hasGuard = true) → s'.vars v = w ∧ (s'.ctxs c).canceled = true)
    ∧ (∀ u, u ≠ v → s'.vars u = s.vars u) := by
  simp only [step, resetStep] at hs
  cases hq : cancelMMs s (mmsOf s b) with
  | none => simp [hq] at hs
  | some s1 =>
    simp only [hq, Option.map_some, Option.some.injEq, Prod.mk.injEq, and_true] at hs
    subst hs
    obtain ⟨g1, g2, _⟩ := cancelMMs_single c v w _ s s1 hone hb hq
    constructor
    · intro ⟨i, hi, hg⟩
      have hany : (mmsOf s b).any (fun i => (s.mms i).hasGuard) = true := List.any_eq_true.mpr ⟨i, hi, hg⟩
      rw [g1, hany]
      exact ⟨by simp, g2 hany⟩
    · intro u hu
      rw [g1]
      split
      · exact upd_other _ _ _ _ hu
      · rfl

/-- satisfiable and non-trivial: a variable holding implementation 5, two methods mocked (Apply and Return), Reset -/
example : (run Cfg.fixed (St.init (fun _ => sortMeths ["B", "A"]) (fun _ => 0) (fun _ => .val 5) (fun _ => [0, 0, 0]))
    [.mock 0 0 "A" .ap 0, .mock 0 0 "B" .rt 0, .reset 0]).map (fun s => (s.vars 0, (s.ctxs 0).canceled)) = some (.val 5, true) := by decide

/-- (function-level restatement of `cancelMM`) **Cancel through one method's handle restores the whole variable**: `Method(m).Cancel()` on a method mocker that was
    applied (has a guard) writes the saved words back, cancels the *shared* context (so the next `Interface(&v)` starts a
    fresh mocker and context, for every method) and touches no other variable; on a mocker that was never applied it
    changes no variable at all. -/
theorem cancel_one_method_restores_variable (s s' : St) (i v : Nat) (w : Words)
    (hb : (s.ctxs (s.mms i).ctx).backup = some (v, w)) (hs : cancelMM s i = some s') :
    s'.vars = (if (s.mms i).hasGuard then upd s.vars v w else s.vars)
    ∧ ((s.mms i).hasGuard = true → (s'.ctxs (s.mms i).ctx).canceled = true) := by
  obtain ⟨_, _, h3, h4, _⟩ := cancelMM_single s s' i _ v w rfl hb hs
  exact ⟨h3, h4⟩

example : (run Cfg.fixed (St.init (fun _ => sortMeths ["B", "A"]) (fun _ => 0) (fun _ => .val 5) (fun _ => [0, 0, 0]))
    [.mock 0 0 "A" .ap 0, .mock 0 0 "B" .rt 0, .cancelM 0 0 "A", .mock 0 0 "B" .rt 0]).map
      (fun s => (callSlot s 0 "A", callSlot s 0 "B", (s.ctxs 0).canceled)) = some (some .notImpl, some (.stub 2), true) := by decide

/-- (function-level restatement of `proxyInterface`; the state-level statement is `first_mock_backs_up_current_value`)
    **the saved words are the value the variable held before the first mock**: `proxy.Interface` (the only writer of the
    backup) stores the variable's current words when the context has no backup yet and never overwrites an existing one
    (`BackUpTo` only the first time). -/
theorem backup_only_first_time (cfg : Cfg) (s s' : St) (v t c : Nat) (m : String) (k : Nat) (cb : Cb)
    (hs : proxyInterface cfg s v t c m k cb = some s') :
    (s'.ctxs c).backup = (match (s.ctxs c).backup with | none => some (v, s.vars v) | some bk => some bk) := by
  simp only [proxyInterface] at hs
  split at hs
  · cases hs
  · split at hs <;> (cases hs; simp only [upd_same]; cases (s.ctxs c).backup <;> rfl)

/-- (function-level restatement of `proxyInterface`) **a canceled context never reuses its old itab** (kept handles after `Reset`): when `proxy.Interface` runs on a context
    that was canceled, the variable gets a *fresh* fake interface whose table has the new callback at the method's index
    and `notImplement` in every other slot — no method keeps a replacement from before the `Reset`. -/
theorem canceled_context_fresh_itab (cfg : Cfg) (s s' : St) (v t c : Nat) (m : String) (k : Nat) (cb : Cb)
    (hc : (s.ctxs c).canceled = true) (hs : proxyInterface cfg s v t c m k cb = some s') :
    s'.vars v = .fake s.nfake c ∧
    (s'.fakes s.nfake).fn = upd (fun _ => Slot.notImpl) (methodIndexOf (s.types t) m) (.stub k) := by
  simp only [proxyInterface] at hs
  split at hs
  · cases hs
  · split at hs
    · rename_i hcan; rw [hc] at hcan; cases hcan
    · cases hs; simp

/-- **the table bound** (`hack.MaxMethod`): a method of an interface with at most `maxMethod` methods has its index inside
    the fabricated table, so `proxy.Interface` never leaves the modelled fragment; at the bound (index ≥ `maxMethod`, only
    possible for wider interfaces) the model has no successor state (`none`; the Go code panics with index out of range). -/
theorem within_bound (cfg : Cfg) (s : St) (v t c : Nat) (m : String) (k : Nat) (cb : Cb) :
    (m ∈ s.types t → NoShadow (s.types t) m → (s.types t).length ≤ maxMethod → (proxyInterface cfg s v t c m k cb).isSome = true)
    ∧ (maxMethod ≤ methodIndexOf (s.types t) m → proxyInterface cfg s v t c m k cb = none) := by
  constructor
  · intro hm hns hl
    have h1 := (slot_is_type_index_partial _ _ hm hns).2.2
    have h2 : (s.types t).idxOf m < (s.types t).length := List.idxOf_lt_length_of_mem hm
    simp only [proxyInterface]
    split
    · omega
    · split <;> rfl
  · intro h
    simp only [proxyInterface]
    split
    · rfl
    · omega

example : maxMethod = 999 := rfl

/-- **retained while held**: in every reachable state, for every variable that holds a fake interface, every object that
    the call path reaches only through GC-invisible references — the fabricated itab (the itab word of an interface is
    not scanned), and the closure / MakeFunc impl whose address is an immediate in each slot's stub — is reachable from the
    variable through pointers the collector follows (variable → IContext → PContext → ifaceCache / retained). -/
theorem retained_while_held (s : St) (hr : Reachable s) (v : Nat) : ∀ n ∈ needed s v, Reach s (.var v) n :=
  needed_reachable Cfg.fixed s rfl (reachable_inv hr) v

/-- satisfiable: a reachable state with three live mocks, builder dropped, everything needed is reachable -/
example : (run Cfg.fixed (St.init (fun _ => sortMeths ["B", "A"]) (fun _ => 0) (fun _ => .val 0) (fun _ => [0, 0, 0]))
    [.mock 0 0 "A" .rt 0, .mock 0 0 "B" .rt 0, .mock 0 0 "A" .ap 0, .drop 0]).map
      (fun s => ((needed s 0).length, (needed s 0).all (fun n => (bfs s 64 [.var 0] []).contains n))) = some (3, true) := by decide

theorem reachable_inv2 {s : St} (h : Reachable s) : Inv2 Cfg.fixed s := by
  obtain ⟨types, vtyp, vars0, sigs, ops, hv, hapi, hr⟩ := h
  exact inv2_run Cfg.fixed ops _ s (inv_init Cfg.fixed types vtyp vars0 sigs hv) (inv2_init Cfg.fixed types vtyp vars0 sigs) hapi hr

/-- variable `v` is mocked through builder `b`, with saved words `w`: one of the builder's interface method mockers has a
    guard (a mock was applied through it) and its context backed up `v` holding `w` -/
def MockedThrough (s : St) (b v : Nat) (w : Words) : Prop := Binds s (mmsOf s b) v w

/-- the saved words of a variable are unique within a builder (whatever number of variables, of equal or different
    interface types, the builder mocks): a builder has one cached mocker, hence one context, per variable -/
theorem saved_words_unique (s : St) (hr : Reachable s) (b v : Nat) (w w' : Words)
    (h1 : MockedThrough s b v w) (h2 : MockedThrough s b v w') : w = w' := by
  have hI := reachable_inv hr
  have hJ := reachable_inv2 hr
  have key : ∀ i w, i ∈ mmsOf s b → (s.ctxs (s.mms i).ctx).backup = some (v, w) →
      ∃ p ∈ (s.blds b).mockers, (s.mms i).ctx = (s.cms p.2).ctx ∧ p.1 = (s.vtyp v, v + 1) := by
    intro i w hi hb
    simp only [mmsOf, List.mem_flatMap, List.mem_map] at hi
    obtain ⟨p, hp, q, hq, e⟩ := hi
    subst e
    have hj := hJ.f b p hp
    have hc := (hJ.r p.2 hj q hq).2
    refine ⟨p, hp, hc, ?_⟩
    rw [hc] at hb
    have hv := hI.m p.2 hj v w hb
    rw [hJ.k rfl b p hp, ← hv]
  obtain ⟨i, hi, _, hb⟩ := h1
  obtain ⟨i', hi', _, hb'⟩ := h2
  obtain ⟨p, hp, c1, k1⟩ := key i w hi hb
  obtain ⟨p', hp', c2, k2⟩ := key i' w' hi' hb'
  have e := hJ.n b p p' hp hp' (by rw [k1, k2])
  subst e
  rw [c1] at hb
  rw [c2, hb] at hb'
  cases hb'
  rfl

/-- **`Builder.Reset` never panics and restores every variable** (full strength: any reachable state — rejected mocks,
    per-method Cancel, any number of variables of equal and different interface types in the builder, other builders —
    and any iteration order `l` of the builder's mocker map): the cancel loop completes; afterwards every variable mocked
    through `b` holds its saved words, the context of every applied mock of `b` is canceled, and every variable not
    mocked through `b` (in particular every variable of another builder) is unchanged. -/
theorem reset_any_order (s : St) (hr : Reachable s) (b : Nat) (l : List Nat) (hl : ∀ i, i ∈ l ↔ i ∈ mmsOf s b) :
    ∃ s', cancelMMs s l = some s'
      ∧ (∀ v w, MockedThrough s b v w → s'.vars v = w)
      ∧ (∀ i ∈ mmsOf s b, (s.mms i).hasGuard = true → (s'.ctxs (s.mms i).ctx).canceled = true)
      ∧ (∀ u, (¬ ∃ w, MockedThrough s b u w) → s'.vars u = s.vars u) := by
  have hJ := reachable_inv2 hr
  have hb : ∀ u w, Binds s l u w ↔ MockedThrough s b u w := by
    intro u w
    constructor
    · rintro ⟨i, hi, h⟩; exact ⟨i, (hl i).mp hi, h⟩
    · rintro ⟨i, hi, h⟩; exact ⟨i, (hl i).mpr hi, h⟩
  obtain ⟨s', h0, _, _, _, h4, h5, h6⟩ := cancelMMs_gen l s (fun i _ hg => (hJ.g i hg).2)
  refine ⟨s', h0, ?_, ?_, ?_⟩
  · intro v w hm
    exact h5 v w ((hb v w).mpr hm) (fun w' hw' => saved_words_unique s hr b v w' w ((hb v w').mp hw') hm)
  · intro i hi hg
    exact h6 i ((hl i).mpr hi) hg
  · intro u hu
    exact h4 u (fun ⟨w, hw⟩ => hu ⟨w, (hb u w).mp hw⟩)

/-- **Reset does not panic** in any reachable state (a guard never exists without a backup — what a rejected `Apply`
    must not break). -/
theorem reset_total (s : St) (hr : Reachable s) (b : Nat) : ∃ s', step Cfg.fixed s (.reset b) = some (s', .ok) := by
  obtain ⟨s', h0, _⟩ := reset_any_order s hr b (mmsOf s b) (fun _ => Iff.rfl)
  exact ⟨s', by simp [step, resetStep, h0]⟩

/-- **Reset restores every variable of the builder** (the statement for the model's own iteration order) -/
theorem reset_restores_all (s s' : St) (hr : Reachable s) (b : Nat) (hs : step Cfg.fixed s (.reset b) = some (s', .ok)) :
    (∀ v w, MockedThrough s b v w → s'.vars v = w)
    ∧ (∀ i ∈ mmsOf s b, (s.mms i).hasGuard = true → (s'.ctxs (s.mms i).ctx).canceled = true)
    ∧ (∀ u, (¬ ∃ w, MockedThrough s b u w) → s'.vars u = s.vars u) := by
  obtain ⟨s'', h0, h1⟩ := reset_any_order s hr b (mmsOf s b) (fun _ => Iff.rfl)
  simp only [step, resetStep, h0, Option.map_some, Option.some.injEq, Prod.mk.injEq, and_true] at hs
  subst hs
  exact h1

/-- **the map iteration order of `Builder.Reset` is irrelevant** for the variables -/
theorem reset_order_irrelevant (s s1 s2 : St) (hr : Reachable s) (b : Nat) (l1 l2 : List Nat)
    (h1 : ∀ i, i ∈ l1 ↔ i ∈ mmsOf s b) (h2 : ∀ i, i ∈ l2 ↔ i ∈ mmsOf s b)
    (e1 : cancelMMs s l1 = some s1) (e2 : cancelMMs s l2 = some s2) : s1.vars = s2.vars := by
  obtain ⟨t1, a0, a1, _, a3⟩ := reset_any_order s hr b l1 h1
  obtain ⟨t2, b0, b1, _, b3⟩ := reset_any_order s hr b l2 h2
  rw [e1] at a0; cases a0
  rw [e2] at b0; cases b0
  funext u
  by_cases h : ∃ w, MockedThrough s b u w
  · obtain ⟨w, hw⟩ := h
    rw [a1 u w hw, b1 u w hw]
  · rw [a3 u h, b3 u h]

/-- two variables of the same interface type (one nil, one holding implementation 5) and one of another type, mocked in one
    builder, a third variable in another builder; a rejected mock and a per-method Cancel in between; `Reset` of builder 0
    restores variables 0 and 1 and leaves builder 1's variable 2 mocked -/
example : (run Cfg.fixed (St.init (fun _ => sortMeths ["B", "A"]) (fun v => if v = 2 then 1 else 0)
      (fun v => if v = 1 then .val 5 else .val 0) (fun _ => [0, 0, 0]))
    [.mock 0 0 "A" .ap 0, .mock 0 1 "B" .rt 0, .mock 1 2 "A" .ap 0, .mock 0 1 "A" .ap 7,
     .mock 0 0 "B" .ap 0, .cancelM 0 0 "A", .mock 0 0 "B" .rt 0, .reset 0]).map
      (fun s => (s.vars 0, s.vars 1, callSlot s 2 "A")) = some (.val 0, .val 5, some (.stub 2)) := by decide

theorem interfaceOf_reuse (cfg : Cfg) (s : St) (b v j : Nat) (hl : lookup (bkey cfg s v) (s.blds b).mockers = some j)
    (hlive : (s.ctxs (s.cms j).ctx).canceled = false) : interfaceOf cfg s b v = (j, s) := by
  simp [interfaceOf, hl, hlive]

/-- **while the context is live the itab is reused** (closes the gap left by the disjunction of `dispatch_frame`): in a
    reachable state in which variable `v` holds the fake interface `f` of context `c`, `c` is not cancelled and it is the
    context of the builder's cached mocker for `v`, a further successful mock of `m` through that builder keeps `v`
    pointing at the SAME fake interface and changes exactly one slot — every other method keeps its slot, hence (by
    induction over a history without Reset/Cancel) every mocked method keeps its own latest replacement. -/
theorem dispatch_frame_live (s s' : St) (hr : Reachable s) (b v : Nat) (m : String) (kind : Kind) (csig : Nat)
    (hns : NoShadow (s.types (s.vtyp v)) m) (hs : step Cfg.fixed s (.mock b v m kind csig) = some (s', .ok))
    (f c j : Nat) (hv : s.vars v = .fake f c) (hl : lookup (bkey Cfg.fixed s v) (s.blds b).mockers = some j)
    (hc : (s.cms j).ctx = c) (hlive : (s.ctxs c).canceled = false) :
    s'.vars v = .fake f c ∧ (s'.fakes f).fn = upd (s.fakes f).fn ((s.types (s.vtyp v)).idxOf m) (.stub s.ncb) := by
  have hI := reachable_inv hr
  have hI0 := inv_ncb Cfg.fixed s (s.ncb + 1) hI
  simp only [step, mockStep] at hs
  rw [interfaceOf_reuse Cfg.fixed { s with ncb := s.ncb + 1 } b v j hl (by rw [hc]; exact hlive)] at hs
  simp only at hs
  obtain ⟨s2, s3, i, hI2, hfit, g1, g2, g3, g4, g5, hmem, g6, g7, g8, g9, g10, g11, hp, he⟩ :=
    mockOn_ok Cfg.fixed _ s' j m kind _ s.ncb hI0 hs
  have hj : j < s.ncm := hI.f b _ j hl
  have hvar : (s.cms j).var = v := hI.h rfl b v j hl
  have htyp : (s2.cms j).typ = s.vtyp v := by rw [g5]; simp only; rw [(hI.e j hj).2, hvar]
  have hctx : (s2.cms j).ctx = c := by rw [g3]; exact hc
  have hcn : (s2.ctxs (s2.cms j).ctx).canceled = false := by rw [hctx, g2]; exact hlive
  obtain ⟨f', g, o1, o2, o3, o4, o5, o6, o7⟩ := proxyInterface_out Cfg.fixed s2 s3 _ _ _ m _ _ hcn hp
  have hlk : lookup (s.vtyp v) (s.ctxs c).cache = some f := (hI.a v f c hv).2
  have hmem' : m ∈ s.types (s.vtyp v) := by
    rw [htyp, g9] at hmem; exact hasMethod_mem _ _ hmem hns
  have hf : f' = f ∧ g = (s.fakes f).fn := by
    rcases o3 with ⟨_, _, h3⟩ | ⟨h1, h2⟩
    · rw [htyp, hctx, g2] at h3; simp only at h3; rw [hlk] at h3; cases h3
    · rw [htyp, hctx, g2] at h1; simp only at h1; rw [hlk] at h1; cases h1
      exact ⟨rfl, by rw [h2, g7]⟩
  obtain ⟨e1, e2⟩ := hf
  subst e1
  subst he
  constructor
  · simp only; rw [o1, g4]; simp only; rw [hvar, hctx]; exact upd_same _ _ _
  · simp only; rw [o2, upd_same, e2, htyp, g9]; simp only
    rw [methodIndexOf_eq_idxOf _ _ hmem' hns]


theorem interfaceOf_lookup (cfg : Cfg) (s : St) (b v : Nat) :
    lookup (bkey cfg s v) ((interfaceOf cfg s b v).2.blds b).mockers = some (interfaceOf cfg s b v).1 := by
  simp only [interfaceOf]
  split
  · rename_i j hj
    split
    · simp [freshCM, lookup_insertKV]
    · exact hj
  · simp [freshCM, lookup_insertKV]

theorem proxyInterface_frame (cfg : Cfg) (s s' : St) (v t c : Nat) (m : String) (k : Nat) (cb : Cb)
    (hs : proxyInterface cfg s v t c m k cb = some s') :
    s'.blds = s.blds ∧ s'.cms = s.cms ∧ s'.ncb = s.ncb ∧ (s'.ctxs c).canceled = (s.ctxs c).canceled := by
  simp only [proxyInterface] at hs
  split at hs
  · cases hs
  · split at hs <;> (cases hs; simp)

theorem methodOf_frame (s : St) (j : Nat) (m : String) :
    (methodOf s j m).2.blds = s.blds ∧ (methodOf s j m).2.ncb = s.ncb ∧ (∀ j', ((methodOf s j m).2.cms j').ctx = (s.cms j').ctx) := by
  simp only [methodOf]
  split
  · split
    · refine ⟨rfl, rfl, fun j' => ?_⟩
      by_cases e : j' = j
      · subst e; simp [freshMM]
      · simp [freshMM, upd_other _ _ _ _ e]
    · exact ⟨rfl, rfl, fun _ => rfl⟩
  · refine ⟨rfl, rfl, fun j' => ?_⟩
    by_cases e : j' = j
    · subst e; simp [freshMM]
    · simp [freshMM, upd_other _ _ _ _ e]

theorem mockOn_frame (cfg : Cfg) (s1 s' : St) (j : Nat) (m : String) (kind : Kind) (fits : Bool) (k : Nat)
    (hs : mockOn cfg s1 j m kind fits k = some (s', .ok)) :
    s'.blds = s1.blds ∧ s'.ncb = s1.ncb ∧ (∀ j', (s'.cms j').ctx = (s1.cms j').ctx) := by
  have mf := methodOf_frame s1 j m
  simp only [mockOn] at hs
  split at hs
  · cases hs
  split at hs
  · cases hs
  generalize methodOf s1 j m = r2 at hs mf
  obtain ⟨i, s2⟩ := r2
  simp only at hs mf
  obtain ⟨m1, m2, m3⟩ := mf
  have fin : ∀ (cb : Cb) (s3 : St) (f : Nat → MM), proxyInterface cfg s2 (s1.cms j).var (s1.cms j).typ (s1.cms j).ctx m k cb = some s3 →
      ({ s3 with mms := f } : St).blds = s1.blds ∧ ({ s3 with mms := f } : St).ncb = s1.ncb
        ∧ (∀ j', (({ s3 with mms := f } : St).cms j').ctx = (s1.cms j').ctx) := by
    intro cb s3 f hq
    obtain ⟨p1, p2, p3, _⟩ := proxyInterface_frame cfg s2 s3 _ _ _ m _ _ hq
    exact ⟨by simp only; rw [p1, m1], by simp only; rw [p3, m2], fun j' => by simp only; rw [p2]; exact m3 j'⟩
  cases kind with
  | ap =>
    simp only at hs
    split at hs
    · cases hs
    cases hq : proxyInterface cfg s2 (s1.cms j).var (s1.cms j).typ (s1.cms j).ctx m k .clo with
    | none => simp [hq] at hs
    | some s3 =>
      simp only [hq, Option.map_some, Option.some.injEq, Prod.mk.injEq, and_true] at hs
      subst hs; exact fin _ s3 _ hq
  | rt =>
    simp only at hs
    split at hs
    · cases hs
    split at hs
    · cases hs
    cases hq : proxyInterface cfg s2 (s1.cms j).var (s1.cms j).typ (s1.cms j).ctx m k (.mk i) with
    | none => simp [hq] at hs
    | some s3 =>
      simp only [hq, Option.map_some, Option.some.injEq, Prod.mk.injEq, and_true] at hs
      subst hs; exact fin _ s3 _ hq
  | wn a =>
    simp only at hs
    split at hs
    · cases hs
    split at hs
    · cases hs
    cases hq : proxyInterface cfg s2 (s1.cms j).var (s1.cms j).typ (s1.cms j).ctx m k (.mk i) with
    | none => simp [hq] at hs
    | some s3 =>
      simp only [hq, Option.map_some, Option.some.injEq, Prod.mk.injEq, and_true] at hs
      subst hs; exact fin _ s3 _ hq

/-- after a successful mock the builder's cached mocker for `v` exists, its context is live and `v` holds its fake -/
theorem mock_establishes_live (s s' : St) (hr : Reachable s) (b v : Nat) (m : String) (kind : Kind) (csig : Nat)
    (hs : step Cfg.fixed s (.mock b v m kind csig) = some (s', .ok)) :
    ∃ f c j, s'.vars v = .fake f c ∧ lookup (bkey Cfg.fixed s' v) (s'.blds b).mockers = some j ∧ (s'.cms j).ctx = c
      ∧ (s'.ctxs c).canceled = false ∧ s'.ncb = s.ncb + 1 ∧ s'.types = s.types ∧ s'.vtyp = s.vtyp := by
  have hI := reachable_inv hr
  have hI0 := inv_ncb Cfg.fixed s (s.ncb + 1) hI
  have f1 := interfaceOf_facts Cfg.fixed _ b v hI0
  have hI1 := inv_interfaceOf Cfg.fixed _ b v hI0
  have hlk := interfaceOf_lookup Cfg.fixed { s with ncb := s.ncb + 1 } b v
  simp only [step, mockStep] at hs
  generalize interfaceOf Cfg.fixed { s with ncb := s.ncb + 1 } b v = r1 at hs f1 hI1 hlk
  obtain ⟨j, s1⟩ := r1
  simp only at hs f1 hI1 hlk
  obtain ⟨f1a, f1b, f1c, f1d, f1e, f1f, f1g, f1h, f1i, f1j⟩ := f1
  obtain ⟨s2, s3, i, hI2, hfit, g1, g2, g3, g4, g5, hmem, g6, g7, g8, g9, g10, g11, hp, he⟩ :=
    mockOn_ok Cfg.fixed s1 s' j m kind _ s.ncb hI1 hs
  have mf := methodOf_facts s1 j m
  have hcn : (s2.ctxs (s2.cms j).ctx).canceled = false := by rw [g2, g3]; exact f1b
  obtain ⟨f', g, o1, o2, o3, o4, o5, o6, o7⟩ := proxyInterface_out Cfg.fixed s2 s3 _ _ _ m _ _ hcn hp
  obtain ⟨p1, p2, p3, p4⟩ := proxyInterface_frame Cfg.fixed s2 s3 _ _ _ m _ _ hp
  have hv : (s2.cms j).var = v := by rw [g4]; exact f1c rfl
  obtain ⟨q1, q2, q3⟩ := mockOn_frame Cfg.fixed s1 s' j m kind _ s.ncb hs
  have hc3 : (s3.ctxs (s2.cms j).ctx).canceled = false := by rw [p4]; exact hcn
  subst he
  refine ⟨f', (s2.cms j).ctx, j, ?_, ?_, ?_, ?_, ?_, ?_, ?_⟩
  · simp only; rw [o1, hv]; exact upd_same _ _ _
  · have e1 : s3.blds = s1.blds := q1
    have e2 : s3.vtyp = s.vtyp := by rw [o6, g10, f1h]
    have e3 : s1.vtyp = s.vtyp := f1h
    simp only [bkey] at hlk ⊢
    rw [e1, e2]; exact hlk
  · simp only; rw [p2]
  · exact hc3
  · have : s3.ncb = s1.ncb := q2
    simp only; rw [this, f1j]
  · simp only; rw [o5, g9, f1g]
  · simp only; rw [o6, g10, f1h]


theorem run_append (cfg : Cfg) (l1 l2 : List Op) : ∀ s, run cfg s (l1 ++ l2) = (run cfg s l1).bind fun s1 => run cfg s1 l2 := by
  induction l1 with
  | nil => intro s; simp [run]
  | cons op r ih =>
    intro s
    simp only [List.cons_append, run]
    cases step cfg s op with
    | none => simp
    | some p => simp [ih]

/-- reachable states are closed under builder-API steps -/
theorem reachable_step {s s1 : St} {op : Op} {st : Status} (hr : Reachable s) (hapi : op.builderApi = true)
    (hs : step Cfg.fixed s op = some (s1, st)) : Reachable s1 := by
  obtain ⟨types, vtyp, vars0, sigs, ops, hv, ha, hrun⟩ := hr
  refine ⟨types, vtyp, vars0, sigs, ops ++ [op], hv, ?_, ?_⟩
  · intro o ho
    rcases List.mem_append.mp ho with h | h
    · exact ha o h
    · simp at h; subst h; exact hapi
  · rw [run_append, hrun]; simp [run, hs]

/-- a history in which every step succeeds (status ok) -/
def runOk (cfg : Cfg) : St → List Op → Option St
  | s, [] => some s
  | s, op :: r => match step cfg s op with
    | some (s1, .ok) => runOk cfg s1 r
    | _ => none

/-- the slot table the property prescribes after mocking the methods `l` (in this order, callback ids counted from `k0`)
    on top of table `g`: each method's slot is its own LATEST replacement, every other slot is untouched -/
def specSlots (ms : List String) : List (String × Kind × Nat) → Nat → (Nat → Slot) → (Nat → Slot)
  | [], _, g => g
  | p :: r, k0, g => specSlots ms r (k0 + 1) (upd g (ms.idxOf p.1) (.stub k0))

/-- **trace-level dispatch theorem — any order, any subset, any number of re-mocks.**  From a reachable state in which `v`
    holds the fake interface of the live context of builder `b`'s mocker, after ANY sequence of successful mocks of `v`
    through `b` (Apply / Return / When, methods in any order, repeated or not) the variable still holds the same fake
    interface and its function table is exactly the table the property prescribes: every mocked method dispatches to its own
    latest replacement, every other slot is what it was (`notImplement` if the method was never mocked in this context). -/
theorem mock_sequence_slots (b v : Nat) (l : List (String × Kind × Nat)) : ∀ (s s' : St), Reachable s →
    (∀ p ∈ l, NoShadow (s.types (s.vtyp v)) p.1) →
    ∀ f c j, s.vars v = .fake f c → lookup (bkey Cfg.fixed s v) (s.blds b).mockers = some j → (s.cms j).ctx = c →
    (s.ctxs c).canceled = false →
    runOk Cfg.fixed s (l.map fun p => Op.mock b v p.1 p.2.1 p.2.2) = some s' →
    s'.vars v = .fake f c ∧ (s'.fakes f).fn = specSlots (s.types (s.vtyp v)) l s.ncb (s.fakes f).fn := by
  induction l with
  | nil =>
    intro s s' _ _ f c j hv _ _ _ hs
    simp only [List.map_nil, runOk, Option.some.injEq] at hs
    subst hs
    exact ⟨hv, rfl⟩
  | cons p r ih =>
    intro s s' hr hns f c j hv hl hc hlive hs
    simp only [List.map_cons, runOk] at hs
    cases hq : step Cfg.fixed s (.mock b v p.1 p.2.1 p.2.2) with
    | none => simp [hq] at hs
    | some q =>
      obtain ⟨s1, st⟩ := q
      cases st with
      | panic c' => simp [hq] at hs
      | ok =>
        simp only [hq] at hs
        have hns0 := hns p List.mem_cons_self
        obtain ⟨h1, h2⟩ := dispatch_frame_live s s1 hr b v p.1 p.2.1 p.2.2 hns0 hq f c j hv hl hc hlive
        obtain ⟨f', c', j', e1, e2, e3, e4, e5, e6, e7⟩ := mock_establishes_live s s1 hr b v p.1 p.2.1 p.2.2 hq
        rw [h1] at e1
        cases e1
        have hr1 : Reachable s1 := reachable_step hr rfl hq
        have hns1 : ∀ p' ∈ r, NoShadow (s1.types (s1.vtyp v)) p'.1 := by
          intro p' hp'; rw [e6, e7]; exact hns p' (List.mem_cons_of_mem _ hp')
        obtain ⟨r1, r2⟩ := ih s1 s' hr1 hns1 f c j' h1 e2 e3 e4 hs
        refine ⟨r1, ?_⟩
        rw [r2, e6, e7, e5, h2]
        rfl

/-- non-vacuous: B, A again, B again (Return, When, Apply) on a two-method interface after a first mock of A -/
example : (runOk Cfg.fixed (St.init (fun _ => sortMeths ["B", "A"]) (fun _ => 0) (fun _ => .val 0) (fun _ => [0, 0]))
    [.mock 0 0 "A" .ap 0, .mock 0 0 "B" .rt 0, .mock 0 0 "A" (.wn 3) 0, .mock 0 0 "B" .ap 0]).map
      (fun s => (callSlot s 0 "A", callSlot s 0 "B")) = some (some (.stub 2), some (.stub 3)) := by decide

/-- **the backup is the value the variable holds when its mocking round starts** (state-level, over reachable states):
    when builder `b` has no mocker for `v` yet, or only a cancelled one (after `Reset` / `Cancel`), a successful mock
    starts a fresh context whose backup is exactly `v`'s current words — the value `reset_restores_all` later puts back
    (`backup_only_first_time`: no later mock of the round overwrites it). -/
theorem first_mock_backs_up_current_value (s s' : St) (hr : Reachable s) (b v : Nat) (m : String) (kind : Kind) (csig : Nat)
    (hfirst : ∀ j, lookup (bkey Cfg.fixed s v) (s.blds b).mockers = some j → (s.ctxs (s.cms j).ctx).canceled = true)
    (hs : step Cfg.fixed s (.mock b v m kind csig) = some (s', .ok)) :
    ∃ f, s'.vars v = .fake f s.nctx ∧ (s'.ctxs s.nctx).backup = some (v, s.vars v) ∧ (s'.ctxs s.nctx).canceled = false := by
  have hI := reachable_inv hr
  have hI0 := inv_ncb Cfg.fixed s (s.ncb + 1) hI
  have hfresh : interfaceOf Cfg.fixed { s with ncb := s.ncb + 1 } b v = freshCM Cfg.fixed { s with ncb := s.ncb + 1 } b v := by
    simp only [interfaceOf]
    split
    · rename_i j hj
      have := hfirst j hj
      simp [this]
    · rfl
  simp only [step, mockStep] at hs
  rw [hfresh] at hs
  have hI1 := inv_freshCM Cfg.fixed { s with ncb := s.ncb + 1 } b v hI0
  simp only [freshCM] at hs hI1
  obtain ⟨s2, s3, i, hI2, hfit, g1, g2, g3, g4, g5, hmem, g6, g7, g8, g9, g10, g11, hp, he⟩ :=
    mockOn_ok Cfg.fixed _ s' s.ncm m kind _ s.ncb hI1 hs
  simp only [upd_same] at g3 g4 g5
  have hbk := backup_only_first_time Cfg.fixed s2 s3 _ _ _ m _ _ hp
  obtain ⟨p1, p2, p3, p4⟩ := proxyInterface_frame Cfg.fixed s2 s3 _ _ _ m _ _ hp
  have hcn : (s2.ctxs (s2.cms s.ncm).ctx).canceled = false := by rw [g2, g3]; simp
  obtain ⟨f', g, o1, o2, o3, o4, o5, o6, o7⟩ := proxyInterface_out Cfg.fixed s2 s3 _ _ _ m _ _ hcn hp
  rw [g3, g4] at hbk o1
  rw [g3] at p4 hcn
  have hb0 : (s2.ctxs s.nctx).backup = none := by rw [g2]; simp
  rw [hb0, g6] at hbk
  subst he
  exact ⟨f', by simp only; rw [o1]; exact upd_same _ _ _, by simp only; exact hbk, by simp only; rw [p4]; exact hcn⟩

/-- non-vacuous: second round after a Reset and an assignment backs up the assigned value -/
example : (run Cfg.fixed (St.init (fun _ => sortMeths ["B", "A"]) (fun _ => 0) (fun _ => .val 0) (fun _ => [0, 0]))
    [.mock 0 0 "A" .ap 0, .reset 0, .assign 0 5, .mock 0 0 "B" .rt 0, .reset 0]).map (fun s => s.vars 0) = some (.val 5) := by
  decide

end C07
