import GoomVerif.Lemmas.C17L
/-! C17 — the arm64 decoder on branch and address instructions, and what goom's extent / wrapper scans make of it.

    Everything below is about `A64Dec.decode env` over the REGENERATED table `Gen.A64.table`, for EVERY oracle `env`
    standing for the ~290 argument decoders and 107 `canDecode` predicates the model does not interpret.
    The class conditions and displacement formulas (`C17L.specImm26`, …) are written from the Arm ARM, not from the code.

    PARTIAL with respect to the property: totality of the decoder and of `Inst.String()` on all 2^32 words and agreement
    with the reference decoder outside the classes below are NOT theorems; the check executes them (see checks/C17.py). -/
namespace C17
open Gen.A64 A64Dec C17L

/-- the result of decoding, as a consumer sees it: opcode name and arguments -/
def view (r : Option Res) : Option (String × List Arg) := r.map (fun r => (opName r.op, r.args))

/-! ### clause "agrees … on decodability, opcode and the PC-relative displacement of branch and address instructions":
    for ALL words of each class, decodability, opcode and displacement are what the Arm ARM says -/

/-- B (C6.2.26): every word `000101 imm26` decodes to `B` with displacement `SignExtend(imm26:'00')`: the table has no
    earlier row that could take such a word, whatever the uninterpreted decoders do. -/
theorem decode_B (env : Env) (x : BitVec 32) (hx : x &&& 0xfc000000#32 = 0x14000000#32) :
    view (decode env x) = some ("B", [.pcrel (specImm26 x)]) := by
  obtain ⟨r, h1, h2, h3⟩ := decode_class env _ _ "B" [arg_slabel_imm26_2, 0, 0, 0, 0] (by decide +kernel) x hx
  have h3' : r.args = [.pcrel (slabel_imm26_2 x)] := by rw [h3]; rfl
  simp [view, h1, h2, h3', slabel26_spec]

example : (0x17ffffff#32) &&& 0xfc000000#32 = 0x14000000#32 ∧ specImm26 0x17ffffff#32 = -4#64 := by decide

/-- BL (C6.2.33): `100101 imm26` -/
theorem decode_BL (env : Env) (x : BitVec 32) (hx : x &&& 0xfc000000#32 = 0x94000000#32) :
    view (decode env x) = some ("BL", [.pcrel (specImm26 x)]) := by
  obtain ⟨r, h1, h2, h3⟩ := decode_class env _ _ "BL" [arg_slabel_imm26_2, 0, 0, 0, 0] (by decide +kernel) x hx
  have h3' : r.args = [.pcrel (slabel_imm26_2 x)] := by rw [h3]; rfl
  simp [view, h1, h2, h3', slabel26_spec]

example : (0x94000010#32) &&& 0xfc000000#32 = 0x94000000#32 ∧ specImm26 0x94000010#32 = 64#64 := by decide

/-- B.cond (C6.2.25): `01010100 imm19 0 cond` -/
theorem decode_Bcond (env : Env) (x : BitVec 32) (hx : x &&& 0xff000010#32 = 0x54000000#32) :
    view (decode env x) = some ("B", [.cond (x &&& 0xf#32).toNat, .pcrel (specImm19 x)]) := by
  obtain ⟨r, h1, h2, h3⟩ := decode_class env _ _ "B" [arg_conditional, arg_slabel_imm19_2, 0, 0, 0] (by decide +kernel) x hx
  have h3' : r.args = [.cond (x &&& 0xf#32).toNat, .pcrel (slabel_imm19_2 x)] := by rw [h3]; rfl
  simp [view, h1, h2, h3', slabel19_spec]

example : (0x54ffffe1#32) &&& 0xff000010#32 = 0x54000000#32 ∧ specImm19 0x54ffffe1#32 = -4#64 := by decide

/-- CBZ (C6.2.47): `sf 0110100 imm19 Rt`, both register sizes -/
theorem decode_CBZ (env : Env) (x : BitVec 32) (hx : x &&& 0x7f000000#32 = 0x34000000#32) :
    view (decode env x) = some ("CBZ", [.reg (bit31 x) (r5 x 0), .pcrel (specImm19 x)]) := by
  rcases split_sf x _ hx with ⟨h, hb⟩ | ⟨h, hb⟩
  · obtain ⟨r, h1, h2, h3⟩ := decode_class env _ _ "CBZ" [arg_Wt, arg_slabel_imm19_2, 0, 0, 0] (by decide +kernel) x h
    have h3' : r.args = [.reg false (r5 x 0), .pcrel (slabel_imm19_2 x)] := by rw [h3]; rfl
    simp [view, h1, h2, h3', slabel19_spec, hb]
  · obtain ⟨r, h1, h2, h3⟩ := decode_class env (0xff000000#32) (0xb4000000#32) "CBZ" [arg_Xt, arg_slabel_imm19_2, 0, 0, 0] (by decide +kernel) x h
    have h3' : r.args = [.reg true (r5 x 0), .pcrel (slabel_imm19_2 x)] := by rw [h3]; rfl
    simp [view, h1, h2, h3', slabel19_spec, hb]

example : (0xb4000043#32) &&& 0x7f000000#32 = 0x34000000#32 ∧ bit31 0xb4000043#32 = true ∧ r5 0xb4000043#32 0 = 3
    ∧ specImm19 0xb4000043#32 = 8#64 := by decide

/-- CBNZ (C6.2.46): `sf 0110101 imm19 Rt` -/
theorem decode_CBNZ (env : Env) (x : BitVec 32) (hx : x &&& 0x7f000000#32 = 0x35000000#32) :
    view (decode env x) = some ("CBNZ", [.reg (bit31 x) (r5 x 0), .pcrel (specImm19 x)]) := by
  rcases split_sf x _ hx with ⟨h, hb⟩ | ⟨h, hb⟩
  · obtain ⟨r, h1, h2, h3⟩ := decode_class env _ _ "CBNZ" [arg_Wt, arg_slabel_imm19_2, 0, 0, 0] (by decide +kernel) x h
    have h3' : r.args = [.reg false (r5 x 0), .pcrel (slabel_imm19_2 x)] := by rw [h3]; rfl
    simp [view, h1, h2, h3', slabel19_spec, hb]
  · obtain ⟨r, h1, h2, h3⟩ := decode_class env (0xff000000#32) (0xb5000000#32) "CBNZ" [arg_Xt, arg_slabel_imm19_2, 0, 0, 0] (by decide +kernel) x h
    have h3' : r.args = [.reg true (r5 x 0), .pcrel (slabel_imm19_2 x)] := by rw [h3]; rfl
    simp [view, h1, h2, h3', slabel19_spec, hb]

example : (0x35ffffe0#32) &&& 0x7f000000#32 = 0x35000000#32 ∧ specImm19 0x35ffffe0#32 = -4#64 := by decide

/-- the tested bit number `b5:b40` -/
def bitNo (x : BitVec 32) : Nat := ((((x >>> 31) &&& 1#32) <<< 5) ||| ((x >>> 19) &&& 0x1f#32)).toNat

/-- TBZ (C6.2.331): `b5 0110110 b40 imm14 Rt` -/
theorem decode_TBZ (env : Env) (x : BitVec 32) (hx : x &&& 0x7f000000#32 = 0x36000000#32) :
    view (decode env x) = some ("TBZ", [.reg (bit31 x) (r5 x 0), .imm (bitNo x), .pcrel (specImm14 x)]) := by
  obtain ⟨r, h1, h2, h3⟩ := decode_class env _ _ "TBZ" [arg_Rt_31_1__W_0__X_1, arg_immediate_0_63_b5_b40, arg_slabel_imm14_2, 0, 0]
    (by decide +kernel) x hx
  have h3' : r.args = [.reg (bit31 x) (r5 x 0), .imm (bitNo x), .pcrel (slabel_imm14_2 x)] := by rw [h3]; rfl
  simp [view, h1, h2, h3', slabel14_spec]

example : (0x36080041#32) &&& 0x7f000000#32 = 0x36000000#32 ∧ bitNo 0x36080041#32 = 1 ∧ specImm14 0x36080041#32 = 8#64 := by decide

/-- TBNZ (C6.2.330): `b5 0110111 b40 imm14 Rt` -/
theorem decode_TBNZ (env : Env) (x : BitVec 32) (hx : x &&& 0x7f000000#32 = 0x37000000#32) :
    view (decode env x) = some ("TBNZ", [.reg (bit31 x) (r5 x 0), .imm (bitNo x), .pcrel (specImm14 x)]) := by
  obtain ⟨r, h1, h2, h3⟩ := decode_class env _ _ "TBNZ" [arg_Rt_31_1__W_0__X_1, arg_immediate_0_63_b5_b40, arg_slabel_imm14_2, 0, 0]
    (by decide +kernel) x hx
  have h3' : r.args = [.reg (bit31 x) (r5 x 0), .imm (bitNo x), .pcrel (slabel_imm14_2 x)] := by rw [h3]; rfl
  simp [view, h1, h2, h3', slabel14_spec]

example : (0xb7ffffe5#32) &&& 0x7f000000#32 = 0x37000000#32 ∧ bitNo 0xb7ffffe5#32 = 63 ∧ specImm14 0xb7ffffe5#32 = -4#64 := by decide

/-- ADR (C6.2.10): `0 immlo 10000 immhi Rd`, displacement `SignExtend(immhi:immlo)` -/
theorem decode_ADR (env : Env) (x : BitVec 32) (hx : x &&& 0x9f000000#32 = 0x10000000#32) :
    view (decode env x) = some ("ADR", [.reg true (r5 x 0), .pcrel (specAdr x)]) := by
  obtain ⟨r, h1, h2, h3⟩ := decode_class env _ _ "ADR" [arg_Xd, arg_slabel_immhi_immlo_0, 0, 0, 0] (by decide +kernel) x hx
  have h3' : r.args = [.reg true (r5 x 0), .pcrel (slabel_immhi_immlo_0 x)] := by rw [h3]; rfl
  simp [view, h1, h2, h3', slabelAdr_spec]

example : (0x70ffffe1#32) &&& 0x9f000000#32 = 0x10000000#32 ∧ specAdr 0x70ffffe1#32 = -1#64 := by decide

/-- ADRP (C6.2.11): `1 immlo 10000 immhi Rd`, displacement `SignExtend(immhi:immlo:Zeros(12))` -/
theorem decode_ADRP (env : Env) (x : BitVec 32) (hx : x &&& 0x9f000000#32 = 0x90000000#32) :
    view (decode env x) = some ("ADRP", [.reg true (r5 x 0), .pcrel (specAdrp x)]) := by
  obtain ⟨r, h1, h2, h3⟩ := decode_class env _ _ "ADRP" [arg_Xd, arg_slabel_immhi_immlo_12, 0, 0, 0] (by decide +kernel) x hx
  have h3' : r.args = [.reg true (r5 x 0), .pcrel (slabel_immhi_immlo_12 x)] := by rw [h3]; rfl
  simp [view, h1, h2, h3', slabelAdrp_spec]

example : (0xf0ffffe1#32) &&& 0x9f000000#32 = 0x90000000#32 ∧ specAdrp 0xf0ffffe1#32 = -4096#64 := by decide

/-- LDR (literal) 32-bit (C6.2.167): `00 011000 imm19 Rt` -/
theorem decode_LDRw (env : Env) (x : BitVec 32) (hx : x &&& 0xff000000#32 = 0x18000000#32) :
    view (decode env x) = some ("LDR", [.reg false (r5 x 0), .pcrel (specImm19 x)]) := by
  obtain ⟨r, h1, h2, h3⟩ := decode_class env _ _ "LDR" [arg_Wt, arg_slabel_imm19_2, 0, 0, 0] (by decide +kernel) x hx
  have h3' : r.args = [.reg false (r5 x 0), .pcrel (slabel_imm19_2 x)] := by rw [h3]; rfl
  simp [view, h1, h2, h3', slabel19_spec]

/-- LDR (literal) 64-bit: `01 011000 imm19 Rt` -/
theorem decode_LDRx (env : Env) (x : BitVec 32) (hx : x &&& 0xff000000#32 = 0x58000000#32) :
    view (decode env x) = some ("LDR", [.reg true (r5 x 0), .pcrel (specImm19 x)]) := by
  obtain ⟨r, h1, h2, h3⟩ := decode_class env _ _ "LDR" [arg_Xt, arg_slabel_imm19_2, 0, 0, 0] (by decide +kernel) x hx
  have h3' : r.args = [.reg true (r5 x 0), .pcrel (slabel_imm19_2 x)] := by rw [h3]; rfl
  simp [view, h1, h2, h3', slabel19_spec]

/-- LDRSW (literal) (C6.2.181): `10 011000 imm19 Rt` -/
theorem decode_LDRSW (env : Env) (x : BitVec 32) (hx : x &&& 0xff000000#32 = 0x98000000#32) :
    view (decode env x) = some ("LDRSW", [.reg true (r5 x 0), .pcrel (specImm19 x)]) := by
  obtain ⟨r, h1, h2, h3⟩ := decode_class env _ _ "LDRSW" [arg_Xt, arg_slabel_imm19_2, 0, 0, 0] (by decide +kernel) x hx
  have h3' : r.args = [.reg true (r5 x 0), .pcrel (slabel_imm19_2 x)] := by rw [h3]; rfl
  simp [view, h1, h2, h3', slabel19_spec]

example : (0x58000041#32) &&& 0xff000000#32 = 0x58000000#32 ∧ specImm19 0x58000041#32 = 8#64 := by decide

/-- LDR (literal, SIMD&FP) S/D/Q (C7.2.192): `opc 011 1 00 imm19 Rt`; the FP register operand is known non-nil, its value is not modelled -/
theorem decode_LDRlitS (env : Env) (x : BitVec 32) (hx : x &&& 0xff000000#32 = 0x1c000000#32) :
    view (decode env x) = some ("LDR", [.other, .pcrel (specImm19 x)]) := by
  obtain ⟨r, h1, h2, h3⟩ := decode_class env _ _ "LDR" [arg_St, arg_slabel_imm19_2, 0, 0, 0] (by decide +kernel) x hx
  have h3' : r.args = [.other, .pcrel (slabel_imm19_2 x)] := by rw [h3]; rfl
  simp [view, h1, h2, h3', slabel19_spec]

theorem decode_LDRlitD (env : Env) (x : BitVec 32) (hx : x &&& 0xff000000#32 = 0x5c000000#32) :
    view (decode env x) = some ("LDR", [.other, .pcrel (specImm19 x)]) := by
  obtain ⟨r, h1, h2, h3⟩ := decode_class env _ _ "LDR" [arg_Dt, arg_slabel_imm19_2, 0, 0, 0] (by decide +kernel) x hx
  have h3' : r.args = [.other, .pcrel (slabel_imm19_2 x)] := by rw [h3]; rfl
  simp [view, h1, h2, h3', slabel19_spec]

theorem decode_LDRlitQ (env : Env) (x : BitVec 32) (hx : x &&& 0xff000000#32 = 0x9c000000#32) :
    view (decode env x) = some ("LDR", [.other, .pcrel (specImm19 x)]) := by
  obtain ⟨r, h1, h2, h3⟩ := decode_class env _ _ "LDR" [arg_Qt, arg_slabel_imm19_2, 0, 0, 0] (by decide +kernel) x hx
  have h3' : r.args = [.other, .pcrel (slabel_imm19_2 x)] := by rw [h3]; rfl
  simp [view, h1, h2, h3', slabel19_spec]

/-- PRFM (literal) (C6.2.248): `11 011 0 00 imm19 Rt` -/
theorem decode_PRFMlit (env : Env) (x : BitVec 32) (hx : x &&& 0xff000000#32 = 0xd8000000#32) :
    view (decode env x) = some ("PRFM", [.other, .pcrel (specImm19 x)]) := by
  obtain ⟨r, h1, h2, h3⟩ := decode_class env _ _ "PRFM" [arg_prfop_Rt, arg_slabel_imm19_2, 0, 0, 0] (by decide +kernel) x hx
  have h3' : r.args = [.other, .pcrel (slabel_imm19_2 x)] := by rw [h3]; rfl
  simp [view, h1, h2, h3', slabel19_spec]

example : (0x5c000041#32) &&& 0xff000000#32 = 0x5c000000#32 ∧ (0xd8ffffe0#32) &&& 0xff000000#32 = 0xd8000000#32
    ∧ specImm19 0xd8ffffe0#32 = -4#64 := by decide

/-! ### the NEGATIVE half of "agrees on decodability" (reviewer A3), as far as it is provable without the reference -/

/-- top-level encoding groups `op0 = 00xx` (x<28:27> = 00: reserved, SME, SVE, unallocated in the Arm ARM's A64 table C4.1; a quarter of
    the 2^32 words, incl. the zero word): NO table row intersects the class, so goom's decoder rejects every such word, whatever the
    uninterpreted decoders do.  (That the reference rejects them too is executed by the sweep, not proved.) -/
theorem decode_op0_00xx_undecodable (env : Env) (x : BitVec 32) (hx : x &&& 0x18000000#32 = 0#32) : decode env x = none :=
  decodeFrom_noHit env _ _ x hx table 0 (by decide +kernel)

example : (0x00000000#32) &&& 0x18000000#32 = 0#32 ∧ (0xe7ffdeff#32) &&& 0x18000000#32 = 0#32 := by decide

/-! ### `Decode(src []byte)` on byte slices (reviewer C2) -/

/-- decode.go:42 fewer than four bytes → errShort, for every oracle -/
theorem decode_src_short (env : Env) (src : List (BitVec 8)) (h : src.length < 4) : decodeSrc env src = .short := by
  match src, h with
  | [], _ => rfl
  | [_], _ => rfl
  | [_, _], _ => rfl
  | [_, _, _], _ => rfl
  | _ :: _ :: _ :: _ :: _, h => simp at h; omega

/-- decode.go:46 only the first four bytes are read: the 12 bytes goom's callers pass after the word never matter -/
theorem decode_src_prefix (env : Env) (a b c d : BitVec 8) (t1 t2 : List (BitVec 8)) :
    decodeSrc env (a :: b :: c :: d :: t1) = decodeSrc env (a :: b :: c :: d :: t2) := rfl

example : ∀ env, decodeSrc env [0x1f#8, 0x20#8, 0x03#8] = .short := fun env => decode_src_short env _ (by decide)

/-! ### the encodings goom itself EMITS on arm64 (internal/patch/monkey_arm64.go, internal/iface/jmp_arm64.go,
    internal/bytecode/memory/icache_arm64.go): MOVZ/MOVK (64-bit), LDR (unsigned offset), BR/BLR/RET, NOP -/

/-- MOVZ 64-bit (C6.2.191): every word `1 10 100101 hw imm16 Rd` decodes — and, exactly as the Arm ARM prescribes for the
    preferred disassembly, to the alias `MOV Xd, #(imm16 << 16*hw)` unless `imm16 = 0 ∧ hw ≠ 0`, in which case to
    `MOVZ Xd, #0, LSL #16*hw`.  The alias row's `canDecode` (condition.go:111) is interpreted by the model. -/
theorem decode_MOVZ64 (env : Env) (x : BitVec 32) (hx : x &&& 0xff800000#32 = 0xd2800000#32) :
    view (decode env x) =
      if (imm16 x == 0#32 && hw x != 0#32) then
        some ("MOVZ", [.reg true (r5 x 0), .immShift ((imm16 x).setWidth 16).toNat ((hw x * 16#32).setWidth 8).toNat])
      else some ("MOV", [.reg true (r5 x 0), .imm64 (((imm16 x).setWidth 64) <<< (hw x * 16#32).toNat)]) := by
  obtain ⟨r, h1, h2⟩ := decode_class2 env _ _ cond_mov_movz_64_movewide_cond _ rfl
    "MOV" [arg_Xd, arg_immediate_shift_64_implicit_imm16_hw, 0, 0, 0]
    "MOVZ" [arg_Xd, arg_immediate_OptLSL_amount_16_0_48, 0, 0, 0] (by decide +kernel) x hx
  cases hc : (imm16 x == 0#32 && hw x != 0#32)
  · simp only [hc, Bool.not_false, if_true] at h2
    have h3 : r.args = [.reg true (r5 x 0), .imm64 (((imm16 x).setWidth 64) <<< (hw x * 16#32).toNat)] := by rw [h2.2]; rfl
    simp [view, h1, h2.1, h3]
  · simp only [hc, Bool.not_true, Bool.false_eq_true, if_false] at h2
    have h3 : r.args = [.reg true (r5 x 0), .immShift ((imm16 x).setWidth 16).toNat ((hw x * 16#32).setWidth 8).toNat] := by rw [h2.2]; rfl
    simp [view, h1, h2.1, h3]

example : (0xd2a0001a#32) &&& 0xff800000#32 = 0xd2800000#32 ∧ (imm16 0xd2a0001a#32 == 0#32 && hw 0xd2a0001a#32 != 0#32) = true
    ∧ (0xd282469a#32) &&& 0xff800000#32 = 0xd2800000#32 ∧ (imm16 0xd282469a#32 == 0#32 && hw 0xd282469a#32 != 0#32) = false := by decide

/-- MOVK 64-bit (C6.2.190): `1 11 100101 hw imm16 Rd`, every hw -/
theorem decode_MOVK64 (env : Env) (x : BitVec 32) (hx : x &&& 0xff800000#32 = 0xf2800000#32) :
    view (decode env x) =
      some ("MOVK", [.reg true (r5 x 0), .immShift ((imm16 x).setWidth 16).toNat ((hw x * 16#32).setWidth 8).toNat]) := by
  obtain ⟨r, h1, h2, h3⟩ := decode_class env _ _ "MOVK" [arg_Xd, arg_immediate_OptLSL_amount_16_0_48, 0, 0, 0] (by decide +kernel) x hx
  have h3' : r.args = [.reg true (r5 x 0), .immShift ((imm16 x).setWidth 16).toNat ((hw x * 16#32).setWidth 8).toNat] := by rw [h3]; rfl
  simp [view, h1, h2, h3']

example : (0xf2e2469a#32) &&& 0xff800000#32 = 0xf2800000#32 ∧ r5 0xf2e2469a#32 0 = 26
    ∧ ((imm16 0xf2e2469a#32).setWidth 16).toNat = 0x1234 ∧ ((hw 0xf2e2469a#32 * 16#32).setWidth 8).toNat = 48 := by decide

/-- LDR Xt, [Xn|SP, #imm12*8] (unsigned offset, C6.2.166): `11 111 0 01 01 imm12 Rn Rt` -/
theorem decode_LDRuoff64 (env : Env) (x : BitVec 32) (hx : x &&& 0xffc00000#32 = 0xf9400000#32) :
    view (decode env x) =
      some ("LDR", [.reg true (r5 x 0), .mem (r5 x 5) (((((x >>> 10) &&& 0xfff#32) <<< 3).setWidth 32).toInt)]) := by
  obtain ⟨r, h1, h2, h3⟩ := decode_class env _ _ "LDR" [arg_Xt, arg_Xns_mem_optional_imm12_8_unsigned, 0, 0, 0] (by decide +kernel) x hx
  have h3' : r.args = [.reg true (r5 x 0), .mem (r5 x 5) (((((x >>> 10) &&& 0xfff#32) <<< 3).setWidth 32).toInt)] := by rw [h3]; rfl
  simp [view, h1, h2, h3']

example : (0xf940074a#32) &&& 0xffc00000#32 = 0xf9400000#32 ∧ r5 0xf940074a#32 0 = 10 ∧ r5 0xf940074a#32 5 = 26
    ∧ ((((0xf940074a#32 >>> 10) &&& 0xfff#32) <<< 3).setWidth 32).toInt = 8 := by decide

/-- BR Xn (C6.2.37) -/
theorem decode_BR (env : Env) (x : BitVec 32) (hx : x &&& 0xfffffc1f#32 = 0xd61f0000#32) :
    view (decode env x) = some ("BR", [.reg true (r5 x 5)]) := by
  obtain ⟨r, h1, h2, h3⟩ := decode_class env _ _ "BR" [arg_Xn, 0, 0, 0, 0] (by decide +kernel) x hx
  have h3' : r.args = [.reg true (r5 x 5)] := by rw [h3]; rfl
  simp [view, h1, h2, h3']

/-- BLR Xn (C6.2.35) -/
theorem decode_BLR (env : Env) (x : BitVec 32) (hx : x &&& 0xfffffc1f#32 = 0xd63f0000#32) :
    view (decode env x) = some ("BLR", [.reg true (r5 x 5)]) := by
  obtain ⟨r, h1, h2, h3⟩ := decode_class env _ _ "BLR" [arg_Xn, 0, 0, 0, 0] (by decide +kernel) x hx
  have h3' : r.args = [.reg true (r5 x 5)] := by rw [h3]; rfl
  simp [view, h1, h2, h3']

/-- RET {Xn} (C6.2.254) -/
theorem decode_RET (env : Env) (x : BitVec 32) (hx : x &&& 0xfffffc1f#32 = 0xd65f0000#32) :
    view (decode env x) = some ("RET", [.reg true (r5 x 5)]) := by
  obtain ⟨r, h1, h2, h3⟩ := decode_class env _ _ "RET" [arg_Xn, 0, 0, 0, 0] (by decide +kernel) x hx
  have h3' : r.args = [.reg true (r5 x 5)] := by rw [h3]; rfl
  simp [view, h1, h2, h3']

example : (0xd61f0140#32) &&& 0xfffffc1f#32 = 0xd61f0000#32 ∧ r5 0xd61f0140#32 5 = 10
    ∧ (0xd65f03c0#32) &&& 0xfffffc1f#32 = 0xd65f0000#32 ∧ r5 0xd65f03c0#32 5 = 30 := by decide

/-- NOP, goom's arm64 "already patched" sentinel `nopOpcode` (monkey_arm64.go:15): decodes to NOP without arguments -/
theorem decode_NOP (env : Env) : view (decode env 0xd503201f#32) = some ("NOP", []) := by
  obtain ⟨r, h1, h2, h3⟩ := decode_class env 0xffffffff#32 0xd503201f#32 "NOP" [0, 0, 0, 0, 0] (by decide +kernel) 0xd503201f#32 (by decide)
  have h3' : r.args = [] := by rw [h3]; rfl
  simp [view, h1, h2, h3']


/-- little-endian instruction words of a byte sequence (4 bytes each) -/
def wordsOf : List (BitVec 8) → List (BitVec 32)
  | a :: b :: c :: d :: rest => BitVec.ofNat 32 (X86.leNat [a, b, c, d]) :: wordsOf rest
  | _ => []

private theorem words_movImm (opc sh val : BitVec 64) (ho : opc.toNat < 4) (hs : sh.toNat < 4) (hv : val.toNat < 65536) (rest : List (BitVec 8)) :
    wordsOf (Gen.Arm64.movImm opc sh val ++ rest) = BitVec.ofNat 32 (movN opc.toNat sh.toNat val.toNat) :: wordsOf rest := by
  obtain ⟨a, b, c, d, h⟩ := C15L.movImm_len4 opc sh val
  have w := C15L.movImm_word opc sh val ho hs hv
  rw [h] at w ⊢
  simp only [List.cons_append, List.nil_append, wordsOf, w, movN]

private theorem movz_word_view (env : Env) (v : Nat) (hv : v < 65536) :
    view (decode env (BitVec.ofNat 32 (movN 2 0 v))) = some ("MOV", [.reg true 26, .imm64 (BitVec.ofNat 64 v)]) := by
  have hc := movword_class 2 0 v (by omega) (by omega) hv
  obtain ⟨f1, f2, f3⟩ := movword_fields 2 0 v (by omega) (by omega) hv
  have hw0 : hw (BitVec.ofNat 32 (movN 2 0 v)) = 0#32 := BitVec.eq_of_toNat_eq (by simpa using f3)
  rw [decode_MOVZ64 env _ (by rw [hc])]
  simp only [hw0, f1]
  have : (imm16 (BitVec.ofNat 32 (movN 2 0 v))).setWidth 64 = BitVec.ofNat 64 v := by
    apply BitVec.eq_of_toNat_eq; simp [f2]
  simp [this]

private theorem movk_word_view (env : Env) (h v : Nat) (hh : h < 4) (hv : v < 65536) :
    view (decode env (BitVec.ofNat 32 (movN 3 h v))) = some ("MOVK", [.reg true 26, .immShift v (16 * h)]) := by
  have hc := movword_class 3 h v (by omega) hh hv
  obtain ⟨f1, f2, f3⟩ := movword_fields 3 h v (by omega) hh hv
  rw [decode_MOVK64 env _ (by rw [hc])]
  have e1 : ((imm16 (BitVec.ofNat 32 (movN 3 h v))).setWidth 16).toNat = v := by simp [f2]; omega
  have e2 : ((hw (BitVec.ofNat 32 (movN 3 h v)) * 16#32).setWidth 8).toNat = 16 * h := by
    have hwv : hw (BitVec.ofNat 32 (movN 3 h v)) = BitVec.ofNat 32 h := by
      apply BitVec.eq_of_toNat_eq; rw [f3, BitVec.toNat_ofNat]; omega
    rw [hwv]
    have : h = 0 ∨ h = 1 ∨ h = 2 ∨ h = 3 := by omega
    rcases this with rfl | rfl | rfl | rfl <;> decide
  simp [f1, e1, e2]

/-- CROSS-PROPERTY (C15 × C17): the six instruction words of the entry jump goom writes on arm64
    (`Gen.Arm64.jmpToFunctionValue`, regenerated from internal/patch/monkey_arm64.go) are, for EVERY target `dx`, decoded by goom's
    own decoder model as `MOV X26,#dx[15:0]` (the architectural alias of MOVZ hw=0, see decode_MOVZ64), `MOVK X26,#dx[16k+15:16k], LSL #16k`
    (k = 1,2,3), `LDR X10,[X26]`, `BR X10` — whatever the uninterpreted decoders do. -/
theorem emitted_entry_jump_decodes (env : Env) (from_ dx : BitVec 64) :
    (wordsOf (Gen.Arm64.jmpToFunctionValue from_ dx)).map (fun w => view (decode env w)) =
      [ some ("MOV", [.reg true 26, .imm64 (dx &&& 0xffff#64)]),
        some ("MOVK", [.reg true 26, .immShift ((dx >>> 16) &&& 0xffff#64).toNat 16]),
        some ("MOVK", [.reg true 26, .immShift ((dx >>> 32) &&& 0xffff#64).toNat 32]),
        some ("MOVK", [.reg true 26, .immShift ((dx >>> 48) &&& 0xffff#64).toNat 48]),
        some ("LDR", [.reg true 10, .mem 26 0]),
        some ("BR", [.reg true 10]) ] := by
  have l0 : (dx &&& 0xffff#64).toNat < 65536 := by rw [C15L.lane0]; omega
  have l1 : ((dx >>> 16) &&& 0xffff#64).toNat < 65536 := by rw [C15L.lane]; omega
  have l2 : ((dx >>> 32) &&& 0xffff#64).toNat < 65536 := by rw [C15L.lane]; omega
  have l3 : ((dx >>> 48) &&& 0xffff#64).toNat < 65536 := by rw [C15L.lane]; omega
  simp only [Gen.Arm64.jmpToFunctionValue, List.replicate, List.nil_append, List.append_assoc]
  rw [words_movImm _ _ _ (by decide) (by decide) l0, words_movImm _ _ _ (by decide) (by decide) l1,
    words_movImm _ _ _ (by decide) (by decide) l2, words_movImm _ _ _ (by decide) (by decide) l3]
  have e0 : (0x0#64).toNat = 0 := rfl
  have e1 : (0x1#64).toNat = 1 := rfl
  have e2 : (0x2#64).toNat = 2 := rfl
  have e3 : (0x3#64).toNat = 3 := rfl
  simp only [e0, e1, e2, e3, List.map_cons]
  rw [movz_word_view env _ l0, movk_word_view env 1 _ (by omega) l1, movk_word_view env 2 _ (by omega) l2,
    movk_word_view env 3 _ (by omega) l3]
  have hl : view (decode env (BitVec.ofNat 32 (X86.leNat [0x4a#8, 0x3#8, 0x40#8, 0xf9#8]))) = some ("LDR", [.reg true 10, .mem 26 0]) := by
    have : BitVec.ofNat 32 (X86.leNat [0x4a#8, 0x3#8, 0x40#8, 0xf9#8]) = 0xf940034a#32 := by decide
    rw [this, decode_LDRuoff64 env _ (by decide)]; decide
  have hb : view (decode env (BitVec.ofNat 32 (X86.leNat [0x40#8, 0x1#8, 0x1f#8, 0xd6#8]))) = some ("BR", [.reg true 10]) := by
    have : BitVec.ofNat 32 (X86.leNat [0x40#8, 0x1#8, 0x1f#8, 0xd6#8]) = 0xd61f0140#32 := by decide
    rw [this, decode_BR env _ (by decide)]; decide
  simp [wordsOf, hl, hb]

/-- the same for the interface stub (`Gen.IfaceArm64.jmpWithRdx`, internal/iface/jmp_arm64.go): scratch register X27 -/
theorem emitted_stub_jump_decodes (env : Env) (dx : BitVec 64) :
    (wordsOf (Gen.IfaceArm64.jmpWithRdx dx)).map (fun w => view (decode env w)) =
      [ some ("MOV", [.reg true 26, .imm64 (dx &&& 0xffff#64)]),
        some ("MOVK", [.reg true 26, .immShift ((dx >>> 16) &&& 0xffff#64).toNat 16]),
        some ("MOVK", [.reg true 26, .immShift ((dx >>> 32) &&& 0xffff#64).toNat 32]),
        some ("MOVK", [.reg true 26, .immShift ((dx >>> 48) &&& 0xffff#64).toNat 48]),
        some ("LDR", [.reg true 27, .mem 26 0]),
        some ("BR", [.reg true 27]) ] := by
  have hmi : Gen.IfaceArm64.movImm = Gen.Arm64.movImm := rfl
  have l0 : (dx &&& 0xffff#64).toNat < 65536 := by rw [C15L.lane0]; omega
  have l1 : ((dx >>> 16) &&& 0xffff#64).toNat < 65536 := by rw [C15L.lane]; omega
  have l2 : ((dx >>> 32) &&& 0xffff#64).toNat < 65536 := by rw [C15L.lane]; omega
  have l3 : ((dx >>> 48) &&& 0xffff#64).toNat < 65536 := by rw [C15L.lane]; omega
  simp only [Gen.IfaceArm64.jmpWithRdx, hmi, List.replicate, List.nil_append, List.append_assoc]
  rw [words_movImm _ _ _ (by decide) (by decide) l0, words_movImm _ _ _ (by decide) (by decide) l1,
    words_movImm _ _ _ (by decide) (by decide) l2, words_movImm _ _ _ (by decide) (by decide) l3]
  have e0 : (0x0#64).toNat = 0 := rfl
  have e1 : (0x1#64).toNat = 1 := rfl
  have e2 : (0x2#64).toNat = 2 := rfl
  have e3 : (0x3#64).toNat = 3 := rfl
  simp only [e0, e1, e2, e3, List.map_cons]
  rw [movz_word_view env _ l0, movk_word_view env 1 _ (by omega) l1, movk_word_view env 2 _ (by omega) l2,
    movk_word_view env 3 _ (by omega) l3]
  have hl : view (decode env (BitVec.ofNat 32 (X86.leNat [0x5b#8, 0x3#8, 0x40#8, 0xf9#8]))) = some ("LDR", [.reg true 27, .mem 26 0]) := by
    have : BitVec.ofNat 32 (X86.leNat [0x5b#8, 0x3#8, 0x40#8, 0xf9#8]) = 0xf940035b#32 := by decide
    rw [this, decode_LDRuoff64 env _ (by decide)]; decide
  have hb : view (decode env (BitVec.ofNat 32 (X86.leNat [0x60#8, 0x3#8, 0x1f#8, 0xd6#8]))) = some ("BR", [.reg true 27]) := by
    have : BitVec.ofNat 32 (X86.leNat [0x60#8, 0x3#8, 0x1f#8, 0xd6#8]) = 0xd61f0360#32 := by decide
    rw [this, decode_BR env _ (by decide)]; decide
  simp [wordsOf, hl, hb]

/-! ### totality of argument decoding — by mechanical translation of `decodeArg` (tools/a64args → Gen/A64Args.lean)

    `Gen.A64Args.decodeArgOut k x` is the Go `decodeArg(k, x)` as far as "non-nil / nil / panic" goes, produced from the Go AST on
    every run: all 311 case clauses, the four `handle_*` helpers, 91 of the 93 `canDecode` predicates (the two that call `bit_count`,
    a loop, are listed in `Gen.A64Args.untranslated`).  Every operation that can panic in Go (index, division by a variable, shift by a
    signed variable) is translated to an explicit test with a `panic` outcome; constructs outside the fragment make a case
    `unknown`.  `Gen.A64Args.badKinds` lists the kinds with a `panic` or `unknown` leaf; the generated lemma `decodeArgOut_ok` covers
    all others, for all words.  NOTE (review B1): the kernel does not check the translator's judgement of what can panic — a case
    without such an operation is emitted with the two-valued result type `Out2`, so `decodeArgOut_ok` is true by typing.  The content
    of `argdec_total` is therefore: the REGENERATED translation has no panic/unknown leaf in any kind a table row uses.  The translator
    is validated on every run against the real `decodeArg` and the real predicates, and statically against the same translation of the
    reference decoder (checks/C17.py `source_diff`).  NOT covered: termination of the one loop in `handle_bitmasks` (`Gen.A64Args.loops`), the value
    of the argument, and `Inst.String()`. -/

/-- for EVERY table row, every argument kind it uses and EVERY one of the 2^32 words, argument decoding returns an argument or
    nil: it never panics (and no row uses a kind outside the translated fragment). -/
theorem argdec_total (r : Row) (hr : r ∈ table) (k : Nat) (hk : k ∈ r.args) (x : BitVec 32) :
    Gen.A64Args.decodeArgOut k x = .val ∨ Gen.A64Args.decodeArgOut k x = .nil := by
  have hall : table.all (fun r => r.args.all (fun k => !Gen.A64Args.badKinds.contains k)) = true := by decide +kernel
  have h1 := List.all_eq_true.mp (List.all_eq_true.mp hall r hr) k hk
  exact Gen.A64Args.decodeArgOut_ok k x (by simpa using h1)

/-- … and in fact for every kind number whatsoever today: no case of the switch contains an operation that can panic -/
theorem argdec_no_partial_case : Gen.A64Args.badKinds = [] := by decide

/-- every `canDecode` predicate attached to a row is translated, except the two that count bits with a loop -/
theorem preds_translated :
    table.all (fun r => !r.cond || (genCond r.condId).isSome ||
      ["sxtl_sshll_asimdshf_l_cond", "uxtl_ushll_asimdshf_l_cond"].contains ((condNames[r.condId - 1]?).getD "")) = true := by
  decide +kernel

/-- ORACLE-FREE decoding: with the translated decoders and predicates plugged in, the result of `Decode` on any word no longer
    depends on the oracle, except through the untranslated predicates (two today): decodability, chosen row and opcode of all
    2^32 words are a function of the regenerated table and the regenerated translation alone. -/
theorem decodeFull_oracle_free (fb1 fb2 : Env) (x : BitVec 32)
    (hc : ∀ i c x, genCond c = none → fb1.condOk i c x = fb2.condOk i c x) :
    decodeFull fb1 x = decodeFull fb2 x := by
  have hall : table.all (fun r => r.args.all (fun k => !Gen.A64Args.badKinds.contains k)) = true := by decide +kernel
  exact decodeFrom_genEnv_indep fb1 fb2 x hc table 0
    (fun r hr k hk => by simpa using List.all_eq_true.mp (List.all_eq_true.mp hall r hr) k hk)

/-- the class theorems above hold in particular for the oracle-free model -/
example (fb : Env) : view (decodeFull fb 0x94000010#32) = some ("BL", [.pcrel 64#64]) := by
  have := decode_BL (genEnv fb) 0x94000010#32 (by decide)
  have hs : specImm26 0x94000010#32 = 64#64 := by decide
  rw [hs] at this
  exact this

/-- `ADD W0, W0, #0, LSL #24` has shift field 2: `arg_IAddSub` returns nil (decode.go:111), so the word is not an ADD (immediate) -/
example : Gen.A64Args.decodeArgOut 16 0x11800000#32 = .nil ∧ Gen.A64Args.decodeArgOut 16 0x11400000#32 = .val := by decide

/-! ### what the scans rely on: "error / Op == 0" (func_arm64.go:45-58, :118-126) -/

/-- a successful decode never carries `Op == 0`: the `inst.Op == 0 && code[0] == 0x00` padding test of both scans can
    never fire on arm64; the scans stop on a decode error or the prologue only. -/
theorem decode_op_ne_zero (env : Env) (x : BitVec 32) (r : Res) (h : decode env x = some r) : r.op ≠ 0 := by
  obtain ⟨row, hm, ho, _, _⟩ := decodeFrom_row env x table 0 r h
  have hall : table.all (fun r => r.op != 0) = true := by decide +kernel
  have := List.all_eq_true.mp hall row hm
  rw [← ho]; simpa using this

/-- the zero word (what the linker pads with) is undecodable, whatever the uninterpreted decoders do -/
theorem decode_zero (env : Env) : decode env 0#32 = none := by
  cases h : decode env 0#32 with
  | none => rfl
  | some r =>
    obtain ⟨row, hm, _, hv, _⟩ := decodeFrom_row env _ table 0 r h
    have hall : table.all (fun r => r.value != 0#32) = true := by decide +kernel
    have := List.all_eq_true.mp hall row hm
    simp at hv
    simp [← hv] at this

/-- whenever the first table row whose mask/value admits the word has no predicate and only interpreted argument kinds
    (or no row admits it), the result is the same for every oracle: the executable `decodeDef` the driver uses is sound. -/
theorem decodeDef_sound (env : Env) (x : BitVec 32) (r : Option Res) (h : decodeDef x = some r) : decode env x = r :=
  decodeDefFrom_sound env x table 0 r h

example : (decodeDef 0xd503201f#32).map (fun r => view r) = some (some ("NOP", [])) := by decide +kernel

/-! ### GetInnerFunc / GetFuncSize (func_arm64.go) -/

/-- func_arm64.go:131-137: in both branches the address returned is `start + curLen + rAddr` (mod 2^64), i.e. the
    architectural target of a branch with displacement `rAddr` located at `start + curLen` -/
theorem inner_target_arith (start : BitVec 64) (curLen : Nat) (rAddr a : BitVec 64) (h : innerTarget start curLen rAddr = some a) :
    a = start + BitVec.ofNat 64 curLen + rAddr := innerTarget_eq start curLen rAddr a h

/-- … and the only displacements for which neither branch is taken are backward ones that stay at or after `start` -/
theorem inner_target_skipped (start : BitVec 64) (curLen : Nat) (rAddr : BitVec 64) :
    innerTarget start curLen rAddr = none ↔ (rAddr.slt 0 = true ∧ (BitVec.ofNat 64 curLen + rAddr).slt 0 = false) :=
  innerTarget_none start curLen rAddr

example : innerTarget 0x400000#64 8 (-4#64) = none ∧ innerTarget 0x400000#64 8 (-12#64) = some 0x3ffffc#64
    ∧ innerTarget 0x400000#64 8 (64#64) = some 0x400048#64 := by decide

/-- CONVERSE of decode_B / decode_BL (reviewer A4): whenever the decoder yields opcode "B" or "BL" with a PCRel FIRST argument `d`, the
    word IS an Arm ARM B/BL encoding (`x<30:26> = 00101`) and `d` is its architectural displacement `SignExtend(imm26:'00')`.
    (The only other row named "B" is B.cond, whose first argument is the condition.) -/
theorem call_result_is_call_word (env : Env) (x : BitVec 32) (r : Res) (d : BitVec 64) (h : decode env x = some r)
    (hop : opName r.op = "B" ∨ opName r.op = "BL") (hd : r.args.head? = some (.pcrel d)) :
    x &&& 0x7c000000#32 = 0x14000000#32 ∧ d = specImm26 x := by
  obtain ⟨row, hm, ho, hv, ha⟩ := decodeFrom_row env x table 0 r h
  have hall : table.all (fun r => !(isCall r.op) ||
      ((r.mask == 0xfc000000#32) && ((r.value == 0x14000000#32) || (r.value == 0x94000000#32)) && (r.args == [arg_slabel_imm26_2, 0, 0, 0, 0])) ||
      (r.args.head? == some arg_conditional)) = true := by decide +kernel
  have hrow := List.all_eq_true.mp hall row hm
  have hcall : isCall row.op = true := by rw [ho]; rcases hop with h | h <;> simp [isCall, h]
  simp only [hcall, Bool.not_true, Bool.false_or, Bool.or_eq_true, Bool.and_eq_true, beq_iff_eq] at hrow
  rcases hrow with ⟨⟨hmask, hval⟩, hargs⟩ | hcond
  · rw [hargs] at ha
    have hargs' : r.args = [.pcrel (slabel_imm26_2 x)] := by
      have : decodeArgs env r.row [arg_slabel_imm26_2, 0, 0, 0, 0] x = some [.pcrel (slabel_imm26_2 x)] := by
        rw [decodeArgs_interpreted env r.row x _ (by decide)]; rfl
      rw [this] at ha; exact (Option.some.inj ha).symm
    rw [hargs'] at hd
    simp only [List.head?_cons, Option.some.injEq, Arg.pcrel.injEq] at hd
    refine ⟨?_, by rw [← hd, slabel26_spec]⟩
    rw [hmask] at hv
    have hk : (0x7c000000#32) = 0xfc000000#32 &&& 0x7c000000#32 := by decide
    rw [hk, ← BitVec.and_assoc, hv]
    rcases hval with h | h <;> rw [h] <;> decide
  · exfalso
    cases hargs : row.args with
    | nil => simp [hargs] at hcond
    | cons k ks =>
      simp only [hargs, List.head?_cons, Option.some.injEq] at hcond
      subst hcond
      rw [hargs] at ha
      unfold decodeArgs at ha
      have hi : interp arg_conditional x = some (.cond ((x &&& 0xf#32).toNat)) := rfl
      simp only [show arg_conditional ≠ 0 by decide, if_false, decodeArg, hi] at ha
      cases hrest : decodeArgs env r.row ks x with
      | none => simp [hrest] at ha
      | some as =>
        simp only [hrest, Option.map_some, Option.some.injEq] at ha
        rw [← ha] at hd
        simp at hd

example : ∀ env, ∃ r, decode env 0x97ffffff#32 = some r ∧ opName r.op = "BL" ∧ r.args.head? = some (.pcrel (-4#64)) := by
  intro env
  have h := decode_BL env 0x97ffffff#32 (by decide)
  cases hd : decode env 0x97ffffff#32 with
  | none => simp [hd, view] at h
  | some r =>
    simp only [hd, view, Option.map_some, Option.some.injEq, Prod.mk.injEq] at h
    refine ⟨r, rfl, h.1, ?_⟩
    rw [h.2]; decide

/-- GetInnerFunc, soundness AND first-ness: an address is returned only for a word at an aligned offset `c ≤ 4096` that IS a B/BL
    encoding, the address is `start + c + SignExtend(imm26:'00')`, and it is the FIRST qualifying one: every aligned offset before
    `c` holds a decodable word for which no address is computed (not B/BL, or a backward branch staying inside), not followed by the
    function prologue. -/
theorem inner_func_addr (env : Env) (mem : Nat → BitVec 32) (start : BitVec 64) (fuel : Nat) (a : BitVec 64)
    (h : getInnerFunc env mem start fuel 0 false = .target a) :
    ∃ c, c % 4 = 0 ∧ c ≤ 4096 ∧ mem c &&& 0x7c000000#32 = 0x14000000#32 ∧
      a = start + BitVec.ofNat 64 c + specImm26 (mem c) ∧
      innerTarget start c (specImm26 (mem c)) = some a ∧
      (∀ k, k < c → k % 4 = 0 → ∃ rk, decode env (mem k) = some rk ∧ callHit start k rk = none ∧ prologueAt mem (k + 4) = false) := by
  obtain ⟨c, r, d, _, h2, h3, h4, h5, h6, h7, h8⟩ := inner_target env mem start fuel 0 false a (by omega) h
  have hop : opName r.op = "B" ∨ opName r.op = "BL" := by simpa [isCall] using h5
  obtain ⟨hw, hd⟩ := call_result_is_call_word env (mem c) r d h4 hop h6
  subst hd
  exact ⟨c, by omega, h3, hw, innerTarget_eq _ _ _ _ h7, h7, fun k hk hk4 => h8 k (by omega) hk (by omega)⟩

/-- composition for the call encodings: if the scan meets a B/BL word first at offset `c` whose displacement qualifies,
    it returns exactly `start + c + SignExtend(imm26:'00')`.  (One step of the loop.) -/
theorem inner_func_call (env : Env) (mem : Nat → BitVec 32) (start : BitVec 64) (fuel c : Nat) (a : BitVec 64)
    (hx : mem c &&& 0x7c000000#32 = 0x14000000#32) (ht : innerTarget start c (specImm26 (mem c)) = some a) :
    getInnerFunc env mem start (fuel + 1) c false = .target a := by
  have hsplit : mem c &&& 0xfc000000#32 = 0x14000000#32 ∨ mem c &&& 0xfc000000#32 = 0x94000000#32 := by
    have hm : (0xfc000000#32) = 0x7c000000#32 ||| 0x80000000#32 := by decide
    rcases bit31_cases (mem c) with ⟨h, _⟩ | ⟨h, _⟩
    · left; rw [hm, BitVec.and_or_distrib_left, hx, h]; decide
    · right; rw [hm, BitVec.and_or_distrib_left, hx, h]; decide
  have key : ∃ r, decode env (mem c) = some r ∧ isCall r.op = true ∧ r.args = [.pcrel (specImm26 (mem c))] := by
    rcases hsplit with h | h
    · have hb := decode_B env _ h
      cases hd : decode env (mem c) with
      | none => simp [hd, view] at hb
      | some r =>
        simp only [hd, view, Option.map_some, Option.some.injEq, Prod.mk.injEq] at hb
        exact ⟨r, rfl, by simp [isCall, hb.1], hb.2⟩
    · have hb := decode_BL env _ h
      cases hd : decode env (mem c) with
      | none => simp [hd, view] at hb
      | some r =>
        simp only [hd, view, Option.map_some, Option.some.injEq, Prod.mk.injEq] at hb
        exact ⟨r, rfl, by simp [isCall, hb.1], hb.2⟩
  obtain ⟨r, hd, hcall, hargs⟩ := key
  have hop : r.op ≠ 0 := decode_op_ne_zero env _ r hd
  simp [getInnerFunc, hd, isInt0, callHit, hcall, hargs, ht]

/-- a wrapper whose first word is `BL .+64` -/
example : ∀ env, getInnerFunc env (fun c => if c = 0 then 0x94000010#32 else 0#32) 0x400000#64 1 0 false = .target 0x400040#64 :=
  fun env => inner_func_call env _ _ 0 0 _ (by decide) (by decide)

/-- the Go loop is bounded: 1026 iterations of fuel always suffice -/
theorem inner_func_terminates (env : Env) (mem : Nat → BitVec 32) (start : BitVec 64) :
    getInnerFunc env mem start 1026 0 false ≠ .fuel := inner_fuel env mem start 1026 0 false (by omega) (by omega)

/-- GetFuncSize (uncached scan): the extent returned is a multiple of 4, every word before it decodes, no aligned offset strictly
    inside it holds the function prologue, and it is the offset of the first undecodable word or of the prologue met
    after at least one instruction — nothing else can stop the scan (`minimal` and the int0 flags are dead on arm64: no decode has Op 0). -/
theorem func_size_extent (env : Env) (mem : Nat → BitVec 32) (minimal : Bool) (fuel n : Nat)
    (h : getFuncSize env mem minimal fuel 0 false = some n) :
    n % 4 = 0 ∧ (∀ k, k < n → k % 4 = 0 → (decode env (mem k)).isSome = true) ∧
      (∀ k, 0 < k → k < n → k % 4 = 0 → prologueAt mem k = false) ∧
      (decode env (mem n) = none ∨ (0 < n ∧ prologueAt mem n = true)) := by
  obtain ⟨_, h2, h3, h4, h5⟩ := funcSize_extent env mem minimal (fun w r => decode_op_ne_zero env w r) fuel 0 n h
  exact ⟨by omega, fun k hk hk4 => h3 k (by omega) hk (by omega), fun k h0 hk hk4 => h5 k h0 hk (by omega), h4⟩

/-- GetFuncSize WITH its cache (func_arm64.go:31-37, reviewer C1): a first call on an empty cache entry returns the scanned extent and
    stores it; every later call for the same `start` returns that same extent (whatever the memory holds by then) and keeps the entry. -/
theorem func_size_cached (env : Env) (mem mem' : Nat → BitVec 32) (minimal minimal' : Bool) (fuel fuel' n : Nat)
    (h : getFuncSize env mem minimal fuel 0 false = some n) :
    getFuncSizeCached env mem minimal fuel none = some (n, some n) ∧
    getFuncSizeCached env mem' minimal' fuel' (some n) = some (n, some n) := by
  simp [getFuncSizeCached, h]

/-- zero padding ends a function: NOP; zero word -/
example : ∀ env, getFuncSize env (fun c => if c = 0 then 0xd503201f#32 else 0#32) false 3 0 false = some 4 := by
  intro env
  have hs : ((decodeDef 0xd503201f#32).bind id).isSome = true := by decide +kernel
  have h0 := decode_zero env
  match hd : decodeDef 0xd503201f#32 with
  | none => simp [hd] at hs
  | some none => simp [hd] at hs
  | some (some r) =>
    have h1 := decodeDef_sound env _ _ hd
    have hop := decode_op_ne_zero env _ r h1
    simp [getFuncSize, h1, h0, isInt0, prologueAt]

end C17
