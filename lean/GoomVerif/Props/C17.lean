import GoomVerif.Lemmas.C17L
/-! C17 — the arm64 decoder on branch and address instructions, and what goom's extent / wrapper scans make of it.

    Everything below is about `A64Dec.decode env` over the REGENERATED table `Gen.A64.table`, for EVERY oracle `env`
    standing for the ~290 argument decoders and 107 `canDecode` predicates the model does not interpret.
    PARTIAL with respect to the property: totality of the decoder and of `Inst.String()` on all 2^32 words and agreement
    with the reference decoder outside the classes below are NOT theorems; the check executes them (see checks/C17.py). -/
namespace C17
open Gen.A64 A64Dec C17L

/-- the result of decoding, as a consumer sees it: opcode name and arguments -/
def view (r : Option Res) : Option (String × List Arg) := r.map (fun r => (opName r.op, r.args))

/-- B (Arm ARM C6.2.26): every word `000101 imm26` decodes to `B` with displacement `SignExtend(imm26:'00')` — the
    table has no earlier row that could take such a word, for any behaviour of the uninterpreted decoders. -/
theorem decode_B (env : Env) (x : BitVec 32) (hx : x &&& 0xfc000000#32 = 0x14000000#32) :
    view (decode env x) = some ("B", [.pcrel (specImm26 x)]) := by
  obtain ⟨r, h1, h2, h3⟩ := decode_class env _ _ "B" [arg_slabel_imm26_2, 0, 0, 0, 0] (by decide +kernel) x hx
  have h3' : r.args = [.pcrel (slabel_imm26_2 x)] := by rw [h3]; rfl
  simp [view, h1, h2, h3', slabel26_spec]

example : (0x17ffffff#32) &&& 0xfc000000#32 = 0x14000000#32 ∧ specImm26 0x17ffffff#32 = -4#64 := by decide

end C17
