import GoomVerif.Lemmas.C17L
/-! C17 — the arm64 decoder on branch and address instructions, and what goom's extent / wrapper scans make of it.

    Everything below is about `A64Dec.decode env` over the REGENERATED table `Gen.A64.table`, for EVERY oracle `env`
    standing for the ~290 argument decoders and 107 `canDecode` predicates the model does not interpret.
    The class conditions and displacement formulas (`C17L.specImm26`, …) are written from the Arm ARM, not from the code.

    PARTIAL with respect to the property: totality of the decoder and of `Inst.String()` on all 2^32 words and agreement
    with the reference decoder outside the classes below are NOT theorems; the check executes them (see checks/C17.py). -/
namespace C17
open Gen.A64 A64Dec C17L

/-- the result of decoding, as a consumer sees it: opcode name and arguments -/
def view (r : Option Res) : Option (String × List Arg) := r.map (fun r => (opName r.op, r.args))

/-! ### clause "agrees … on decodability, opcode and the PC-relative displacement of branch and address instructions":
    for ALL words of each class, decodability, opcode and displacement are what the Arm ARM says -/

/-- B (C6.2.26): every word `000101 imm26` decodes to `B` with displacement `SignExtend(imm26:'00')`: the table has no
    earlier row that could take such a word, whatever the uninterpreted decoders do. -/
theorem decode_B (env : Env) (x : BitVec 32) (hx : x &&& 0xfc000000#32 = 0x14000000#32) :
    view (decode env x) = some ("B", [.pcrel (specImm26 x)]) := by
  obtain ⟨r, h1, h2, h3⟩ := decode_class env _ _ "B" [arg_slabel_imm26_2, 0, 0, 0, 0] (by decide +kernel) x hx
  have h3' : r.args = [.pcrel (slabel_imm26_2 x)] := by rw [h3]; rfl
  simp [view, h1, h2, h3', slabel26_spec]

example : (0x17ffffff#32) &&& 0xfc000000#32 = 0x14000000#32 ∧ specImm26 0x17ffffff#32 = -4#64 := by decide

/-- BL (C6.2.33): `100101 imm26` -/
theorem decode_BL (env : Env) (x : BitVec 32) (hx : x &&& 0xfc000000#32 = 0x94000000#32) :
    view (decode env x) = some ("BL", [.pcrel (specImm26 x)]) := by
  obtain ⟨r, h1, h2, h3⟩ := decode_class env _ _ "BL" [arg_slabel_imm26_2, 0, 0, 0, 0] (by decide +kernel) x hx
  have h3' : r.args = [.pcrel (slabel_imm26_2 x)] := by rw [h3]; rfl
  simp [view, h1, h2, h3', slabel26_spec]

example : (0x94000010#32) &&& 0xfc000000#32 = 0x94000000#32 ∧ specImm26 0x94000010#32 = 64#64 := by decide

/-- B.cond (C6.2.25): `01010100 imm19 0 cond` -/
theorem decode_Bcond (env : Env) (x : BitVec 32) (hx : x &&& 0xff000010#32 = 0x54000000#32) :
    view (decode env x) = some ("B", [.cond (x &&& 0xf#32).toNat, .pcrel (specImm19 x)]) := by
  obtain ⟨r, h1, h2, h3⟩ := decode_class env _ _ "B" [arg_conditional, arg_slabel_imm19_2, 0, 0, 0] (by decide +kernel) x hx
  have h3' : r.args = [.cond (x &&& 0xf#32).toNat, .pcrel (slabel_imm19_2 x)] := by rw [h3]; rfl
  simp [view, h1, h2, h3', slabel19_spec]

example : (0x54ffffe1#32) &&& 0xff000010#32 = 0x54000000#32 ∧ specImm19 0x54ffffe1#32 = -4#64 := by decide

/-- CBZ (C6.2.47): `sf 0110100 imm19 Rt`, both register sizes -/
theorem decode_CBZ (env : Env) (x : BitVec 32) (hx : x &&& 0x7f000000#32 = 0x34000000#32) :
    view (decode env x) = some ("CBZ", [.reg (bit31 x) (r5 x 0), .pcrel (specImm19 x)]) := by
  rcases split_sf x _ hx with ⟨h, hb⟩ | ⟨h, hb⟩
  · obtain ⟨r, h1, h2, h3⟩ := decode_class env _ _ "CBZ" [arg_Wt, arg_slabel_imm19_2, 0, 0, 0] (by decide +kernel) x h
    have h3' : r.args = [.reg false (r5 x 0), .pcrel (slabel_imm19_2 x)] := by rw [h3]; rfl
    simp [view, h1, h2, h3', slabel19_spec, hb]
  · obtain ⟨r, h1, h2, h3⟩ := decode_class env (0xff000000#32) (0xb4000000#32) "CBZ" [arg_Xt, arg_slabel_imm19_2, 0, 0, 0] (by decide +kernel) x h
    have h3' : r.args = [.reg true (r5 x 0), .pcrel (slabel_imm19_2 x)] := by rw [h3]; rfl
    simp [view, h1, h2, h3', slabel19_spec, hb]

example : (0xb4000043#32) &&& 0x7f000000#32 = 0x34000000#32 ∧ bit31 0xb4000043#32 = true ∧ r5 0xb4000043#32 0 = 3
    ∧ specImm19 0xb4000043#32 = 8#64 := by decide

/-- CBNZ (C6.2.46): `sf 0110101 imm19 Rt` -/
theorem decode_CBNZ (env : Env) (x : BitVec 32) (hx : x &&& 0x7f000000#32 = 0x35000000#32) :
    view (decode env x) = some ("CBNZ", [.reg (bit31 x) (r5 x 0), .pcrel (specImm19 x)]) := by
  rcases split_sf x _ hx with ⟨h, hb⟩ | ⟨h, hb⟩
  · obtain ⟨r, h1, h2, h3⟩ := decode_class env _ _ "CBNZ" [arg_Wt, arg_slabel_imm19_2, 0, 0, 0] (by decide +kernel) x h
    have h3' : r.args = [.reg false (r5 x 0), .pcrel (slabel_imm19_2 x)] := by rw [h3]; rfl
    simp [view, h1, h2, h3', slabel19_spec, hb]
  · obtain ⟨r, h1, h2, h3⟩ := decode_class env (0xff000000#32) (0xb5000000#32) "CBNZ" [arg_Xt, arg_slabel_imm19_2, 0, 0, 0] (by decide +kernel) x h
    have h3' : r.args = [.reg true (r5 x 0), .pcrel (slabel_imm19_2 x)] := by rw [h3]; rfl
    simp [view, h1, h2, h3', slabel19_spec, hb]

example : (0x35ffffe0#32) &&& 0x7f000000#32 = 0x35000000#32 ∧ specImm19 0x35ffffe0#32 = -4#64 := by decide

/-- the tested bit number `b5:b40` -/
def bitNo (x : BitVec 32) : Nat := ((((x >>> 31) &&& 1#32) <<< 5) ||| ((x >>> 19) &&& 0x1f#32)).toNat

/-- TBZ (C6.2.331): `b5 0110110 b40 imm14 Rt` -/
theorem decode_TBZ (env : Env) (x : BitVec 32) (hx : x &&& 0x7f000000#32 = 0x36000000#32) :
    view (decode env x) = some ("TBZ", [.reg (bit31 x) (r5 x 0), .imm (bitNo x), .pcrel (specImm14 x)]) := by
  obtain ⟨r, h1, h2, h3⟩ := decode_class env _ _ "TBZ" [arg_Rt_31_1__W_0__X_1, arg_immediate_0_63_b5_b40, arg_slabel_imm14_2, 0, 0]
    (by decide +kernel) x hx
  have h3' : r.args = [.reg (bit31 x) (r5 x 0), .imm (bitNo x), .pcrel (slabel_imm14_2 x)] := by rw [h3]; rfl
  simp [view, h1, h2, h3', slabel14_spec]

example : (0x36080041#32) &&& 0x7f000000#32 = 0x36000000#32 ∧ bitNo 0x36080041#32 = 1 ∧ specImm14 0x36080041#32 = 8#64 := by decide

/-- TBNZ (C6.2.330): `b5 0110111 b40 imm14 Rt` -/
theorem decode_TBNZ (env : Env) (x : BitVec 32) (hx : x &&& 0x7f000000#32 = 0x37000000#32) :
    view (decode env x) = some ("TBNZ", [.reg (bit31 x) (r5 x 0), .imm (bitNo x), .pcrel (specImm14 x)]) := by
  obtain ⟨r, h1, h2, h3⟩ := decode_class env _ _ "TBNZ" [arg_Rt_31_1__W_0__X_1, arg_immediate_0_63_b5_b40, arg_slabel_imm14_2, 0, 0]
    (by decide +kernel) x hx
  have h3' : r.args = [.reg (bit31 x) (r5 x 0), .imm (bitNo x), .pcrel (slabel_imm14_2 x)] := by rw [h3]; rfl
  simp [view, h1, h2, h3', slabel14_spec]

example : (0xb7ffffe5#32) &&& 0x7f000000#32 = 0x37000000#32 ∧ bitNo 0xb7ffffe5#32 = 63 ∧ specImm14 0xb7ffffe5#32 = -4#64 := by decide

/-- ADR (C6.2.10): `0 immlo 10000 immhi Rd`, displacement `SignExtend(immhi:immlo)` -/
theorem decode_ADR (env : Env) (x : BitVec 32) (hx : x &&& 0x9f000000#32 = 0x10000000#32) :
    view (decode env x) = some ("ADR", [.reg true (r5 x 0), .pcrel (specAdr x)]) := by
  obtain ⟨r, h1, h2, h3⟩ := decode_class env _ _ "ADR" [arg_Xd, arg_slabel_immhi_immlo_0, 0, 0, 0] (by decide +kernel) x hx
  have h3' : r.args = [.reg true (r5 x 0), .pcrel (slabel_immhi_immlo_0 x)] := by rw [h3]; rfl
  simp [view, h1, h2, h3', slabelAdr_spec]

example : (0x70ffffe1#32) &&& 0x9f000000#32 = 0x10000000#32 ∧ specAdr 0x70ffffe1#32 = -1#64 := by decide

/-- ADRP (C6.2.11): `1 immlo 10000 immhi Rd`, displacement `SignExtend(immhi:immlo:Zeros(12))` -/
theorem decode_ADRP (env : Env) (x : BitVec 32) (hx : x &&& 0x9f000000#32 = 0x90000000#32) :
    view (decode env x) = some ("ADRP", [.reg true (r5 x 0), .pcrel (specAdrp x)]) := by
  obtain ⟨r, h1, h2, h3⟩ := decode_class env _ _ "ADRP" [arg_Xd, arg_slabel_immhi_immlo_12, 0, 0, 0] (by decide +kernel) x hx
  have h3' : r.args = [.reg true (r5 x 0), .pcrel (slabel_immhi_immlo_12 x)] := by rw [h3]; rfl
  simp [view, h1, h2, h3', slabelAdrp_spec]

example : (0xf0ffffe1#32) &&& 0x9f000000#32 = 0x90000000#32 ∧ specAdrp 0xf0ffffe1#32 = -4096#64 := by decide

/-- LDR (literal) 32-bit (C6.2.167): `00 011000 imm19 Rt` -/
theorem decode_LDRw (env : Env) (x : BitVec 32) (hx : x &&& 0xff000000#32 = 0x18000000#32) :
    view (decode env x) = some ("LDR", [.reg false (r5 x 0), .pcrel (specImm19 x)]) := by
  obtain ⟨r, h1, h2, h3⟩ := decode_class env _ _ "LDR" [arg_Wt, arg_slabel_imm19_2, 0, 0, 0] (by decide +kernel) x hx
  have h3' : r.args = [.reg false (r5 x 0), .pcrel (slabel_imm19_2 x)] := by rw [h3]; rfl
  simp [view, h1, h2, h3', slabel19_spec]

/-- LDR (literal) 64-bit: `01 011000 imm19 Rt` -/
theorem decode_LDRx (env : Env) (x : BitVec 32) (hx : x &&& 0xff000000#32 = 0x58000000#32) :
    view (decode env x) = some ("LDR", [.reg true (r5 x 0), .pcrel (specImm19 x)]) := by
  obtain ⟨r, h1, h2, h3⟩ := decode_class env _ _ "LDR" [arg_Xt, arg_slabel_imm19_2, 0, 0, 0] (by decide +kernel) x hx
  have h3' : r.args = [.reg true (r5 x 0), .pcrel (slabel_imm19_2 x)] := by rw [h3]; rfl
  simp [view, h1, h2, h3', slabel19_spec]

/-- LDRSW (literal) (C6.2.181): `10 011000 imm19 Rt` -/
theorem decode_LDRSW (env : Env) (x : BitVec 32) (hx : x &&& 0xff000000#32 = 0x98000000#32) :
    view (decode env x) = some ("LDRSW", [.reg true (r5 x 0), .pcrel (specImm19 x)]) := by
  obtain ⟨r, h1, h2, h3⟩ := decode_class env _ _ "LDRSW" [arg_Xt, arg_slabel_imm19_2, 0, 0, 0] (by decide +kernel) x hx
  have h3' : r.args = [.reg true (r5 x 0), .pcrel (slabel_imm19_2 x)] := by rw [h3]; rfl
  simp [view, h1, h2, h3', slabel19_spec]

example : (0x58000041#32) &&& 0xff000000#32 = 0x58000000#32 ∧ specImm19 0x58000041#32 = 8#64 := by decide

/-! ### what the scans rely on: "error / Op == 0" (func_arm64.go:45-58, :118-126) -/

/-- a successful decode never carries `Op == 0`: the `inst.Op == 0 && code[0] == 0x00` padding test of both scans can
    never fire on arm64; the scans stop on a decode error or the prologue only. -/
theorem decode_op_ne_zero (env : Env) (x : BitVec 32) (r : Res) (h : decode env x = some r) : r.op ≠ 0 := by
  obtain ⟨row, hm, ho, _⟩ := decodeFrom_row env x table 0 r h
  have hall : table.all (fun r => r.op != 0) = true := by decide +kernel
  have := List.all_eq_true.mp hall row hm
  rw [← ho]; simpa using this

/-- the zero word (what the linker pads with) is undecodable, whatever the uninterpreted decoders do -/
theorem decode_zero (env : Env) : decode env 0#32 = none := by
  cases h : decode env 0#32 with
  | none => rfl
  | some r =>
    obtain ⟨row, hm, _, hv⟩ := decodeFrom_row env _ table 0 r h
    have hall : table.all (fun r => r.value != 0#32) = true := by decide +kernel
    have := List.all_eq_true.mp hall row hm
    simp at hv
    simp [← hv] at this

/-- whenever the first table row whose mask/value admits the word has no predicate and only interpreted argument kinds
    (or no row admits it), the result is the same for every oracle: the executable `decodeDef` the driver uses is sound. -/
theorem decodeDef_sound (env : Env) (x : BitVec 32) (r : Option Res) (h : decodeDef x = some r) : decode env x = r :=
  decodeDefFrom_sound env x table 0 r h

example : (decodeDef 0xd503201f#32).map (fun r => view r) = some (some ("NOP", [])) := by decide +kernel

/-! ### GetInnerFunc / GetFuncSize (func_arm64.go) -/

/-- func_arm64.go:131-137: in both branches the address returned is `start + curLen + rAddr` (mod 2^64), i.e. the
    architectural target of a branch with displacement `rAddr` located at `start + curLen` -/
theorem inner_target_arith (start : BitVec 64) (curLen : Nat) (rAddr a : BitVec 64) (h : innerTarget start curLen rAddr = some a) :
    a = start + BitVec.ofNat 64 curLen + rAddr := innerTarget_eq start curLen rAddr a h

/-- … and the only displacements for which neither branch is taken are backward ones that stay at or after `start` -/
theorem inner_target_skipped (start : BitVec 64) (curLen : Nat) (rAddr : BitVec 64) :
    innerTarget start curLen rAddr = none ↔ (rAddr.slt 0 = true ∧ (BitVec.ofNat 64 curLen + rAddr).slt 0 = false) :=
  innerTarget_none start curLen rAddr

example : innerTarget 0x400000#64 8 (-4#64) = none ∧ innerTarget 0x400000#64 8 (-12#64) = some 0x3ffffc#64
    ∧ innerTarget 0x400000#64 8 (64#64) = some 0x400048#64 := by decide

/-- GetInnerFunc: an address is returned only for a word at an aligned offset `c ≤ 4096` that decodes to B or BL with a
    PCRel first argument `d`, and it equals `start + c + d`; for the B / BL encodings `d` is the Arm ARM displacement
    (decode_B, decode_BL). -/
theorem inner_func_addr (env : Env) (mem : Nat → BitVec 32) (start : BitVec 64) (fuel : Nat) (a : BitVec 64)
    (h : getInnerFunc env mem start fuel 0 false = .target a) :
    ∃ c r d, c % 4 = 0 ∧ c ≤ 4096 ∧ decode env (mem c) = some r ∧ (opName r.op = "B" ∨ opName r.op = "BL") ∧
      r.args.head? = some (.pcrel d) ∧ a = start + BitVec.ofNat 64 c + d := by
  obtain ⟨c, r, d, _, h2, h3, h4, h5, h6, h7⟩ := inner_target env mem start fuel 0 false a (by omega) h
  refine ⟨c, r, d, by omega, h3, h4, ?_, h6, innerTarget_eq _ _ _ _ h7⟩
  simpa [isCall] using h5

/-- composition for the call encodings: if the scan meets a B/BL word first at offset `c` whose displacement qualifies,
    it returns exactly `start + c + SignExtend(imm26:'00')`.  (One step of the loop.) -/
theorem inner_func_call (env : Env) (mem : Nat → BitVec 32) (start : BitVec 64) (fuel c : Nat) (a : BitVec 64)
    (hx : mem c &&& 0x7c000000#32 = 0x14000000#32) (ht : innerTarget start c (specImm26 (mem c)) = some a) :
    getInnerFunc env mem start (fuel + 1) c false = .target a := by
  have hsplit : mem c &&& 0xfc000000#32 = 0x14000000#32 ∨ mem c &&& 0xfc000000#32 = 0x94000000#32 := by
    have hm : (0xfc000000#32) = 0x7c000000#32 ||| 0x80000000#32 := by decide
    rcases bit31_cases (mem c) with ⟨h, _⟩ | ⟨h, _⟩
    · left; rw [hm, BitVec.and_or_distrib_left, hx, h]; decide
    · right; rw [hm, BitVec.and_or_distrib_left, hx, h]; decide
  have key : ∃ r, decode env (mem c) = some r ∧ isCall r.op = true ∧ r.args = [.pcrel (specImm26 (mem c))] := by
    rcases hsplit with h | h
    · have hb := decode_B env _ h
      cases hd : decode env (mem c) with
      | none => simp [hd, view] at hb
      | some r =>
        simp only [hd, view, Option.map_some, Option.some.injEq, Prod.mk.injEq] at hb
        exact ⟨r, rfl, by simp [isCall, hb.1], hb.2⟩
    · have hb := decode_BL env _ h
      cases hd : decode env (mem c) with
      | none => simp [hd, view] at hb
      | some r =>
        simp only [hd, view, Option.map_some, Option.some.injEq, Prod.mk.injEq] at hb
        exact ⟨r, rfl, by simp [isCall, hb.1], hb.2⟩
  obtain ⟨r, hd, hcall, hargs⟩ := key
  have hop : r.op ≠ 0 := decode_op_ne_zero env _ r hd
  simp [getInnerFunc, hd, isInt0, hop, callHit, hcall, hargs, ht]

/-- a wrapper whose first word is `BL .+64` -/
example : ∀ env, getInnerFunc env (fun c => if c = 0 then 0x94000010#32 else 0#32) 0x400000#64 1 0 false = .target 0x400040#64 :=
  fun env => inner_func_call env _ _ 0 0 _ (by decide) (by decide)

/-- the Go loop is bounded: 1026 iterations of fuel always suffice -/
theorem inner_func_terminates (env : Env) (mem : Nat → BitVec 32) (start : BitVec 64) :
    getInnerFunc env mem start 1026 0 false ≠ .fuel := inner_fuel env mem start 1026 0 false (by omega) (by omega)

/-- GetFuncSize: the extent returned is a multiple of 4, every word before it decodes, and it is the offset of the first
    undecodable word or of the function prologue met after at least one instruction — nothing else can stop the scan
    (`minimal` and the int0 flags are dead on arm64 because no decode has Op 0). -/
theorem func_size_extent (env : Env) (mem : Nat → BitVec 32) (minimal : Bool) (fuel n : Nat)
    (h : getFuncSize env mem minimal fuel 0 false = some n) :
    n % 4 = 0 ∧ (∀ k, k < n → k % 4 = 0 → (decode env (mem k)).isSome = true) ∧
      (decode env (mem n) = none ∨ (0 < n ∧ prologueAt mem n = true)) := by
  obtain ⟨_, h2, h3, h4⟩ := funcSize_extent env mem minimal (fun w r => decode_op_ne_zero env w r) fuel 0 n h
  exact ⟨by omega, fun k hk hk4 => h3 k (by omega) hk (by omega), h4⟩

/-- zero padding ends a function: NOP; zero word -/
example : ∀ env, getFuncSize env (fun c => if c = 0 then 0xd503201f#32 else 0#32) false 3 0 false = some 4 := by
  intro env
  have hs : ((decodeDef 0xd503201f#32).bind id).isSome = true := by decide +kernel
  have h0 := decode_zero env
  match hd : decodeDef 0xd503201f#32 with
  | none => simp [hd] at hs
  | some none => simp [hd] at hs
  | some (some r) =>
    have h1 := decodeDef_sound env _ _ hd
    have hop := decode_op_ne_zero env _ r h1
    simp [getFuncSize, h1, h0, isInt0, prologueAt, hop]

end C17
