import GoomVerif.Lemmas.C19L
/-! # C19 — debug and trace logging never change what a mock does

Model: `Model/Debug.lean` (`interceptDebugInfo`, `SprintV`, the logger switches, Apply/Return/When/Returns/call/Reset).
`fmt` is the parameter `env.render`; the transparency theorem needs it to be total (finding F13 is exactly a value
on which it is not).  All statements quantify over every environment (signature, mocker kind, original function),
every operation list and every value; nothing is enumerated. -/
namespace C19
open Debug C19L

/-! ## clause "rendering arguments and results never panics": SprintV's guards -/

/-- SprintV never hands a nil pointer or nil interface to fmt: its output is the same for any two renderers that
    agree on all other values (arg/value.go:106). -/
theorem sprintv_guards_nil (r r' : Val → Option String) (ps : List Val)
    (h : ∀ a ∈ ps, guardedNil a = false → r a = r' a) : sprintV r ps = sprintV r' ps := by
  unfold sprintV
  rw [sprintPieces_congr r r' ps h]

/-- A vector of nil pointers / nil interfaces is rendered as "nil,..,nil" whatever fmt would do with them —
    even a renderer that fails on everything is never consulted. -/
theorem sprintv_nil_only (r : Val → Option String) (ps : List Val) (h : ∀ a ∈ ps, guardedNil a = true) :
    sprintV r ps = some (joinWith "," (ps.map (fun _ => "nil"))) := by
  have : ∀ qs : List Val, (∀ a ∈ qs, guardedNil a = true) → sprintPieces r qs = some (qs.map (fun _ => "nil")) := by
    intro qs
    induction qs with
    | nil => intro _; rfl
    | cons a rest ih =>
      intro hq
      have ha : guardedNil a = true := hq a (List.mem_cons_self ..)
      have hr := ih (fun b hb => hq b (List.mem_cons_of_mem _ hb))
      simp only [sprintPieces, sprint1, ha, if_true, hr, List.map_cons]
  unfold sprintV
  rw [this ps h]
  rfl

example : sprintV (fun _ => none) [nilPtr, nilIface, nilPtr] = some "nil,nil,nil" := by decide

/-- SprintV returns whenever fmt returns on the values that are not guarded. -/
theorem sprintv_total (r : Val → Option String) (ps : List Val)
    (h : ∀ a ∈ ps, guardedNil a = false → (r a).isSome = true) : (sprintV r ps).isSome = true := by
  have := sprintPieces_some r ps h
  unfold sprintV
  cases hp : sprintPieces r ps with
  | none => simp [hp] at this
  | some q => rfl

/-- hypotheses of `sprintv_total` are satisfiable with a renderer that does fail elsewhere -/
example : (sprintV (fun v => if v.isNil then none else some v.tok) [nilPtr, intVal 3, nilIface]).isSome = true := by decide

/-! ## clause "variadic targets": CallSlice on the packed slice ≡ direct call -/

/-- The wrapper's choice (debug.go:43-47: `CallSlice` iff variadic, else `Call`) forwards every argument vector a
    compiled call can deliver to the wrapped function unchanged, for every signature. -/
theorem variadic_forwarding {β : Type} (sg : Sig) (f : List Val → β) (fail : String → β) (args : List Val)
    (h : sg.accepts args = true) :
    (if sg.variadic then reflectCallSlice sg f fail args else reflectCall sg f fail args) = f args := by
  cases hv : sg.velem with
  | none =>
    have : sg.variadic = false := by simp [Sig.variadic, hv]
    simp only [this, Bool.false_eq_true, if_false]
    exact call_forward sg f fail args hv h
  | some e =>
    have : sg.variadic = true := by simp [Sig.variadic, hv]
    simp only [this, if_true]
    exact callSlice_forward sg f fail args e hv h

/-- a variadic signature with fixed parameters and a non-empty packed slice meets the hypothesis -/
example : ({ params := [.str], velem := some .int, nOut := 1, isMethod := false } : Sig).accepts
    [.atom { kind := .str, isNil := false, tok := "sab" }, .pack [{ kind := .int, isNil := false, tok := "4" }]] = true := by decide

/-- Why the distinction in debug.go:43 is needed: plain `Call` on the packed vector of a variadic function never
    reaches the callee (reflect refuses `[]E` as an `E`). -/
theorem call_on_packed_slice_fails {β : Type} (sg : Sig) (f : List Val → β) (fail : String → β) (args : List Val) (e : Kind)
    (hv : sg.velem = some e) (h : sg.accepts args = true) :
    reflectCall sg f fail args = fail "reflect-cannot-use-as-type" :=
  call_on_packed_fails sg f fail args e hv h

/-! ## main clause: the logging configuration changes only what is logged -/

def exEnvT : Env := { sig := { params := [], velem := none, nOut := 1, isMethod := false }, kind := .patch, name := "pkg.G",
                      render := fun v => some v.tok, orig := fun _ => [intVal 0] }

/-- The full-strength statement for an environment: all four configurations give the transcript of logging-off. -/
def DebugTransparent (env : Env) : Prop :=
  ∀ (cfg : Cfg) (ops : List Op), obs env (initSt cfg) ops = obs env (initSt .off) ops

/-- General form: two states that differ only in logger switches, log, and debug wrappers around what is installed
    produce the same transcript (calls, arguments, results, panics) for every operation list — including lists that
    toggle the switches in the middle — and end in states that again differ only in that way.
    Hypotheses (`Total`): fmt returns on every value (otherwise `Findings/C19F13.lean`), the user methods fmt runs
    (String/Error/Format) record nothing (otherwise `Findings/C19F27.lean`), and the mocked function is not in the list
    `loggerCallees` of functions the console logger calls itself (otherwise `Findings/C19F14.lean`).
    Limits of the statement, not of the proof: one mocker per environment; sequential callers; panics are classes. -/
theorem debug_transparent_sim (env : Env) (tot : Total env) (a b : St) (h : Sim a b) (ops : List Op) :
    obs env a ops = obs env b ops ∧ Sim (run env a ops).2 (run env b ops).2 :=
  run_sim env tot ops a b h

/-- The property for the four configurations {off, OpenDebug, OpenTrace, GOOM_DEBUG}, partial in `fmt`. -/
theorem debug_transparent_partial (env : Env) (tot : Total env) : DebugTransparent env := by
  intro cfg ops
  have h : Sim (initSt cfg) (initSt .off) := by cases cfg <;> exact ⟨rfl, rfl, rfl⟩
  exact (debug_transparent_sim env tot _ _ h ops).1

/-- Turning the switches in the middle of a scenario is invisible: the transcript of a scenario with its
    OpenDebug/CloseDebug/OpenTrace/CloseTrace operations removed, started in ANY related state (e.g. logging never touched),
    is the transcript of the original scenario without the tokens of those operations. -/
theorem toggles_erasable (env : Env) (tot : Total env) (a b : St) (h : Sim a b) (ops : List Op) :
    obs env b (ops.filter (fun o => !isDbg o)) = eraseToks ops (obs env a ops) :=
  run_erase env tot ops a b h

example : obs exEnvT (initSt .off) ([Op.dbg .tron, .ret [intVal 3], .dbg .troff, .call [], .dbg .on].filter (fun o => !isDbg o))
        = eraseToks [Op.dbg .tron, .ret [intVal 3], .dbg .troff, .call [], .dbg .on] ["ok", "ok", "ok", "->r:3", "ok"] := by decide

/-- Variable mocks (Var / UnExportedVar: Set, Apply, Reset): what the test reads from the variable, and the variable's
    final value, do not depend on the logging configuration the process started in nor on switches flipped in between.
    Full on the model (the debug line of var.go:53/:87, ue_var.go:60 renders nothing but the mocker's name). -/
theorem var_transparent (cfg : Cfg) (v : Val) (ops : List VarOp) :
    (varRun (varInit cfg v) ops).1 = (varRun (varInit .off v) ops).1 ∧
    (varRun (varInit cfg v) ops).2.cur = (varRun (varInit .off v) ops).2.cur :=
  varRun_sim ops _ _ rfl rfl

/-- a pointer variable that is nil before the mock: the debug run logs, the off run does not, the reads agree and Reset restores nil -/
example : (varRun (varInit .debug nilPtr) [.set (intVal 1), .read, .reset, .read]).1 = ["ok", "1", "ok", "nil"] ∧
          (varRun (varInit .debug nilPtr) [.set (intVal 1), .read, .reset, .read]).2.log.length = 1 ∧
          (varRun (varInit .off nilPtr) [.set (intVal 1), .read, .reset, .read]).2.log.length = 0 := by decide

/-- With total fmt the process never dies in the logging code, in any configuration, whatever the scenario. -/
theorem debug_never_crashes (env : Env) (tot : Total env) (cfg : Cfg) (ops : List Op) :
    (run env (initSt cfg) ops).2.dead = false :=
  run_dead env tot ops _ (by cases cfg <;> rfl)

/-! ### the hypotheses are satisfiable and the flag really does something -/

def exSig : Sig := { params := [.str], velem := some .int, nOut := 1, isMethod := false }
def exEnv : Env := { sig := exSig, kind := .patch, name := "pkg.F", render := fun v => some v.tok, orig := fun _ => [intVal 0] }
def exOps : List Op :=
  [.apply { name := "sum1", kind := .sum, k := 1 },
   .call [.atom { kind := .str, isNil := false, tok := "sab", n := 2 }, .pack [{ kind := .int, isNil := false, tok := "4", n := 4 }]],
   .ret [intVal 9],
   .call [.atom { kind := .str, isNil := false, tok := "s", n := 0 }, .pack []]]

example : Total exEnv := ⟨fun _ => rfl, fun _ => rfl, by decide⟩
/-- in configuration debug the callback IS reached through the wrapper and two lines ARE logged, in configuration off
    neither happens — and the transcripts agree (by the theorem, and here by evaluation) -/
example : (run exEnv (initSt .debug) exOps).2.wraps = [true] ∧ (run exEnv (initSt .debug) exOps).2.log.length = 2 ∧
          (run exEnv (initSt .off) exOps).2.wraps = [false] ∧ (run exEnv (initSt .off) exOps).2.log.length = 0 ∧
          obs exEnv (initSt .debug) exOps = obs exEnv (initSt .off) exOps ∧
          obs exEnv (initSt .off) exOps = ["ok", "cbsum1(sab,[4]#1)->r:7~a1", "ok", "->r:9"] := by decide

/-- In the model OpenTrace is more than OpenDebug: it additionally turns on the LogLevel-gated patch diagnostics
    (`traceLines`), which — like the console log — no observation depends on.  (`initSt .env` = `initSt .debug` is
    faithful: logger.go:70 `init` just calls `OpenDebug()`.) -/
example : (run exEnv (initSt .trace) exOps).2.traceLines = 2 ∧ (run exEnv (initSt .debug) exOps).2.traceLines = 0 ∧
          obs exEnv (initSt .trace) exOps = obs exEnv (initSt .debug) exOps := by decide

end C19
