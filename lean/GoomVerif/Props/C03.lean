import GoomVerif.Lemmas.C03L
import GoomVerif.Props.C15
/-!
# C03 — calling the origin placeholder runs the unmodified original (relocation arithmetic)

All theorems are about `Reloc.*` with `Cfg.fixed` (the code as repaired by fixes F2/F3), which calls the
`EncodeAddress`/`DecodeAddress`/`opExpand` definitions regenerated from `internal/bytecode/addr.go` and the jump emitter
regenerated from `internal/patch/monkey_amd64.go`.  They quantify over **every** instruction list that meets the decoder
contract `C03L.WF`, every origin/placeholder address pair within reach and every position; proofs are by induction over
the list.  `sdisp` is the ISA reading of a little-endian displacement field, not goom's.
-/
namespace C03
open Reloc C03L

/-- the `add` operand of `EncodeAddress` is the integer distance origin − (placeholder + growth) when that is small -/
theorem add_toInt (from_ tramp : BitVec 64) (g : Int) (hg1 : -2^20 ≤ g) (hg2 : g ≤ 2^20)
    (hd1 : -2^31 ≤ (from_.toNat : Int) - tramp.toNat) (hd2 : (from_.toNat : Int) - tramp.toNat ≤ 2^31) :
    (from_ - tramp - BitVec.ofInt 64 g).toInt = (from_.toNat : Int) - tramp.toNat - g := by
  have h1 : (from_ - tramp).toInt = (from_.toNat : Int) - tramp.toNat := by
    rw [BitVec.toInt_sub]
    simp only [BitVec.toInt_eq_toNat_cond, Int.bmod_def]
    have := from_.isLt; have := tramp.isLt
    split <;> split <;> split <;> omega
  rw [BitVec.toInt_sub, h1, ofInt_toInt g (by omega) (by omega), Int.bmod_def]
  split <;> omega

theorem neg_toInt (g : Int) (hg1 : -2^20 ≤ g) (hg2 : g ≤ 2^20) : (- BitVec.ofInt 64 g).toInt = - g := by
  rw [BitVec.toInt_neg, ofInt_toInt g (by omega) (by omega), Int.bmod_def]
  split <;> omega

/-- **per-instruction relocation** (fix_addr_amd64.go:99 `fixIns` as repaired): the image keeps every byte outside the
    PC-relative field (`Shape`, trailing immediates `i.tail` included) and moves the displacement by exactly the distance
    the instruction itself moved when its target is outside `[0, bs)`; a backward target inside the copy is moved by the
    growth in between; everything else is copied verbatim. `A` is origin − placeholder, `g` the growth so far. -/
theorem fixIns_spec (i : Ins) (hw : WF i) (hp : i.pcrelOff ≠ 0) (pos : Nat) (bs : Int) (from_ tramp : BitVec 64) (g : Int) (o : Reloc.Bytes)
    (hg1 : -2^20 ≤ g) (hg2 : g ≤ 2^20)
    (hd1 : -2^31 + 2^21 ≤ (from_.toNat : Int) - tramp.toNat) (hd2 : (from_.toNat : Int) - tramp.toNat < 2^31 - 2^21)
    (hr1 : -2^31 + 8 ≤ sdisp i.field + ((from_.toNat : Int) - tramp.toNat - g))
    (hr2 : sdisp i.field + ((from_.toNat : Int) - tramp.toNat - g) < 2^31)
    (hb : -2^30 ≤ sdisp i.field - g ∨ 0 ≤ sdisp i.field)
    (h : fixIns Cfg.fixed i pos bs from_ tramp g = .ok o) :
    ∃ pre' f', o = pre' ++ f' ++ i.tail ∧ Shape i pre' f' ∧
      (let a := sdisp i.field
       let t : Int := a + pos + i.len
       ((0 < a ∧ bs ≤ t) ∨ (a < 0 ∧ t < 0) → sdisp f' + (o.length : Int) = a + i.len + ((from_.toNat : Int) - tramp.toNat - g)) ∧
       (a < 0 → 0 ≤ t → sdisp f' + (o.length : Int) = a + i.len - g) ∧
       (a = 0 ∨ (0 < a ∧ t < bs) → o = i.bytes)) := by
  have hA := add_toInt from_ tramp g hg1 hg2 (by omega) (by omega)
  have hN := neg_toInt g hg1 hg2
  have htl := tail_length i hw hp
  have hsplit := bytes_split i
  have hfl := field_length i hw hp
  have hpl := pre_length i hw hp
  have hsame : ∃ pre' f', i.bytes = pre' ++ f' ++ i.tail ∧ Shape i pre' f' ∧ sdisp f' + (i.bytes.length : Int) = sdisp i.field + i.len :=
    ⟨i.pre, i.field, hsplit, Or.inl ⟨rfl, hfl⟩, by rw [hw.len_eq]⟩
  unfold fixIns at h
  simp only [hp, if_false, decodeRel_wf i hw hp, Cfg.fixed, if_true, true_and] at h
  split at h
  · rename_i hout
    split at h
    · simp at h
    · rename_i r hr
      have hlen : i.pcrel < r.length ∨ ¬ i.pcrel < r.length := by omega
      obtain ⟨pre', f', rfl, hsh, hsd⟩ := encode_spec i hw hp _ r (by omega) (by omega) (by omega) (by omega) hr
      rw [hA] at hsd
      split at h
      · simp only [Except.ok.injEq] at h; subst h
        refine ⟨pre', f', rfl, hsh, ?_, ?_, ?_⟩
        · intro _; simp only [List.length_append]; push_cast; push_cast at hsd; omega
        · intro h1 h2; omega
        · intro h1; omega
      · rename_i hnl
        exfalso; apply hnl
        rcases hsh with ⟨rfl, hf⟩ | ⟨_, _, _, hf⟩ <;> simp only [List.length_append] <;> omega
  · rename_i hout
    split at h
    · rename_i hin
      split at h
      · simp at h
      · rename_i r hr
        have : -2^30 ≤ sdisp i.field - g := by omega
        obtain ⟨pre', f', rfl, hsh, hsd⟩ := encode_spec i hw hp _ r (by omega) (by omega) (by omega) (by omega) hr
        rw [hN] at hsd
        simp only [Except.ok.injEq] at h; subst h
        refine ⟨pre', f', rfl, hsh, ?_, ?_, ?_⟩
        · intro h1; omega
        · intro _ _; simp only [List.length_append]; push_cast; push_cast at hsd; omega
        · intro h1; omega
    · rename_i hin
      simp only [Except.ok.injEq] at h; subst h
      obtain ⟨pre', f', e, hsh, hsd⟩ := hsame
      refine ⟨pre', f', e, hsh, ?_, ?_, ?_⟩
      · intro h1; omega
      · intro h1 h2
        have : g = 0 := by omega
        omega
      · intro _; rfl

/-! ## the block level: `fixBlock` copies whole instructions, one image per instruction -/

/-- `out` is the concatenation of the `fixIns` images of the instructions of `prog` from original offset `pos`
    (new offset `npos`) up to original offset `n` — whole instructions only, none dropped, none added. -/
def Copied (from_ tramp : BitVec 64) (bs : Int) : List Ins → Nat → Nat → Reloc.Bytes → Nat → Prop
  | [], pos, _, out, n => pos = n ∧ out = []
  | i :: rest, pos, npos, out, n =>
    (pos = n ∧ out = []) ∨
    (pos < n ∧ ∃ o out', out = o ++ out' ∧ fixIns Cfg.fixed i pos bs from_ tramp ((npos : Int) - pos) = .ok o ∧
      Copied from_ tramp bs rest (pos + i.len) (npos + o.length) out' n)

theorem Copied_done (from_ tramp : BitVec 64) (bs : Int) (prog : List Ins) (n npos : Nat) :
    Copied from_ tramp bs prog n npos [] n := by
  cases prog with
  | nil => exact ⟨rfl, rfl⟩
  | cons i rest => exact Or.inl ⟨rfl, rfl⟩

/-- where `fixBlock` stops, as a function of the instruction lengths and RET flags only (fix_addr_amd64.go:83–:90) -/
def cutPos (least : Int) : List Ins → Nat → Nat
  | [], pos => pos
  | i :: rest, pos =>
    if 0 < least ∧ least ≤ ((pos + i.len : Nat) : Int) ∧ cutFlag rest = true then pos + i.len else cutPos least rest (pos + i.len)

theorem cutPos_ge (least : Int) (prog : List Ins) (pos : Nat) : pos ≤ cutPos least prog pos := by
  induction prog generalizing pos with
  | nil => simp [cutPos]
  | cons i rest ih =>
    simp only [cutPos]
    split
    · omega
    · have := ih (pos + i.len); omega

theorem cutPos_ge_cons (least : Int) (i : Ins) (rest : List Ins) (pos : Nat) :
    pos + i.len ≤ cutPos least (i :: rest) pos := by
  simp only [cutPos]
  split
  · omega
  · exact cutPos_ge least rest (pos + i.len)

/-- the second pass (`leastSize = n`) stops exactly where the first pass did -/
theorem cutPos_idem (least : Int) (prog : List Ins) (pos : Nat) (hl : ∀ i ∈ prog, 0 < i.len) :
    cutPos (cutPos least prog pos) prog pos = cutPos least prog pos := by
  induction prog generalizing pos with
  | nil => simp [cutPos]
  | cons i rest ih =>
    have hi := hl i (by simp)
    have hrest : ∀ j ∈ rest, 0 < j.len := fun j hj => hl j (by simp [hj])
    by_cases hc : 0 < least ∧ least ≤ ((pos + i.len : Nat) : Int) ∧ cutFlag rest = true
    · have e : cutPos least (i :: rest) pos = pos + i.len := by simp only [cutPos]; rw [if_pos hc]
      rw [e]
      simp only [cutPos]
      rw [if_pos ⟨by omega, by omega, hc.2.2⟩]
    · have e : cutPos least (i :: rest) pos = cutPos least rest (pos + i.len) := by simp only [cutPos]; rw [if_neg hc]
      rw [e]
      have hge := cutPos_ge least rest (pos + i.len)
      have hno : ¬ (0 < ((cutPos least rest (pos + i.len) : Nat) : Int) ∧ ((cutPos least rest (pos + i.len) : Nat) : Int) ≤ ((pos + i.len : Nat) : Int) ∧
          cutFlag rest = true) := by
        intro ⟨_, h2, h3⟩
        cases rest with
        | nil => simp [cutFlag] at h3
        | cons j rest' =>
          have := cutPos_ge_cons least j rest' (pos + i.len)
          have := hrest j (by simp)
          omega
      simp only [cutPos]
      rw [if_neg hno]
      exact ih (pos + i.len) hrest

/-- **whole instructions, nothing dropped** (fix_addr_amd64.go:50 `fixBlock`): a successful pass returns the bytes already
    collected followed by exactly one `fixIns` image per instruction up to the cut position. -/
theorem fixBlock_copied (from_ tramp : BitVec 64) (least bs : Int) (tl : Tail) (prog : List Ins) (hwf : ∀ i ∈ prog, WF i)
    (pos : Nat) (acc out : Reloc.Bytes) (n : Nat)
    (h : fixBlock Cfg.fixed from_ tramp least bs tl prog pos acc = .ok (out, n)) :
    n = cutPos least prog pos ∧ ∃ out', out = acc ++ out' ∧ Copied from_ tramp bs prog pos acc.length out' n := by
  induction prog generalizing pos acc with
  | nil =>
    unfold fixBlock at h
    cases tl <;> simp [Cfg.fixed] at h
    obtain ⟨rfl, rfl⟩ := h
    exact ⟨by simp [cutPos], [], by simp, rfl, rfl⟩
  | cons i rest ih =>
    have hw := hwf i (by simp)
    have hrest : ∀ j ∈ rest, WF j := fun j hj => hwf j (by simp [hj])
    unfold fixBlock at h
    simp only [hw.opnz, Cfg.fixed, if_true] at h
    split at h
    · simp at h
    · rename_i o ho
      simp only [Bool.false_eq_true, if_false] at ho
      split at h
      · rename_i hc
        simp only [Except.ok.injEq, Prod.mk.injEq] at h
        obtain ⟨rfl, rfl⟩ := h
        refine ⟨by simp only [cutPos]; rw [if_pos hc], o, rfl, Or.inr ⟨by have := hw.len_pos; omega, o, [], by simp, ho, Copied_done _ _ _ _ _ _⟩⟩
      · rename_i hc
        obtain ⟨hn, out', rfl, hcp⟩ := ih hrest _ _ h
        have hge := cutPos_ge least rest (pos + i.len)
        refine ⟨by simp only [cutPos]; rw [if_neg hc]; exact hn, o ++ out', by simp, Or.inr ⟨by have := hw.len_pos; omega, o, out', rfl, ho, ?_⟩⟩
        simpa using hcp

/-- **n ≥ 13 unless the whole function was copied** -/
theorem cutPos_least (least : Int) (prog : List Ins) (pos : Nat) :
    least ≤ (cutPos least prog pos : Nat) ∨ cutPos least prog pos = pos + progLen prog := by
  induction prog generalizing pos with
  | nil => right; simp [cutPos, progLen]
  | cons i rest ih =>
    simp only [cutPos]
    split
    · rename_i hc; left; exact hc.2.1
    · rcases ih (pos + i.len) with h | h
      · left; exact h
      · right; rw [h]; simp [progLen]; omega

/-- the instructions of `prog` (first one at `pos`) paired with their start positions -/
def located : List Ins → Nat → List (Nat × Ins)
  | [], _ => []
  | i :: rest, pos => (pos, i) :: located rest (pos + i.len)

/-- **no branch into the overwritten prefix** (fix_addr_amd64.go:146 `checkJumpBetween`): when the check passes, no
    instruction of the function (at a position ≤ funcSize) has a PC-relative target strictly inside `(0, n)`. -/
theorem checkJumpBetween_sound (n fs : Int) (tl : Tail) (prog : List Ins) (pos : Nat)
    (h : checkJumpBetween n fs tl prog pos = .ok ()) :
    ∀ p i, (p, i) ∈ located prog pos → (p : Int) ≤ fs → i.pcrelOff ≠ 0 →
      ∃ rel, decodeRel i = .ok rel ∧ ¬ (0 < rel + p + i.len ∧ rel + p + i.len < n) := by
  induction prog generalizing pos with
  | nil => intro p i hm; simp [located] at hm
  | cons j rest ih =>
    intro p i hm hp hpc
    simp only [located, List.mem_cons] at hm
    unfold checkJumpBetween at h
    rcases hm with hm | hm
    · obtain ⟨rfl, rfl⟩ := Prod.mk.inj hm
      have : ¬ fs < (p : Int) := by omega
      simp only [this, if_false, hpc] at h
      split at h
      · simp at h
      · rename_i rel hrel
        refine ⟨rel, hrel, ?_⟩
        split at h
        · simp at h
        · omega
    · by_cases hfs : fs < (pos : Int)
      · -- positions only grow
        have hge : ∀ (l : List Ins) (q : Nat) p i, (p, i) ∈ located l q → q ≤ p := by
          intro l; induction l with
          | nil => intro q p i hm; simp [located] at hm
          | cons a l ihl =>
            intro q p i hm
            simp only [located, List.mem_cons] at hm
            rcases hm with hm | hm
            · have := (Prod.mk.inj hm).1; omega
            · have := ihl _ _ _ hm; omega
        have := hge _ _ _ _ hm
        omega
      · simp only [hfs, if_false] at h
        split at h
        · exact ih _ h p i hm hp hpc
        · split at h
          · simp at h
          · split at h
            · simp at h
            · exact ih _ h p i hm hp hpc


/-! ## the whole relocation -/

/-- decomposition of a successful `fixRelativeAddr` (fix_addr_amd64.go:22): both passes succeeded, the check passed, the
    second pass stopped at the same `n`. -/
theorem fixRelativeAddr_ok (from_ tramp : BitVec 64) (fs least : Int) (tl : Tail) (prog : List Ins) (hwf : ∀ i ∈ prog, WF i)
    (out : Reloc.Bytes) (n : Nat) (h : fixRelativeAddr Cfg.fixed from_ tramp fs least tl prog = .ok (out, n)) :
    n = cutPos least prog 0 ∧ checkJumpBetween n fs tl prog 0 = .ok () ∧ Copied from_ tramp n prog 0 0 out n := by
  unfold fixRelativeAddr at h
  split at h
  · simp at h
  · rename_i o1 n1 h1
    split at h
    · simp at h
    · rename_i hck
      split at h
      · simp at h
      · rename_i o2 n2 h2
        simp only [Except.ok.injEq, Prod.mk.injEq] at h
        obtain ⟨rfl, rfl⟩ := h
        obtain ⟨hn1, _⟩ := fixBlock_copied from_ tramp least fs tl prog hwf 0 [] o1 n1 h1
        obtain ⟨hn2, out', e, hcp⟩ := fixBlock_copied from_ tramp n1 n1 tl prog hwf 0 [] o2 n2 h2
        have hl : ∀ i ∈ prog, 0 < i.len := fun i hi => (hwf i hi).len_pos
        have : n2 = n1 := by rw [hn2, hn1]; exact cutPos_idem least prog 0 hl
        subst this
        simp only [List.nil_append] at e; subst e
        exact ⟨hn1, hck, by simpa using hcp⟩

/-- **failure writes nothing** (fix_origin_amd64.go:20) — definitional on this model (the model returns either the bytes of
    the single write or an error, it has no memory): what it pins down is that no failure class of the relocation is
    swallowed by `fixOrigin`.  That the *function* is left unchanged is NOT a theorem here: `replaceFunc` unpatches an earlier
    mock before `fixOrigin` runs (finding F29, executed-layer case RemockRefused). `fixOrigin` yields either the bytes of its single write or an
    error, and every failure of the relocation (error or panic class) is a failure of `fixOrigin`. -/
theorem reloc_fail_is_clean (from_ tramp : BitVec 64) (trampSize : Nat) (prog : List Ins) (e : String)
    (h : fixRelativeAddr Cfg.fixed from_ tramp (progLen prog) ((13 : Nat) : Int) .eof prog = .error e) :
    13 < trampSize → fixOrigin Cfg.fixed from_ tramp trampSize 13 prog = .error e := by
  intro ht
  unfold fixOrigin
  simp only [Nat.not_le.mpr ht, if_false, h]

/-- **the copy ends with a jump that lands on origin+n** and fits the placeholder: shape of a successful `fixOrigin`.
    The last clause transcribes the code as it is: when the WHOLE function was consumed (`n = progLen`) the bytes written
    are the raw original ones (`progBytes`), not `fixed` — finding F27, witness `C03F.F27_whole_copy_is_raw`; the property
    would demand `data = fixed` there. -/
theorem fixOrigin_ok (from_ tramp : BitVec 64) (trampSize : Nat) (prog : List Ins) (hwf : ∀ i ∈ prog, WF i) (data : Reloc.Bytes)
    (h : fixOrigin Cfg.fixed from_ tramp trampSize 13 prog = .ok data) :
    ∃ fixed n, fixRelativeAddr Cfg.fixed from_ tramp (progLen prog) ((13 : Nat) : Int) .eof prog = .ok (fixed, n) ∧
      data.length ≤ trampSize ∧ 13 < trampSize ∧ (13 ≤ n ∨ n = progLen prog) ∧
      (n < progLen prog →
        data = fixed ++ Gen.Amd64.jmpToOriginFunctionValue (tramp + BitVec.ofNat 64 fixed.length) (from_ + BitVec.ofNat 64 n)) ∧
      (¬ n < progLen prog → data = fixed) := by
  unfold fixOrigin at h
  simp only [] at h
  split at h
  · simp at h
  · rename_i hts
    split at h
    · simp at h
    · rename_i fixed n hfr
      refine ⟨fixed, n, hfr, ?_⟩
      have hn := (fixRelativeAddr_ok from_ tramp _ 13 .eof prog hwf fixed n hfr).1
      have hl := cutPos_least 13 prog 0
      simp only [Cfg.fixed, if_true] at h
      have hn13 : 13 ≤ n ∨ n = progLen prog := by
        rw [hn]; rcases hl with hl | hl
        · left; exact_mod_cast hl
        · right; simpa using hl
      by_cases hlt : n < progLen prog
      · simp only [hlt, if_true] at h
        split at h
        · simp at h
        · rename_i hsz
          simp only [Except.ok.injEq] at h
          exact ⟨by rw [← h]; omega, by omega, hn13, fun _ => h.symm, fun hh => absurd hlt hh⟩
      · simp only [hlt, if_false] at h
        split at h
        · simp at h
        · rename_i hsz
          simp only [Except.ok.injEq] at h
          exact ⟨by rw [← h]; omega, by omega, hn13, fun hh => absurd hh hlt, fun _ => h.symm⟩

/-- **the appended jump transfers control to exactly origin+n and changes nothing else — in BOTH forms** (since fix 36abd0c the
    far form is `JMP [RIP+0] ; .quad to`, register-free): `C15.return_exact` on the regenerated emitter.  No distance
    hypothesis is left; the former relative-form hypothesis (defect F5) is gone. -/
theorem jump_back_lands (from_ tramp : BitVec 64) (k n : Nat) (m : X86.Mach) :
    X86.exec (Gen.Amd64.jmpToOriginFunctionValue (tramp + BitVec.ofNat 64 k) (from_ + BitVec.ofNat 64 n))
      { m with rip := tramp + BitVec.ofNat 64 k } = some { m with rip := from_ + BitVec.ofNat 64 n } :=
  C15.return_exact _ _ m

/-- the jump back costs 5 bytes (relative form) or 14 (far form): what `fixOrigin` compares with the placeholder size -/
theorem jump_back_length (from_ tramp : BitVec 64) (k n : Nat) :
    (Gen.Amd64.jmpToOriginFunctionValue (tramp + BitVec.ofNat 64 k) (from_ + BitVec.ofNat 64 n)).length =
      if Gen.Amd64.relative (tramp + BitVec.ofNat 64 k) (from_ + BitVec.ofNat 64 n) then 5 else 14 :=
  C15.amd64_origin_len _ _

/-- **a successful `fixOrigin` of a partially moved function, executed from the end of the relocated instructions, lands on
    origin+n** — whatever the distance between origin and placeholder — and occupies |fixed| + 5 or + 14 bytes ≤ placeholder size. -/
theorem fixOrigin_returns_to_origin (from_ tramp : BitVec 64) (trampSize : Nat) (prog : List Ins) (hwf : ∀ i ∈ prog, WF i)
    (data : Reloc.Bytes) (m : X86.Mach) (h : fixOrigin Cfg.fixed from_ tramp trampSize 13 prog = .ok data) :
    ∃ fixed n, fixRelativeAddr Cfg.fixed from_ tramp (progLen prog) ((13 : Nat) : Int) .eof prog = .ok (fixed, n) ∧
      (n < progLen prog →
        X86.exec (data.drop fixed.length) { m with rip := tramp + BitVec.ofNat 64 fixed.length } =
          some { m with rip := from_ + BitVec.ofNat 64 n } ∧
        data.length = fixed.length +
          (if Gen.Amd64.relative (tramp + BitVec.ofNat 64 fixed.length) (from_ + BitVec.ofNat 64 n) then 5 else 14) ∧
        data.length ≤ trampSize) := by
  obtain ⟨fixed, n, hfr, hsz, _, _, hj, _⟩ := fixOrigin_ok from_ tramp trampSize prog hwf data h
  refine ⟨fixed, n, hfr, fun hlt => ?_⟩
  have hd := hj hlt
  refine ⟨?_, ?_, hsz⟩
  · rw [hd, List.drop_left]; exact jump_back_lands from_ tramp fixed.length n m
  · rw [hd, List.length_append, jump_back_length]

/-! ## the relocation theorem -/

/-- what one relocated instruction must satisfy (`F`,`T` = origin / placeholder address as integers, `n` = copied length) -/
def Image (F T : Int) (n : Nat) (i : Ins) (pos npos : Nat) (o : Reloc.Bytes) : Prop :=
  (i.pcrelOff = 0 → o = i.bytes) ∧
  (i.pcrelOff ≠ 0 → ∃ pre' f', o = pre' ++ f' ++ i.tail ∧ Shape i pre' f' ∧
    ((0 < sdisp i.field ∧ (n : Int) ≤ sdisp i.field + pos + i.len) ∨ (sdisp i.field < 0 ∧ sdisp i.field + pos + i.len < 0) →
        T + npos + (o.length : Int) + sdisp f' = F + (sdisp i.field + pos + i.len)) ∧
    (sdisp i.field < 0 → 0 ≤ sdisp i.field + pos + i.len → (npos : Int) + o.length + sdisp f' = sdisp i.field + pos + i.len) ∧
    (sdisp i.field = 0 ∨ (0 < sdisp i.field ∧ sdisp i.field + pos + i.len < n) → o = i.bytes))

/-- **the full-strength statement**: `out` is, instruction by instruction, a faithful image of `prog[pos .. n)` -/
def Faithful (F T : Int) (n : Nat) : List Ins → Nat → Nat → Reloc.Bytes → Prop
  | [], pos, _, out => pos = n ∧ out = []
  | i :: rest, pos, npos, out =>
    (pos = n ∧ out = []) ∨
    (pos < n ∧ ∃ o out', out = o ++ out' ∧ Image F T n i pos npos o ∧ Faithful F T n rest (pos + i.len) (npos + o.length) out')

/-- every PC-relative target stays encodable from the placeholder (true inside one image < 2 GiB) -/
def Reach (F T : Int) (prog : List Ins) : Prop :=
  ∀ i ∈ prog, i.pcrelOff ≠ 0 → ∀ g : Int, 0 ≤ g → g ≤ 2^20 →
    -2^31 + 8 ≤ sdisp i.field + (F - T - g) ∧ sdisp i.field + (F - T - g) < 2^31 ∧ (-2^30 ≤ sdisp i.field - g ∨ 0 ≤ sdisp i.field)

theorem image_len (i : Ins) (hw : WF i) (pre' f' : Reloc.Bytes) (hp : i.pcrelOff ≠ 0) (hs : Shape i pre' f') :
    i.len ≤ (pre' ++ f' ++ i.tail).length ∧ (pre' ++ f' ++ i.tail).length ≤ i.len + 4 := by
  have htl := tail_length i hw hp
  have hpl := pre_length i hw hp
  simp only [List.length_append]
  rcases hs with ⟨rfl, hf⟩ | ⟨h1, h2, hx, hf⟩
  · omega
  · have hc := opExpand_cases _ _ hx
    rcases hc with ⟨_, rfl⟩ | ⟨_, rfl⟩ | ⟨_, rfl⟩ | ⟨_, rfl⟩ <;> simp only [List.length_cons, List.length_nil] <;> omega

theorem copied_faithful (from_ tramp : BitVec 64) (n : Nat) (hn : n ≤ 2^18)
    (hd1 : -2^31 + 2^21 ≤ (from_.toNat : Int) - tramp.toNat) (hd2 : (from_.toNat : Int) - tramp.toNat < 2^31 - 2^21)
    (prog : List Ins) (hwf : ∀ i ∈ prog, WF i) (hreach : Reach from_.toNat tramp.toNat prog)
    (pos npos : Nat) (out : Reloc.Bytes) (hg1 : pos ≤ npos) (hg2 : npos ≤ pos + 4 * pos)
    (h : Copied from_ tramp n prog pos npos out n) :
    Faithful from_.toNat tramp.toNat n prog pos npos out := by
  induction prog generalizing pos npos out with
  | nil => exact h
  | cons i rest ih =>
    have hw := hwf i (by simp)
    have hrest : ∀ j ∈ rest, WF j := fun j hj => hwf j (by simp [hj])
    have hreach' : Reach from_.toNat tramp.toNat rest := fun j hj => hreach j (by simp [hj])
    simp only [Copied] at h
    simp only [Faithful]
    rcases h with h | ⟨hlt, o, out', rfl, hfix, hcp⟩
    · exact Or.inl h
    · refine Or.inr ⟨hlt, o, out', rfl, ?_, ?_⟩
      · constructor
        · intro hp0
          unfold fixIns at hfix
          simp only [hp0, if_true, Except.ok.injEq] at hfix
          exact hfix.symm
        · intro hp
          obtain ⟨r1, r2, r3⟩ := hreach i (by simp) hp ((npos : Int) - pos) (by omega) (by omega)
          obtain ⟨pre', f', rfl, hsh, c1, c2, c3⟩ := fixIns_spec i hw hp pos n from_ tramp ((npos : Int) - pos) o (by omega) (by omega)
            hd1 hd2 r1 r2 r3 hfix
          refine ⟨pre', f', rfl, hsh, ?_, ?_, c3⟩
          · intro hc; have := c1 hc; omega
          · intro ha ht; have := c2 ha ht; omega
      · have hlen : i.len ≤ o.length ∧ o.length ≤ i.len + 4 := by
          by_cases hp : i.pcrelOff = 0
          · unfold fixIns at hfix
            simp only [hp, if_true, Except.ok.injEq] at hfix
            rw [← hfix, hw.len_eq]; omega
          · obtain ⟨r1, r2, r3⟩ := hreach i (by simp) hp ((npos : Int) - pos) (by omega) (by omega)
            obtain ⟨pre', f', rfl, hsh, _⟩ := fixIns_spec i hw hp pos n from_ tramp ((npos : Int) - pos) o (by omega) (by omega)
              hd1 hd2 r1 r2 r3 hfix
            exact image_len i hw pre' f' hp hsh
        have := hw.len_pos
        exact ih hrest hreach' _ _ _ (by omega) (by omega) hcp

/-- **reloc_faithful** — the relocation theorem: for every instruction list meeting the decoder contract, every
    origin/placeholder pair less than 2^31−2^21 apart with encodable targets, a successful `fixRelativeAddr` returns `n`
    (≥ 13 or the whole function) and bytes that are an instruction-by-instruction faithful image of the first `n` bytes. -/
theorem reloc_faithful (from_ tramp : BitVec 64) (fs : Int) (tl : Tail) (prog : List Ins) (hwf : ∀ i ∈ prog, WF i)
    (hd1 : -2^31 + 2^21 ≤ (from_.toNat : Int) - tramp.toNat) (hd2 : (from_.toNat : Int) - tramp.toNat < 2^31 - 2^21)
    (hreach : Reach from_.toNat tramp.toNat prog) (out : Reloc.Bytes) (n : Nat) (hn : n ≤ 2^18)
    (h : fixRelativeAddr Cfg.fixed from_ tramp fs 13 tl prog = .ok (out, n)) :
    Faithful from_.toNat tramp.toNat n prog 0 0 out ∧ ((13 : Int) ≤ n ∨ n = progLen prog) ∧
    checkJumpBetween n fs tl prog 0 = .ok () := by
  obtain ⟨hcut, hck, hcp⟩ := fixRelativeAddr_ok from_ tramp fs 13 tl prog hwf out n h
  refine ⟨copied_faithful from_ tramp n hn hd1 hd2 prog hwf hreach 0 0 out (by omega) (by omega) hcp, ?_, hck⟩
  rw [hcut]
  rcases cutPos_least 13 prog 0 with h1 | h1
  · left; exact h1
  · right; simpa using h1

/-! ## re-entry (partial: F4) -/

theorem located_mem (prog : List Ins) (pos p : Nat) (i : Ins) (h : (p, i) ∈ located prog pos) : i ∈ prog := by
  induction prog generalizing pos with
  | nil => simp [located] at h
  | cons j rest ih =>
    simp only [located, List.mem_cons] at h
    rcases h with h | h
    · have := (Prod.mk.inj h).2; simp [this]
    · simp [ih _ h]

/-- an instruction of the rest of the function (outside the copied prefix) branches to the function's own entry -/
def BranchesToEntryOutside (n : Nat) (prog : List Ins) : Prop :=
  ∃ p i, (p, i) ∈ located prog 0 ∧ n ≤ p ∧ i.pcrelOff ≠ 0 ∧ sdisp i.field + p + i.len = 0

/-- the full no-re-entry statement: control never comes back from the rest of the function into the overwritten bytes
    `[0, n)` — **not** implied by a successful relocation (F4: every Go function with a stack check ends in
    `CALL morestack; JMP entry`; see `C03F.F4_reentry_not_refused`) -/
def NoReentry (n : Nat) (fs : Int) (prog : List Ins) : Prop :=
  ∀ p i, (p, i) ∈ located prog 0 → n ≤ p → (p : Int) ≤ fs → i.pcrelOff ≠ 0 →
    ¬ (0 ≤ sdisp i.field + p + i.len ∧ sdisp i.field + p + i.len < n)

/-- **partial**: no re-entry, under the explicit hypothesis that nothing outside the prefix branches to the entry
    (for compiled Go: the function has no stack-growth epilogue, or the goroutine has headroom so it is never taken) -/
theorem no_reentry_partial (n : Nat) (fs : Int) (tl : Tail) (prog : List Ins) (hwf : ∀ i ∈ prog, WF i)
    (hck : checkJumpBetween n fs tl prog 0 = .ok ()) (hno : ¬ BranchesToEntryOutside n prog) : NoReentry n fs prog := by
  intro p i hm hn hp hpc ⟨h0, h1⟩
  obtain ⟨rel, hrel, hnot⟩ := checkJumpBetween_sound n fs tl prog 0 hck p i hm hp hpc
  rw [decodeRel_wf i (hwf i (located_mem _ _ _ _ hm)) hpc] at hrel
  simp only [Except.ok.injEq] at hrel
  subst hrel
  apply hno
  exact ⟨p, i, hm, hn, hpc, by omega⟩

/-! ## round 5: jump back derived from the distance, condition preservation, inner targets -/

/-- **the jump back is the 5-byte relative form** (and lands on origin+n, `jump_back_lands`) whenever origin and placeholder are less than
    2^31−2^21 apart and the copy is shorter than 2^20 bytes — derived, not assumed: connects `fixOrigin_ok` with the C15 theorem. -/
theorem relative_of_near (from_ tramp : BitVec 64) (k n : Nat) (hk : k ≤ 2^20) (hn : n ≤ 2^18)
    (hd1 : -2^31 + 2^21 ≤ (from_.toNat : Int) - tramp.toNat) (hd2 : (from_.toNat : Int) - tramp.toNat < 2^31 - 2^21) :
    Gen.Amd64.relative (tramp + BitVec.ofNat 64 k) (from_ + BitVec.ofNat 64 n) = true := by
  rw [C15.relative_spec]
  have hF := from_.isLt; have hT := tramp.isLt
  simp only [BitVec.toInt_eq_toNat_cond, BitVec.toNat_sub, BitVec.toNat_add, BitVec.toNat_ofNat]
  have e5 : (5 : Nat) % 2^64 = 5 := by decide
  omega

theorem jump_back_lands_near (from_ tramp : BitVec 64) (k n : Nat) (m : X86.Mach) (hk : k ≤ 2^20) (hn : n ≤ 2^18)
    (hd1 : -2^31 + 2^21 ≤ (from_.toNat : Int) - tramp.toNat) (hd2 : (from_.toNat : Int) - tramp.toNat < 2^31 - 2^21) :
    X86.exec (Gen.Amd64.jmpToOriginFunctionValue (tramp + BitVec.ofNat 64 k) (from_ + BitVec.ofNat 64 n))
      { m with rip := tramp + BitVec.ofNat 64 k } = some { m with rip := from_ + BitVec.ofNat 64 n } :=
  jump_back_lands from_ tramp k n m

example : Gen.Amd64.relative (0x600000#64 + BitVec.ofNat 64 19) (0x500000#64 + BitVec.ofNat 64 15) = true := by decide

/-- **widening keeps the branch condition**: the near opcode `opExpand` lists for a short branch opcode is the same
    instruction in its rel32 form (Intel SDM: `7x cb` ↔ `0F 8x cd`, `EB cb` ↔ `E9 cd`). -/
theorem opExpand_preserves_condition (op : BitVec 8) (near : Reloc.Bytes)
    (h : Gen.Addr.opExpand (BitVec.setWidth 32 op) = some near) :
    (op = 0xEB#8 ∧ near = [0xE9#8]) ∨ (op.toNat / 16 = 7 ∧ near = [0x0F#8, op + 0x10#8]) := by
  have hc := opExpand_cases _ _ h
  have hinj : ∀ v : BitVec 8, BitVec.setWidth 32 op = BitVec.setWidth 32 v → op = v := by
    intro v hv
    apply BitVec.eq_of_toNat_eq
    have := congrArg BitVec.toNat hv
    simp only [BitVec.toNat_setWidth] at this
    have := op.isLt; have := v.isLt
    omega
  rcases hc with ⟨hk, rfl⟩ | ⟨hk, rfl⟩ | ⟨hk, rfl⟩ | ⟨hk, rfl⟩
  · have := hinj 0x74#8 (by rw [hk]; decide); subst this; right; decide
  · have := hinj 0x76#8 (by rw [hk]; decide); subst this; right; decide
  · have := hinj 0x7f#8 (by rw [hk]; decide); subst this; right; decide
  · have := hinj 0xeb#8 (by rw [hk]; decide); subst this; left; decide

example : Gen.Addr.opExpand (BitVec.setWidth 32 0x76#8) = some [0x0F#8, 0x86#8] := by decide

/-- **no copied or remaining instruction targets the inside of the copied prefix**: combined with `reloc_faithful`, the
    `Image` clauses for inner targets can only fire for a branch to the entry itself (t = 0, which `Image` maps to the start
    of the copy) or to the next instruction (displacement 0): an inner branch across a widened instruction cannot survive. -/
theorem reloc_targets_entry_or_outside (from_ tramp : BitVec 64) (fs : Int) (tl : Tail) (prog : List Ins) (hwf : ∀ i ∈ prog, WF i)
    (out : Reloc.Bytes) (n : Nat) (h : fixRelativeAddr Cfg.fixed from_ tramp fs 13 tl prog = .ok (out, n)) :
    ∀ p i, (p, i) ∈ located prog 0 → (p : Int) ≤ fs → i.pcrelOff ≠ 0 →
      sdisp i.field + p + i.len ≤ 0 ∨ (n : Int) ≤ sdisp i.field + p + i.len := by
  intro p i hm hp hpc
  obtain ⟨_, hck, _⟩ := fixRelativeAddr_ok from_ tramp fs 13 tl prog hwf out n h
  obtain ⟨rel, hrel, hnot⟩ := checkJumpBetween_sound n fs tl prog 0 hck p i hm hp hpc
  rw [decodeRel_wf i (hwf i (located_mem _ _ _ _ hm)) hpc] at hrel
  simp only [Except.ok.injEq] at hrel
  subst hrel
  omega

/-! ## round 6: the check covers the whole function only if the size does -/

theorem located_end (prog : List Ins) (pos p : Nat) (i : Ins) (h : (p, i) ∈ located prog pos) :
    p + i.len ≤ pos + progLen prog := by
  induction prog generalizing pos with
  | nil => simp [located] at h
  | cons j rest ih =>
    simp only [located, List.mem_cons] at h
    rcases h with h | h
    · obtain ⟨rfl, rfl⟩ := Prod.mk.inj h
      simp only [progLen]; omega
    · have := ih _ h
      simp only [progLen]; omega

/-- **the whole function is checked when the size handed to the relocation covers it**: with `progLen prog ≤ fs` (what
    `fixOrigin` passes, *provided `GetFuncSize` returned the real extent of the function* — that provision is outside this model and
    is observed by the probe against the linker's symbol size) no instruction anywhere in the function targets the inside of the
    copied prefix.  A size that under-runs the function voids this: `C03F.truncated_size_misses_back_branch`. -/
theorem reloc_whole_function_checked (from_ tramp : BitVec 64) (fs : Int) (tl : Tail) (prog : List Ins) (hwf : ∀ i ∈ prog, WF i)
    (hfs : (progLen prog : Int) ≤ fs) (out : Reloc.Bytes) (n : Nat)
    (h : fixRelativeAddr Cfg.fixed from_ tramp fs 13 tl prog = .ok (out, n)) :
    ∀ p i, (p, i) ∈ located prog 0 → i.pcrelOff ≠ 0 →
      sdisp i.field + p + i.len ≤ 0 ∨ (n : Int) ≤ sdisp i.field + p + i.len := by
  intro p i hm hpc
  have := located_end prog 0 p i hm
  exact reloc_targets_entry_or_outside from_ tramp fs tl prog hwf out n h p i hm (by omega) hpc


/-! ## non-vacuity: the hypotheses are met by realistic instructions and the success branch is reachable -/

/-- `JBE +0x0b` (76 0b) and `CMPB $0, x(RIP)` (80 3d disp32 00) satisfy the decoder contract -/
def exJbe : Ins := { len := 2, pcrelOff := 1, pcrel := 1, bytes := [0x76#8, 0x0b#8], isRet := false, isCall := false, backward := false, opZero := false }
def exCmpb : Ins := { len := 7, pcrelOff := 2, pcrel := 4, bytes := [0x80#8, 0x3d#8, 0x9c#8, 0x61#8, 0x5c#8, 0x00#8, 0x00#8],
                      isRet := false, isCall := false, backward := false, opZero := false }

example : WF exJbe := ⟨by decide, by decide, by decide, fun _ => by decide, fun _ => by decide, fun _ h => by simp [exJbe] at h, fun _ _ _ => by decide⟩
example : WF exCmpb := ⟨by decide, by decide, by decide, fun _ => by decide, fun _ => by decide, fun _ h => by simp [exCmpb] at h, fun _ h => by simp [exCmpb] at h⟩

/-- the hypotheses of `fixIns_spec` hold for `JBE` at offset 4 of a function at 0x500000 relocated 1 MiB up (outside-target
    branch: widened), and `fixIns` succeeds there with a 6-byte image -/
example : (-2:Int)^31 + 2^21 ≤ ((0x500000#64).toNat : Int) - (0x600000#64).toNat ∧
    ((0x500000#64).toNat : Int) - (0x600000#64).toNat < 2^31 - 2^21 ∧
    sdisp exJbe.field = 11 ∧
    (∃ o, fixIns Cfg.fixed exJbe 4 13 0x500000#64 0x600000#64 0 = .ok o ∧ o.length = 6) := by
  refine ⟨by decide, by decide, by decide, _, rfl, by decide⟩

/-- and for `CMPB $0, x(RIP)` the image keeps the trailing immediate -/
example : ∃ o, fixIns Cfg.fixed exCmpb 0 13 0x402f80#64 0x4022c8#64 0 = .ok o ∧ o.length = 7 ∧ o.drop 6 = exCmpb.tail := by
  refine ⟨_, rfl, by decide, by decide⟩

/-- the size hypothesis of `reloc_whole_function_checked` is met by a size that covers the function -/
example : (progLen [exJbe, exCmpb] : Int) ≤ 9 := by decide

end C03
