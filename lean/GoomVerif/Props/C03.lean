import GoomVerif.Model.Reloc
/-!
# C03 — calling the origin placeholder runs the unmodified original (relocation arithmetic)
-/
namespace C03
open Reloc

/-- the instructions of `prog` (first one at `pos`) paired with their start positions -/
def located : List Ins → Nat → List (Nat × Ins)
  | [], _ => []
  | i :: rest, pos => (pos, i) :: located rest (pos + i.len)

/-- **no branch into the overwritten prefix** (fix_addr_amd64.go:146 `checkJumpBetween`): when the check passes, no
    instruction of the function (at a position ≤ funcSize) has a PC-relative target strictly inside `(0, n)`. -/
theorem checkJumpBetween_sound (n fs : Int) (tl : Tail) (prog : List Ins) (pos : Nat)
    (h : checkJumpBetween n fs tl prog pos = .ok ()) :
    ∀ p i, (p, i) ∈ located prog pos → (p : Int) ≤ fs → i.pcrelOff ≠ 0 →
      ∃ rel, decodeRel i = .ok rel ∧ ¬ (0 < rel + p + i.len ∧ rel + p + i.len < n) := by
  induction prog generalizing pos with
  | nil => intro p i hm; simp [located] at hm
  | cons j rest ih =>
    intro p i hm hp hpc
    simp only [located, List.mem_cons] at hm
    unfold checkJumpBetween at h
    rcases hm with hm | hm
    · obtain ⟨rfl, rfl⟩ := Prod.mk.inj hm
      have : ¬ fs < (p : Int) := by omega
      simp only [this, if_false, hpc] at h
      split at h
      · simp at h
      · rename_i rel hrel
        refine ⟨rel, hrel, ?_⟩
        split at h
        · simp at h
        · omega
    · by_cases hfs : fs < (pos : Int)
      · -- positions only grow
        have hge : ∀ (l : List Ins) (q : Nat) p i, (p, i) ∈ located l q → q ≤ p := by
          intro l; induction l with
          | nil => intro q p i hm; simp [located] at hm
          | cons a l ihl =>
            intro q p i hm
            simp only [located, List.mem_cons] at hm
            rcases hm with hm | hm
            · have := (Prod.mk.inj hm).1; omega
            · have := ihl _ _ _ hm; omega
        have := hge _ _ _ _ hm
        omega
      · simp only [hfs, if_false] at h
        split at h
        · exact ih _ h p i hm hp hpc
        · split at h
          · simp at h
          · split at h
            · simp at h
            · exact ih _ h p i hm hp hpc

end C03
