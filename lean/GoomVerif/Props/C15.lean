import GoomVerif.Lemmas.C15L
import GoomVerif.Gen.Jmp386
import GoomVerif.Gen.JmpIfaceAmd64
import GoomVerif.Gen.IfaceConst
/-!
# C15 — emitted jump sequences transfer control to exactly the requested address

Every theorem quantifies over **all** 64-bit (32-bit for the 386 form) `from_`/`to`/`dx` and over every
machine state `m`.  The functions `Gen.*` are regenerated from goom's Go sources on every run by
`/verif/tools/gen`; the machine semantics `X86.exec` / `A64.exec` are the hand-written mini ISA specs.
-/
namespace C15
open C15L

/-! ## amd64 -/

/-- monkey_amd64.go `jmpToFunctionValue`: 13 bytes, NOP sentinel first, `RDX := to`, `RIP := [to]`;
    nothing else is even representable as changed. -/
theorem amd64_entry (from_ to : BitVec 64) (m : X86.Mach) :
    X86.exec (Gen.Amd64.jmpToFunctionValue from_ to) { m with rip := from_ } =
      some { m with rip := m.mem64 to, rdx := to } := by
  simp [Gen.Amd64.jmpToFunctionValue, X86.exec, bytes64]

/-- patch.go `replaceFunc` → jumpdata.go:53, the call site: the divert sequence is emitted for `replacementInAddr`.  The
    obligation of the call site, made explicit: that argument is the address `fv` of the replacement's *function value*
    (the object whose first word is the code address).  Then the diverted function continues at the replacement's code
    with the closure context register pointing at the function value.  (The site lane reads `fv` from the variable
    itself, for every entry point of the package and every argument form it accepts.) -/
theorem entry_site (origin inAddr fv code : BitVec 64) (m : X86.Mach) (hwire : inAddr = fv) (hfv : m.mem64 fv = code) :
    X86.exec (Gen.Amd64.jmpToFunctionValue origin inAddr) { m with rip := origin } =
      some { m with rip := code, rdx := fv } := by
  subst hwire; subst hfv
  exact amd64_entry origin inAddr m

/-- …and the obligation is needed: handed the address `pvar` of a *variable holding* the function value (what the data
    word of `reflect.Indirect(reflect.ValueOf(&fn))`, or of `reflect.ValueOf(&fn)`, is) the same sequence continues at
    `fv` — the function-value object, data — with the context register pointing at the variable. -/
theorem entry_site_wrong_arg (origin pvar fv : BitVec 64) (m : X86.Mach) (hvar : m.mem64 pvar = fv) :
    X86.exec (Gen.Amd64.jmpToFunctionValue origin pvar) { m with rip := origin } =
      some { m with rip := fv, rdx := pvar } := by
  subst hvar
  exact amd64_entry origin pvar m

/-- non-vacuity: a closure object at 0xc000014820 whose code is at 0x616d60, held in a variable at 0xc00006a148 -/
example : let m : X86.Mach := { rip := 0, rdx := 0, mem64 := fun a => if a = 0xc000014820#64 then 0x616d60#64 else 0xc000014820#64 }
    m.mem64 0xc000014820#64 = 0x616d60#64 ∧ m.mem64 0xc00006a148#64 = 0xc000014820#64 := by decide

theorem amd64_entry_shape (from_ to : BitVec 64) :
    (Gen.Amd64.jmpToFunctionValue from_ to).length = 13 ∧
    Gen.Amd64.checkAlreadyPatch (Gen.Amd64.jmpToFunctionValue from_ to) = true ∧
    (Gen.Amd64.jmpToFunctionValue from_ to).head? = some Gen.Amd64.nopOpcode := by
  simp [Gen.Amd64.jmpToFunctionValue, Gen.Amd64.checkAlreadyPatch, Gen.Amd64.nopOpcode]

/-- iface/jmp_amd64.go `jmpWithRdx`: enter an interface stub with the context register loaded. -/
theorem amd64_stub (dx : BitVec 64) (m : X86.Mach) :
    X86.exec (Gen.IfaceAmd64.jmpWithRdx dx) m = some { m with rip := m.mem64 dx, rdx := dx } := by
  simp [Gen.IfaceAmd64.jmpWithRdx, X86.exec, bytes64]

/-- make_method.go:12/23/40: every stub is written into a slot of `interfaceJumpDataLen` bytes handed out back to back
    by `stub.Acquire`, and `stub.Write` has no length check — the emitted stub must fit its slot or the next stub
    overwrites its tail.  amd64: 12 bytes. -/
theorem amd64_stub_fits_slot (dx : BitVec 64) :
    (Gen.IfaceAmd64.jmpWithRdx dx).length = 12 ∧
    (Gen.IfaceAmd64.jmpWithRdx dx).length ≤ Gen.IfaceConst.interfaceJumpDataLen := by
  simp [Gen.IfaceAmd64.jmpWithRdx, Gen.IfaceConst.interfaceJumpDataLen]

/-- the relative form is chosen exactly when the displacement that is actually encoded, `to-(from+5)`,
    fits the signed 32-bit field -/
theorem relative_spec (from_ to : BitVec 64) :
    Gen.Amd64.relative from_ to = true ↔
      (-(2:Int)^31 ≤ (to - from_ - 5#64).toInt ∧ (to - from_ - 5#64).toInt ≤ 2^31 - 1) := by
  simp only [Gen.Amd64.relative, BitVec.sle, Bool.and_eq_true, decide_eq_true_eq]
  have h1 : (0xffffffff80000000#64).toInt = -(2:Int)^31 := by decide
  have h2 : (0x7fffffff#64).toInt = 2^31 - 1 := by decide
  rw [h1, h2]

/-- `relative` characterised without reference to its own arithmetic: the relative form is chosen exactly when
    *some* value `d` of the signed 32-bit field exists with which a 5-byte jump placed at `from_` reaches `to`
    (`to = from_ + 5 + sext d` in 64-bit address arithmetic). -/
theorem relative_iff_reachable (from_ to : BitVec 64) :
    Gen.Amd64.relative from_ to = true ↔ ∃ d : BitVec 32, to = from_ + 5#64 + BitVec.signExtend 64 d := by
  rw [relative_spec]
  constructor
  · intro hs
    refine ⟨BitVec.setWidth 32 (to - from_ - 5#64), ?_⟩
    apply BitVec.eq_of_toNat_eq
    simp only [BitVec.toInt_eq_toNat_cond, BitVec.toNat_sub, BitVec.toNat_add, BitVec.toNat_ofNat, sext_toNat,
      BitVec.toNat_setWidth] at hs ⊢
    have := from_.isLt
    have := to.isLt
    split at hs <;> split <;> omega
  · rintro ⟨d, rfl⟩
    have hd := d.isLt
    have e : from_ + 5#64 + BitVec.signExtend 64 d - from_ - 5#64 = BitVec.signExtend 64 d := by
      apply BitVec.eq_of_toNat_eq
      simp only [BitVec.toNat_sub, BitVec.toNat_add, BitVec.toNat_ofNat]
      have := from_.isLt
      have := (BitVec.signExtend 64 d).isLt
      omega
    rw [e]
    simp only [BitVec.toInt_eq_toNat_cond, sext_toNat]
    split <;> split <;> omega

/-- whenever the relative (5-byte) form is chosen it lands exactly on `to` -/
theorem amd64_origin_rel (from_ to : BitVec 64) (m : X86.Mach) (h : Gen.Amd64.relative from_ to = true) :
    X86.exec (Gen.Amd64.jmpToOriginFunctionValue from_ to) { m with rip := from_ } = some { m with rip := to } := by
  have hs := (relative_spec from_ to).1 h
  simp only [Gen.Amd64.jmpToOriginFunctionValue, h, if_true]
  split <;> simp [X86.exec, bytes32] <;>
  · apply BitVec.eq_of_toNat_eq
    simp only [BitVec.toInt_eq_toNat_cond, BitVec.toNat_sub, BitVec.toNat_add, BitVec.toNat_ofNat, BitVec.toNat_neg,
      sext_toNat, BitVec.toNat_setWidth] at hs ⊢
    have := from_.isLt
    have := to.isLt
    split at hs <;> split <;> omega

/-- otherwise the absolute form `JMP [RIP+0] ; .quad to` (since fix F27-c15) arrives at exactly `to` as well: the pointer
    is read from the sequence itself, no register is involved -/
theorem amd64_origin_abs (from_ to : BitVec 64) (m : X86.Mach) (h : Gen.Amd64.relative from_ to = false) :
    X86.exec (Gen.Amd64.jmpToOriginFunctionValue from_ to) { m with rip := from_ } = some { m with rip := to } := by
  simp [Gen.Amd64.jmpToOriginFunctionValue, h, X86.exec, bytes64]

/-- non-vacuity: both forms are reachable (a near and a far pair) -/
example : Gen.Amd64.relative 0x401000#64 0x455000#64 = true ∧
          Gen.Amd64.relative 0x7f0000001000#64 0x401000#64 = false := by decide

/-! ### Return from a trampoline (clause "…to return from a trampoline transfer control to exactly the intended destination")

`jmpToOriginFunctionValue from_ to` is the jump **back into code**: `to = origin + n` is the address of the first origin
instruction that was not relocated.  "Exactly the intended destination" therefore means `RIP = to` — not `RIP = [to]` —
and, since the jump sits in the middle of the origin function's instruction stream, no register may change. -/

/-- The clause at full strength (a theorem since fix F27-c15: `return_exact`). -/
def ReturnExact : Prop :=
  ∀ (from_ to : BitVec 64) (m : X86.Mach),
    X86.exec (Gen.Amd64.jmpToOriginFunctionValue from_ to) { m with rip := from_ } = some { m with rip := to }

/-- the relative-form half (kept from the time the absolute form was indirect, defect F5) -/
theorem return_exact_partial (from_ to : BitVec 64) (m : X86.Mach) (h : Gen.Amd64.relative from_ to = true) :
    ∃ m', X86.exec (Gen.Amd64.jmpToOriginFunctionValue from_ to) { m with rip := from_ } = some m' ∧
      m'.rip = to ∧ m'.rdx = m.rdx ∧ m'.mem64 = m.mem64 :=
  ⟨_, amd64_origin_rel from_ to m h, rfl, rfl, rfl⟩

/-- **return from a trampoline lands exactly on the destination, nothing else changes** — every `from_`, `to`, state -/
theorem return_exact : ReturnExact := by
  intro from_ to m
  cases h : Gen.Amd64.relative from_ to
  · exact amd64_origin_abs from_ to m h
  · exact amd64_origin_rel from_ to m h

/-- non-vacuity of `return_exact_partial`: a trampoline 0x2f000 bytes after the origin (the usual situation) -/
example : Gen.Amd64.relative (0x430000#64 + 18#64) (0x401000#64 + 14#64) = true := by decide

/-- A rel32 jump is position dependent: the bytes emitted for the position `emitFor`, when they execute at `from_`,
    land `from_ - emitFor` bytes past `to`.  This is what goes wrong when the `from` argument handed to the emitter is
    not the address the bytes end up at (wrong length added to the trampoline address; an image assembled for one
    trampoline copied into another). -/
theorem amd64_origin_rel_displaced (emitFor from_ to : BitVec 64) (m : X86.Mach)
    (h : Gen.Amd64.relative emitFor to = true) :
    X86.exec (Gen.Amd64.jmpToOriginFunctionValue emitFor to) { m with rip := from_ } =
      some { m with rip := to + (from_ - emitFor) } := by
  have hrel := amd64_origin_rel emitFor to m h
  obtain ⟨d, hd⟩ := origin_rel_bytes emitFor to h
  rw [hd, exec_e9] at hrel ⊢
  have e : emitFor + 5 + BitVec.signExtend 64 d = to := by
    have := congrArg (fun o => o.map X86.Mach.rip) hrel
    simpa using this
  simp only [shift_start emitFor from_, e]

/-- fix_origin_amd64.go:57–61, the call site: the image written at `tramp` is `fixed ++ jmpToOriginFunctionValue
    (tramp + len fixed) (origin + n)`.  The placement obligation is explicit: the jump is the part of the image after
    `fixed.length` bytes, so it executes at `tramp + fixed.length`, which is exactly the `from` argument; then it lands on
    `origin + n`.  (The probe observes `tramp`, `fixed.length`, `origin`, `n` and the bytes in memory on every run.) -/
theorem jump_back_site (tramp origin : BitVec 64) (fixed : List (BitVec 8)) (n : Nat) (m : X86.Mach)
    (from_ : BitVec 64) (hplace : from_ = tramp + BitVec.ofNat 64 fixed.length)
    (h : Gen.Amd64.relative from_ (origin + BitVec.ofNat 64 n) = true) :
    X86.exec ((fixed ++ Gen.Amd64.jmpToOriginFunctionValue (tramp + BitVec.ofNat 64 fixed.length)
        (origin + BitVec.ofNat 64 n)).drop fixed.length) { m with rip := from_ } =
      some { m with rip := origin + BitVec.ofNat 64 n } := by
  subst hplace
  rw [List.drop_left]
  exact amd64_origin_rel _ _ m h

/-- …and the obligation is needed: an emitter call with any other `from` (`tramp + k`, `k ≠ fixed.length`; or another
    trampoline's address) misses `origin + n` by the difference. -/
theorem jump_back_site_wrong_from (tramp origin wrongFrom : BitVec 64) (fixed : List (BitVec 8)) (n : Nat) (m : X86.Mach)
    (h : Gen.Amd64.relative wrongFrom (origin + BitVec.ofNat 64 n) = true) :
    X86.exec ((fixed ++ Gen.Amd64.jmpToOriginFunctionValue wrongFrom (origin + BitVec.ofNat 64 n)).drop fixed.length)
        { m with rip := tramp + BitVec.ofNat 64 fixed.length } =
      some { m with rip := origin + BitVec.ofNat 64 n + (tramp + BitVec.ofNat 64 fixed.length - wrongFrom) } := by
  rw [List.drop_left]
  exact amd64_origin_rel_displaced _ _ _ m h

/-- non-vacuity of the two site theorems: head of 14 bytes relocated to 18 (one rel8 widened), trampolines A and B -/
example : Gen.Amd64.relative (0x430000#64 + BitVec.ofNat 64 18) (0x401000#64 + BitVec.ofNat 64 14) = true ∧
          Gen.Amd64.relative (0x430100#64 + BitVec.ofNat 64 18) (0x401000#64 + BitVec.ofNat 64 14) = true := by decide

/-- the emitted length is 5 (relative) or 14 (absolute): what `len(fixedData)+len(jumpBack)` is compared with the
    trampoline size in fix_origin_amd64.go:71 -/
theorem amd64_origin_len (from_ to : BitVec 64) :
    (Gen.Amd64.jmpToOriginFunctionValue from_ to).length = if Gen.Amd64.relative from_ to then 5 else 14 := by
  simp only [Gen.Amd64.jmpToOriginFunctionValue]
  split
  · split <;> rfl
  · rfl

/-- 386 form (monkey_386.go): `MOV EDX, to ; JMP [EDX]` -/
theorem i386_entry (from_ to : BitVec 32) (m : X86.Mach32) :
    X86.exec32 (Gen.I386.jmpToFunctionValue from_ to) m = some { m with edx := to, eip := m.mem32 to } := by
  simp [Gen.I386.jmpToFunctionValue, X86.exec32, bytes32]

theorem i386_entry_len (from_ to : BitVec 32) : (Gen.I386.jmpToFunctionValue from_ to).length = 7 := by
  simp [Gen.I386.jmpToFunctionValue]

/-! ## arm64 -/

/-- monkey_arm64.go `jmpToFunctionValue`: the four moves reassemble `dx` in X26, `X10 := [X26]`, `BR X10`;
    every other register and memory unchanged. -/
theorem arm64_entry (from_ dx : BitVec 64) (m : A64.Mach) :
    ∃ m', A64.exec (Gen.Arm64.jmpToFunctionValue from_ dx) m = some m' ∧
      m'.pc = m.mem64 dx ∧ m'.x 26 = dx ∧ m'.x 10 = m.mem64 dx ∧
      (∀ r, r ≠ 26 → r ≠ 10 → m'.x r = m.x r) ∧ m'.mem64 = m.mem64 := by
  simp only [Gen.Arm64.jmpToFunctionValue, List.replicate, List.nil_append, List.append_assoc]
  exact arm64_seq dx m _ _ _ _ _ _ _ _ 10 (by decide) (by decide) (by decide) (by decide)

theorem ifaceMovImm_eq : Gen.IfaceArm64.movImm = Gen.Arm64.movImm := rfl

/-- iface/jmp_arm64.go `jmpWithRdx`: same with X27 as the scratch register -/
theorem arm64_stub (dx : BitVec 64) (m : A64.Mach) :
    ∃ m', A64.exec (Gen.IfaceArm64.jmpWithRdx dx) m = some m' ∧
      m'.pc = m.mem64 dx ∧ m'.x 26 = dx ∧ m'.x 27 = m.mem64 dx ∧
      (∀ r, r ≠ 26 → r ≠ 27 → m'.x r = m.x r) ∧ m'.mem64 = m.mem64 := by
  simp only [Gen.IfaceArm64.jmpWithRdx, ifaceMovImm_eq, List.replicate, List.nil_append, List.append_assoc]
  exact arm64_seq dx m _ _ _ _ _ _ _ _ 27 (by decide) (by decide) (by decide) (by decide)

theorem arm64_stub_ctx (ctx a b : BitVec 64) (m : A64.Mach) :
    ∃ m', A64.exec (Gen.IfaceArm64.jmpWithRdxAndCtx ctx a b) m = some m' ∧
      m'.pc = m.mem64 ctx ∧ m'.x 26 = ctx ∧ m'.x 27 = m.mem64 ctx ∧
      (∀ r, r ≠ 26 → r ≠ 27 → m'.x r = m.x r) ∧ m'.mem64 = m.mem64 := by
  simp only [Gen.IfaceArm64.jmpWithRdxAndCtx, ifaceMovImm_eq, List.replicate, List.nil_append, List.append_assoc]
  exact arm64_seq ctx m _ _ _ _ _ _ _ _ 27 (by decide) (by decide) (by decide) (by decide)

/-- arm64 stubs are 24 bytes (six instructions) and fit the `interfaceJumpDataLen` slot of make_method.go; the entry
    jump is 24 bytes too (what `genJumpData` compares with the origin's size). -/
theorem arm64_stub_fits_slot (dx : BitVec 64) :
    (Gen.IfaceArm64.jmpWithRdx dx).length = 24 ∧
    (Gen.IfaceArm64.jmpWithRdx dx).length ≤ Gen.IfaceConst.interfaceJumpDataLen := by
  obtain ⟨a0, b0, c0, d0, h0⟩ := movImm_len4 2#64 0#64 (dx &&& 0xffff#64)
  obtain ⟨a1, b1, c1, d1, h1⟩ := movImm_len4 3#64 1#64 (dx >>> 16 &&& 0xffff#64)
  obtain ⟨a2, b2, c2, d2, h2⟩ := movImm_len4 3#64 2#64 (dx >>> 32 &&& 0xffff#64)
  obtain ⟨a3, b3, c3, d3, h3⟩ := movImm_len4 3#64 3#64 (dx >>> 48 &&& 0xffff#64)
  simp [Gen.IfaceArm64.jmpWithRdx, ifaceMovImm_eq, h0, h1, h2, h3, Gen.IfaceConst.interfaceJumpDataLen]

theorem arm64_stub_ctx_fits_slot (ctx a b : BitVec 64) :
    (Gen.IfaceArm64.jmpWithRdxAndCtx ctx a b).length = 24 ∧
    (Gen.IfaceArm64.jmpWithRdxAndCtx ctx a b).length ≤ Gen.IfaceConst.interfaceJumpDataLen := by
  obtain ⟨a0, b0, c0, d0, h0⟩ := movImm_len4 2#64 0#64 (ctx &&& 0xffff#64)
  obtain ⟨a1, b1, c1, d1, h1⟩ := movImm_len4 3#64 1#64 (ctx >>> 16 &&& 0xffff#64)
  obtain ⟨a2, b2, c2, d2, h2⟩ := movImm_len4 3#64 2#64 (ctx >>> 32 &&& 0xffff#64)
  obtain ⟨a3, b3, c3, d3, h3⟩ := movImm_len4 3#64 3#64 (ctx >>> 48 &&& 0xffff#64)
  simp [Gen.IfaceArm64.jmpWithRdxAndCtx, ifaceMovImm_eq, h0, h1, h2, h3, Gen.IfaceConst.interfaceJumpDataLen]

theorem arm64_entry_len (from_ dx : BitVec 64) : (Gen.Arm64.jmpToFunctionValue from_ dx).length = 24 := by
  obtain ⟨a0, b0, c0, d0, h0⟩ := movImm_len4 2#64 0#64 (dx &&& 0xffff#64)
  obtain ⟨a1, b1, c1, d1, h1⟩ := movImm_len4 3#64 1#64 (dx >>> 16 &&& 0xffff#64)
  obtain ⟨a2, b2, c2, d2, h2⟩ := movImm_len4 3#64 2#64 (dx >>> 32 &&& 0xffff#64)
  obtain ⟨a3, b3, c3, d3, h3⟩ := movImm_len4 3#64 3#64 (dx >>> 48 &&& 0xffff#64)
  simp [Gen.Arm64.jmpToFunctionValue, h0, h1, h2, h3]

/-- monkey_arm64.go:50 — "return from a trampoline" does not exist on arm64: `jmpToOriginFunctionValue` is
    `panic("not support yet")` (and fix_origin_arm64.go panics before reaching it), so the clause has no arm64 instance
    to prove.  This theorem is the guard for that reading: the day the function is implemented it stops checking, and a
    landing theorem (+ an `arm64.origin` oracle in checks/C15.py) has to be added in its place. -/
theorem arm64_origin_unimplemented (from_ to : BitVec 64) :
    Gen.Arm64.jmpToOriginFunctionValue from_ to = .error "panic" := rfl

/-- field layout of one move-wide instruction (Arm ARM C6.2.191/192): sf=1, opc, 100101, hw, imm16, Rd=26 -/
theorem arm64_movImm_fields (opc shift val : BitVec 64) (ho : opc.toNat < 4) (hs : shift.toNat < 4)
    (hv : val.toNat < 65536) :
    X86.leNat (Gen.Arm64.movImm opc shift val) =
      2^31 + opc.toNat * 2^29 + 37 * 2^23 + shift.toNat * 2^21 + val.toNat * 32 + 26 :=
  movImm_word opc shift val ho hs hv

end C15
