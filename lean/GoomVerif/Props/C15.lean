import GoomVerif.Lemmas.C15L
import GoomVerif.Gen.Jmp386
import GoomVerif.Gen.JmpIfaceAmd64
/-!
# C15 — emitted jump sequences transfer control to exactly the requested address

Every theorem quantifies over **all** 64-bit (32-bit for the 386 form) `from_`/`to`/`dx` and over every
machine state `m`.  The functions `Gen.*` are regenerated from goom's Go sources on every run by
`/verif/tools/gen`; the machine semantics `X86.exec` / `A64.exec` are the hand-written mini ISA specs.
-/
namespace C15
open C15L

/-! ## amd64 -/

/-- monkey_amd64.go `jmpToFunctionValue`: 13 bytes, NOP sentinel first, `RDX := to`, `RIP := [to]`;
    nothing else is even representable as changed. -/
theorem amd64_entry (from_ to : BitVec 64) (m : X86.Mach) :
    X86.exec (Gen.Amd64.jmpToFunctionValue from_ to) { m with rip := from_ } =
      some { m with rip := m.mem64 to, rdx := to } := by
  simp [Gen.Amd64.jmpToFunctionValue, X86.exec, bytes64]

theorem amd64_entry_shape (from_ to : BitVec 64) :
    (Gen.Amd64.jmpToFunctionValue from_ to).length = 13 ∧
    Gen.Amd64.checkAlreadyPatch (Gen.Amd64.jmpToFunctionValue from_ to) = true ∧
    (Gen.Amd64.jmpToFunctionValue from_ to).head? = some Gen.Amd64.nopOpcode := by
  simp [Gen.Amd64.jmpToFunctionValue, Gen.Amd64.checkAlreadyPatch, Gen.Amd64.nopOpcode]

/-- iface/jmp_amd64.go `jmpWithRdx`: enter an interface stub with the context register loaded. -/
theorem amd64_stub (dx : BitVec 64) (m : X86.Mach) :
    X86.exec (Gen.IfaceAmd64.jmpWithRdx dx) m = some { m with rip := m.mem64 dx, rdx := dx } := by
  simp [Gen.IfaceAmd64.jmpWithRdx, X86.exec, bytes64]

/-- the relative form is chosen exactly when the displacement that is actually encoded, `to-(from+5)`,
    fits the signed 32-bit field -/
theorem relative_spec (from_ to : BitVec 64) :
    Gen.Amd64.relative from_ to = true ↔
      (-(2:Int)^31 ≤ (to - from_ - 5#64).toInt ∧ (to - from_ - 5#64).toInt ≤ 2^31 - 1) := by
  simp only [Gen.Amd64.relative, BitVec.sle, Bool.and_eq_true, decide_eq_true_eq]
  have h1 : (0xffffffff80000000#64).toInt = -(2:Int)^31 := by decide
  have h2 : (0x7fffffff#64).toInt = 2^31 - 1 := by decide
  rw [h1, h2]

/-- whenever the relative (5-byte) form is chosen it lands exactly on `to` -/
theorem amd64_origin_rel (from_ to : BitVec 64) (m : X86.Mach) (h : Gen.Amd64.relative from_ to = true) :
    X86.exec (Gen.Amd64.jmpToOriginFunctionValue from_ to) { m with rip := from_ } = some { m with rip := to } := by
  have hs := (relative_spec from_ to).1 h
  simp only [Gen.Amd64.jmpToOriginFunctionValue, h, if_true]
  split <;> simp [X86.exec, bytes32] <;>
  · apply BitVec.eq_of_toNat_eq
    simp only [BitVec.toInt_eq_toNat_cond, BitVec.toNat_sub, BitVec.toNat_add, BitVec.toNat_ofNat, BitVec.toNat_neg,
      sext_toNat, BitVec.toNat_setWidth] at hs ⊢
    have := from_.isLt
    have := to.isLt
    split at hs <;> split <;> omega

/-- otherwise the absolute form loads the full address and jumps through it -/
theorem amd64_origin_abs (from_ to : BitVec 64) (m : X86.Mach) (h : Gen.Amd64.relative from_ to = false) :
    X86.exec (Gen.Amd64.jmpToOriginFunctionValue from_ to) { m with rip := from_ } =
      some { m with rip := m.mem64 to, rdx := to } := by
  simp [Gen.Amd64.jmpToOriginFunctionValue, h, X86.exec, bytes64]

/-- non-vacuity: both forms are reachable (a near and a far pair) -/
example : Gen.Amd64.relative 0x401000#64 0x455000#64 = true ∧
          Gen.Amd64.relative 0x7f0000001000#64 0x401000#64 = false := by decide

/-- 386 form (monkey_386.go): `MOV EDX, to ; JMP [EDX]` -/
theorem i386_entry (from_ to : BitVec 32) (m : X86.Mach32) :
    X86.exec32 (Gen.I386.jmpToFunctionValue from_ to) m = some { m with edx := to, eip := m.mem32 to } := by
  simp [Gen.I386.jmpToFunctionValue, X86.exec32, bytes32]

/-! ## arm64 -/

/-- monkey_arm64.go `jmpToFunctionValue`: the four moves reassemble `dx` in X26, `X10 := [X26]`, `BR X10`;
    every other register and memory unchanged. -/
theorem arm64_entry (from_ dx : BitVec 64) (m : A64.Mach) :
    ∃ m', A64.exec (Gen.Arm64.jmpToFunctionValue from_ dx) m = some m' ∧
      m'.pc = m.mem64 dx ∧ m'.x 26 = dx ∧ m'.x 10 = m.mem64 dx ∧
      (∀ r, r ≠ 26 → r ≠ 10 → m'.x r = m.x r) ∧ m'.mem64 = m.mem64 := by
  simp only [Gen.Arm64.jmpToFunctionValue, List.replicate, List.nil_append, List.append_assoc]
  exact arm64_seq dx m _ _ _ _ _ _ _ _ 10 (by decide) (by decide) (by decide) (by decide)

theorem ifaceMovImm_eq : Gen.IfaceArm64.movImm = Gen.Arm64.movImm := rfl

/-- iface/jmp_arm64.go `jmpWithRdx`: same with X27 as the scratch register -/
theorem arm64_stub (dx : BitVec 64) (m : A64.Mach) :
    ∃ m', A64.exec (Gen.IfaceArm64.jmpWithRdx dx) m = some m' ∧
      m'.pc = m.mem64 dx ∧ m'.x 26 = dx ∧ m'.x 27 = m.mem64 dx ∧
      (∀ r, r ≠ 26 → r ≠ 27 → m'.x r = m.x r) ∧ m'.mem64 = m.mem64 := by
  simp only [Gen.IfaceArm64.jmpWithRdx, ifaceMovImm_eq, List.replicate, List.nil_append, List.append_assoc]
  exact arm64_seq dx m _ _ _ _ _ _ _ _ 27 (by decide) (by decide) (by decide) (by decide)

theorem arm64_stub_ctx (ctx a b : BitVec 64) (m : A64.Mach) :
    ∃ m', A64.exec (Gen.IfaceArm64.jmpWithRdxAndCtx ctx a b) m = some m' ∧
      m'.pc = m.mem64 ctx ∧ m'.x 26 = ctx ∧ m'.x 27 = m.mem64 ctx ∧
      (∀ r, r ≠ 26 → r ≠ 27 → m'.x r = m.x r) ∧ m'.mem64 = m.mem64 := by
  simp only [Gen.IfaceArm64.jmpWithRdxAndCtx, ifaceMovImm_eq, List.replicate, List.nil_append, List.append_assoc]
  exact arm64_seq ctx m _ _ _ _ _ _ _ _ 27 (by decide) (by decide) (by decide) (by decide)

/-- field layout of one move-wide instruction (Arm ARM C6.2.191/192): sf=1, opc, 100101, hw, imm16, Rd=26 -/
theorem arm64_movImm_fields (opc shift val : BitVec 64) (ho : opc.toNat < 4) (hs : shift.toNat < 4)
    (hv : val.toNat < 65536) :
    X86.leNat (Gen.Arm64.movImm opc shift val) =
      2^31 + opc.toNat * 2^29 + 37 * 2^23 + shift.toNat * 2^21 + val.toNat * 32 + 26 :=
  movImm_word opc shift val ho hs hv

end C15
