import GoomVerif.Lemmas.C04L
/-! # C04 — conditional stubs select by the first matching condition, else default, else panic -/
namespace C04
open When

/-- Expressions mean what the property says: the evaluator transcribed from `arg/expr.go` returns true exactly when the
    declarative meaning (`val` by equality, `any` always, `isIn` by membership, nested arbitrarily) holds. -/
theorem expr_eval_sound (eqv : Val → Val → Bool) (e : Spec) (x : Val) :
    Spec.eval eqv e x = true ↔ Spec.Sat eqv e x := eval_iff eqv e x

end C04
