import GoomVerif.Lemmas.C04L
/-! # C04 — conditional stubs select by the first matching condition, else default, else panic

All statements are about `Model/When.lean`, the transcription of `when.go`, `matcher.go`, `arg/expr.go`,
`arg/value.go` and `mocker.go:142`, for an arbitrary argument equality `eqv` (property C18 owns its algebra).
A configuration is what the property calls well-formed: an optional default `Return(d)` first, then any number of
`When(exprs...).Return(r)` / `In(alternatives...).Return(r)` clauses; `build` runs the corresponding API calls in
order (the first through the mocker, i.e. `CreateWhen`).  A call is `encodeCall`: receiver first for methods, fixed
parameters, the variadic tail packed into one slice — what `reflect.MakeFunc` hands to `callback`. -/
namespace C04
open When

/-! ## Meaning of expressions -/

/-- Clause "plain values by equality, Any always, In by membership": the evaluator transcribed from `arg/expr.go`
    returns true exactly when the declarative meaning holds, for every expression tree (nested `In` included). -/
theorem expr_eval_sound (eqv : Val → Val → Bool) (e : Spec) (x : Val) :
    Spec.eval eqv e x = true ↔ Spec.Sat eqv e x := eval_iff eqv e x

/-- `Sat` of a tuple is position by position, over equal lengths. -/
theorem satTuple_pointwise (eqv : Val → Val → Bool) : ∀ (es : List Spec) (xs : List Val),
    SatTuple eqv es xs ↔ es.length = xs.length ∧ ∀ i (h1 : i < es.length) (h2 : i < xs.length), Spec.Sat eqv es[i] xs[i]
  | [], [] => by simp [SatTuple]
  | [], _ :: _ => by simp [SatTuple]
  | _ :: _, [] => by simp [SatTuple]
  | e :: es, x :: xs => by
    simp only [SatTuple, satTuple_pointwise eqv es xs, List.length_cons, Nat.add_right_cancel_iff]
    constructor
    · rintro ⟨h0, hl, hr⟩
      refine ⟨hl, ?_⟩
      intro i h1 h2
      cases i with
      | zero => exact h0
      | succ j => exact hr j (by simpa using h1) (by simpa using h2)
    · rintro ⟨hl, hr⟩
      exact ⟨hr 0 (by simp) (by simp), hl, fun i h1 h2 => hr (i + 1) (by simpa using h1) (by simpa using h2)⟩

/-- `In` is membership: some alternative holds. -/
theorem satAlts_membership (eqv : Val → Val → Bool) (alts : List (List Spec)) (xs : List Val) :
    SatAlts eqv alts xs ↔ ∃ a ∈ alts, SatTuple eqv a xs := by
  induction alts with
  | nil => simp [SatAlts]
  | cons a rest ih => simp [SatAlts, ih]

/-- A condition holds of the logical argument tuple (receiver excluded, variadic tail flattened). -/
def Holds (eqv : Val → Val → Bool) : Cond → List Val → Prop
  | .when specs, xs => SatTuple eqv specs xs
  | .isIn alts, xs => SatAlts eqv alts xs

theorem holdsB_iff (eqv : Val → Val → Bool) (c : Cond) (xs : List Val) : c.holdsB eqv xs = true ↔ Holds eqv c xs := by
  cases c with
  | when specs => exact evalTuple_iff eqv specs xs
  | isIn alts => exact evalAlts_iff eqv alts xs

/-! ## The main theorem -/

/-- Well-formed configuration for a signature, as the property quantifies it: every condition has one expression per
    parameter (a variadic tail may have any number, including none — also in a *first* `When`, repaired `checkParams`),
    and something is registered at all. -/
structure WFfull (sig : Sig) (cfg : Config) : Prop where
  conds_wf : ∀ p ∈ cfg.conds, p.1.WF sig
  nonempty : cfg.dflt = none → cfg.conds ≠ []

/-- The excluded case (known finding K1): the configuration starts with `When()` without any argument.  Go passes a
    nil slice, `CreateWhen` takes it for "no condition" and the following `Return` becomes the default. -/
def firstWhenHasArgs (cfg : Config) : Bool :=
  match cfg.dflt, cfg.conds with
  | none, (Cond.when [], _) :: _ => false
  | _, _ => true

/-- The property at full strength (every well-formed configuration).  It is *false* for the code as it is — see
    `Findings/C04K1.lean` — because of the excluded case above; `invoke_spec` proves it with that case excluded. -/
def invoke_spec_full : Prop :=
  ∀ (eqv : Val → Val → Bool) (sig : Sig) (cfg : Config), WFfull sig cfg →
    ∃ w, build sig (cfg.script sig) = .ok w ∧
      ∀ (recv : Val) (xs : List Val), (w.invoke eqv (encodeCall sig recv xs)).map Prod.fst = specOut eqv sig cfg xs

private theorem wf_of_full (sig : Sig) (cfg : Config) (h : WFfull sig cfg) (hk : firstWhenHasArgs cfg = true) : cfg.WF sig := by
  refine ⟨h.conds_wf, h.nonempty, ?_⟩
  intro hd specs r rest hc
  intro hs
  subst hs
  simp [firstWhenHasArgs, hd, hc] at hk

/-- **invoke = firstMatch** (partial only in the one excluded configuration shape K1).  For every signature shape
    (any `nIn`, variadic or not, method or not, any `numOut`), every well-formed configuration and every call
    (any receiver, any argument tuple of any length): building the configuration succeeds and the call returns the
    result of the first registered condition that holds, else the default, else panics `nosuitable` / returns
    nothing for a function without results (`specOut`). -/
theorem invoke_spec (eqv : Val → Val → Bool) (sig : Sig) (cfg : Config) (h : WFfull sig cfg)
    (hk : firstWhenHasArgs cfg = true) :
    ∃ w, build sig (cfg.script sig) = .ok w ∧
      ∀ (recv : Val) (xs : List Val), (w.invoke eqv (encodeCall sig recv xs)).map Prod.fst = specOut eqv sig cfg xs := by
  obtain ⟨w, hb, hi⟩ := build_inv sig cfg (wf_of_full sig cfg h hk)
  exact ⟨w, hb, fun recv xs => invoke_inv eqv sig cfg w hi _ xs (normalize_encode sig recv xs)⟩

/-- The same for a **compiled call site**, which hands the callback a *nil* slice when no variadic argument is given
    (`reflect.Value.Call` and `When.Eval` pass an empty non-nil one): the answer does not depend on it. -/
theorem invoke_spec_direct (eqv : Val → Val → Bool) (sig : Sig) (cfg : Config) (h : WFfull sig cfg)
    (hk : firstWhenHasArgs cfg = true) :
    ∃ w, build sig (cfg.script sig) = .ok w ∧
      ∀ (recv : Val) (xs : List Val), (w.invoke eqv (encodeCallDirect sig recv xs)).map Prod.fst = specOut eqv sig cfg xs := by
  obtain ⟨w, hb, hi⟩ := build_inv sig cfg (wf_of_full sig cfg h hk)
  exact ⟨w, hb, fun recv xs => invoke_inv eqv sig cfg w hi _ xs (normalize_encodeG true sig recv xs)⟩

/-- `f(1)` compiled, on `f(a int, xs ...int)` stubbed with `Return(0).When(1).Return(5)`: the callback receives
    `[1, nil-slice]` and the condition still matches; with a tail it does not -/
example : (match build { nIn := 2, variadic := true, isMethod := false, numOut := 1 } [.ret 1 0, .when (some [.val 1]), .ret 1 5] with
    | .ok w => [encodeCallDirect w.sig 0 [1] = [Arg.one 1, Arg.nilPack],
                (w.invoke (· == ·) (encodeCallDirect w.sig 0 [1])).map Prod.fst = .ok (.ret 5),
                (w.invoke (· == ·) (encodeCallDirect w.sig 0 [1, 1])).map Prod.fst = .ok (.ret 0)]
    | .error _ => []) = [True, True, True] := by
  simp [build, first, createWhen, newAlwaysMatch, W.alloc, W.steps, W.step, W.when, newDefaultMatch, toExprOk,
    tupleResolves, Spec.resolves, W.ret, W.get, W.set, Matcher.addResult, bind, Except.bind, pure, Except.pure,
    encodeCallDirect, encodeCallG, W.invoke, W.scan, Matcher.matchArgs, normalize, ones, evalTuple, Spec.eval,
    Matcher.result, Except.map]

/-- **Histories.** The `When` is live: after the configuration is built, registrations of further conditions and
    calls (through reflect or compiled call sites, any receiver, any arguments) may alternate arbitrarily; every
    registration is accepted and every call answers by exactly the conditions registered *before that call*, first
    match in registration order, else default, else panic (`expected`).  In particular a call never freezes the list:
    `Return(0); f(1); When(1).Return(5); f(1)` answers 0 then 5.  (Single-result conditions; cursors are C05.) -/
theorem history_spec (eqv : Val → Val → Bool) (sig : Sig) (cfg : Config) (h : WFfull sig cfg)
    (hk : firstWhenHasArgs cfg = true) :
    ∃ w, build sig (cfg.script sig) = .ok w ∧
      ∀ evs : List Ev, EvsWF sig evs → w.run eqv (evSteps sig evs) = expected eqv sig cfg.dflt cfg.conds evs := by
  obtain ⟨w, hb, hi⟩ := build_inv sig cfg (wf_of_full sig cfg h hk)
  exact ⟨w, hb, fun evs hwf => run_history eqv sig cfg.dflt evs cfg.conds w hi hwf⟩

/-- the interleaved history of the doc comment, computed: 0, then (after `When(1).Return(5)`) 5, and 0 for another argument -/
example : (match build { nIn := 1, variadic := false, isMethod := false, numOut := 1 } [.ret 1 0] with
    | .ok w => w.run (· == ·) (evSteps { nIn := 1, variadic := false, isMethod := false, numOut := 1 }
        [.call false 0 [1], .reg (.when [.val 1]) 5, .call false 0 [1], .call true 0 [2]])
    | .error _ => []) = [.out (.ret 0), .ok, .ok, .out (.ret 5), .out (.ret 0)] := by rfl

/-- The same through `When.Eval` (repaired: arguments shaped like a real call). -/
theorem eval_spec (eqv : Val → Val → Bool) (sig : Sig) (cfg : Config) (h : WFfull sig cfg)
    (hk : firstWhenHasArgs cfg = true) :
    ∃ w, build sig (cfg.script sig) = .ok w ∧
      ∀ (xs : List Val), arityOk sig xs.length → (w.evalCall eqv xs).map Prod.fst = specOut eqv sig cfg xs := by
  obtain ⟨w, hb, hi⟩ := build_inv sig cfg (wf_of_full sig cfg h hk)
  refine ⟨w, hb, fun xs hx => ?_⟩
  have hs := hi.sig_eq
  unfold W.evalCall
  unfold arityOk at hx
  cases hv : sig.variadic <;> simp only [hs, hv, Bool.false_eq_true, if_false, if_true] at hx ⊢
  · simp only [hx, beq_self_eq_true, Bool.not_true, Bool.false_eq_true, if_false]
    exact invoke_inv eqv sig cfg w hi _ xs (normalize_encode sig 0 xs)
  · simp only [hx, decide_true, Bool.not_true, Bool.false_eq_true, if_false]
    exact invoke_inv eqv sig cfg w hi _ xs (normalize_encode sig 0 xs)

/-- `Matches(Pair{args, ret}, ...)` after a well-formed configuration is the same as one `When(args...).Return(ret)`
    per pair, in order, behind the conditions registered so far; the default and earlier conditions are untouched.
    (`numOut ≠ 0`: for a function without results the pair carries no result list, which the model does not cover.) -/
theorem matches_spec (eqv : Val → Val → Bool) (sig : Sig) (cfg : Config) (h : WFfull sig cfg)
    (hk : firstWhenHasArgs cfg = true) (_ho : sig.numOut ≠ 0) (ps : List (List Spec × Res))
    (hps : ∀ p ∈ ps, (Cond.when p.1).WF sig) :
    ∃ w w', build sig (cfg.script sig) = .ok w ∧ w.matchPairs ps = .ok w' ∧
      ∀ (recv : Val) (xs : List Val), (w'.invoke eqv (encodeCall sig recv xs)).map Prod.fst =
        specOut eqv sig { dflt := cfg.dflt, conds := cfg.conds ++ pairConds ps } xs := by
  obtain ⟨w, hb, hi⟩ := build_inv sig cfg (wf_of_full sig cfg h hk)
  obtain ⟨w', hm, hi'⟩ := matchPairs_inv sig cfg.dflt ps cfg.conds w hi hps
  exact ⟨w, w', hb, hm, fun recv xs =>
    invoke_inv eqv sig { dflt := cfg.dflt, conds := cfg.conds ++ pairConds ps } w' hi' _ xs (normalize_encode sig recv xs)⟩

/-- A first `Returns()` without any value is `Return()` (repaired mockers): for a function with results it is refused with
    the result-count error instead of installing a stub that panics on every call; for a result-less function it
    installs the empty default, on which conditions can then be registered as after any default. -/
theorem first_empty_returns_checked (sig : Sig) :
    first sig (.returns []) = first sig (.ret 0 0) ∧
    (sig.numOut ≠ 0 → first sig (.returns []) = .error .retlen) ∧
    (sig.numOut = 0 → ∃ w, first sig (.returns []) = .ok w ∧ Inv sig (some 0) [] w) := by
  refine ⟨rfl, ?_, ?_⟩
  · intro h
    have : 0 < sig.numOut := Nat.pos_of_ne_zero h
    simp [first, createWhen, this, bind, Except.bind, throw, throwThe, MonadExceptOf.throw]
  · intro h
    have := createWhen_dflt_inv sig 0
    rw [h] at this
    exact this

example : first { nIn := 1, variadic := false, isMethod := false, numOut := 1 } (.returns []) = .error .retlen := by rfl

/-- `In()` without alternatives is a condition like any other: well-formed for every signature, it holds of no argument
    tuple — so (by `invoke_spec` / `history_spec`) it is registered in its place, is skipped by every call, and the
    `Return` that follows it belongs to *it*, not to the condition or default registered before. -/
theorem in_empty_never_holds (eqv : Val → Val → Bool) (sig : Sig) (xs : List Val) :
    (Cond.isIn []).WF sig ∧ ¬ Holds eqv (Cond.isIn []) xs := by
  constructor
  · intro a ha
    cases ha
  · simp [Holds, SatAlts]

/-- `Return(0).When(1).Return(1).In().Return(2)`: calls with 1 keep answering 1, others the default; result 2 is unreachable -/
example : (match build { nIn := 1, variadic := false, isMethod := false, numOut := 1 }
      (Config.script { nIn := 1, variadic := false, isMethod := false, numOut := 1 }
        { dflt := some 0, conds := [(.when [.val 1], 1), (.isIn [], 2)] }) with
    | .ok w => w.run (· == ·) [.call false 0 [1], .call false 0 [1], .call false 0 [0]]
    | .error _ => []) = [.out (.ret 1), .out (.ret 1), .out (.ret 0)] := by rfl

/-- A `When(exprs...)` condition is registered **verbatim**: one expression per written argument, whatever the values
    are — in particular a single variadic value that happens to be a slice (a `[]interface{}` passed as ONE element of
    a `...interface{}` tail) is one expression and, by `variadic_elementwise`, is compared with one element of the call. -/
theorem when_condition_verbatim (sig : Sig) (specs : List Spec) (rs : List Res)
    (ha : arityOk sig specs.length) (hr : tupleResolves specs = true) :
    newDefaultMatch sig specs rs = .ok { kind := .dflt specs, results := rs, cur := 0 } :=
  newDefaultMatch_ok sig specs rs ha hr

/-- `f(s, xs ...interface{})`, `When(2, 3)` where value 3 is a slice whose members are the values 0 and 1:
    the call `f(2, 3)` matches, `f(2, 0, 1)` does not -/
example : (match build { nIn := 2, variadic := true, isMethod := false, numOut := 1 } [.ret 1 0, .when (some [.val 2, .val 3]), .ret 1 1] with
    | .ok w => w.run (· == ·) [.call false 0 [2, 3], .call false 0 [2, 0, 1]]
    | .error _ => []) = [.out (.ret 1), .out (.ret 0)] := by rfl

/-! ## The clauses of the property, declaratively -/

private theorem find_none (eqv : Val → Val → Bool) (cfg : Config) (xs : List Val) (hnone : ∀ p ∈ cfg.conds, ¬ Holds eqv p.1 xs) :
    cfg.conds.find? (fun p => p.1.holdsB eqv xs) = none := by
  rw [List.find?_eq_none]
  intro p hp hh
  exact hnone p hp ((holdsB_iff eqv p.1 xs).1 hh)

section clauses
variable (eqv : Val → Val → Bool) (sig : Sig) (cfg : Config) (hw : WFfull sig cfg) (hk : firstWhenHasArgs cfg = true)
include hw hk

/-- First registered condition that holds wins; later conditions that also hold (ties) are irrelevant:
    registration order decides. -/
theorem first_match_wins (pre post : List (Cond × Res)) (c : Cond) (r : Res) (recv : Val) (xs : List Val)
    (hsplit : cfg.conds = pre ++ (c, r) :: post) (hpre : ∀ p ∈ pre, ¬ Holds eqv p.1 xs) (hc : Holds eqv c xs) :
    ∃ w, build sig (cfg.script sig) = .ok w ∧ (w.invoke eqv (encodeCall sig recv xs)).map Prod.fst = .ok (.ret r) := by
  obtain ⟨w, hb, hinv⟩ := invoke_spec eqv sig cfg hw hk
  refine ⟨w, hb, ?_⟩
  rw [hinv recv xs]
  unfold specOut
  have : cfg.conds.find? (fun p => p.1.holdsB eqv xs) = some (c, r) := by
    rw [hsplit, List.find?_append]
    have hnone : pre.find? (fun p => p.1.holdsB eqv xs) = none := by
      rw [List.find?_eq_none]
      intro p hp hh
      exact hpre p hp ((holdsB_iff eqv p.1 xs).1 hh)
    simp [hnone, (holdsB_iff eqv c xs).2 hc]
  simp [this]

/-- No condition holds and a default is configured: the default. -/
theorem default_when_none_match (d : Res) (recv : Val) (xs : List Val)
    (hnone : ∀ p ∈ cfg.conds, ¬ Holds eqv p.1 xs) (hd : cfg.dflt = some d) :
    ∃ w, build sig (cfg.script sig) = .ok w ∧ (w.invoke eqv (encodeCall sig recv xs)).map Prod.fst = .ok (.ret d) := by
  obtain ⟨w, hb, hinv⟩ := invoke_spec eqv sig cfg hw hk
  refine ⟨w, hb, ?_⟩
  rw [hinv recv xs]
  simp [specOut, find_none eqv cfg xs hnone, hd]

/-- No default, no condition holds, the function has results: panic "no suitable condition", never garbage. -/
theorem no_default_panics (recv : Val) (xs : List Val)
    (hnone : ∀ p ∈ cfg.conds, ¬ Holds eqv p.1 xs) (hd : cfg.dflt = none) (ho : sig.numOut > 0) :
    ∃ w, build sig (cfg.script sig) = .ok w ∧ (w.invoke eqv (encodeCall sig recv xs)).map Prod.fst = .error .nosuitable := by
  obtain ⟨w, hb, hinv⟩ := invoke_spec eqv sig cfg hw hk
  refine ⟨w, hb, ?_⟩
  rw [hinv recv xs]
  have : sig.numOut ≠ 0 := by omega
  simp [specOut, find_none eqv cfg xs hnone, hd, this]

/-- … and for a function without results there is nothing to return: the call returns normally. -/
theorem no_default_no_results (recv : Val) (xs : List Val)
    (hnone : ∀ p ∈ cfg.conds, ¬ Holds eqv p.1 xs) (hd : cfg.dflt = none) (ho : sig.numOut = 0) :
    ∃ w, build sig (cfg.script sig) = .ok w ∧ (w.invoke eqv (encodeCall sig recv xs)).map Prod.fst = .ok .unit := by
  obtain ⟨w, hb, hinv⟩ := invoke_spec eqv sig cfg hw hk
  refine ⟨w, hb, ?_⟩
  rw [hinv recv xs]
  simp [specOut, find_none eqv cfg xs hnone, hd, ho]

end clauses

/-- **Receiver ignored**, in any state whatsoever (any history of clauses, any cursors): calls that differ only in
    the receiver get the same outcome and leave the same state. -/
theorem receiver_ignored (eqv : Val → Val → Bool) (w : W) (r1 r2 : Val) (xs : List Val) :
    w.invoke eqv (encodeCall w.sig r1 xs) = w.invoke eqv (encodeCall w.sig r2 xs) := by
  have hn : normalize w.sig (encodeCall w.sig r1 xs) = normalize w.sig (encodeCall w.sig r2 xs) := by
    rw [normalize_encode, normalize_encode]
  have hmatch : ∀ m : Matcher, m.matchArgs eqv w.sig (encodeCall w.sig r1 xs) = m.matchArgs eqv w.sig (encodeCall w.sig r2 xs) := by
    intro m
    unfold Matcher.matchArgs
    rw [hn]
  have hscan : ∀ ids, W.scan eqv w (encodeCall w.sig r1 xs) ids = W.scan eqv w (encodeCall w.sig r2 xs) ids := by
    intro ids
    induction ids with
    | nil => rfl
    | cons id rest ih => simp only [W.scan, hmatch, ih]
  unfold W.invoke
  rw [hscan]

/-- **Variadic arguments are matched element by element**, leading fixed parameters stay whole: for a variadic
    signature with `k = nIn - 1` fixed parameters, the matcher registered by `When(specs...)` accepts the real call
    `f(fixed..., tail...)` (tail packed in a slice by the caller) exactly when there is one expression per fixed
    argument and per tail element and each holds at its position. -/
theorem variadic_elementwise (eqv : Val → Val → Bool) (sig : Sig)
    (specs : List Spec) (r : Res) (recv : Val) (fixed tail : List Val) :
    ((Cond.when specs).matcher r).matchArgs eqv sig (encodeCall sig recv (fixed ++ tail)) = .ok true ↔
      specs.length = fixed.length + tail.length ∧
      ∀ i (h1 : i < specs.length) (h2 : i < (fixed ++ tail).length), Spec.Sat eqv specs[i] (fixed ++ tail)[i] := by
  rw [matchArgs_cond eqv sig (Cond.when specs) r _ (fixed ++ tail) (normalize_encode sig recv (fixed ++ tail))]
  simp only [Cond.holdsB, Except.ok.injEq]
  rw [evalTuple_iff, satTuple_pointwise]
  simp only [List.length_append]

/-- what the callback receives for such a call: the fixed arguments one by one, then one packed slice -/
theorem variadic_call_shape (sig : Sig) (hv : sig.variadic = true) (hm : sig.isMethod = false) (recv : Val)
    (fixed tail : List Val) (hk : fixed.length = sig.nIn - 1) :
    encodeCall sig recv (fixed ++ tail) = fixed.map Arg.one ++ [Arg.pack tail] := by
  simp [encodeCall, encodeCallG, hv, hm, ← hk]

/-- The other ways of writing an `In` alternative register the same matcher as the tuple form: a bare value or
    expression is the 1-tuple, for every signature (`In(3, 4)` on `f(int)`, and on `f(int, ...int)` meaning `f(3)` or
    `f(4)`; repaired `InExpr.Resolve`), a typed slice standing for the whole argument list
    of a function whose only parameter is variadic (`In([]T{a, b}, []T{c})` on `f(...T)`). -/
theorem in_alternative_forms (sig : Sig) (i : Nat) (rest : List Alt) :
    (∀ x, resolveIn sig i (Alt.bare x :: rest) = resolveIn sig i (Alt.tuple [x] :: rest)) ∧
    (sig.variadic = true → sig.nIn = 1 → ∀ vs, resolveIn sig i (Alt.slice vs :: rest) = resolveIn sig i (Alt.tuple (vs.map Spec.val) :: rest)) := by
  constructor
  · intro x
    simp [resolveIn]
  · intro hv h1 vs
    simp [resolveIn, hv, h1]

/-! ## The hypotheses are satisfiable: a method, variadic behind two fixed parameters, two results -/

def exSig : Sig := { nIn := 3, variadic := true, isMethod := true, numOut := 2 }
def exCfg : Config :=
  { dflt := some 0,
    conds := [(.when [.val 1, .any, .isIn [[.val 2], [.isIn [[.val 3], [.val 4]]]], .val 7], 1),
              (.isIn [[.any, .val 1, .val 1], [.any, .val 5]], 2),
              (.when [.val 1, .val 5], 3)] }

example : WFfull exSig exCfg ∧ firstWhenHasArgs exCfg = true := by
  refine ⟨⟨?_, by simp [exCfg]⟩, rfl⟩
  intro p hp
  simp only [exCfg, List.mem_cons, List.not_mem_nil, or_false] at hp
  rcases hp with rfl | rfl | rfl <;> simp [Cond.WF, arityOk, exSig, tupleResolves, Spec.resolves, altsResolve1]

/-- a tie (conditions 2 and 3 both hold of (1,5)): the earlier one is returned; a 4-argument call with a nested `In`;
    a call nothing matches -/
example : (match build exSig (exCfg.script exSig) with
    | .ok w => [(w.invoke (· == ·) (encodeCall exSig 77 [1, 5])).map Prod.fst,
                (w.invoke (· == ·) (encodeCall exSig 78 [1, 9, 4, 7])).map Prod.fst,
                (w.invoke (· == ·) (encodeCall exSig 78 [9, 9, 9])).map Prod.fst]
    | .error e => [.error e]) = [.ok (.ret 2), .ok (.ret 1), .ok (.ret 0)] := by rfl

/-- no default: the panic hypothesis is reachable too -/
example : (match build exSig ({ exCfg with dflt := none }.script exSig) with
    | .ok w => (w.invoke (· == ·) (encodeCall exSig 78 [9, 9, 9])).map Prod.fst
    | .error e => .error e) = .error .nosuitable := by rfl

end C04
