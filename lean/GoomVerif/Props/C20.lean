import GoomVerif.Lemmas.C20L
/-! C20 — executable stub space is never handed out twice or outside its reserve.
    Model: `Model/Stub.lean`; the expressions of `acquireFromHolder`/`init` are `Gen/StubHolder.lean`, regenerated from
    holder.go on every run.  Addresses are below 2^63 (user space), request lengths are Go `int`s ≥ 0. -/
namespace C20
open Stub C20L Gen.StubHolder

/-- Clause "sequential requests": in every sequential history of `Acquire` calls (any sizes, the primary mmap path
    working or failing per request) every region handed out from the reserve lies inside `[min,max)`, regions are
    pairwise disjoint (each ends before the next one starts), and every region — mmap or reserve — is exactly as
    long as requested. -/
theorem seq_regions_in_reserve_sized_disjoint (off min max : Nat) (reqs : List (Nat × Mmap))
    (h0 : min ≤ off) (h1 : off ≤ max) (h2 : max < 9223372036854775808) (hl : ∀ r ∈ reqs, r.1 < 9223372036854775808) :
    (∀ r ∈ holderRegions (runSeq off min max reqs), min ≤ r.1 ∧ r.1 + r.2 ≤ max) ∧
    (holderRegions (runSeq off min max reqs)).Pairwise disj ∧
    (∀ q ∈ runSeq off min max reqs, ∀ sp, q.2 = some sp → q.1 ≤ sp.len) := by
  have I := seq_inv min max h2 reqs off h1 hl
  refine ⟨fun r hr => ⟨by have := (I.2.1 r hr).1; omega, (I.2.1 r hr).2⟩, ?_, ?_⟩
  · exact List.Pairwise.imp (fun h => Or.inl h) I.2.2.1
  · intro q hq sp hsp; have := I.2.2.2 q hq sp hsp; omega

example : holderRegions (runSeq 1000 1000 1100 [(40, .fail), (48, .fresh 7000), (0, .fail), (50, .fail), (20, .fail), (5, .fail)])
    = [(1000, 40), (1040, 0), (1040, 50), (1090, 5)] := by decide

/-- Clause "exhaustion is reported as an error instead of overrunning the reserve" (one caller at a time): a request
    that does not fit behind the bump pointer is refused and leaves the pointer where it was; a request that is served
    gets exactly the bytes behind the pointer, which then advances by the length and stays inside the reserve; the
    pointer never passes `max`, however long the history. -/
theorem exhaustion_is_error_not_overrun (off min max len : Nat) (h1 : off ≤ max) (h2 : max < 9223372036854775808)
    (hl : len < 9223372036854775808) :
    (max < off + len → acquire .fail off min max len = (off, none)) ∧
    (∀ o sp, acquire .fail off min max len = (o, some sp) → sp = ⟨off, len, typeHolder⟩ ∧ o = off + len ∧ off + len ≤ max) ∧
    (∀ reqs : List (Nat × Mmap), (∀ r ∈ reqs, r.1 < 9223372036854775808) → offSeq off min max reqs ≤ max) := by
  have sp := acquireFromHolder_spec off min max len h1 h2 hl
  refine ⟨fun h => by simp only [acquire, sp.2 h], ?_, ?_⟩
  · intro o s hs
    rcases acquire_cases .fail off min max len h1 h2 hl with ⟨a, e, _⟩ | ⟨_, hfit, e⟩ | ⟨_, o', _, _, e⟩
    · cases e
    · rw [e] at hs
      simp only [Prod.mk.injEq, Option.some.injEq] at hs
      exact ⟨hs.2.symm, hs.1.symm, hfit⟩
    · rw [e] at hs; simp at hs
  · intro reqs hr
    exact (seq_inv min max h2 reqs off h1 hr).1.2

example : (runSeq 1000 1000 1100 [(60, .fail), (60, .fail), (30, .fail), (20, .fail)]).map (·.2)
    = [some ⟨1000, 60, typeHolder⟩, none, some ⟨1060, 30, typeHolder⟩, none] := by decide

/-- Clause "concurrent requests never receive overlapping regions … regions stay inside the reserve": for EVERY
    schedule of the micro-steps (load, check, atomic add, check, return) of ANY number of concurrent requesters,
    every region returned lies inside `[min,max)`, is as long as requested, and any two regions returned to different
    requesters are disjoint.  (`hB`: the number of requesters times the reserve size does not reach 2^63, so the
    64-bit bump pointer cannot wrap; with a 12 KiB reserve that is ≈ 7·10^14 simultaneous requesters.) -/
theorem conc_regions_in_reserve_sized_disjoint (off min max : Nat) (lens : List Nat) (σ : List Nat)
    (h0 : min ≤ off) (h1 : off ≤ max) (hl : ∀ l ∈ lens, l < 9223372036854775808)
    (hB : max + lens.length * (max - min) < 9223372036854775808) :
    (∀ i a l, resultOf (run (init off min max lens) σ) i = some (.ok a l) →
        min ≤ a ∧ a + l ≤ max ∧ lens[i]? = some l) ∧
    (∀ i j a l a' l', i ≠ j → resultOf (run (init off min max lens) σ) i = some (.ok a l) →
        resultOf (run (init off min max lens) σ) j = some (.ok a' l') → disj (a, l) (a', l')) :=
  conc_main off min max lens σ h0 h1 hl hB

example : let s := run (init 1000 1000 1100 [40, 40, 40]) [0, 1, 2, 0, 1, 2, 1, 0, 2, 2, 2, 1, 1, 0, 0]
    (resultOf s 0, resultOf s 1, resultOf s 2) = (some (.ok 1040 40), some (.ok 1000 40), some .err) := by decide

/-- Clause "primary path": when the kernel grants the anonymous RWX mapping, `Acquire` returns exactly that mapping
    with the requested length, marks it for plain-copy writes, and does not touch the reserve; when the kernel
    refuses, the request is served from the reserve (or refused) and marked for `memory.WriteTo`. No `Space` that
    `Acquire` returns is rejected by `Write`. -/
theorem mmap_dispatch (off min max len : Nat) (mm : Mmap) :
    (∀ a, mm = .fresh a → acquire mm off min max len = (off, some ⟨a, len, typeMMap⟩) ∧ writeVia typeMMap = .copy) ∧
    (mm = .fail → ∀ o sp, acquire mm off min max len = (o, some sp) →
        sp.typ = typeHolder ∧ writeVia sp.typ = .writeTo ∧ acquireFromHolder off min max len = (o, .ok sp.addr sp.len)) ∧
    (∀ o sp, acquire mm off min max len = (o, some sp) → writeVia sp.typ ≠ .illegal) := by
  refine ⟨?_, ?_, ?_⟩
  · intro a e; subst e; exact ⟨rfl, by decide⟩
  · intro e o sp h; subst e
    simp only [acquire] at h
    split at h
    · simp only [Prod.mk.injEq, Option.some.injEq] at h
      obtain ⟨ho, hs⟩ := h
      subst hs; subst ho
      rename_i heq
      exact ⟨rfl, (by show writeVia typeHolder = _; decide), heq⟩
    · simp at h
  · intro o sp h
    cases mm with
    | fresh a => simp only [acquire, Prod.mk.injEq, Option.some.injEq] at h; rw [← h.2]; show writeVia typeMMap ≠ _; decide
    | fail =>
      simp only [acquire] at h
      split at h
      · simp only [Prod.mk.injEq, Option.some.injEq] at h; rw [← h.2]; show writeVia typeHolder ≠ _; decide
      · simp at h

/-- Clause "writable through the provided writer" — for every write, not only the first: whatever `Space` `Acquire`
    returns (mapping or reserve), any number of successive `Write`s through it goes through, and each leaves the region
    in the protection it had when it was handed out (mapping: RWX, never sealed; reserve: R-X restored by
    memory.WriteTo, which re-opens it on the next call). -/
theorem write_repeatable (off min max len : Nat) (mm : Mmap) (o : Nat) (sp : Space)
    (h : acquire mm off min max len = (o, some sp)) (n : Nat) :
    writeN sp.typ (initPerm sp.typ) n = some (initPerm sp.typ) := by
  have ht : sp.typ = typeMMap ∨ sp.typ = typeHolder := by
    cases mm with
    | fresh a => simp only [acquire, Prod.mk.injEq, Option.some.injEq] at h; rw [← h.2]; exact Or.inl rfl
    | fail =>
      simp only [acquire] at h
      split at h
      · simp only [Prod.mk.injEq, Option.some.injEq] at h; rw [← h.2]; exact Or.inr rfl
      · simp at h
  rcases ht with e | e
  · rw [e]; exact writeN_mmap n
  · rw [e, writeN_holder n]; cases n <;> rfl

example : writeN typeMMap (initPerm typeMMap) 4 = some .rwx ∧ writeN typeHolder (initPerm typeHolder) 4 = some .rx ∧
    writeOnce typeMMap .rx = none := by decide

/-- Concurrent writers on the reserve path: neighbouring regions share a code page, and every writer runs
    lock / mprotect RWX / copy / mprotect R-X / unlock (memory.WriteTo).  For EVERY schedule of any number of writers no
    copy ever hits a page that is not writable — because the protection is restored before the lock is released. -/
theorem conc_writers_never_fault (n : Nat) (σ : List Nat) : (wrun (winit n) σ).faulted = false :=
  (winv_run σ (winv_init n)).nofault

example : (wrun (winit 2) [0, 1, 0, 1, 0, 0, 1, 0, 1, 1, 1, 1, 1]).pcs = [.done, .done] := by decide

/-- The slice handed to the writer is the returned region: it starts at the returned address and its length and
    capacity are the requested length (so a write through it cannot reach a neighbour). -/
theorem slice_is_region (p n l mi ma : Nat) :
    sliceData p n l mi ma = retAddr p n l mi ma ∧ sliceLen p n l mi ma = l ∧ sliceCap p n l mi ma = l :=
  ⟨gen_data p n l mi ma, (gen_len p n l mi ma).1, (gen_len p n l mi ma).2⟩

/-- `init()`: the reserve is exactly the scanned extent of the placeholder function, the pointer starts at its entry. -/
theorem init_reserve (offset size : Nat) (h : offset + size < 18446744073709551616) :
    initOff offset size = offset ∧ initMin offset size = offset ∧ initMax offset size = offset + size :=
  gen_init offset size h

/-- Trace validation is sound: a history of the real allocator that the executable `admits` accepts (some schedule of
    the model reproduces every observed result) has the property — observed regions inside the reserve, as long as
    requested, pairwise disjoint. -/
theorem admits_sound (h : Hist) (ha : admits h = true) :
    (∀ (i a l : Nat), h.res[i]? = some (some (.ok a l)) → h.min ≤ a ∧ a + l ≤ h.max ∧ h.lens[i]? = some l) ∧
    (∀ (i j a l a' l' : Nat), i ≠ j → h.res[i]? = some (some (.ok a l)) → h.res[j]? = some (some (.ok a' l')) →
        disj (a, l) (a', l')) :=
  admits_sound_main h ha

/-- The same for a schedule proposed from outside (used for long histories, where the check constructs the
    candidate schedule itself and the driver only replays it on the model). -/
theorem explains_sound (h : Hist) (σ : List Nat) (hw : h.wellFormed = true) (he : explains h σ = true) :
    (∀ (i a l : Nat), h.res[i]? = some (some (.ok a l)) → h.min ≤ a ∧ a + l ≤ h.max ∧ h.lens[i]? = some l) ∧
    (∀ (i j a l a' l' : Nat), i ≠ j → h.res[i]? = some (some (.ok a l)) → h.res[j]? = some (some (.ok a' l')) →
        disj (a, l) (a', l')) :=
  explains_sound_main h σ hw he

example : admits ⟨1000, 1000, 1100, [40, 40, 40], [some (.ok 1040 40), some (.ok 1000 40), some .err],
    [.inv 0, .inv 1, .inv 2, .resp 1, .resp 0, .resp 2]⟩ = true := by decide +kernel

/-- and `admits` does reject: the same address handed out twice is not a behaviour of the model -/
example : admits ⟨1000, 1000, 1100, [40, 40], [some (.ok 1000 40), some (.ok 1000 40)],
    [.inv 0, .inv 1, .resp 1, .resp 0]⟩ = false := by decide +kernel

end C20
