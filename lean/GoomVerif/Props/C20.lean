import GoomVerif.Lemmas.C20L
import GoomVerif.Gen.JmpIfaceAmd64
import GoomVerif.Gen.JmpIfaceArm64
/-! C20 — executable stub space is never handed out twice or outside its reserve.
    Model: `Model/Stub.lean`; the expressions of `acquireFromHolder`/`init` are `Gen/StubHolder.lean`, regenerated from
    holder.go on every run.  Addresses are below 2^63 (user space); request lengths range over the whole Go `int` domain. -/
namespace C20
open Stub C20L Gen.StubHolder

/-- Clause "sequential requests … for all request sizes": in every sequential history of `Acquire(spaceLen int)` calls —
    ANY `int` lengths, negative ones included, the primary mmap path working or failing per request — every region
    handed out from the reserve lies inside `[min,max)`, regions are pairwise disjoint (each ends before the next one
    starts), every region (mmap or reserve) is at least as long as requested, and a reserve region is never the answer
    to a negative request.  (False for the code without the `len < 0` check: `Acquire(-8)` succeeds with `Len = -8` and
    moves the pointer BACK, so the next region overlaps an earlier one — defect F27.) -/
theorem seq_regions_in_reserve_sized_disjoint (off min max : Nat) (reqs : List (Int × Mmap))
    (h0 : min ≤ off) (h1 : off ≤ max) (h2 : max < 9223372036854775808) (hl : ∀ r ∈ reqs, r.1 < 9223372036854775808) :
    (∀ r ∈ holderRegions (runSeq off min max reqs), min ≤ r.1 ∧ r.1 + r.2 ≤ max) ∧
    (holderRegions (runSeq off min max reqs)).Pairwise disj ∧
    (∀ q ∈ runSeq off min max reqs, ∀ sp, q.2 = some sp → q.1 ≤ (sp.len : Int) ∧ (sp.typ = typeHolder → 0 ≤ q.1)) := by
  have I := seq_inv min max h2 reqs off h1 hl
  refine ⟨fun r hr => ⟨by have := (I.2.1 r hr).1; omega, (I.2.1 r hr).2⟩, ?_, I.2.2.2⟩
  exact List.Pairwise.imp (fun h => Or.inl h) I.2.2.1

example : holderRegions (runSeq 1000 1000 1100 [(40, .fail), (48, .fresh 7000), (0, .fail), (-8, .fail), (50, .fail), (20, .fail), (5, .fail)])
    = [(1000, 40), (1040, 0), (1040, 50), (1090, 5)] := by decide

/-- Clause "disjoint from every region returned before", across BOTH paths: in every sequential history all regions —
    mappings and reserve regions alike — are pairwise disjoint, provided the kernel behaves as an allocator: the
    mappings it grants (which goom never unmaps) are pairwise disjoint and do not cover the placeholder's text
    `[min,max)`.  That hypothesis is the environment assumption of this property; the probe checks it on every mapping
    it receives (sequentially and for concurrent callers of Acquire). -/
theorem seq_all_regions_disjoint (off min max : Nat) (reqs : List (Int × Mmap))
    (h0 : min ≤ off) (h1 : off ≤ max) (h2 : max < 9223372036854775808) (hl : ∀ r ∈ reqs, r.1 < 9223372036854775808)
    (hk : (kernelAnswers reqs).Pairwise disj) (ho : ∀ c ∈ kernelAnswers reqs, c.1 + c.2 ≤ min ∨ max ≤ c.1) :
    (allRegions (runSeq off min max reqs)).Pairwise disj :=
  (seq_all_disjoint min max h2 reqs off h0 h1 hl hk ho).1

example : allRegions (runSeq 1000 1000 1100 [(40, .fail), (48, .fresh 7000), (0, .fail), (-8, .fail), (50, .fail), (48, .fresh 9000), (5, .fail)])
    = [(1000, 40), (7000, 48), (1040, 0), (1040, 50), (9000, 48), (1090, 5)] := by decide

/-- Clause "for all request sizes", the negative half on its own: a negative length is refused — no region, the bump
    pointer does not move — and under every schedule a negative request of a concurrent requester ends in an error. -/
theorem negative_length_is_refused (off min max : Nat) (r : Int) (hr : r < 0) :
    acquire .fail off min max r = (off, none) := by
  have g : guardFails r = true := by
    cases h : guardFails r
    · have := gen_guard_safe r h; omega
    · rfl
  simp only [acquire, acquireFromHolderI, g, if_true]

example : (acquire .fail 1048 1000 1100 (-8)) = (1048, none) := by decide

/-- Clause "exhaustion is reported as an error instead of overrunning the reserve" (one caller at a time): a request
    that does not fit behind the bump pointer is refused and leaves the pointer where it was; a request that is served
    gets exactly the bytes behind the pointer, which then advances by the length and stays inside the reserve; in a
    one-caller history started with the pointer inside the reserve it never passes `max`.  (Under concurrency the pointer
    itself may overshoot after a lost race — the regions still never do: `conc_regions_in_reserve_sized_disjoint`.) -/
theorem exhaustion_is_error_not_overrun (off min max : Nat) (r : Int) (h1 : off ≤ max) (h2 : max < 9223372036854775808)
    (h0 : 0 ≤ r) (hl : r < 9223372036854775808) :
    (max < off + r.toNat → acquire .fail off min max r = (off, none)) ∧
    (∀ o sp, acquire .fail off min max r = (o, some sp) →
        sp = ⟨off, r.toNat, typeHolder⟩ ∧ o = off + r.toNat ∧ off + r.toNat ≤ max) ∧
    (∀ reqs : List (Int × Mmap), (∀ q ∈ reqs, q.1 < 9223372036854775808) → offSeq off min max reqs ≤ max) := by
  have hu := ulen_nonneg h0 hl
  have sp := acquireFromHolder_spec off min max r.toNat h1 h2 hu.2
  refine ⟨?_, ?_, ?_⟩
  · intro h
    rcases acquire_cases .fail off min max r h1 h2 hl with ⟨a, e, _⟩ | ⟨_, _, hfit, _⟩ | ⟨_, o', _, _, e⟩
    · cases e
    · omega
    · unfold acquire acquireFromHolderI at e ⊢
      cases g : guardFails r
      · simp only [g, Bool.false_eq_true, if_false, hu.1, sp.2 h]
      · simp only [g, if_true]
  · intro o s hs
    rcases acquire_cases .fail off min max r h1 h2 hl with ⟨a, e, _⟩ | ⟨_, _, hfit, e⟩ | ⟨_, o', _, _, e⟩
    · cases e
    · rw [e] at hs
      simp only [Prod.mk.injEq, Option.some.injEq] at hs
      exact ⟨hs.2.symm, hs.1.symm, hfit⟩
    · rw [e] at hs; simp at hs
  · intro reqs hr
    exact (seq_inv min max h2 reqs off h1 hr).1.2

example : (runSeq 1000 1000 1100 [(60, .fail), (60, .fail), (30, .fail), (20, .fail)]).map (·.2)
    = [some ⟨1000, 60, typeHolder⟩, none, some ⟨1060, 30, typeHolder⟩, none] := by decide

/-- Clause "concurrent requests never receive overlapping regions … regions stay inside the reserve": for EVERY
    schedule of the micro-steps (load, check, atomic add, check, return) of ANY number of concurrent requesters with ANY
    `int` lengths, every region returned lies inside `[min,max)`, is exactly as long as requested (so the request was
    not negative), any two regions returned to different requesters are disjoint, and every negative request ends in
    an error.  (`hB`: the number of requesters times the reserve size does not reach 2^63, so the 64-bit bump pointer
    cannot wrap; with a 12 KiB reserve that is ≈ 7·10^14 simultaneous requesters.) -/
theorem conc_regions_in_reserve_sized_disjoint (off min max : Nat) (reqs : List Int) (σ : List Nat)
    (h0 : min ≤ off) (h1 : off ≤ max) (hl : ∀ r ∈ reqs, r < 9223372036854775808)
    (hB : max + reqs.length * (max - min) < 9223372036854775808) :
    (∀ i a l, resultOf (run (initI off min max reqs) σ) i = some (.ok a l) →
        min ≤ a ∧ a + l ≤ max ∧ reqs[i]? = some (l : Int)) ∧
    (∀ i j a l a' l', i ≠ j → resultOf (run (initI off min max reqs) σ) i = some (.ok a l) →
        resultOf (run (initI off min max reqs) σ) j = some (.ok a' l') → disj (a, l) (a', l')) ∧
    (∀ i r, reqs[i]? = some r → r < 0 → resultOf (run (initI off min max reqs) σ) i = some .err) :=
  conc_mainI off min max reqs σ h0 h1 hl hB

example : let s := run (initI 1000 1000 1100 [40, -8, 40, 40]) [0, 2, 3, 0, 2, 3, 2, 0, 3, 3, 3, 2, 2, 0, 0, 1]
    (resultOf s 0, resultOf s 1, resultOf s 2, resultOf s 3) =
      (some (.ok 1040 40), some .err, some (.ok 1000 40), some .err) := by decide

/-- Clause "primary path": when the kernel grants the anonymous RWX mapping, `Acquire` returns exactly that mapping
    with the requested length, marks it for plain-copy writes, and does not touch the reserve; when the kernel
    refuses, the request is served from the reserve (or refused) and marked for `memory.WriteTo`. No `Space` that
    `Acquire` returns is rejected by `Write`.  (`acquire` transcribes space.go:25; tools/genstub matches the Go text of
    `Acquire` and of the switch in `Write` literally on every run, and the `d<len>` probe lane runs the fallback for
    requests that fit.) -/
theorem mmap_dispatch (off min max : Nat) (r : Int) (mm : Mmap) :
    (∀ a, mm = .fresh a → acquire mm off min max r = (off, some ⟨a, r.toNat, typeMMap⟩) ∧ writeVia typeMMap = .copy) ∧
    (mm = .fail → ∀ o sp, acquire mm off min max r = (o, some sp) →
        sp.typ = typeHolder ∧ writeVia sp.typ = .writeTo ∧ acquireFromHolderI off min max r = (o, .ok sp.addr sp.len)) ∧
    (∀ o sp, acquire mm off min max r = (o, some sp) → writeVia sp.typ ≠ .illegal) := by
  refine ⟨?_, ?_, ?_⟩
  · intro a e; subst e; exact ⟨rfl, by decide⟩
  · intro e o sp h; subst e
    simp only [acquire] at h
    split at h
    · simp only [Prod.mk.injEq, Option.some.injEq] at h
      obtain ⟨ho, hs⟩ := h
      subst hs; subst ho
      rename_i heq
      exact ⟨rfl, (by show writeVia typeHolder = _; decide), heq⟩
    · simp at h
  · intro o sp h
    cases mm with
    | fresh a => simp only [acquire, Prod.mk.injEq, Option.some.injEq] at h; rw [← h.2]; show writeVia typeMMap ≠ _; decide
    | fail =>
      simp only [acquire] at h
      split at h
      · simp only [Prod.mk.injEq, Option.some.injEq] at h; rw [← h.2]; show writeVia typeHolder ≠ _; decide
      · simp at h

/-- Clause "writable through the provided writer" + "disjoint": what `Write(s, data)` stores stays inside the region `s`
    (so writing one's own region can never change a neighbour's bytes), nothing of `data` is silently dropped, and data
    that fits the region is never refused.  (False for the code without the length check in `Write`: on the reserve
    path `memory.WriteTo(s.Addr, data)` stores all of `data` whatever the region length — 24 bytes into a 16-byte
    region overwrite the neighbour's first 8 — and on the mapping path `copy` drops the excess silently: defect F28.) -/
theorem write_confined (sp : Space) (dataLen : Nat) (ht : sp.typ = typeMMap ∨ sp.typ = typeHolder) :
    (∀ fp, writeFootprint sp dataLen = some fp →
        fp.1 = sp.addr ∧ fp.1 + fp.2 ≤ sp.addr + sp.len ∧ fp.2 = dataLen) ∧
    (dataLen ≤ sp.len → writeFootprint sp dataLen ≠ none) := by
  constructor
  · intro fp h
    unfold writeFootprint at h
    cases g : writeRejects dataLen sp.len
    · have hle := gen_write_safe _ _ g
      rcases ht with e | e
      · simp only [g, Bool.false_eq_true, if_false, e, writeVia, if_true, Option.some.injEq] at h
        have hm : Nat.min dataLen sp.len = dataLen := Nat.min_eq_left hle
        rw [← h, hm]; exact ⟨rfl, by show sp.addr + dataLen ≤ _; omega, rfl⟩
      · have : writeVia sp.typ = .writeTo := by rw [e]; decide
        simp only [g, Bool.false_eq_true, if_false, this, Option.some.injEq] at h
        rw [← h]; exact ⟨rfl, by show sp.addr + dataLen ≤ _; omega, rfl⟩
    · simp [g] at h
  · intro hle
    unfold writeFootprint
    rw [gen_write_accepts _ _ hle]
    rcases ht with e | e
    · simp [e, writeVia]
    · have : writeVia sp.typ = .writeTo := by rw [e]; decide
      simp [this]

example : writeFootprint ⟨1000, 16, typeHolder⟩ 16 = some (1000, 16) ∧ writeFootprint ⟨1000, 16, typeHolder⟩ 24 = none ∧
    writeFootprint ⟨7000, 16, typeMMap⟩ 24 = none ∧ writeFootprint ⟨7000, 48, typeMMap⟩ 12 = some (7000, 12) := by decide

/-- Anchor make_method.go: the stub that `MakeMethodCaller`/`MakeMethodCallerWithCtx` write fits the region they
    request — for every target address, on amd64 (12 bytes) and on arm64 (24 bytes), the emitted jump is at most
    `interfaceJumpDataLen` long (the emitters are the regenerated `Gen.IfaceAmd64/IfaceArm64`, the constant and the
    fact that every `stub.Acquire` in package iface asks for it are re-extracted on every run). -/
theorem stub_fits_request (dx a b : BitVec 64) :
    (Gen.IfaceAmd64.jmpWithRdx dx).length ≤ interfaceJumpDataLen ∧
    (Gen.IfaceArm64.jmpWithRdx dx).length ≤ interfaceJumpDataLen ∧
    (Gen.IfaceArm64.jmpWithRdxAndCtx dx a b).length ≤ interfaceJumpDataLen := by
  refine ⟨?_, ?_, ?_⟩
  · unfold Gen.IfaceAmd64.jmpWithRdx interfaceJumpDataLen; simp
  · unfold Gen.IfaceArm64.jmpWithRdx Gen.IfaceArm64.movImm interfaceJumpDataLen; simp
  · unfold Gen.IfaceArm64.jmpWithRdxAndCtx Gen.IfaceArm64.movImm interfaceJumpDataLen; simp

/-- Clause "writable through the provided writer" — for every write, not only the first: whatever `Space` `Acquire`
    returns (mapping or reserve), any number of successive `Write`s through it goes through, and each leaves the region
    in the protection it had when it was handed out (mapping: RWX, never sealed; reserve: R-X restored by
    memory.WriteTo, which re-opens it on the next call).
    The protection automaton `writeOnce` is a hand transcription of space.go:45 / mwrite_amd64.go:19, so this theorem is
    only as good as that transcription: its tie to the code is the `c20.writes` lane (n successive real writes compared
    with `writeN`) and the literal match of the switch in `Write` by tools/genstub. -/
theorem write_repeatable (off min max : Nat) (len : Int) (mm : Mmap) (o : Nat) (sp : Space)
    (h : acquire mm off min max len = (o, some sp)) (n : Nat) :
    writeN sp.typ (initPerm sp.typ) n = some (initPerm sp.typ) := by
  have ht : sp.typ = typeMMap ∨ sp.typ = typeHolder := by
    cases mm with
    | fresh a => simp only [acquire, Prod.mk.injEq, Option.some.injEq] at h; rw [← h.2]; exact Or.inl rfl
    | fail =>
      simp only [acquire] at h
      split at h
      · simp only [Prod.mk.injEq, Option.some.injEq] at h; rw [← h.2]; exact Or.inr rfl
      · simp at h
  rcases ht with e | e
  · rw [e]; exact writeN_mmap n
  · rw [e, writeN_holder n]; cases n <;> rfl

example : writeN typeMMap (initPerm typeMMap) 4 = some .rwx ∧ writeN typeHolder (initPerm typeHolder) 4 = some .rx ∧
    writeOnce typeMMap .rx = none := by decide

/-- Concurrent writers on the reserve path: neighbouring regions share a code page, and every writer runs
    lock / mprotect RWX / copy / mprotect R-X / unlock (memory.WriteTo).  For EVERY schedule of any number of writers no
    copy ever hits a page that is not writable — because the protection is restored before the lock is released.
    (`wstep` is a hand-written lock model; the statement order of memory.WriteTo is compared with it by C11's skeleton
    check, and the `c20.cwrite` lane runs real concurrent writers on shared pages.) -/
theorem conc_writers_never_fault (n : Nat) (σ : List Nat) : (wrun (winit n) σ).faulted = false :=
  (winv_run σ (winv_init n)).nofault

example : (wrun (winit 2) [0, 1, 0, 1, 0, 0, 1, 0, 1, 1, 1, 1, 1]).pcs = [.done, .done] := by decide

/-- The slice handed to the writer is the returned region: it starts at the returned address and its length and
    capacity are the requested length.  (Regression guard on the generated definitions; that `Write` stays inside the
    region is `write_confined`.) -/
theorem slice_is_region (p n l mi ma : Nat) :
    sliceData p n l mi ma = retAddr p n l mi ma ∧ sliceLen p n l mi ma = l ∧ sliceCap p n l mi ma = l :=
  ⟨gen_data p n l mi ma, (gen_len p n l mi ma).1, (gen_len p n l mi ma).2⟩

/-- `init()`: the reserve is exactly the scanned extent of the placeholder function, the pointer starts at its entry. -/
theorem init_reserve (offset size : Nat) (h : offset + size < 18446744073709551616) :
    initOff offset size = offset ∧ initMin offset size = offset ∧ initMax offset size = offset + size :=
  gen_init offset size h

/-- Trace validation is sound: a history of the real allocator that the executable `admits` accepts (some schedule of
    the model reproduces every observed result) has the property — observed regions inside the reserve, as long as
    requested, pairwise disjoint. -/
theorem admits_sound (h : Hist) (ha : admits h = true) :
    (∀ (i a l : Nat), h.res[i]? = some (some (.ok a l)) → h.min ≤ a ∧ a + l ≤ h.max ∧ h.lens[i]? = some l) ∧
    (∀ (i j a l a' l' : Nat), i ≠ j → h.res[i]? = some (some (.ok a l)) → h.res[j]? = some (some (.ok a' l')) →
        disj (a, l) (a', l')) :=
  admits_sound_main h ha

/-- The same for a schedule proposed from outside (used for long histories, where the check constructs the
    candidate schedule itself and the driver only replays it on the model). -/
theorem explains_sound (h : Hist) (σ : List Nat) (hw : h.wellFormed = true) (he : explains h σ = true) :
    (∀ (i a l : Nat), h.res[i]? = some (some (.ok a l)) → h.min ≤ a ∧ a + l ≤ h.max ∧ h.lens[i]? = some l) ∧
    (∀ (i j a l a' l' : Nat), i ≠ j → h.res[i]? = some (some (.ok a l)) → h.res[j]? = some (some (.ok a' l')) →
        disj (a, l) (a', l')) :=
  explains_sound_main h σ hw he

example : admits ⟨1000, 1000, 1100, [40, 40, 40], [some (.ok 1040 40), some (.ok 1000 40), some .err],
    [.inv 0, .inv 1, .inv 2, .resp 1, .resp 0, .resp 2]⟩ = true := by decide +kernel

/-- and `admits` does reject: the same address handed out twice is not a behaviour of the model -/
example : admits ⟨1000, 1000, 1100, [40, 40], [some (.ok 1000 40), some (.ok 1000 40)],
    [.inv 0, .inv 1, .resp 1, .resp 0]⟩ = false := by decide +kernel

end C20
