import GoomVerif.Model.Equal
/-! Property C18 — argument expressions form a consistent predicate algebra. -/
namespace C18
open C18M

/-- Clause "Any accepts everything": whatever the parameter types, `Any` resolves, and whatever the history of calls,
    every `Eval` answers `true`. -/
theorem any_accepts (types : List Ty) (input : List (Option Val)) :
    resolve .any types = .ok .any ∧ eval .any input = .ok true := by
  constructor <;> simp [resolve, eval]

end C18
