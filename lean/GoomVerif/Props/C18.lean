import GoomVerif.Lemmas.C18L
/-! # Property C18 — argument expressions form a consistent predicate algebra

Model: `Model/ValueC18.lean` (value universe, `reflect.DeepEqual`) and `Model/Equal.lean` (transcription of arg/equals.go,
arg/expr.go, arg/builder.go, `toValue`/`ToExpr` of arg/value.go, with fixes F10 and F18A applied).  Specification `C18L.goEq`.
`evalEquals T x a` is what a matcher does: `Equals(x).Resolve([T])`, then `Eval([a])` with `a` a value of the parameter type. -/
namespace C18
open C18M C18L

/-- `arg.Equals(x)` resolved against parameter type `T`, evaluated on the argument `a`. -/
def evalEquals (T : Ty) (x : Arg) (a : Option Val) : Res Bool :=
  (resolve (.equals x) [T]).bind (fun r => eval r [a])

/-- The argument as `reflect.MakeFunc` delivers it and the pattern as `toValue` binds it, for a parameter of type `T`:
    boxed into `T` when `T` is an interface type, as it is otherwise. -/
def asParam (T : Ty) (v : Val) : Val := if T.kind = .iface then .iface T.name v else v

/-- A pattern value is well-typed for `T`: it has type `T` (and so `T`'s size), or `T` is an interface it is assignable to. -/
def WellTyped (T : Ty) (v : Val) (sz : Nat) : Prop :=
  if T.kind = .iface then assignable T v.ty = true else (v.ty = T.name ∧ sz = T.size)

/-- `nil` is a value of `T`. -/
def Nilable (T : Ty) : Prop := T.kind = .iface ∨ T.kind = .ptr ∨ T.kind = .slice ∨ T.kind = .map ∨ T.kind = .func

theorem toValue_wt (T : Ty) (v : Val) (sz : Nat) (h : WellTyped T v sz) : toValue (some (v, sz)) T = .ok (some (asParam T v)) := by
  unfold WellTyped at h
  by_cases hk : T.kind = .iface
  · simp [hk] at h
    simp [toValue, asParam, hk, h]
  · simp [hk] at h
    simp [toValue, asParam, hk, h.1, h.2]

/-! ## Clause 1: Any accepts everything -/

/-- `Any` resolves against any parameter types and accepts any input, at any point of any history of calls. -/
theorem any_accepts (types : List Ty) (input : List (Option Val)) (pre : List Call) :
    resolve .any types = .ok .any ∧ eval .any input = .ok true ∧
    (step (state { src := .any, res := none } pre) (.eval input)).2 = .answered (.ok true) := by
  refine ⟨by simp [resolve], by simp [eval], ?_⟩
  have : ∀ (cs : List Call) (o : Obj), o.src = .any → (o.res = none ∨ o.res = some .any) →
      (step (state o cs) (.eval input)).2 = .answered (.ok true) := by
    intro cs
    induction cs with
    | nil =>
      intro o hs hr
      rcases hr with hr | hr <;> simp [state, step, hs, hr, unresolved, eval]
    | cons c cs ih =>
      intro o hs hr
      cases c with
      | resolve tys =>
        simp only [state]
        apply ih
        · simp [step, hs, resolve]
        · simp [step, hs, resolve]
      | eval inp => exact ih o hs hr
  exact this pre _ rfl (Or.inl rfl)

/-! ## Clause 2: Equals(x) accepts a same-typed argument exactly when it equals x -/

/-- Full statement (kept visible; false as it stands because of the known finding `C18-closure-code-identity`). -/
def EqualsSpecFull : Prop :=
  ∀ (T : Ty) (x a : Val) (sz : Nat), WellTyped T x sz → sameDyn (asParam T x) (asParam T a) = true →
    Ordinary (asParam T x) (asParam T a) → evalEquals T (some (x, sz)) (some (asParam T a)) = .ok (goEq (asParam T x) (asParam T a))

/-- `Equals(x)` on a same-typed ordinary argument answers Go equality: `==` on integers, strings, booleans and ordinary
    floats, identity on funcs, `reflect.DeepEqual` on composites, pointee for pointers, dynamic value for interfaces,
    nil = nil.  Excluded (decidable hypothesis): two closures of one function literal with different captured state. -/
theorem equals_spec_partial (T : Ty) (x a : Val) (sz : Nat) (hw : WellTyped T x sz)
    (hs : sameDyn (asParam T x) (asParam T a) = true) (ho : Ordinary (asParam T x) (asParam T a))
    (hc : closureAlias (asParam T x) (asParam T a) = false) :
    evalEquals T (some (x, sz)) (some (asParam T a)) = .ok (goEq (asParam T x) (asParam T a)) := by
  simp only [evalEquals, resolve, toValue_wt T x sz hw, Res.bind, eval]
  exact equal_spec _ _ hs ho hc

/-- The hypotheses are satisfiable by non-trivial states: a pointer to a struct against a structurally equal fresh one
    (accepted), and an `int64` boundary pair through `interface{}` (rejected). -/
example :
    let T : Ty := { name := "*S1", kind := .ptr, size := 8 }
    let s (n : Int) : Val := .ptr "*S1" 0 (.strct "S1" (.cons (.int "int" true n) (.cons (.str "string" "a" none none) .nil)))
    WellTyped T (s 1) 8 ∧ sameDyn (asParam T (s 1)) (asParam T (s 1)) = true ∧ Ordinary (asParam T (s 1)) (asParam T (s 1)) ∧
      closureAlias (asParam T (s 1)) (asParam T (s 1)) = false ∧ goEq (asParam T (s 1)) (asParam T (s 1)) = true ∧
      goEq (asParam T (s 1)) (asParam T (s 2)) = false := by
  refine ⟨by simp [WellTyped, Val.ty], by decide, by simp [asParam, Ordinary, ordinary1], by decide, by decide, by decide⟩

/-- nil pattern: `Equals(nil)` for a nilable parameter type accepts exactly the nil argument ("two nils are equal"). -/
theorem equals_nil (T : Ty) (hn : Nilable T) (a : Val) (z : Val) (hz : nilableZero T = some z) :
    evalEquals T none (some z) = .ok true ∧
    (isNil (some a) = false → evalEquals T none (some a) = .ok false) := by
  have hr : toValue none T = .ok (some z) := by
    rcases hn with h | h | h | h | h <;> simp [toValue, h, ← hz]
  have hzn : isNil (some z) = true := by
    rcases hn with h | h | h | h | h <;> simp [nilableZero, h] at hz <;> subst hz <;> rfl
  constructor
  · simp [evalEquals, resolve, hr, Res.bind, eval, equal, hzn]
  · intro ha
    simp [evalEquals, resolve, hr, Res.bind, eval, equal, hzn, ha]

/-! ## Clause 3: symmetry -/

/-- On the same domain `Equals` is symmetric in pattern and argument. -/
theorem equals_symm (T : Ty) (x a : Val) (sx sa : Nat) (hx : WellTyped T x sx) (ha : WellTyped T a sa)
    (hs : sameDyn (asParam T x) (asParam T a) = true) (ho : Ordinary (asParam T x) (asParam T a))
    (hc : closureAlias (asParam T x) (asParam T a) = false) :
    evalEquals T (some (x, sx)) (some (asParam T a)) = evalEquals T (some (a, sa)) (some (asParam T x)) := by
  rw [equals_spec_partial T x a sx hx hs ho hc]
  rw [equals_spec_partial T a x sa ha (by rw [sameDyn_symm]; exact hs) (Ordinary_symm _ _ hs ho) (by rw [closureAlias_symm]; exact hc)]
  rw [goEq_symm _ _ hs]

/-! ## Clause 4: In(x1..xn) accepts exactly the union of Equals(xi) -/

/-- `In(c1..cn)` with single components (values or nested expressions), resolved against one parameter type: its answer
    is the first-true union of the answers of its components, each resolved and evaluated on its own; a plain value `xi`
    contributes exactly `Equals(xi)`. -/
theorem in_is_union (T : Ty) (items : Items) (cs : List Comp) (r : RExpr) (a : Option Val)
    (hc : Items.comps items = some cs) (hr : resolve (.inE items) [T] = .ok r) :
    eval r [a] = orRes (cs.map (fun c => (resolveComp c T).bind (fun e => eval e [a]))) ∧
    (∀ x, resolveComp (.val x) T = resolve (.equals x) [T]) := by
  simp only [resolve] at hr
  obtain ⟨rows, hrows, h2⟩ := bind_ok _ _ _ hr
  injection h2 with h2; subst h2
  exact ⟨by simpa [eval] using in_union_rows items T cs rows a hc hrows, fun x => by simp [resolveComp, resolve]⟩

/-- Satisfiable: `In(1, Any())` on an `int` parameter resolves, and the union has two members. -/
example :
    let T : Ty := { name := "int", kind := .int, size := 8 }
    let items := Items.one (.val (some (.int "int" true 1, 8))) (.one (.sub .any) .nil)
    (∃ r, resolve (.inE items) [T] = .ok r) ∧ (Items.comps items).map List.length = some 2 := by
  exact ⟨⟨_, rfl⟩, rfl⟩

/-! ## Clause 5: evaluating never changes later answers -/

/-- `Eval` leaves the expression object exactly as it was … -/
theorem eval_keeps_state (o : Obj) (input : List (Option Val)) : (step o (.eval input)).1 = o := rfl

/-- … hence an `Eval` inserted anywhere in a history of `Resolve`/`Eval` calls changes no other observation. -/
theorem eval_pure (o : Obj) (pre post : List Call) (input : List (Option Val)) :
    run o (pre ++ .eval input :: post) = run o pre ++ (step (state o pre) (.eval input)).2 :: run (state o pre) post := by
  rw [run_append]
  rfl

/-- The same input evaluated twice on one object, with arbitrary `Eval`s in between, gets the same answer. -/
theorem eval_repeatable (o : Obj) (between : List (List (Option Val))) (input : List (Option Val)) :
    (step (state o (between.map Call.eval)) (.eval input)).2 = (step o (.eval input)).2 := by
  induction between generalizing o with
  | nil => rfl
  | cons b bs ih =>
    simp only [List.map, state, eval_keeps_state]
    exact ih o

/-! ## Clause 6: no panic on well-typed input -/

/-- `Equals(x)` with a well-typed pattern (or `nil` for a nilable type) resolves and evaluates any valid argument to an
    answer: neither error nor panic. -/
theorem equals_total (T : Ty) (x : Arg) (a : Val)
    (hx : match x with | none => Nilable T | some (v, sz) => WellTyped T v sz) :
    ∃ b, evalEquals T x (some a) = .ok b := by
  have : ∃ v, toValue x T = .ok (some v) := by
    cases x with
    | none =>
      rcases hx with h | h | h | h | h <;> simp [toValue, nilableZero, h]
    | some p =>
      obtain ⟨v, sz⟩ := p
      exact ⟨_, toValue_wt T v sz hx⟩
  obtain ⟨v, hv⟩ := this
  simp only [evalEquals, resolve, hv, Res.bind, eval]
  exact equal_total v a

/-- Any expression (`Any`, `Equals`, `In` with nested expressions and tuples) whose `Resolve` succeeded evaluates every
    tuple of valid arguments to an answer — for `In` with any number of parameters, for `Equals`/`Any` with one. -/
theorem eval_total (e : Expr) (types : List Ty) (r : RExpr) (hr : resolve e types = .ok r) :
    (∀ a : Val, ∃ b, eval r [some a] = .ok b) ∧
    (∀ rows, r = .inE rows → ∀ input, allSome input → ∃ b, eval r input = .ok b) := by
  have hw := resolve_wf e types r hr
  refine ⟨fun a => eval1_total r hw a, ?_⟩
  intro rows he input hi
  subst he
  simpa [eval] using evalRows_total rows (by simpa [rwf] using hw) input hi

/-- Variadic mode (`In` with tuple items): once `Resolve(types, true)` succeeded, evaluating any packed argument list of valid
    values gives an answer (no error, no panic), and the answer is that of the non-variadic `Eval` on the expanded list — `Eval`
    reads the caller's list and never writes it (expr.go:99-109), which the probe checks by re-evaluating the same list. -/
theorem eval_total_variadic (items : Items) (fixed : List Ty) (elemT : Ty) (r : RExpr)
    (hr : resolveInV items fixed elemT = .ok r) (fixedArgs elems : List (Option Val))
    (hf : allSome fixedArgs) (he : allSome elems) :
    ∃ b, evalInV r fixedArgs elems = .ok b := by
  simp only [resolveInV] at hr
  obtain ⟨rows, hrows, h2⟩ := bind_ok _ _ _ hr
  injection h2 with h2; subst h2
  have hw := resolveTuplesV_wf items fixed elemT rows hrows
  have hi : allSome (fixedArgs ++ elems) := by
    intro a ha
    rcases List.mem_append.mp ha with h | h
    · exact hf a h
    · exact he a h
  simpa [evalInV, eval] using evalRows_total rows hw _ hi

/-! ## Expression objects shared between positions, clauses and `In`s (Model/ShareC18.lean) -/

/-- "Any accepts everything" for a SHARED object: an `AnyExpr` of the heap (e.g. `arg.AnyValues`) answers `true` on every
    input after ANY script of `Resolve`/`Eval` calls on ANY objects of the heap — including `Resolve` of that very object
    against other parameter types, directly or as a component of an `In`. -/
theorem any_accepts_shared (h : Heap) (id : Nat) (hp : IsAny h id) (fuel fuel' : Nat) (script : List SStep)
    (input : List (Option Val)) :
    evalObj (fuel + 1) (stateS fuel' h script) id input = .ok true := by
  obtain ⟨o, ho, hst, _⟩ := stateS_pres id fuel' script h hp
  simp [evalObj, ho, hst]

/-- Satisfiable: a heap with `AnyValues` and an `In(AnyValues, 5)` that refers to it. -/
example : IsAny [⟨.any, .any⟩, ⟨.inE [.one (.ref 0), .one (.val (some (.int "int" true 5, 8)))], .inE []⟩] 0 :=
  ⟨_, rfl, rfl, rfl⟩

/-- `Eval` of any object leaves the whole heap as it was, … -/
theorem eval_keeps_heap (fuel : Nat) (h : Heap) (id : Nat) (input : List (Option Val)) :
    (stepS fuel h (.eval id input)).1 = h := rfl

/-- … hence an `Eval` inserted anywhere into a script of interleaved `Resolve`/`Eval` calls on shared objects changes no
    other observation (answers of earlier and later uses included). -/
theorem eval_pure_shared (fuel : Nat) (h : Heap) (pre post : List SStep) (id : Nat) (input : List (Option Val)) :
    runS fuel h (pre ++ .eval id input :: post) =
      runS fuel h pre ++ .answered (evalObj fuel (stateS fuel h pre) id input) :: runS fuel (stateS fuel h pre) post := by
  rw [runS_append]
  rfl

/-! ## Round-5 additions -/

/-- `In` over tuples, any number of parameters (the part of clause 4 that `in_is_union` does not reach): the answer is the
    first-true union, over the rows whose width is that of the argument list, of the row answers; a row answers the
    conjunction of its components (`evalRow`, by definition).  Holds for every resolved state. -/
theorem in_rows_union (rows : RRows) (input : List (Option Val)) :
    eval (.inE rows) input =
      orRes (((RRows.toList rows).filter (fun r => r.len == input.length)).map (fun r => evalRow r input)) := by
  simpa [eval] using evalRows_union rows input

/-- Non-vacuity: two rows of different width, only the matching one is consulted. -/
example : eval (.inE (.cons (.cons .any .nil) (.cons (.cons .any (.cons .any .nil)) .nil))) [some (.bool "bool" true)] = .ok true := by
  rw [in_rows_union]; rfl

/-- A component that `In.Resolve` can bind to the parameter type `T`: a well-typed plain value that is not itself a
    `[]interface{}` (which `In` reads as a tuple — known finding), `nil` for a nilable `T`, or `Any()`. -/
def GoodComp (T : Ty) : Comp → Prop
  | .val none => Nilable T
  | .val (some (v, sz)) => WellTyped T v sz ∧ Comp.isTupleLike (.val (some (v, sz))) = false
  | .sub .any => True
  | .sub _ => False

theorem toValue_total (T : Ty) (x : Arg)
    (hx : match x with | none => Nilable T | some (v, sz) => WellTyped T v sz) : ∃ v, toValue x T = .ok (some v) := by
  cases x with
  | none => rcases hx with h | h | h | h | h <;> simp [toValue, nilableZero, h]
  | some p => obtain ⟨v, sz⟩ := p; exact ⟨_, toValue_wt T v sz hx⟩

/-- Resolve-totality for `In` (non-variadic, one parameter): if every alternative is a good component for `T`, then
    `In(x1..xn).Resolve([T])` succeeds — no error, no panic — and by `eval_total` every later `Eval` answers.
    PARTIAL with respect to the property text: a `[]interface{}` alternative is excluded (finding
    `C18-in-item-slice-of-interface-is-tuple`), nested `Equals`/`In` sub-expressions are not covered, variadic mode is not. -/
theorem in_resolve_total_partial (T : Ty) : ∀ (items : Items) (cs : List Comp), Items.comps items = some cs →
    (∀ c ∈ cs, GoodComp T c) → ∃ rows, resolveItems items [T] = .ok rows
  | .nil, cs, _, _ => ⟨.nil, by simp [resolveItems]⟩
  | .tuple _ _, cs, hc, _ => by simp [Items.comps] at hc
  | .one c rest, cs, hc, hg => by
    simp only [Items.comps, Option.map_eq_some_iff] at hc
    obtain ⟨cs', hcs', rfl⟩ := hc
    obtain ⟨rows, hrows⟩ := in_resolve_total_partial T rest cs' hcs' (fun c' h' => hg c' (by simp [h']))
    have hgc := hg c (by simp)
    have hcomp : Comp.isTupleLike c = false ∧ ∃ e, resolveComp c T = .ok e := by
      match c, hgc with
      | .val none, h =>
        obtain ⟨v, hv⟩ := toValue_total T none h
        exact ⟨rfl, ⟨.equals (some v), by simp [resolveComp, hv, Res.bind]⟩⟩
      | .val (some (v, sz)), h =>
        obtain ⟨v', hv⟩ := toValue_total T (some (v, sz)) h.1
        exact ⟨h.2, ⟨.equals (some v'), by simp [resolveComp, hv, Res.bind]⟩⟩
      | .sub .any, _ => exact ⟨rfl, ⟨.any, by simp [resolveComp, resolve]⟩⟩
    obtain ⟨ht, e, he⟩ := hcomp
    exact ⟨.cons (.cons e .nil) rows, by simp [resolveItems, ht, typeAt, he, hrows, Res.bind]⟩

/-- Non-vacuity: `In(1, nil-free Any())` on an `int` parameter satisfies the hypotheses. -/
example : ∀ c ∈ [Comp.val (some (.int "int" true 1, 8)), Comp.sub .any],
    GoodComp { name := "int", kind := .int, size := 8 } c := by
  intro c hc
  simp at hc
  rcases hc with rfl | rfl
  · exact ⟨by simp [WellTyped, Val.ty], rfl⟩
  · trivial

/-! ## Variadic mode after the repair of `InExpr.Resolve` (goom 8d8ef90): a non-slice alternative is ONE argument -/

/-- One alternative bound as one argument: `resolveComp` against the first parameter type succeeds for a good component. -/
theorem goodComp_resolves (T : Ty) (c : Comp) (h : GoodComp T c) : Comp.isTupleLike c = false ∧ ∃ e, resolveComp c T = .ok e := by
  match c, h with
  | .val none, h =>
    obtain ⟨v, hv⟩ := toValue_total T none h
    exact ⟨rfl, ⟨.equals (some v), by simp [resolveComp, hv, Res.bind]⟩⟩
  | .val (some (v, sz)), h =>
    obtain ⟨v', hv⟩ := toValue_total T (some (v, sz)) h.1
    exact ⟨h.2, ⟨.equals (some v'), by simp [resolveComp, hv, Res.bind]⟩⟩
  | .sub .any, _ => exact ⟨rfl, ⟨.any, by simp [resolveComp, resolve]⟩⟩

/-- Resolve-totality of `In` in VARIADIC mode, for a function with at most one fixed parameter (`f(xs ...T)` or `f(a A, xs ...T)`):
    if every alternative is a single good component for the first parameter position (`elemT` for `f(xs ...T)`, `A` otherwise) and
    is not a slice/array (those are expanded into whole argument lists), `In(x1..xn).Resolve(types, true)` succeeds — the
    `reflect.Value.Len` panic of `In(1, 2)` on `f(xs ...int)` is gone.  With two or more fixed parameters a single value is
    rejected with the "number of args" error (not a panic); slices/arrays at the variadic position are covered by the
    differential run only.  PARTIAL in the same sense as `in_resolve_total_partial` (no `[]interface{}` alternative, no nested
    Equals/In). -/
theorem in_resolve_total_variadic_partial (fixed : List Ty) (elemT T0 : Ty) (hf : fixed.length ≤ 1)
    (hT : typeAt (fixed ++ [elemT]) 0 = some T0) :
    ∀ (items : Items) (cs : List Comp) (i : Nat), Items.comps items = some cs →
      (∀ c ∈ cs, GoodComp T0 c ∧ expandable c = none) → ∃ rows, resolveTuplesVFrom items fixed elemT i = .ok rows
  | .nil, cs, _, _, _ => ⟨.nil, by simp [resolveTuplesVFrom]⟩
  | .tuple _ _, cs, _, hc, _ => by simp [Items.comps] at hc
  | .one c rest, cs, i, hc, hg => by
    simp only [Items.comps, Option.map_eq_some_iff] at hc
    obtain ⟨cs', hcs', rfl⟩ := hc
    obtain ⟨rows, hrows⟩ := in_resolve_total_variadic_partial fixed elemT T0 hf hT rest cs' (i + 1) hcs'
      (fun c' h' => hg c' (by simp [h']))
    obtain ⟨hgc, hne⟩ := hg c (by simp)
    obtain ⟨ht, e, he⟩ := goodComp_resolves T0 c hgc
    have hlt : ¬ (1 < fixed.length) := by omega
    have hrow : toExprV (.cons c .nil) fixed elemT = .ok (.cons e .nil) := by
      have hl : ¬ ((Comps.cons c .nil).len < fixed.length) := by simp [Comps.len]; omega
      simp [toExprV, hl, toExprFrom, hT, he, Res.bind]
    refine ⟨.cons (.cons e .nil) rows, ?_⟩
    simp only [resolveTuplesVFrom, ht, hne]
    simp [hrow, hrows, Res.bind]

/-- Non-vacuity: `In(1, 2)` on `f(xs ...int)` — the call that used to panic — meets the hypotheses. -/
example : ∃ rows, resolveTuplesVFrom (.one (.val (some (.int "int" true 1, 8))) (.one (.val (some (.int "int" true 2, 8))) .nil))
    [] { name := "int", kind := .int, size := 8 } 0 = .ok rows :=
  in_resolve_total_variadic_partial [] _ { name := "int", kind := .int, size := 8 } (by simp) rfl _ _ 0 rfl (by
    intro c hc
    simp at hc
    rcases hc with rfl | rfl <;> exact ⟨⟨by simp [WellTyped, Val.ty], rfl⟩, rfl⟩)

end C18
