import GoomVerif.Lemmas.C09L
/-!
# C09 — stubbed values reach callers unaltered and typed as the function declares

`Convert.toValue / I2V / V2I / isZeroVal / returnE2E` transcribe `arg/value.go` and the path from `Return(...)` to the
caller; `Convert.K` holds the three kind lists and the form of `cast` that are in `arg/value.go` **today**
(`Gen/C09Kinds.lean` is regenerated from the source on every run).  Every theorem quantifies over all declared
types `out`, all supplied dynamic types `t` and all payloads `x`.
-/
namespace C09
open Convert C09L

/-! ### example universe (used only by the `example`s that show the hypotheses are satisfiable) -/
def tInt64 : Ty := .prim .int64
def tS1 : Ty := .named "S1" [] ["Error|()(string)"] (.strct [] [] (.cons "A" tInt64 (.cons "B" (.prim .int32) (.cons "C" (.prim .bool) .nil))))
def tS1b : Ty := .named "S1b" [] [] (.strct [] [] (.cons "X" tInt64 (.cons "Y" (.prim .int32) (.cons "Z" (.prim .bool) .nil))))
def tS2 : Ty := .named "S2" [] [] (.strct [] [] (.cons "A" tInt64 (.cons "B" tInt64 (.cons "C" tInt64 .nil))))
def tError : Ty := .named "error" ["Error|()(string)"] [] (.iface ["Error|()(string)"])
def tFunc : Ty := .func "()()"
def vS1 : Val := .agg (.cons (.int 7) (.cons (.int (-2)) (.cons (.bool true) .nil)))

/-! ## clause 1 — nil becomes the typed zero value for pointer, interface, slice, map, channel and func results -/

/-- `toValue(nil, out)` is `reflect.Zero(out)`: typed as declared, the zero value, and a well-formed Value -/
theorem nil_is_typed_zero (out : Ty) (h : Nilable out.kind) :
    toValue K none out = .ok (zeroRV out) ∧ (zeroRV out).ty = out ∧ isZeroVal (zeroRV out).val = true ∧
      ((zeroRV out).val = .nilp ∨ (zeroRV out).val = .ifaceNil) := by
  refine ⟨?_, rfl, zeroVal_isZero out, ?_⟩
  · simp [toValue, K_nil_mem out.kind h]
  · rcases h with h | h | h | h | h | h
    · exact Or.inl (zeroVal_ptrlike out (Or.inl h))
    · exact Or.inr (zeroVal_iface out h)
    · exact Or.inl (zeroVal_ptrlike out (Or.inr (Or.inl h)))
    · exact Or.inl (zeroVal_ptrlike out (Or.inr (Or.inr (Or.inl h))))
    · exact Or.inl (zeroVal_ptrlike out (Or.inr (Or.inr (Or.inr (Or.inl h)))))
    · exact Or.inl (zeroVal_ptrlike out (Or.inr (Or.inr (Or.inr (Or.inr h)))))

example : Nilable tFunc.kind ∧ Nilable tError.kind ∧ Nilable (Ty.ptr tS1).kind := by decide

/-- `Return(nil)` on a function with such a result: the caller receives exactly the zero value of the declared type -/
theorem nil_result_at_caller (out : Ty) (h : Nilable out.kind) :
    returnE2E K [none] [out] = .got [zeroRV out] := by
  rw [returnE2E_single, (nil_is_typed_zero out h).1]
  simp only [zeroRV_wellFlagged]
  simp [deliver1, nilable_size_pos out h, directlyAssignable_self, zeroRV]

/-- so a nil `error` (any interface result) compares equal to nil at the caller: the received interface is the nil
    interface, and `Interface()` of it is the untyped nil -/
theorem nil_error_is_nil_at_caller (out : Ty) (h : out.kind = .iface) :
    returnE2E K [none] [out] = .got [⟨out, .iface, true, .ifaceNil⟩] ∧
      RV.toBoxed ⟨out, .iface, true, .ifaceNil⟩ = none := by
  refine ⟨?_, rfl⟩
  rw [nil_result_at_caller out (Or.inr (Or.inl h))]
  simp [zeroRV, h, iface_not_direct out h, zeroVal_iface out h]

example : tError.kind = .iface := by decide

/-! ## clause 2 — concrete values are boxed into interface results with their dynamic type intact -/

theorem boxed_keeps_dynamic_type (t : Ty) (x : Val) (out : Ty) (hk : out.kind = .iface)
    (himp : implements out t = true) (hctx : isIContextPtr t = false) :
    toValue K (some (t, x)) out = .ok ⟨out, .iface, true, .ifaceOf t x⟩ ∧
    returnE2E K [some (t, x)] [out] = .got [⟨out, .iface, true, .ifaceOf t x⟩] ∧
    RV.toBoxed ⟨out, .iface, true, .ifaceOf t x⟩ = some (t, x) := by
  have hc : Kind.iface ∉ K.cast := by decide
  have htv : toValue K (some (t, x)) out = .ok ⟨out, .iface, true, .ifaceOf t x⟩ := by
    simp [toValue, hc, hctx, hk, himp]
  refine ⟨htv, ?_, rfl⟩
  rw [returnE2E_single, htv]
  have hs : out.size ≠ 0 := nilable_size_pos out (Or.inr (Or.inl hk))
  simp [RV.wellFlagged, hk, iface_not_direct out hk, deliver1, hs, directlyAssignable_self]

example : tError.kind = .iface ∧ implements tError (.ptr tS1) = true ∧ isIContextPtr (.ptr tS1) = false := by decide

/-- a value whose type does not implement the declared interface is refused at configuration time -/
theorem nonimplementing_rejected (t : Ty) (x : Val) (out : Ty) (hk : out.kind = .iface)
    (himp : implements out t = false) (hctx : isIContextPtr t = false) :
    toValue K (some (t, x)) out = .error .panicAssign ∧
    returnE2E K [some (t, x)] [out] = .cfgPanic .panicAssign := by
  have hc : Kind.iface ∉ K.cast := by decide
  have htv : toValue K (some (t, x)) out = .error .panicAssign := by
    simp [toValue, hc, hctx, hk, himp]
  exact ⟨htv, by rw [returnE2E_single, htv]⟩

example : tError.kind = .iface ∧ implements tError tS1 = false ∧ isIContextPtr tS1 = false := by decide

/-! ## clause 3 — a struct or struct pointer of identical layout may stand in -/

/-- identical layout: the two types are equal once every type name and field name is erased -/
def LayoutEq (a b : Ty) : Prop := erase a = erase b
instance (a b : Ty) : Decidable (LayoutEq a b) := by unfold LayoutEq; infer_instance

theorem layoutEq_size (a b : Ty) (h : LayoutEq a b) : a.size = b.size := by
  rw [← erase_size a, ← erase_size b, h]

/-- What goom actually checks (review B2/A5): ANY value of the same size, kind and representation class is accepted for
    a struct / pointer result and retyped with its payload untouched — identical layout (`LayoutEq`, next theorem) is one
    way to meet the three equalities, flattened-identical layouts (`struct{In S3; T int8}` for `struct{P,Q int32; T int8}`)
    another; for pointers the pointee is not looked at at all.  The property only says such a stand-in MAY be given. -/
theorem same_size_kind_repr_accepted (t : Ty) (x : Val) (out : Ty) (hne : t ≠ out)
    (hk : out.kind = .strct ∨ out.kind = .ptr) (hsz : t.size = out.size) (hkind : t.kind = out.kind)
    (hdir : t.isDirect = out.isDirect) (hctx : isIContextPtr out = false) :
    toValue K (some (t, x)) out = .ok ⟨out, out.kind, !out.isDirect, x⟩ ∧
    (out.size ≠ 0 → returnE2E K [some (t, x)] [out] = .got [⟨out, out.kind, !out.isDirect, x⟩]) := by
  have hc : out.kind ∈ K.cast := (K_cast_mem out.kind).2 hk
  have hni : out.kind ≠ .iface := by rcases hk with h | h <;> rw [h] <;> decide
  have htv : toValue K (some (t, x)) out = .ok ⟨out, out.kind, !out.isDirect, x⟩ := by
    simp [toValue, hne, hc, hsz, Convert.cast, K_castNilSafe, hctx, hni, hkind, hdir]
  refine ⟨htv, ?_⟩
  intro hs0
  rw [returnE2E_single, htv]
  simp [RV.wellFlagged, deliver1, hs0, directlyAssignable_self]

example : tS1b ≠ tS1 ∧ tS1b.size = tS1.size ∧ tS1b.kind = tS1.kind ∧ tS1b.isDirect = tS1.isDirect := by
  refine ⟨by decide, by decide, by decide, by decide⟩

/-- the stand-in is accepted and retyped: declared type, payload untouched, flag word still consistent -/
theorem layout_standin_accepted (t : Ty) (x : Val) (out : Ty) (hne : t ≠ out)
    (hk : out.kind = .strct ∨ out.kind = .ptr) (hl : LayoutEq t out) (hctx : isIContextPtr out = false) :
    toValue K (some (t, x)) out = .ok ⟨out, out.kind, !out.isDirect, x⟩ ∧
    (⟨out, out.kind, !out.isDirect, x⟩ : RV).wellFlagged = true := by
  have hc : out.kind ∈ K.cast := (K_cast_mem out.kind).2 hk
  have hsz : t.size = out.size := layoutEq_size t out hl
  have hkind : t.kind = out.kind := by rw [← erase_kind t, ← erase_kind out, hl]
  have hdir : t.isDirect = out.isDirect := by rw [← erase_isDirect t, ← erase_isDirect out, hl]
  have hni : out.kind ≠ .iface := by rcases hk with h | h <;> rw [h] <;> decide
  refine ⟨?_, by simp [RV.wellFlagged]⟩
  simp [toValue, hne, hc, hsz, Convert.cast, K_castNilSafe, hctx, hni, hkind, hdir]

example : tS1b ≠ tS1 ∧ tS1.kind = .strct ∧ LayoutEq tS1b tS1 ∧ isIContextPtr tS1 = false := by
  refine ⟨by decide, by decide, by decide, by decide⟩
example : Ty.ptr tS1b ≠ Ty.ptr tS1 ∧ (Ty.ptr tS1).kind = .ptr ∧ LayoutEq (.ptr tS1b) (.ptr tS1) := by
  refine ⟨by decide, by decide, by decide⟩

/-- and it reaches the caller as a value of the declared type with the payload unchanged -/
theorem layout_standin_delivered (t : Ty) (x : Val) (out : Ty) (hne : t ≠ out)
    (hk : out.kind = .strct ∨ out.kind = .ptr) (hl : LayoutEq t out) (hctx : isIContextPtr out = false)
    (hsz : out.size ≠ 0) :
    returnE2E K [some (t, x)] [out] = .got [⟨out, out.kind, !out.isDirect, x⟩] := by
  have h := layout_standin_accepted t x out hne hk hl hctx
  rw [returnE2E_single, h.1]
  simp only [h.2]
  simp [deliver1, hsz, directlyAssignable_self]

example : tS1b ≠ tS1 ∧ LayoutEq tS1b tS1 ∧ tS1.size ≠ 0 ∧ tS1.size = 16 := by
  refine ⟨by decide, by decide, by decide, by decide⟩

/-! ## clause 4 — a value whose size differs from the declared type is rejected, not reinterpreted -/

theorem size_mismatch_rejected (t : Ty) (x : Val) (out : Ty) (hs : t.size ≠ out.size) (hk : out.kind ≠ .iface) :
    (toValue K (some (t, x)) out = .error .errSize ∨ toValue K (some (t, x)) out = .error .panicIContext) ∧
    (∀ rs, returnE2E K [some (t, x)] [out] ≠ .got rs) := by
  have hne : t ≠ out := fun h => hs (by rw [h])
  have htv : toValue K (some (t, x)) out = .error .errSize ∨ toValue K (some (t, x)) out = .error .panicIContext := by
    by_cases hc : out.kind ∈ K.cast
    · left; simp [toValue, hne, hc, hs]
    · cases hi : isIContextPtr t
      · left; simp [toValue, hc, hi, hk, hs]
      · right; simp [toValue, hc, hi]
  refine ⟨htv, ?_⟩
  intro rs
  rw [returnE2E_single]
  rcases htv with h | h <;> rw [h] <;> simp

example : tS2.size ≠ tS1.size ∧ tS1.kind ≠ .iface := by decide

/-! ## the global statement — whatever is delivered has the declared type and the supplied content -/

/-- every accepted conversion keeps the payload (as is, or boxed with its dynamic type); nil becomes the zero value -/
theorem toValue_ok_payload (r : Boxed) (out : Ty) (v : RV) (h : toValue K r out = .ok v) :
    match r with
    | none => v = zeroRV out
    | some (t, x) =>
        (out.kind ≠ .iface ∧ v.val = x ∧ (v.ty = t ∨ v.ty = out) ∧ v.ty.size = out.size) ∨
        (out.kind = .iface ∧ v = ⟨out, .iface, true, .ifaceOf t x⟩) := by
  cases r with
  | none =>
    simp only [toValue] at h
    split at h
    · simp only [Except.ok.injEq] at h; exact h.symm
    · simp at h
  | some p =>
    obtain ⟨t, x⟩ := p
    show (out.kind ≠ .iface ∧ v.val = x ∧ (v.ty = t ∨ v.ty = out) ∧ v.ty.size = out.size) ∨
        (out.kind = .iface ∧ v = ⟨out, .iface, true, .ifaceOf t x⟩)
    by_cases hki : out.kind = .iface
    · right
      have hc : Kind.iface ∉ K.cast := by decide
      have e : toValue K (some (t, x)) out =
          (if isIContextPtr t = true then .error .panicIContext
           else if implements out t = true then .ok ⟨out, .iface, true, .ifaceOf t x⟩ else .error .panicAssign) := by
        simp [toValue, hki, hc]
      rw [e] at h
      split at h
      · simp at h
      · split at h
        · simp only [Except.ok.injEq] at h; exact ⟨hki, h.symm⟩
        · simp at h
    · left
      refine ⟨hki, ?_⟩
      by_cases hcast : t ≠ out ∧ out.kind ∈ K.cast
      · by_cases hs : t.size = out.size
        · have e : toValue K (some (t, x)) out =
              (if isIContextPtr out = true then .error .panicIContext else .ok ⟨out, t.kind, !t.isDirect, x⟩) := by
            simp [toValue, hcast.1, hcast.2, hs, Convert.cast, K_castNilSafe, hki]
          rw [e] at h
          split at h
          · simp at h
          · simp only [Except.ok.injEq] at h; subst h; simp
        · simp [toValue, hcast.1, hcast.2, hs] at h
      · have e : toValue K (some (t, x)) out =
            (if isIContextPtr t = true then .error .panicIContext
             else if t.size = out.size then .ok ⟨t, t.kind, !t.isDirect, x⟩ else .error .errSize) := by
          simp only [toValue]
          rw [if_neg (by simpa using hcast)]
          simp [hki]
        rw [e] at h
        split at h
        · simp at h
        · split at h
          · rename_i hs
            simp only [Except.ok.injEq] at h; subst h; simp [hs]
          · simp at h

/-- content of a delivered value `a` relative to what was supplied for a result declared `o` -/
def Content (r : Boxed) (o : Ty) (a : RV) : Prop :=
  a.ty = o ∧
  (o.size = 0 ∨
    match r with
    | none => a.val = zeroVal o
    | some (t, x) => a.val = x ∨ a.val = .ifaceOf t x)

/-- one position: a converted value that passes `reflect.MakeFunc`'s result check arrives with the declared type
    and the supplied content -/
theorem deliver1_content (r : Boxed) (out : Ty) (w a : RV) (hw : toValue K r out = .ok w)
    (ha : deliver1 w out = some a) : Content r out a := by
  have hp := toValue_ok_payload r out w hw
  simp only [deliver1] at ha
  split at ha
  · rename_i hz
    simp only [Option.some.injEq] at ha; subst ha
    exact ⟨rfl, Or.inl hz⟩
  · split at ha
    · simp only [Option.some.injEq] at ha; subst ha
      refine ⟨rfl, Or.inr ?_⟩
      cases r with
      | none => simp only at hp; subst hp; rfl
      | some p =>
        obtain ⟨t, x⟩ := p
        simp only at hp
        rcases hp with hp | hp
        · exact Or.inl hp.2.1
        · right; rw [hp.2]
    · split at ha
      · rename_i himp
        -- boxing at delivery needs an interface result, and then toValue has already produced type `out`
        have hki := implements_kind out w.ty himp
        have hnda : ¬ directlyAssignable out w.ty = true := by assumption
        exfalso
        apply hnda
        cases r with
        | none => simp only at hp; subst hp; exact directlyAssignable_self out
        | some p =>
          obtain ⟨t, x⟩ := p
          simp only at hp
          rcases hp with hp | hp
          · exact absurd hki hp.1
          · rw [hp.2]; exact directlyAssignable_self out
      · simp at ha

/-- **Delivered means declared type and unaltered content.**  If a call of the stub returns at all, the value the
    caller receives has the declared type, and its content is the zero value (nil supplied), the supplied payload,
    or the supplied payload boxed with its dynamic type (interface result).  Results of size 0 carry no content. -/
theorem delivered_typed_and_unaltered (r : Boxed) (out : Ty) (v : RV) (h : returnE2E K [r] [out] = .got [v]) :
    Content r out v := by
  have key : ∃ w, toValue K r out = .ok w ∧ deliver1 w out = some v := by
    rw [returnE2E_single] at h
    split at h
    · simp at h
    · rename_i w hw
      split at h
      · simp at h
      · split at h
        · simp at h
        · rename_i a ha
          simp only [CallRes.got.injEq, List.cons.injEq, and_true] at h
          exact ⟨w, hw, by rw [ha, h]⟩
  obtain ⟨w, hw, ha⟩ := key
  exact deliver1_content r out w v hw ha

/-! ## V2I and isZero -/

/-- `isZero` holds of every zero value -/
theorem isZero_of_zero (t : Ty) : isZeroVal (zeroVal t) = true := zeroVal_isZero t

/-- V2I maps a zero pointer / interface result to the untyped nil -/
theorem V2I_zero_ptr_iface_is_nil (v : RV) (t : Ty) (hk : t.kind = .iface ∨ t.kind = .ptr)
    (hw : v.wellFlagged = true) (hx : v.val.kindOK v.fk = true) (hz : isZeroVal v.val = true) :
    v2i1 K v t = .ok none := by
  have hc : t.kind ∈ K.v2i := (K_v2i_mem t.kind).2 hk
  simp [v2i1, hw, hc, isZeroRV, hx, hz]

/-- round trip, nil: `V2I (I2V nil)` is nil for pointer and interface results -/
theorem roundtrip_nil (out : Ty) (hk : out.kind = .iface ∨ out.kind = .ptr) :
    toValue K none out = .ok (zeroRV out) ∧ v2i1 K (zeroRV out) out = .ok none := by
  have hn : Nilable out.kind := by rcases hk with h | h; exact Or.inr (Or.inl h); exact Or.inl h
  refine ⟨(nil_is_typed_zero out hn).1, ?_⟩
  apply V2I_zero_ptr_iface_is_nil _ _ hk (zeroRV_wellFlagged out) _ (zeroVal_isZero out)
  rcases hk with h | h
  · simp [zeroRV, zeroVal_iface out h, h, Val.kindOK]
  · simp [zeroRV, zeroVal_ptrlike out (Or.inl h), h, Val.kindOK]

example : (Ty.ptr tS1).kind = .ptr ∧ tError.kind = .iface := by decide

/-- round trip, boxed: an implementing value comes back with its own dynamic type and payload -/
theorem roundtrip_boxed (t : Ty) (x : Val) (out : Ty) (hk : out.kind = .iface)
    (himp : implements out t = true) (hctx : isIContextPtr t = false) :
    ∃ v, toValue K (some (t, x)) out = .ok v ∧ v2i1 K v out = .ok (some (t, x)) := by
  refine ⟨_, (boxed_keeps_dynamic_type t x out hk himp hctx).1, ?_⟩
  have hc : out.kind ∈ K.v2i := (K_v2i_mem out.kind).2 (Or.inl hk)
  simp [v2i1, RV.wellFlagged, hk, iface_not_direct out hk, hc, isZeroRV, Val.kindOK, isZeroVal, RV.toBoxed]

/-- round trip, same type: a value of the declared (non-interface) type comes back unchanged — except that a nil
    pointer comes back as the untyped nil (V2I's documented normalisation) -/
theorem roundtrip_same_type (t : Ty) (x : Val) (hk : t.kind ≠ .iface) (hx : x.kindOK t.kind = true)
    (hctx : isIContextPtr t = false) :
    toValue K (some (t, x)) t = .ok ⟨t, t.kind, !t.isDirect, x⟩ ∧
    v2i1 K ⟨t, t.kind, !t.isDirect, x⟩ t = .ok (if t.kind = .ptr ∧ x = .nilp then none else some (t, x)) := by
  refine ⟨by simp [toValue, hctx, hk], ?_⟩
  have hwf : (⟨t, t.kind, !t.isDirect, x⟩ : RV).wellFlagged = true := by simp [RV.wellFlagged]
  have hbox : ∀ (y : Val), y.kindOK t.kind = true → RV.toBoxed ⟨t, t.kind, !t.isDirect, y⟩ = some (t, y) := by
    intro y hy
    cases y <;> simp [RV.toBoxed]
    · exfalso; cases hkk : t.kind <;> simp [Val.kindOK, hkk] at hy; exact hk hkk
    · exfalso; cases hkk : t.kind <;> simp [Val.kindOK, hkk] at hy; exact hk hkk
  by_cases hp : t.kind = .ptr
  · have hc : t.kind ∈ K.v2i := (K_v2i_mem t.kind).2 (Or.inr hp)
    have hc' : Kind.ptr ∈ K.v2i := by decide
    cases x <;> simp [Val.kindOK, hp] at hx
    · simp [v2i1, RV.wellFlagged, hc', isZeroRV, Val.kindOK, hp, isZeroVal]
    · simp [v2i1, RV.wellFlagged, hc', isZeroRV, Val.kindOK, hp, isZeroVal, RV.toBoxed]
  · have hc : t.kind ∉ K.v2i := by
      intro hcc
      rcases (K_v2i_mem t.kind).1 hcc with h | h
      · exact absurd h hk
      · exact absurd h hp
    simp [v2i1, hwf, hc, hbox x hx, hp]

example : tS1.kind ≠ .iface ∧ vS1.kindOK tS1.kind = true ∧ isIContextPtr tS1 = false := by decide

/-! ## I2V arity -/

theorem I2V_arity_nonvariadic (objs : List Boxed) (types : List Ty) (h : objs.length ≠ types.length) :
    I2V K objs types false = .error .errArity := by
  simp [I2V, h]

theorem I2V_arity_variadic (objs : List Boxed) (types : List Ty) (h : objs.length < types.length - 1) :
    I2V K objs types true = .error .errArity := by
  simp [I2V, h]

/-- I2V returns one converted value per supplied value -/
theorem I2V_keeps_count (objs : List Boxed) (types : List Ty) (b : Bool) (vs : List RV)
    (h : I2V K objs types b = .ok vs) : vs.length = objs.length := by
  simp only [I2V] at h
  split at h
  · simp at h
  · exact go_length K types b objs 0 vs h

/-- several results: the j-th stored value is `toValue` of the j-th supplied value at the j-th declared type —
    so every single-result theorem above applies to each position of a multi-result `Return(...)` -/
theorem I2V_nonvariadic_pointwise (objs : List Boxed) (types : List Ty) (vs : List RV)
    (h : I2V K objs types false = .ok vs) :
    objs.length = types.length ∧
    ∀ j, j < objs.length → ∃ t a v, types[j]? = some t ∧ objs[j]? = some a ∧ vs[j]? = some v ∧ toValue K a t = .ok v := by
  by_cases hl : objs.length = types.length
  · refine ⟨hl, ?_⟩
    simp only [I2V] at h
    split at h
    · simp at h
    · intro j hj
      obtain ⟨a, v, h1, h2, h3⟩ := go_ok_pointwise K types false objs 0 vs h j hj
      have hjt : j < types.length := by omega
      simp only [Nat.zero_add, I2V.convAt, typeAt_nonvariadic types j hjt] at h3
      exact ⟨types[j], a, v, List.getElem?_eq_getElem hjt, h1, h2, h3⟩
  · rw [I2V_arity_nonvariadic objs types hl] at h; simp at h

example : ∃ vs, I2V K [some (tInt64, .int 5), none] [tInt64, tError] false = .ok vs ∧ vs.length = 2 :=
  ⟨[⟨tInt64, .int, true, .int 5⟩, ⟨tError, .iface, true, .ifaceNil⟩], by
    have hm : Kind.iface ∈ K.nil := by decide
    simp [I2V, I2V.go, I2V.convAt, I2V.typeAt, toValue, hm, zeroRV, tError, tInt64, Ty.kind, Prim.kind, Ty.isDirect,
      zeroVal, isIContextPtr, Ty.size, Prim.size]⟩

/-! ### variadic lists (`When.Eval(args...)` on a variadic function: `types = pre ++ [[]elem]`) -/

/-- the declared type the j-th supplied value of a variadic call is converted at -/
def variadicTypeAt (pre : List Ty) (elem : Ty) (j : Nat) : Ty := if h : j < pre.length then pre[j] else elem

/-- **variadic, success**: the first `n-1` values convert at their own declared types and every remaining value
    at the element type of the last (slice) type; as many results as supplied values; at least `n-1` values -/
theorem I2V_variadic_pointwise (objs : List Boxed) (pre : List Ty) (last elem : Ty) (vs : List RV)
    (hlast : last.elem? = .ok elem) (h : I2V K objs (pre ++ [last]) true = .ok vs) :
    pre.length ≤ objs.length ∧ vs.length = objs.length ∧
    ∀ j, j < objs.length → ∃ a v, objs[j]? = some a ∧ vs[j]? = some v ∧ toValue K a (variadicTypeAt pre elem j) = .ok v := by
  have hlen := I2V_keeps_count objs (pre ++ [last]) true vs h
  simp only [I2V] at h
  split at h
  · simp at h
  · rename_i hc
    refine ⟨by simp at hc; omega, hlen, ?_⟩
    intro j hj
    obtain ⟨a, v, h1, h2, h3⟩ := go_ok_pointwise K (pre ++ [last]) true objs 0 vs h j hj
    refine ⟨a, v, h1, h2, ?_⟩
    simp only [Nat.zero_add, I2V.convAt] at h3
    by_cases hjp : j < pre.length
    · rw [typeAt_variadic_fixed pre last j hjp] at h3
      simpa [variadicTypeAt, hjp] using h3
    · rw [typeAt_variadic_tail pre last j (by omega), hlast] at h3
      simpa [variadicTypeAt, hjp] using h3

example : (Ty.slice tInt64).elem? = .ok tInt64 := rfl

/-- **variadic, arity**: fewer than `n-1` values are refused before any conversion -/
theorem I2V_variadic_too_few (objs : List Boxed) (pre : List Ty) (last : Ty) (h : objs.length < pre.length) :
    I2V K objs (pre ++ [last]) true = .error .errArity := by
  apply I2V_arity_variadic
  simp; omega

/-- **variadic, failure = first failing position**: if the conversion fails with `e`, some position `j` fails with
    exactly `e` at its own type (fixed part) / at the element type (tail) and every earlier position converted -/
theorem I2V_variadic_error_is_first_failure (objs : List Boxed) (pre : List Ty) (last elem : Ty) (e : Fail)
    (hlast : last.elem? = .ok elem) (hn : pre.length ≤ objs.length) (h : I2V K objs (pre ++ [last]) true = .error e) :
    ∃ j a, objs[j]? = some a ∧ toValue K a (variadicTypeAt pre elem j) = .error e ∧
      ∀ k, k < j → ∃ c v, objs[k]? = some c ∧ toValue K c (variadicTypeAt pre elem k) = .ok v := by
  have conv : ∀ j a, I2V.convAt K (pre ++ [last]) true j a = toValue K a (variadicTypeAt pre elem j) := by
    intro j a
    simp only [I2V.convAt]
    by_cases hjp : j < pre.length
    · rw [typeAt_variadic_fixed pre last j hjp]; simp [variadicTypeAt, hjp]
    · rw [typeAt_variadic_tail pre last j (by omega), hlast]; simp [variadicTypeAt, hjp]
  simp only [I2V] at h
  split at h
  · rename_i hc; simp at hc; omega
  · obtain ⟨j, a, h1, h2, h3⟩ := go_error_first K (pre ++ [last]) true objs 0 e h
    refine ⟨j, a, h1, ?_, ?_⟩
    · simpa [conv] using h2
    · intro k hk
      obtain ⟨c, v, hc1, hc2⟩ := h3 k hk
      exact ⟨c, v, hc1, by simpa [conv] using hc2⟩

/-- and conversely the first failing position decides the outcome -/
theorem I2V_variadic_first_failure_is_error (objs : List Boxed) (pre : List Ty) (last elem : Ty) (e : Fail) (j : Nat) (a : Boxed)
    (hlast : last.elem? = .ok elem) (hn : pre.length ≤ objs.length)
    (h1 : objs[j]? = some a) (h2 : toValue K a (variadicTypeAt pre elem j) = .error e)
    (h3 : ∀ k, k < j → ∃ c v, objs[k]? = some c ∧ toValue K c (variadicTypeAt pre elem k) = .ok v) :
    I2V K objs (pre ++ [last]) true = .error e := by
  have conv : ∀ j a, I2V.convAt K (pre ++ [last]) true j a = toValue K a (variadicTypeAt pre elem j) := by
    intro j a
    simp only [I2V.convAt]
    by_cases hjp : j < pre.length
    · rw [typeAt_variadic_fixed pre last j hjp]; simp [variadicTypeAt, hjp]
    · rw [typeAt_variadic_tail pre last j (by omega), hlast]; simp [variadicTypeAt, hjp]
  have hc : ¬ objs.length < (pre ++ [last]).length - 1 := by simp; omega
  simp only [I2V, Bool.true_and, Bool.not_true, Bool.false_and, Bool.or_false, decide_eq_true_eq, hc, if_false]
  apply go_error_of_first K (pre ++ [last]) true objs 0 e j a h1
  · simpa [conv] using h2
  · intro k hk
    obtain ⟨c, v, hc1, hc2⟩ := h3 k hk
    exact ⟨c, v, hc1, by simpa [conv] using hc2⟩

/-! the clause theorems at each position of the variadic tail -/

/-- an untyped nil in the variadic tail becomes the typed zero value of the element type -/
theorem variadic_tail_nil_is_typed_zero (objs : List Boxed) (pre : List Ty) (last elem : Ty) (vs : List RV) (j : Nat)
    (hlast : last.elem? = .ok elem) (h : I2V K objs (pre ++ [last]) true = .ok vs)
    (hj : pre.length ≤ j) (hnil : objs[j]? = some none) (hk : Nilable elem.kind) :
    vs[j]? = some (zeroRV elem) := by
  have hjl : j < objs.length := by
    rcases Nat.lt_or_ge j objs.length with h' | h'
    · exact h'
    · rw [List.getElem?_eq_none h'] at hnil; simp at hnil
  obtain ⟨a, v, h1, h2, h3⟩ := (I2V_variadic_pointwise objs pre last elem vs hlast h).2.2 j hjl
  rw [hnil] at h1
  simp only [Option.some.injEq] at h1
  subst h1
  have hnp : ¬ j < pre.length := by omega
  simp only [variadicTypeAt, hnp, dite_false, (nil_is_typed_zero elem hk).1, Except.ok.injEq] at h3
  rw [h2, h3]

/-- an implementing value in the tail of an interface-typed variadic parameter is boxed with its dynamic type -/
theorem variadic_tail_boxed (objs : List Boxed) (pre : List Ty) (last elem : Ty) (vs : List RV) (j : Nat) (t : Ty) (x : Val)
    (hlast : last.elem? = .ok elem) (h : I2V K objs (pre ++ [last]) true = .ok vs)
    (hj : pre.length ≤ j) (hv : objs[j]? = some (some (t, x))) (hk : elem.kind = .iface)
    (himp : implements elem t = true) (hctx : isIContextPtr t = false) :
    vs[j]? = some ⟨elem, .iface, true, .ifaceOf t x⟩ := by
  have hjl : j < objs.length := by
    rcases Nat.lt_or_ge j objs.length with h' | h'
    · exact h'
    · rw [List.getElem?_eq_none h'] at hv; simp at hv
  obtain ⟨a, v, h1, h2, h3⟩ := (I2V_variadic_pointwise objs pre last elem vs hlast h).2.2 j hjl
  rw [hv] at h1
  simp only [Option.some.injEq] at h1
  subst h1
  have hnp : ¬ j < pre.length := by omega
  simp only [variadicTypeAt, hnp, dite_false, (boxed_keeps_dynamic_type t x elem hk himp hctx).1, Except.ok.injEq] at h3
  rw [h2, h3]

/-- a value of another size anywhere in the variadic tail makes the whole conversion fail: nothing is reinterpreted -/
theorem variadic_tail_size_mismatch_rejected (objs : List Boxed) (pre : List Ty) (last elem : Ty) (j : Nat) (t : Ty) (x : Val)
    (hlast : last.elem? = .ok elem) (hj : pre.length ≤ j) (hv : objs[j]? = some (some (t, x)))
    (hs : t.size ≠ elem.size) (hk : elem.kind ≠ .iface) :
    ∀ vs, I2V K objs (pre ++ [last]) true ≠ .ok vs := by
  intro vs h
  have hjl : j < objs.length := by
    rcases Nat.lt_or_ge j objs.length with h' | h'
    · exact h'
    · rw [List.getElem?_eq_none h'] at hv; simp at hv
  obtain ⟨a, v, h1, _, h3⟩ := (I2V_variadic_pointwise objs pre last elem vs hlast h).2.2 j hjl
  rw [hv] at h1
  simp only [Option.some.injEq] at h1
  subst h1
  have hnp : ¬ j < pre.length := by omega
  simp only [variadicTypeAt, hnp, dite_false] at h3
  rcases (size_mismatch_rejected t x elem hs hk).1 with h' | h' <;> rw [h'] at h3 <;> simp at h3

/-- fewer values than results never configure a stub -/
theorem too_few_results_rejected (values : List Boxed) (outs : List Ty) (h : values.length < outs.length) :
    returnE2E K values outs = .cfgReturnsMismatch := by
  simp [returnE2E, h]

/-- more values than results: configuration-time panic from I2V's arity check -/
theorem too_many_results_rejected (values : List Boxed) (outs : List Ty) (h : outs.length < values.length) :
    returnE2E K values outs = .cfgPanic .errArity := by
  have h1 : ¬ values.length < outs.length := by omega
  have h2 : values.length ≠ outs.length := by omega
  simp [returnE2E, h1, I2V_arity_nonvariadic values outs h2]

/-! ## several results: `Return(a, b, …)` on `func() (A, B, …)` -/

/-- a delivered multi-result call, position by position: every supplied value was converted at the type of its
    position, is a well-flagged Value, and passed the result check -/
theorem returnE2E_got_pointwise (values : List Boxed) (outs : List Ty) (rs : List RV)
    (h : returnE2E K values outs = .got rs) :
    values.length = outs.length ∧ rs.length = outs.length ∧
    ∀ j, j < outs.length → ∃ r o w a, values[j]? = some r ∧ outs[j]? = some o ∧ rs[j]? = some a ∧
      toValue K r o = .ok w ∧ w.wellFlagged = true ∧ deliver1 w o = some a := by
  simp only [returnE2E] at h
  split at h
  · simp at h
  · split at h
    · simp at h
    · rename_i vs hvs
      split at h
      · simp at h
      · rename_i hwf
        split at h
        · simp at h
        · rename_i rs' hd
          simp only [CallRes.got.injEq] at h
          subst h
          obtain ⟨hlen, hpt⟩ := I2V_nonvariadic_pointwise values outs vs hvs
          obtain ⟨hl1, hl2, hdp⟩ := deliver_pointwise vs outs rs' hd
          refine ⟨hlen, hl1, ?_⟩
          intro j hj
          obtain ⟨t, a0, v, h1, h2, h3, h4⟩ := hpt j (by omega)
          obtain ⟨v', o, a, g1, g2, g3, g4⟩ := hdp j hj
          rw [h3] at g1
          simp only [Option.some.injEq] at g1
          subst g1
          rw [h1] at g2
          simp only [Option.some.injEq] at g2
          subst g2
          refine ⟨a0, t, v, a, h2, h1, g3, h4, ?_, g4⟩
          have : ¬ (vs.any (fun v => !v.wellFlagged) = true) := hwf
          have hmem : v ∈ vs := List.mem_of_getElem? h3
          cases hw : v.wellFlagged
          · exfalso; apply this; simp only [List.any_eq_true]; exact ⟨v, hmem, by simp [hw]⟩
          · rfl

/-- **multi-result: delivered means declared type and unaltered content at every position** -/
theorem multi_delivered_typed_and_unaltered (values : List Boxed) (outs : List Ty) (rs : List RV)
    (h : returnE2E K values outs = .got rs) :
    values.length = outs.length ∧ rs.length = outs.length ∧
    ∀ j, j < outs.length → ∃ r o a, values[j]? = some r ∧ outs[j]? = some o ∧ rs[j]? = some a ∧ Content r o a := by
  obtain ⟨h1, h2, h3⟩ := returnE2E_got_pointwise values outs rs h
  refine ⟨h1, h2, ?_⟩
  intro j hj
  obtain ⟨r, o, w, a, g1, g2, g3, g4, _, g6⟩ := h3 j hj
  exact ⟨r, o, a, g1, g2, g3, deliver1_content r o w a g4 g6⟩

/-- **multi-result, nil position**: `Return(5, nil)` on `func() (int, error)` — whatever else is returned, the nil
    position arrives as the typed zero value (the nil error) -/
theorem multi_nil_is_typed_zero (values : List Boxed) (outs : List Ty) (rs : List RV) (j : Nat) (o : Ty)
    (h : returnE2E K values outs = .got rs) (hv : values[j]? = some none) (ho : outs[j]? = some o)
    (hk : Nilable o.kind) : rs[j]? = some (zeroRV o) := by
  obtain ⟨_, _, h3⟩ := returnE2E_got_pointwise values outs rs h
  have hj : j < outs.length := by
    rcases Nat.lt_or_ge j outs.length with h' | h'
    · exact h'
    · rw [List.getElem?_eq_none h'] at ho; simp at ho
  obtain ⟨r, o', w, a, g1, g2, g3, g4, _, g6⟩ := h3 j hj
  rw [hv] at g1; simp only [Option.some.injEq] at g1; subst g1
  rw [ho] at g2; simp only [Option.some.injEq] at g2; subst g2
  rw [(nil_is_typed_zero o hk).1] at g4
  simp only [Except.ok.injEq] at g4; subst g4
  have hs : o.size ≠ 0 := nilable_size_pos o hk
  simp [deliver1, hs, directlyAssignable_self, zeroRV] at g6
  rw [g3, ← g6]; rfl

example : ∃ rs, returnE2E K [some (tInt64, .int 5), none] [tInt64, tError] = .got rs := by
  have hm : Kind.iface ∈ K.nil := by decide
  refine ⟨[⟨tInt64, .int, true, .int 5⟩, ⟨tError, .iface, true, .ifaceNil⟩], ?_⟩
  simp [returnE2E, I2V, I2V.go, I2V.convAt, I2V.typeAt, toValue, hm, zeroRV, tError, tInt64, Ty.kind, Prim.kind, Ty.isDirect,
    zeroVal, isIContextPtr, Ty.size, Prim.size, RV.wellFlagged, deliver, deliver1, directlyAssignable]

/-- **multi-result, clause 4**: a value of another size at ANY position keeps the whole call from being delivered -/
theorem multi_size_mismatch_rejected (values : List Boxed) (outs : List Ty) (j : Nat) (t : Ty) (x : Val) (o : Ty)
    (hv : values[j]? = some (some (t, x))) (ho : outs[j]? = some o) (hs : t.size ≠ o.size) (hk : o.kind ≠ .iface) :
    ∀ rs, returnE2E K values outs ≠ .got rs := by
  intro rs h
  obtain ⟨_, _, h3⟩ := returnE2E_got_pointwise values outs rs h
  have hj : j < outs.length := by
    rcases Nat.lt_or_ge j outs.length with h' | h'
    · exact h'
    · rw [List.getElem?_eq_none h'] at ho; simp at ho
  obtain ⟨r, o', w, a, g1, g2, _, g4, _, _⟩ := h3 j hj
  rw [hv] at g1; simp only [Option.some.injEq] at g1; subst g1
  rw [ho] at g2; simp only [Option.some.injEq] at g2; subst g2
  rcases (size_mismatch_rejected t x o hs hk).1 with h' | h' <;> rw [h'] at g4 <;> simp at g4

/-! ## the batch forms: `Matches(arg.Pair{…, Return: r})` and `Returns(v₁, v₂, …)` -/

/-- a bare value given as `Pair.Return` (the untyped nil included) is a single result, converted exactly as by
    `Return(value)`.  Domain: `PairRet.WF` — a bare `[]interface{}` is not a bare value but the list form
    (documented flattening, see Findings/C09AnySlice.lean), so it is excluded here by hypothesis. -/
theorem matches_bare_value_is_single_result (b : Boxed) (out : Ty) (_hwf : (PairRet.one b).WF) :
    matchesE2E K (.one b) [out] = returnE2E K [b] [out] := by
  simp [matchesE2E, returnE2E, PairRet.results]

/-- a `[]interface{}` given as `Pair.Return` is the result list, converted exactly as by `Return(values...)` -/
theorem matches_list_is_result_list (bs : List Boxed) (outs : List Ty) (h : outs.length ≤ bs.length) :
    matchesE2E K (.list bs) outs = returnE2E K bs outs := by
  have h' : ¬ bs.length < outs.length := by omega
  simp [matchesE2E, returnE2E, PairRet.results, h']

/-- `Matches(Pair{Args: a, Return: nil})`: the nil becomes the typed zero value of the declared result, exactly as
    with `Return(nil)` — a nil error that compares equal to nil, a nil pointer, slice, map, channel, func -/
theorem matches_nil_is_typed_zero (out : Ty) (h : Nilable out.kind) :
    matchesE2E K (.one none) [out] = .got [zeroRV out] := by
  rw [matches_bare_value_is_single_result none out trivial, nil_result_at_caller out h]

example : Nilable tError.kind ∧ Nilable (Ty.ptr tS1).kind := by decide

/-- `Returns(nil, …)`: a bare nil element is one group holding the typed zero value … -/
theorem returns_nil_group_is_typed_zero (out : Ty) (h : Nilable out.kind) (gs : List PairRet) :
    seqConfigure K [out] (.one none :: gs) =
      (match seqConfigure K [out] gs with
       | .error e => .error e
       | .ok r => .ok ([zeroRV out] :: r)) := by
  simp only [seqConfigure, PairRet.results, I2V_single, (nil_is_typed_zero out h).1]
  cases seqConfigure K [out] gs <;> rfl

/-- … which every call that selects this group receives unaltered -/
theorem seq_zero_group_delivered (out : Ty) (h : Nilable out.kind) (rest : List (List RV)) :
    seqCall ([zeroRV out] :: rest) [out] 0 = .got [zeroRV out] := by
  have hs : out.size ≠ 0 := nilable_size_pos out h
  simp [seqCall, RV.wellFlagged, deliver_single, deliver1, hs, directlyAssignable_self, zeroRV]

/-- the last group is sticky: every call from the (k-1)-th on gets the last group's results -/
theorem seq_last_sticky (stored : List (List RV)) (outs : List Ty) (i : Nat) (h : stored.length - 1 ≤ i) :
    seqCall stored outs i = seqCall stored outs (stored.length - 1) := by
  simp [seqCall, Nat.min_eq_right h]

/-! ### result sequences at full strength (review A2) -/

/-- `Matches` differs from `Return` only by the missing count pre-check: they deliver the same things -/
theorem matchesE2E_got_iff (g : PairRet) (outs : List Ty) (rs : List RV) :
    matchesE2E K g outs = .got rs ↔ returnE2E K g.results outs = .got rs := by
  simp only [matchesE2E, returnE2E]
  cases hI : I2V K g.results outs false with
  | error e =>
    simp only
    constructor
    · intro h; simp at h
    · intro h; split at h <;> simp at h
  | ok vs =>
    have hl : ¬ g.results.length < outs.length := by
      by_cases hl : g.results.length = outs.length
      · omega
      · rw [I2V_arity_nonvariadic _ _ hl] at hI; simp at hI
    simp [hl]

/-- every stored group of `Returns(g₁ … g_k)` is the conversion of the corresponding supplied group -/
theorem seqConfigure_pointwise (outs : List Ty) : ∀ (gs : List PairRet) (stored : List (List RV)),
    seqConfigure K outs gs = .ok stored →
    stored.length = gs.length ∧
    ∀ i, i < gs.length → ∃ g vs, gs[i]? = some g ∧ stored[i]? = some vs ∧ I2V K g.results outs false = .ok vs := by
  intro gs
  induction gs with
  | nil => intro stored h; simp [seqConfigure] at h; subst h; simp
  | cons g gs ih =>
    intro stored h
    simp only [seqConfigure] at h
    cases h1 : I2V K g.results outs false with
    | error e => simp [h1] at h
    | ok vs =>
      cases h2 : seqConfigure K outs gs with
      | error e => simp [h1, h2] at h
      | ok r =>
        simp [h1, h2] at h
        subst h
        obtain ⟨i1, i2⟩ := ih r h2
        refine ⟨by simp [i1], ?_⟩
        intro i hi
        cases i with
        | zero => exact ⟨g, vs, by simp, by simp, h1⟩
        | succ k =>
          obtain ⟨g', vs', a1, a2, a3⟩ := i2 k (by simp at hi; omega)
          exact ⟨g', vs', by simpa using a1, by simpa using a2, a3⟩

/-- **the i-th call after `Returns(g₁ … g_k)`** (also `When(x).Returns(…)` / `.Return(g₁).AndReturn(g₂)…`): it behaves
    exactly like a stub configured with the single group `g_{min i (k-1)}` — in order, last one sticky -/
theorem seq_call_is_group (outs : List Ty) (gs : List PairRet) (stored : List (List RV)) (i : Nat)
    (hne : gs ≠ []) (h : seqConfigure K outs gs = .ok stored) :
    ∃ g, gs[min i (gs.length - 1)]? = some g ∧ seqCall stored outs i = matchesE2E K g outs := by
  obtain ⟨hl, hp⟩ := seqConfigure_pointwise outs gs stored h
  have hpos : 0 < gs.length := by cases gs with | nil => exact absurd rfl hne | cons _ _ => simp
  have hidx : min i (gs.length - 1) < gs.length := by omega
  obtain ⟨g, vs, a1, a2, a3⟩ := hp _ hidx
  refine ⟨g, a1, ?_⟩
  simp only [seqCall, hl, a2, matchesE2E, a3]

/-- **… and what it delivers has the declared types and the supplied content of that group, position by position**
    (so the clause theorems — typed zero for nil, boxed with dynamic type, stand-in, size mismatch — hold for every
    group of a sequence, through `multi_delivered_typed_and_unaltered` / `multi_nil_is_typed_zero` / `multi_size_mismatch_rejected`) -/
theorem seq_call_delivered_typed_and_unaltered (outs : List Ty) (gs : List PairRet) (stored : List (List RV)) (i : Nat)
    (rs : List RV) (hne : gs ≠ []) (h : seqConfigure K outs gs = .ok stored) (hc : seqCall stored outs i = .got rs) :
    ∃ g, gs[min i (gs.length - 1)]? = some g ∧ g.results.length = outs.length ∧ rs.length = outs.length ∧
      ∀ j, j < outs.length → ∃ r o a, g.results[j]? = some r ∧ outs[j]? = some o ∧ rs[j]? = some a ∧ Content r o a := by
  obtain ⟨g, hg, hcall⟩ := seq_call_is_group outs gs stored i hne h
  rw [hcall, matchesE2E_got_iff] at hc
  obtain ⟨h1, h2, h3⟩ := multi_delivered_typed_and_unaltered g.results outs rs hc
  exact ⟨g, hg, h1, h2, h3⟩

/-- **`Returns(v)` with one bare value is `Return(v)`**: whatever `v` is — a scalar, a struct, or a slice / array / map that
    is itself the stubbed value (also when its elements would fit the declared type) — every call gets exactly what
    `Return(v)` delivers, and a rejected `v` is rejected with the same class.  (`PairRet.WF`: `v` is not a `[]interface{}`.) -/
theorem returns_single_value_is_return (b : Boxed) (out : Ty) (i : Nat) (hwf : (PairRet.one b).WF) :
    (match seqConfigure K [out] [.one b] with
     | .ok stored => seqCall stored [out] i
     | .error e => .cfgPanic e) = returnE2E K [b] [out] := by
  rw [← matches_bare_value_is_single_result b out hwf]
  cases h : seqConfigure K [out] [.one b] with
  | ok stored =>
    obtain ⟨g, hg, hc⟩ := seq_call_is_group [out] [.one b] stored i (by simp) h
    have : g = .one b := by
      have : min i ([PairRet.one b].length - 1) = 0 := by simp
      rw [this] at hg; simpa using hg.symm
    subst this
    simpa using hc
  | error e =>
    simp only [seqConfigure, PairRet.results] at h
    cases hI : I2V K [b] [out] false with
    | error e' =>
      simp [hI] at h
      subst h
      simp [matchesE2E, PairRet.results, hI]
    | ok vs => simp [hI] at h

/-- so a typed slice given as the single element of `Returns` to an `interface{}`-like result arrives boxed, whole -/
theorem returns_single_slice_boxed (e : Ty) (x : Val) (out : Ty) (i : Nat) (hk : out.kind = .iface)
    (himp : implements out (.slice e) = true) (hne : isAnySlice (.slice e) = false) :
    (match seqConfigure K [out] [.one (some (.slice e, x))] with
     | .ok stored => seqCall stored [out] i
     | .error e => .cfgPanic e) = .got [⟨out, .iface, true, .ifaceOf (.slice e) x⟩] := by
  rw [returns_single_value_is_return _ out i (by simpa [PairRet.WF] using hne)]
  exact (boxed_keeps_dynamic_type (.slice e) x out hk himp (by simp [isIContextPtr])).2.1

example : implements (.iface []) (.slice tInt64) = true ∧ isAnySlice (.slice tInt64) = false := by decide

example : seqConfigure K [tError] [.one none, .one none] = .ok [[zeroRV tError], [zeroRV tError]] := by
  have h := (nil_is_typed_zero tError (by decide)).1
  simp [seqConfigure, PairRet.results, I2V_single, h]

/-! ### values given to `When(…)` / `arg.In(…)` (review A1) -/

/- FULL statement of the clause (not proved here): "`When(x₁…x_k)` answers exactly the calls whose i-th argument equals
   xᵢ as a value of the i-th declared type".  It needs goom's comparison `arg/equals.go equal`, which is modelled and
   proved in C18 (`Model/Equal.lean`, `equals_spec`), not in this model.  Proved here is the conversion half: what is
   stored for comparison is `toValue` of each supplied value at the declared type of ITS position, nothing is stored
   when any position is rejected, so every clause theorem above (typed zero, boxed with dynamic type, stand-in retyped
   with payload untouched, other size rejected) holds for the comparison operands.  That an accepted value then answers
   the call made with that very value (and not its near miss) is observed by the when/when2/whenv/in lanes. -/

/-- **conversion half, positionwise** -/
theorem when_values_converted_as_declared_partial : ∀ (ps : List (Boxed × Ty)) (vs : List RV),
    whenConfigure K ps = .ok vs →
    vs.length = ps.length ∧
    ∀ j, j < ps.length → ∃ b t v, ps[j]? = some (b, t) ∧ vs[j]? = some v ∧ toValue K b t = .ok v := by
  intro ps
  induction ps with
  | nil => intro vs h; simp [whenConfigure] at h; subst h; simp
  | cons p ps ih =>
    intro vs h
    obtain ⟨b, t⟩ := p
    simp only [whenConfigure] at h
    cases h1 : toValue K b t with
    | error e => simp [h1] at h
    | ok v =>
      cases h2 : whenConfigure K ps with
      | error e => simp [h1, h2] at h
      | ok r =>
        simp [h1, h2] at h
        subst h
        obtain ⟨i1, i2⟩ := ih r h2
        refine ⟨by simp [i1], ?_⟩
        intro j hj
        cases j with
        | zero => exact ⟨b, t, v, by simp, by simp, h1⟩
        | succ k =>
          obtain ⟨b', t', v', a1, a2, a3⟩ := i2 k (by simp at hj; omega)
          exact ⟨b', t', v', by simpa using a1, by simpa using a2, a3⟩

/-- a value of another size at any position of `When(…)` / `In(…)` rejects the whole condition: nothing is compared
    against a reinterpreted value -/
theorem when_size_mismatch_rejected (ps : List (Boxed × Ty)) (j : Nat) (t : Ty) (x : Val) (p : Ty)
    (hj : ps[j]? = some (some (t, x), p)) (hs : t.size ≠ p.size) (hk : p.kind ≠ .iface) :
    ∀ vs, whenConfigure K ps ≠ .ok vs := by
  intro vs h
  have hjl : j < ps.length := by
    rcases Nat.lt_or_ge j ps.length with h' | h'
    · exact h'
    · rw [List.getElem?_eq_none h'] at hj; simp at hj
  obtain ⟨b, t', v, a1, _, a3⟩ := (when_values_converted_as_declared_partial ps vs h).2 j hjl
  rw [hj] at a1
  simp only [Option.some.injEq, Prod.mk.injEq] at a1
  obtain ⟨e1, e2⟩ := a1
  subst e1; subst e2
  rcases (size_mismatch_rejected t x p hs hk).1 with h' | h' <;> rw [h'] at a3 <;> simp at a3

/- Re-use of one `arg.In(v₁…v_k)` object on functions with different parameter types: `whenConfigure` is a function of
   (values, declared types) only, so in the model the outcome at the second function cannot depend on the first use;
   that the implementation has no such memory either is what the `c09.in` lane observes (seeded change c09-r4-2). -/

example : whenConfigure K [(some (tS1b, vS1), tS1)] = .ok [⟨tS1, .strct, true, vS1⟩] := by
  have h := (layout_standin_accepted tS1b vS1 tS1 (by decide) (by decide) (by decide) (by decide)).1
  simp only [whenConfigure, h]
  rfl

/-! ## the boundary of the model: exactly when the answer is `unmodelled` -/

/-- the supplied value kept under its own type -/
def asIsRV (t : Ty) (x : Val) : RV := ⟨t, t.kind, !t.isDirect, x⟩
/-- the supplied value relabelled with the declared type by `cast` (flag word of the original kept) -/
def retypedRV (t : Ty) (x : Val) (out : Ty) : RV := ⟨out, t.kind, !t.isDirect, x⟩
/-- the supplied value boxed into the declared interface type -/
def boxedRV (t : Ty) (x : Val) (out : Ty) : RV := ⟨out, .iface, true, .ifaceOf t x⟩

/-- **total classification of `toValue` on a non-nil value** (today's kind lists): every outcome is one of
    reject (`errSize`), the deliberate IContext refusal, retyped, boxed, not-assignable panic, or kept as is —
    with exactly this content. -/
theorem toValue_classified (t : Ty) (x : Val) (out : Ty) :
    toValue K (some (t, x)) out =
      if t ≠ out ∧ (out.kind = .strct ∨ out.kind = .ptr) then
        (if t.size ≠ out.size then .error .errSize
         else if isIContextPtr out = true then .error .panicIContext
         else .ok (retypedRV t x out))
      else if isIContextPtr t = true then .error .panicIContext
      else if out.kind = .iface then
        (if implements out t = true then .ok (boxedRV t x out) else .error .panicAssign)
      else if t.size ≠ out.size then .error .errSize
      else .ok (asIsRV t x) := by
  by_cases hc : t ≠ out ∧ (out.kind = .strct ∨ out.kind = .ptr)
  · have hm : out.kind ∈ K.cast := (K_cast_mem out.kind).2 hc.2
    have hni : out.kind ≠ .iface := by rcases hc.2 with h | h <;> rw [h] <;> decide
    rw [if_pos hc]
    by_cases hs : t.size = out.size
    · simp [toValue, hc.1, hm, hs, Convert.cast, K_castNilSafe, hni, retypedRV]
    · simp [toValue, hc.1, hm, hs]
  · rw [if_neg hc]
    have hc' : ¬ (t ≠ out ∧ out.kind ∈ K.cast) := by rw [K_cast_mem]; exact hc
    simp only [toValue]
    rw [if_neg (by simpa using hc')]
    by_cases hi : isIContextPtr t = true
    · simp [hi]
    · by_cases hki : out.kind = .iface
      · by_cases himp : implements out t = true
        · simp [hi, hki, himp, boxedRV]
        · simp [hi, hki, himp]
      · by_cases hs : t.size = out.size
        · simp [hi, hki, hs, asIsRV]
        · simp [hi, hki, hs]

/-- and on the untyped nil: typed zero value for the listed kinds, a panic (`Value.Type on zero Value`) otherwise -/
theorem toValue_nil_classified (out : Ty) :
    toValue K none out = if out.kind ∈ K.nil then .ok (zeroRV out) else .error .panicZeroValue := by
  simp [toValue]

/-- **the `unmodelled` predicate** on (supplied type, declared type): the value is accepted and retyped although its
    kind or its representation class (pointer-shaped vs indirect) differs from the declared type's -/
def CrossRep (t out : Ty) : Bool :=
  decide (t ≠ out) && (out.kind == .strct || out.kind == .ptr) && decide (t.size = out.size) && !isIContextPtr out &&
    (t.kind != out.kind || t.isDirect != out.isDirect)

theorem retypedRV_wellFlagged (t : Ty) (x : Val) (out : Ty) :
    (retypedRV t x out).wellFlagged = !(t.kind != out.kind || t.isDirect != out.isDirect) := by
  simp only [retypedRV, RV.wellFlagged]
  cases h1 : (t.kind == out.kind) <;> cases h2 : ((!t.isDirect) == !out.isDirect) <;>
    cases h3 : t.isDirect <;> cases h4 : out.isDirect <;> simp_all

theorem e2e_unmodelled_of_ok (r : Boxed) (out : Ty) (v : RV) (h : toValue K r out = .ok v) :
    returnE2E K [r] [out] = .callUnmodelled ↔ v.wellFlagged = false := by
  rw [returnE2E_single, h]
  cases hw : v.wellFlagged
  · simp [hw]
  · cases hd : deliver1 v out <;> simp [hw, hd]

theorem e2e_not_unmodelled_of_error (r : Boxed) (out : Ty) (e : Fail) (h : toValue K r out = .error e) :
    returnE2E K [r] [out] ≠ .callUnmodelled := by
  rw [returnE2E_single, h]; simp

/-- **`Return(v)` + call answers `unmodelled` exactly on `CrossRep`** -/
theorem unmodelled_iff (t : Ty) (x : Val) (out : Ty) :
    returnE2E K [some (t, x)] [out] = .callUnmodelled ↔ CrossRep t out = true := by
  have hcl := toValue_classified t x out
  by_cases hc : t ≠ out ∧ (out.kind = .strct ∨ out.kind = .ptr)
  · rw [if_pos hc] at hcl
    have hor : (out.kind == Kind.strct || out.kind == Kind.ptr) = true := by
      rcases hc.2 with h | h <;> simp [h]
    by_cases hs : t.size = out.size
    · rw [if_neg (by simpa using hs)] at hcl
      by_cases hi : isIContextPtr out = true
      · rw [if_pos hi] at hcl
        have := e2e_not_unmodelled_of_error _ _ _ hcl
        simp [this, CrossRep, hi]
      · rw [if_neg hi] at hcl
        rw [e2e_unmodelled_of_ok _ _ _ hcl, retypedRV_wellFlagged]
        have hi' : isIContextPtr out = false := by simpa using hi
        cases hx : (t.kind != out.kind || t.isDirect != out.isDirect) <;> simp [CrossRep, hc.1, hor, hs, hi', hx]
    · rw [if_pos (by simpa using hs)] at hcl
      have := e2e_not_unmodelled_of_error _ _ _ hcl
      simp [this, CrossRep, hs]
  · rw [if_neg hc] at hcl
    have hcr : CrossRep t out = false := by
      simp only [CrossRep]
      by_cases h1 : t = out
      · simp [h1]
      · have h2 : ¬ (out.kind = .strct ∨ out.kind = .ptr) := fun h => hc ⟨h1, h⟩
        have : (out.kind == Kind.strct || out.kind == Kind.ptr) = false := by
          cases hk : out.kind <;> simp_all
        simp [this]
    rw [hcr]
    simp only [Bool.false_eq_true, iff_false]
    by_cases hi : isIContextPtr t = true
    · rw [if_pos hi] at hcl; exact e2e_not_unmodelled_of_error _ _ _ hcl
    · rw [if_neg hi] at hcl
      by_cases hki : out.kind = .iface
      · rw [if_pos hki] at hcl
        by_cases himp : implements out t = true
        · rw [if_pos himp] at hcl
          rw [e2e_unmodelled_of_ok _ _ _ hcl]
          simp [boxedRV, RV.wellFlagged, hki, iface_not_direct out hki]
        · rw [if_neg himp] at hcl; exact e2e_not_unmodelled_of_error _ _ _ hcl
      · rw [if_neg hki] at hcl
        by_cases hs : t.size = out.size
        · rw [if_neg (by simpa using hs)] at hcl
          rw [e2e_unmodelled_of_ok _ _ _ hcl]
          simp [asIsRV, RV.wellFlagged]
        · rw [if_pos (by simpa using hs)] at hcl; exact e2e_not_unmodelled_of_error _ _ _ hcl

/-- an untyped nil is never `unmodelled` -/
theorem nil_never_unmodelled (out : Ty) : returnE2E K [none] [out] ≠ .callUnmodelled := by
  have hcl := toValue_nil_classified out
  by_cases h : out.kind ∈ K.nil
  · rw [if_pos h] at hcl
    rw [Ne, e2e_unmodelled_of_ok _ _ _ hcl, zeroRV_wellFlagged]; simp
  · rw [if_neg h] at hcl; exact e2e_not_unmodelled_of_error _ _ _ hcl

/-- **outside `CrossRep` every outcome is classified with its content**: a configuration-time panic (the reject
    class), a call-time `MakeFunc` panic (same size, other non-assignable type — nothing delivered), or a delivered
    value of the declared type whose content is the supplied payload (as is / retyped) or the payload boxed with
    its dynamic type; results of size 0 carry no content. -/
theorem outside_unmodelled_classified (t : Ty) (x : Val) (out : Ty) (h : CrossRep t out = false) :
    (∃ e, returnE2E K [some (t, x)] [out] = .cfgPanic e) ∨
    returnE2E K [some (t, x)] [out] = .callPanic ∨
    (∃ v, returnE2E K [some (t, x)] [out] = .got [v] ∧ v.ty = out ∧
        (out.size = 0 ∨ v.val = x ∨ v.val = .ifaceOf t x)) := by
  have hu : returnE2E K [some (t, x)] [out] ≠ .callUnmodelled := by
    intro hh; rw [(unmodelled_iff t x out).1 hh] at h; simp at h
  have hsingle := returnE2E_single (some (t, x)) out
  cases hr : returnE2E K [some (t, x)] [out] with
  | cfgPanic e => exact Or.inl ⟨e, rfl⟩
  | callPanic => exact Or.inr (Or.inl rfl)
  | callUnmodelled => exact absurd hr hu
  | cfgReturnsMismatch =>
    rw [hr] at hsingle
    split at hsingle
    · simp at hsingle
    · split at hsingle
      · simp at hsingle
      · split at hsingle <;> simp at hsingle
  | got vs =>
    rw [hr] at hsingle
    have : ∃ v, vs = [v] := by
      split at hsingle
      · simp at hsingle
      · split at hsingle
        · simp at hsingle
        · split at hsingle
          · simp at hsingle
          · rename_i a _; exact ⟨a, by simpa using hsingle⟩
    obtain ⟨v, hv⟩ := this
    subst hv
    have hd := delivered_typed_and_unaltered (some (t, x)) out v hr
    exact Or.inr (Or.inr ⟨v, rfl, hd.1, hd.2⟩)

example : CrossRep (.prim .uintptr) (.ptr tS1) = true ∧ CrossRep tS1b tS1 = false ∧ CrossRep (.ptr tS1b) (.ptr tS1) = false ∧
    CrossRep tS2 tS1 = false := by decide

/-- for an accepted value, `CrossRep` is exactly "the stored Value's flag word disagrees with its type word" -/
theorem crossRep_iff_misflagged (t : Ty) (x : Val) (out : Ty) (v : RV) (h : toValue K (some (t, x)) out = .ok v) :
    CrossRep t out = true ↔ v.wellFlagged = false := by
  rw [← unmodelled_iff t x out, e2e_unmodelled_of_ok _ _ _ h]

/-- the payload of an accepted value still has the shape its flag kind announces -/
theorem toValue_keeps_kindOK (t : Ty) (x : Val) (out : Ty) (v : RV) (hx : x.kindOK t.kind = true)
    (h : toValue K (some (t, x)) out = .ok v) : v.val.kindOK v.fk = true := by
  rcases toValue_ok_payload (some (t, x)) out v h with hp | hp
  · -- as is / retyped: flag kind is the supplied type's kind
    rw [toValue_classified] at h
    split at h
    · split at h
      · simp at h
      · split at h
        · simp at h
        · simp only [Except.ok.injEq] at h; subst h; simpa [retypedRV] using hx
    · split at h
      · simp at h
      · split at h
        · exact absurd (by assumption) hp.1
        · split at h
          · simp at h
          · simp only [Except.ok.injEq] at h; subst h; simpa [asIsRV] using hx
  · rw [hp.2]; simp [Val.kindOK]

/-- **`When.Eval` (V2I) answers `unmodelled` exactly on `CrossRep`** (for a payload of the supplied type's shape) -/
theorem eval_unmodelled_iff (t : Ty) (x : Val) (out : Ty) (v : RV) (hx : x.kindOK t.kind = true)
    (h : toValue K (some (t, x)) out = .ok v) :
    v2i1 K v out = .error .unmodelled ↔ CrossRep t out = true := by
  rw [crossRep_iff_misflagged t x out v h]
  have hk := toValue_keeps_kindOK t x out v hx h
  cases hw : v.wellFlagged
  · simp [v2i1, hw]
  · simp only [v2i1, hw, Bool.not_true, Bool.false_eq_true, if_false, isZeroRV, hk, Bool.and_self, if_true, Bool.true_eq_false, iff_false]
    split
    · cases isZeroVal v.val <;> simp
    · simp

end C09
