import GoomVerif.Lemmas.C09L
/-!
# C09 — stubbed values reach callers unaltered and typed as the function declares

`Convert.toValue / I2V / V2I / isZeroVal / returnE2E` transcribe `arg/value.go` and the path from `Return(...)` to the
caller; `Convert.K` holds the three kind lists and the form of `cast` that are in `arg/value.go` **today**
(`Gen/C09Kinds.lean` is regenerated from the source on every run).  Every theorem quantifies over all declared
types `out`, all supplied dynamic types `t` and all payloads `x`.
-/
namespace C09
open Convert C09L

/-! ### example universe (used only by the `example`s that show the hypotheses are satisfiable) -/
def tInt64 : Ty := .prim .int64
def tS1 : Ty := .named "S1" [] ["Error|()(string)"] (.strct (.cons "A" tInt64 (.cons "B" (.prim .int32) (.cons "C" (.prim .bool) .nil))))
def tS1b : Ty := .named "S1b" [] [] (.strct (.cons "X" tInt64 (.cons "Y" (.prim .int32) (.cons "Z" (.prim .bool) .nil))))
def tS2 : Ty := .named "S2" [] [] (.strct (.cons "A" tInt64 (.cons "B" tInt64 (.cons "C" tInt64 .nil))))
def tError : Ty := .named "error" ["Error|()(string)"] [] (.iface ["Error|()(string)"])
def tFunc : Ty := .func "()()"
def vS1 : Val := .agg (.cons (.int 7) (.cons (.int (-2)) (.cons (.bool true) .nil)))

/-! ## clause 1 — nil becomes the typed zero value for pointer, interface, slice, map, channel and func results -/

/-- `toValue(nil, out)` is `reflect.Zero(out)`: typed as declared, the zero value, and a well-formed Value -/
theorem nil_is_typed_zero (out : Ty) (h : Nilable out.kind) :
    toValue K none out = .ok (zeroRV out) ∧ (zeroRV out).ty = out ∧ isZeroVal (zeroRV out).val = true ∧
      ((zeroRV out).val = .nilp ∨ (zeroRV out).val = .ifaceNil) := by
  refine ⟨?_, rfl, zeroVal_isZero out, ?_⟩
  · simp [toValue, K_nil_mem out.kind h]
  · rcases h with h | h | h | h | h | h
    · exact Or.inl (zeroVal_ptrlike out (Or.inl h))
    · exact Or.inr (zeroVal_iface out h)
    · exact Or.inl (zeroVal_ptrlike out (Or.inr (Or.inl h)))
    · exact Or.inl (zeroVal_ptrlike out (Or.inr (Or.inr (Or.inl h))))
    · exact Or.inl (zeroVal_ptrlike out (Or.inr (Or.inr (Or.inr (Or.inl h)))))
    · exact Or.inl (zeroVal_ptrlike out (Or.inr (Or.inr (Or.inr (Or.inr h)))))

example : Nilable tFunc.kind ∧ Nilable tError.kind ∧ Nilable (Ty.ptr tS1).kind := by decide

/-- `Return(nil)` on a function with such a result: the caller receives exactly the zero value of the declared type -/
theorem nil_result_at_caller (out : Ty) (h : Nilable out.kind) :
    returnE2E K [none] [out] = .got [zeroRV out] := by
  rw [returnE2E_single, (nil_is_typed_zero out h).1]
  simp only [zeroRV_wellFlagged]
  simp [deliver1, nilable_size_pos out h, directlyAssignable_self, zeroRV]

/-- so a nil `error` (any interface result) compares equal to nil at the caller: the received interface is the nil
    interface, and `Interface()` of it is the untyped nil -/
theorem nil_error_is_nil_at_caller (out : Ty) (h : out.kind = .iface) :
    returnE2E K [none] [out] = .got [⟨out, .iface, true, .ifaceNil⟩] ∧
      RV.toBoxed ⟨out, .iface, true, .ifaceNil⟩ = none := by
  refine ⟨?_, rfl⟩
  rw [nil_result_at_caller out (Or.inr (Or.inl h))]
  simp [zeroRV, h, iface_not_direct out h, zeroVal_iface out h]

example : tError.kind = .iface := by decide

/-! ## clause 2 — concrete values are boxed into interface results with their dynamic type intact -/

theorem boxed_keeps_dynamic_type (t : Ty) (x : Val) (out : Ty) (hk : out.kind = .iface)
    (himp : implements out t = true) (hctx : isIContextPtr t = false) :
    toValue K (some (t, x)) out = .ok ⟨out, .iface, true, .ifaceOf t x⟩ ∧
    returnE2E K [some (t, x)] [out] = .got [⟨out, .iface, true, .ifaceOf t x⟩] ∧
    RV.toBoxed ⟨out, .iface, true, .ifaceOf t x⟩ = some (t, x) := by
  have hc : Kind.iface ∉ K.cast := by decide
  have htv : toValue K (some (t, x)) out = .ok ⟨out, .iface, true, .ifaceOf t x⟩ := by
    simp [toValue, hc, hctx, hk, himp]
  refine ⟨htv, ?_, rfl⟩
  rw [returnE2E_single, htv]
  have hs : out.size ≠ 0 := nilable_size_pos out (Or.inr (Or.inl hk))
  simp [RV.wellFlagged, hk, iface_not_direct out hk, deliver1, hs, directlyAssignable_self]

example : tError.kind = .iface ∧ implements tError (.ptr tS1) = true ∧ isIContextPtr (.ptr tS1) = false := by decide

/-- a value whose type does not implement the declared interface is refused at configuration time -/
theorem nonimplementing_rejected (t : Ty) (x : Val) (out : Ty) (hk : out.kind = .iface)
    (himp : implements out t = false) (hctx : isIContextPtr t = false) :
    toValue K (some (t, x)) out = .error .panicAssign ∧
    returnE2E K [some (t, x)] [out] = .cfgPanic .panicAssign := by
  have hc : Kind.iface ∉ K.cast := by decide
  have htv : toValue K (some (t, x)) out = .error .panicAssign := by
    simp [toValue, hc, hctx, hk, himp]
  exact ⟨htv, by rw [returnE2E_single, htv]⟩

example : tError.kind = .iface ∧ implements tError tS1 = false ∧ isIContextPtr tS1 = false := by decide

/-! ## clause 3 — a struct or struct pointer of identical layout may stand in -/

/-- identical layout: the two types are equal once every type name and field name is erased -/
def LayoutEq (a b : Ty) : Prop := erase a = erase b
instance (a b : Ty) : Decidable (LayoutEq a b) := by unfold LayoutEq; infer_instance

theorem layoutEq_size (a b : Ty) (h : LayoutEq a b) : a.size = b.size := by
  rw [← erase_size a, ← erase_size b, h]

/-- the stand-in is accepted and retyped: declared type, payload untouched, flag word still consistent -/
theorem layout_standin_accepted (t : Ty) (x : Val) (out : Ty) (hne : t ≠ out)
    (hk : out.kind = .strct ∨ out.kind = .ptr) (hl : LayoutEq t out) (hctx : isIContextPtr out = false) :
    toValue K (some (t, x)) out = .ok ⟨out, out.kind, !out.isDirect, x⟩ ∧
    (⟨out, out.kind, !out.isDirect, x⟩ : RV).wellFlagged = true := by
  have hc : out.kind ∈ K.cast := (K_cast_mem out.kind).2 hk
  have hsz : t.size = out.size := layoutEq_size t out hl
  have hkind : t.kind = out.kind := by rw [← erase_kind t, ← erase_kind out, hl]
  have hdir : t.isDirect = out.isDirect := by rw [← erase_isDirect t, ← erase_isDirect out, hl]
  have hni : out.kind ≠ .iface := by rcases hk with h | h <;> rw [h] <;> decide
  refine ⟨?_, by simp [RV.wellFlagged]⟩
  simp [toValue, hne, hc, hsz, Convert.cast, K_castNilSafe, hctx, hni, hkind, hdir]

example : tS1b ≠ tS1 ∧ tS1.kind = .strct ∧ LayoutEq tS1b tS1 ∧ isIContextPtr tS1 = false := by
  refine ⟨by decide, by decide, by decide, by decide⟩
example : Ty.ptr tS1b ≠ Ty.ptr tS1 ∧ (Ty.ptr tS1).kind = .ptr ∧ LayoutEq (.ptr tS1b) (.ptr tS1) := by
  refine ⟨by decide, by decide, by decide⟩

/-- and it reaches the caller as a value of the declared type with the payload unchanged -/
theorem layout_standin_delivered (t : Ty) (x : Val) (out : Ty) (hne : t ≠ out)
    (hk : out.kind = .strct ∨ out.kind = .ptr) (hl : LayoutEq t out) (hctx : isIContextPtr out = false)
    (hsz : out.size ≠ 0) :
    returnE2E K [some (t, x)] [out] = .got [⟨out, out.kind, !out.isDirect, x⟩] := by
  have h := layout_standin_accepted t x out hne hk hl hctx
  rw [returnE2E_single, h.1]
  simp only [h.2]
  simp [deliver1, hsz, directlyAssignable_self]

example : tS1b ≠ tS1 ∧ LayoutEq tS1b tS1 ∧ tS1.size ≠ 0 ∧ tS1.size = 16 := by
  refine ⟨by decide, by decide, by decide, by decide⟩

/-! ## clause 4 — a value whose size differs from the declared type is rejected, not reinterpreted -/

theorem size_mismatch_rejected (t : Ty) (x : Val) (out : Ty) (hs : t.size ≠ out.size) (hk : out.kind ≠ .iface) :
    (toValue K (some (t, x)) out = .error .errSize ∨ toValue K (some (t, x)) out = .error .panicIContext) ∧
    (∀ rs, returnE2E K [some (t, x)] [out] ≠ .got rs) := by
  have hne : t ≠ out := fun h => hs (by rw [h])
  have htv : toValue K (some (t, x)) out = .error .errSize ∨ toValue K (some (t, x)) out = .error .panicIContext := by
    by_cases hc : out.kind ∈ K.cast
    · left; simp [toValue, hne, hc, hs]
    · cases hi : isIContextPtr t
      · left; simp [toValue, hc, hi, hk, hs]
      · right; simp [toValue, hc, hi]
  refine ⟨htv, ?_⟩
  intro rs
  rw [returnE2E_single]
  rcases htv with h | h <;> rw [h] <;> simp

example : tS2.size ≠ tS1.size ∧ tS1.kind ≠ .iface := by decide

/-! ## the global statement — whatever is delivered has the declared type and the supplied content -/

/-- every accepted conversion keeps the payload (as is, or boxed with its dynamic type); nil becomes the zero value -/
theorem toValue_ok_payload (r : Boxed) (out : Ty) (v : RV) (h : toValue K r out = .ok v) :
    match r with
    | none => v = zeroRV out
    | some (t, x) =>
        (out.kind ≠ .iface ∧ v.val = x ∧ (v.ty = t ∨ v.ty = out) ∧ v.ty.size = out.size) ∨
        (out.kind = .iface ∧ v = ⟨out, .iface, true, .ifaceOf t x⟩) := by
  cases r with
  | none =>
    simp only [toValue] at h
    split at h
    · simp only [Except.ok.injEq] at h; exact h.symm
    · simp at h
  | some p =>
    obtain ⟨t, x⟩ := p
    show (out.kind ≠ .iface ∧ v.val = x ∧ (v.ty = t ∨ v.ty = out) ∧ v.ty.size = out.size) ∨
        (out.kind = .iface ∧ v = ⟨out, .iface, true, .ifaceOf t x⟩)
    by_cases hki : out.kind = .iface
    · right
      have hc : Kind.iface ∉ K.cast := by decide
      have e : toValue K (some (t, x)) out =
          (if isIContextPtr t = true then .error .panicIContext
           else if implements out t = true then .ok ⟨out, .iface, true, .ifaceOf t x⟩ else .error .panicAssign) := by
        simp [toValue, hki, hc]
      rw [e] at h
      split at h
      · simp at h
      · split at h
        · simp only [Except.ok.injEq] at h; exact ⟨hki, h.symm⟩
        · simp at h
    · left
      refine ⟨hki, ?_⟩
      by_cases hcast : t ≠ out ∧ out.kind ∈ K.cast
      · by_cases hs : t.size = out.size
        · have e : toValue K (some (t, x)) out =
              (if isIContextPtr out = true then .error .panicIContext else .ok ⟨out, t.kind, !t.isDirect, x⟩) := by
            simp [toValue, hcast.1, hcast.2, hs, Convert.cast, K_castNilSafe, hki]
          rw [e] at h
          split at h
          · simp at h
          · simp only [Except.ok.injEq] at h; subst h; simp
        · simp [toValue, hcast.1, hcast.2, hs] at h
      · have e : toValue K (some (t, x)) out =
            (if isIContextPtr t = true then .error .panicIContext
             else if t.size = out.size then .ok ⟨t, t.kind, !t.isDirect, x⟩ else .error .errSize) := by
          simp only [toValue]
          rw [if_neg (by simpa using hcast)]
          simp [hki]
        rw [e] at h
        split at h
        · simp at h
        · split at h
          · rename_i hs
            simp only [Except.ok.injEq] at h; subst h; simp [hs]
          · simp at h

/-- **Delivered means declared type and unaltered content.**  If a call of the stub returns at all, the value the
    caller receives has the declared type, and its content is the zero value (nil supplied), the supplied payload,
    or the supplied payload boxed with its dynamic type (interface result).  Results of size 0 carry no content. -/
theorem delivered_typed_and_unaltered (r : Boxed) (out : Ty) (v : RV) (h : returnE2E K [r] [out] = .got [v]) :
    v.ty = out ∧
    (out.size = 0 ∨
      match r with
      | none => v.val = zeroVal out
      | some (t, x) => v.val = x ∨ v.val = .ifaceOf t x) := by
  rw [returnE2E_single] at h
  split at h
  · simp at h
  · rename_i w hw
    have hp := toValue_ok_payload r out w hw
    split at h
    · simp at h
    · split at h
      · simp at h
      · rename_i a ha
        simp only [CallRes.got.injEq, List.cons.injEq, and_true] at h
        subst h
        simp only [deliver1] at ha
        split at ha
        · rename_i hz
          simp only [Option.some.injEq] at ha; subst ha
          exact ⟨rfl, Or.inl hz⟩
        · split at ha
          · simp only [Option.some.injEq] at ha; subst ha
            refine ⟨rfl, Or.inr ?_⟩
            cases r with
            | none => simp only at hp; subst hp; rfl
            | some p =>
              obtain ⟨t, x⟩ := p
              simp only at hp
              rcases hp with hp | hp
              · exact Or.inl hp.2.1
              · right; rw [hp.2]
          · split at ha
            · rename_i himp
              -- boxing at delivery needs an interface result, and then toValue has already produced type `out`
              have hki := implements_kind out w.ty himp
              have hnda : ¬ directlyAssignable out w.ty = true := by assumption
              exfalso
              apply hnda
              cases r with
              | none => simp only at hp; subst hp; exact directlyAssignable_self out
              | some p =>
                obtain ⟨t, x⟩ := p
                simp only at hp
                rcases hp with hp | hp
                · exact absurd hki hp.1
                · rw [hp.2]; exact directlyAssignable_self out
            · simp at ha

/-! ## V2I and isZero -/

/-- `isZero` holds of every zero value -/
theorem isZero_of_zero (t : Ty) : isZeroVal (zeroVal t) = true := zeroVal_isZero t

/-- V2I maps a zero pointer / interface result to the untyped nil -/
theorem V2I_zero_ptr_iface_is_nil (v : RV) (t : Ty) (hk : t.kind = .iface ∨ t.kind = .ptr)
    (hw : v.wellFlagged = true) (hx : v.val.kindOK v.fk = true) (hz : isZeroVal v.val = true) :
    v2i1 K v t = .ok none := by
  have hc : t.kind ∈ K.v2i := (K_v2i_mem t.kind).2 hk
  simp [v2i1, hw, hc, isZeroRV, hx, hz]

/-- round trip, nil: `V2I (I2V nil)` is nil for pointer and interface results -/
theorem roundtrip_nil (out : Ty) (hk : out.kind = .iface ∨ out.kind = .ptr) :
    toValue K none out = .ok (zeroRV out) ∧ v2i1 K (zeroRV out) out = .ok none := by
  have hn : Nilable out.kind := by rcases hk with h | h; exact Or.inr (Or.inl h); exact Or.inl h
  refine ⟨(nil_is_typed_zero out hn).1, ?_⟩
  apply V2I_zero_ptr_iface_is_nil _ _ hk (zeroRV_wellFlagged out) _ (zeroVal_isZero out)
  rcases hk with h | h
  · simp [zeroRV, zeroVal_iface out h, h, Val.kindOK]
  · simp [zeroRV, zeroVal_ptrlike out (Or.inl h), h, Val.kindOK]

example : (Ty.ptr tS1).kind = .ptr ∧ tError.kind = .iface := by decide

/-- round trip, boxed: an implementing value comes back with its own dynamic type and payload -/
theorem roundtrip_boxed (t : Ty) (x : Val) (out : Ty) (hk : out.kind = .iface)
    (himp : implements out t = true) (hctx : isIContextPtr t = false) :
    ∃ v, toValue K (some (t, x)) out = .ok v ∧ v2i1 K v out = .ok (some (t, x)) := by
  refine ⟨_, (boxed_keeps_dynamic_type t x out hk himp hctx).1, ?_⟩
  have hc : out.kind ∈ K.v2i := (K_v2i_mem out.kind).2 (Or.inl hk)
  simp [v2i1, RV.wellFlagged, hk, iface_not_direct out hk, hc, isZeroRV, Val.kindOK, isZeroVal, RV.toBoxed]

/-- round trip, same type: a value of the declared (non-interface) type comes back unchanged — except that a nil
    pointer comes back as the untyped nil (V2I's documented normalisation) -/
theorem roundtrip_same_type (t : Ty) (x : Val) (hk : t.kind ≠ .iface) (hx : x.kindOK t.kind = true)
    (hctx : isIContextPtr t = false) :
    toValue K (some (t, x)) t = .ok ⟨t, t.kind, !t.isDirect, x⟩ ∧
    v2i1 K ⟨t, t.kind, !t.isDirect, x⟩ t = .ok (if t.kind = .ptr ∧ x = .nilp then none else some (t, x)) := by
  refine ⟨by simp [toValue, hctx, hk], ?_⟩
  have hwf : (⟨t, t.kind, !t.isDirect, x⟩ : RV).wellFlagged = true := by simp [RV.wellFlagged]
  have hbox : ∀ (y : Val), y.kindOK t.kind = true → RV.toBoxed ⟨t, t.kind, !t.isDirect, y⟩ = some (t, y) := by
    intro y hy
    cases y <;> simp [RV.toBoxed]
    · exfalso; cases hkk : t.kind <;> simp [Val.kindOK, hkk] at hy; exact hk hkk
    · exfalso; cases hkk : t.kind <;> simp [Val.kindOK, hkk] at hy; exact hk hkk
  by_cases hp : t.kind = .ptr
  · have hc : t.kind ∈ K.v2i := (K_v2i_mem t.kind).2 (Or.inr hp)
    have hc' : Kind.ptr ∈ K.v2i := by decide
    cases x <;> simp [Val.kindOK, hp] at hx
    · simp [v2i1, RV.wellFlagged, hc', isZeroRV, Val.kindOK, hp, isZeroVal]
    · simp [v2i1, RV.wellFlagged, hc', isZeroRV, Val.kindOK, hp, isZeroVal, RV.toBoxed]
  · have hc : t.kind ∉ K.v2i := by
      intro hcc
      rcases (K_v2i_mem t.kind).1 hcc with h | h
      · exact absurd h hk
      · exact absurd h hp
    simp [v2i1, hwf, hc, hbox x hx, hp]

example : tS1.kind ≠ .iface ∧ vS1.kindOK tS1.kind = true ∧ isIContextPtr tS1 = false := by decide

/-! ## I2V arity -/

theorem I2V_arity_nonvariadic (objs : List Boxed) (types : List Ty) (h : objs.length ≠ types.length) :
    I2V K objs types false = .error .errArity := by
  simp [I2V, h]

theorem I2V_arity_variadic (objs : List Boxed) (types : List Ty) (h : objs.length < types.length - 1) :
    I2V K objs types true = .error .errArity := by
  simp [I2V, h]

/-- I2V returns one converted value per supplied value -/
theorem I2V_keeps_count (objs : List Boxed) (types : List Ty) (b : Bool) (vs : List RV)
    (h : I2V K objs types b = .ok vs) : vs.length = objs.length := by
  simp only [I2V] at h
  split at h
  · simp at h
  · exact go_length K types b objs 0 vs h

/-- several results: the j-th stored value is `toValue` of the j-th supplied value at the j-th declared type —
    so every single-result theorem above applies to each position of a multi-result `Return(...)` -/
theorem I2V_nonvariadic_pointwise (objs : List Boxed) (types : List Ty) (vs : List RV)
    (h : I2V K objs types false = .ok vs) :
    objs.length = types.length ∧
    ∀ j, j < objs.length → ∃ t a v, types[j]? = some t ∧ objs[j]? = some a ∧ vs[j]? = some v ∧ toValue K a t = .ok v := by
  by_cases hl : objs.length = types.length
  · refine ⟨hl, ?_⟩
    simp only [I2V] at h
    split at h
    · simp at h
    · intro j hj
      have := go_pointwise K types objs 0 vs (by omega) h j hj
      simpa using this
  · rw [I2V_arity_nonvariadic objs types hl] at h; simp at h

example : ∃ vs, I2V K [some (tInt64, .int 5), none] [tInt64, tError] false = .ok vs ∧ vs.length = 2 :=
  ⟨[⟨tInt64, .int, true, .int 5⟩, ⟨tError, .iface, true, .ifaceNil⟩], by
    have hm : Kind.iface ∈ K.nil := by decide
    simp [I2V, I2V.go, toValue, hm, zeroRV, tError, tInt64, Ty.kind, Prim.kind, Ty.isDirect,
      zeroVal, isIContextPtr, Ty.size, Prim.size]⟩

/-- fewer values than results never configure a stub -/
theorem too_few_results_rejected (values : List Boxed) (outs : List Ty) (h : values.length < outs.length) :
    returnE2E K values outs = .cfgReturnsMismatch := by
  simp [returnE2E, h]

/-- more values than results: configuration-time panic from I2V's arity check -/
theorem too_many_results_rejected (values : List Boxed) (outs : List Ty) (h : outs.length < values.length) :
    returnE2E K values outs = .cfgPanic .errArity := by
  have h1 : ¬ values.length < outs.length := by omega
  have h2 : values.length ≠ outs.length := by omega
  simp [returnE2E, h1, I2V_arity_nonvariadic values outs h2]

/-! ## the batch forms: `Matches(arg.Pair{…, Return: r})` and `Returns(v₁, v₂, …)` -/

/-- a bare value given as `Pair.Return` (the untyped nil included) is a single result, converted exactly as by
    `Return(value)` -/
theorem matches_bare_value_is_single_result (b : Boxed) (out : Ty) :
    matchesE2E K (.one b) [out] = returnE2E K [b] [out] := by
  simp [matchesE2E, returnE2E, PairRet.results]

/-- a `[]interface{}` given as `Pair.Return` is the result list, converted exactly as by `Return(values...)` -/
theorem matches_list_is_result_list (bs : List Boxed) (outs : List Ty) (h : outs.length ≤ bs.length) :
    matchesE2E K (.list bs) outs = returnE2E K bs outs := by
  have h' : ¬ bs.length < outs.length := by omega
  simp [matchesE2E, returnE2E, PairRet.results, h']

/-- `Matches(Pair{Args: a, Return: nil})`: the nil becomes the typed zero value of the declared result, exactly as
    with `Return(nil)` — a nil error that compares equal to nil, a nil pointer, slice, map, channel, func -/
theorem matches_nil_is_typed_zero (out : Ty) (h : Nilable out.kind) :
    matchesE2E K (.one none) [out] = .got [zeroRV out] := by
  rw [matches_bare_value_is_single_result, nil_result_at_caller out h]

example : Nilable tError.kind ∧ Nilable (Ty.ptr tS1).kind := by decide

/-- `Returns(nil, …)`: a bare nil element is one group holding the typed zero value … -/
theorem returns_nil_group_is_typed_zero (out : Ty) (h : Nilable out.kind) (gs : List PairRet) :
    seqConfigure K [out] (.one none :: gs) =
      (match seqConfigure K [out] gs with
       | .error e => .error e
       | .ok r => .ok ([zeroRV out] :: r)) := by
  simp only [seqConfigure, PairRet.results, I2V_single, (nil_is_typed_zero out h).1]
  cases seqConfigure K [out] gs <;> rfl

/-- … which every call that selects this group receives unaltered -/
theorem seq_zero_group_delivered (out : Ty) (h : Nilable out.kind) (rest : List (List RV)) :
    seqCall ([zeroRV out] :: rest) [out] 0 = .got [zeroRV out] := by
  have hs : out.size ≠ 0 := nilable_size_pos out h
  simp [seqCall, RV.wellFlagged, deliver_single, deliver1, hs, directlyAssignable_self, zeroRV]

/-- the last group is sticky: every call from the (k-1)-th on gets the last group's results -/
theorem seq_last_sticky (stored : List (List RV)) (outs : List Ty) (i : Nat) (h : stored.length - 1 ≤ i) :
    seqCall stored outs i = seqCall stored outs (stored.length - 1) := by
  simp [seqCall, Nat.min_eq_right h]

end C09
