import GoomVerif.Lemmas.C05L
/-!
# C05 — result sequences are served in order, stick at the last element, and stay safe under concurrent callers

Model: `GoomVerif/Model/Cursor.lean` (transcription of `matcher.go` `BaseMatcher.Result/AddResult`, `when.go`
`Return/AndReturn/Returns/When/In/invoke`, `mocker.go` `callback` and the mocker entry points), with the comparison
operators and constants of `Result` taken from `Gen.Cursor`, which is re-extracted from `matcher.go` on every run.

Sequential part: theorems about `serve`, `call`, `calls` (all sequence lengths, all call lists, all `When` states).
Concurrent part: theorems about `run` over **every** event list, i.e. every interleaving of any number of threads
(`sched_total` shows that every list of thread ids is a schedule, so nothing is excluded by well-formedness).

About "once the last element has been returned it is the only one returned": read literally over wall-clock return
instants this is false for the code (`literal_sticky_fails`: a caller that loaded the cursor before the last element
was handed out can return an earlier element afterwards).  What holds, and what is proved (`conc_sticky`), is the
real-time version: every call that *starts* after a call returned the last element returns the last element.
-/
namespace C05
open Cursor C05L

/-! ## sequential: in order, sticky last -/

/-- matcher.go:40 `Result`, one caller: for every sequence length `n ≥ 1` and every `k`, the `k`-th call (0-based)
    returns element `min k (n-1)` — the first `n` calls walk the sequence, all later ones get the last element. -/
theorem seq_kth (n k : Nat) (hn : 1 ≤ n) : (serve n (cursorAfter n k 0)).1 = min k (n - 1) := by
  rcases Nat.lt_or_ge 1 n with h | h
  · rw [cursorAfter_multi n k 0 h (Nat.zero_le _), serve_eq]
    have : ¬ n ≤ 1 := by omega
    simp only [this, if_false]
    split <;> simp only <;> omega
  · rw [cursorAfter_single n k 0 h, serve_eq]
    simp only [h, if_true]; omega

example : (List.range 6).map (fun k => (serve 3 (cursorAfter 3 k 0)).1) = [0, 1, 2, 2, 2, 2] := by decide

/-- the cursor itself: it never moves on the single-result path and otherwise stops at `n` (so it cannot run away
    under sequential use) -/
theorem seq_cursor (n k : Nat) : cursorAfter n k 0 = if n ≤ 1 then 0 else min k n := by
  split
  · exact cursorAfter_single n k 0 (by assumption)
  · rw [cursorAfter_multi n k 0 (by omega) (Nat.zero_le _)]; omega

/-- when.go:162/194: `Return(v).AndReturn(v₂)…` and `Returns(v, v₂, …)` are the same configuration.  Definitional (`rfl`): the
    content is the hand transcription of when.go:193-210 in `rets`, which is tied to the code by the differential runs only. -/
theorem return_andReturn_eq_returns (w : When) (v : Nat) (vs : List Nat) : vs.foldl andRet (ret w v) = rets w (v :: vs) := rfl

/-- when.go:120/140 + :194: `When(c).Returns(v, vs…)` (equally `.Return(v).AndReturn(…)…`) on **any** `When` creates
    one new stub whose sequence is exactly `v :: vs` with the cursor at the start, puts it last in the match order,
    and leaves every existing stub (results *and* cursor) and the default untouched. -/
theorem returns_builds_condition (w : When) (c : Cond) (v : Nat) (vs : List Nat) :
    let w' := rets (whenOp w c) (v :: vs)
    w'.ms[w.ms.length]? = some ⟨c, v :: vs, 0⟩ ∧ w'.mlist = w.mlist ++ [w.ms.length] ∧ w'.dflt = w.dflt ∧
    (∀ j, j < w.ms.length → w'.ms[j]? = w.ms[j]?) ∧ w'.ms.length = w.ms.length + 1 := by
  intro w'
  have h0 : (whenOp w c).ms[w.ms.length]? = some ⟨c, [], 0⟩ := by
    simp only [whenOp, List.getElem?_append_right (Nat.le_refl _), Nat.sub_self, List.getElem?_cons_zero]
  obtain ⟨a1, a2, a3, a4, a5, a6⟩ := addResult_self (whenOp w c) w.ms.length _ v h0
  have hret : ret (whenOp w c) v =
      { addResult (whenOp w c) w.ms.length v with mlist := (addResult (whenOp w c) w.ms.length v).mlist ++ [w.ms.length] } := by
    simp only [ret, whenOp]
  have hret1 : (ret (whenOp w c) v).ms = (addResult (whenOp w c) w.ms.length v).ms := by rw [hret]
  obtain ⟨b1, b2, b3, b4, b5, -⟩ := andRets_target vs (ret (whenOp w c) v) w.ms.length _
    (by rw [hret]; unfold target; simp only [a6]; rfl) (by rw [hret1]; exact a1)
  have e4 : (ret (whenOp w c) v).mlist = w.mlist ++ [w.ms.length] := by rw [hret]; simp only [a4]; rfl
  have e5 : (ret (whenOp w c) v).dflt = w.dflt := by rw [hret]; simp only [a5]; rfl
  refine ⟨by simp only [w', rets]; rw [b1]; rfl, by simp only [w', rets]; rw [b4, e4], by simp only [w', rets]; rw [b5, e5],
    fun j hj => ?_, ?_⟩
  · simp only [w', rets]
    rw [b2 j (by omega), hret1, a2 j (by omega)]
    simp only [whenOp, List.getElem?_append_left hj]
  · simp only [w', rets]
    rw [b3, hret1, a3]
    simp only [whenOp, List.length_append, List.length_cons, List.length_nil]

/-- mocker.go:559 `Returns(v, vs…)` on a fresh mocker, and mocker.go:541 `Return(v)` followed by `AndReturn…`: the
    default stub gets exactly the sequence `v :: vs`, cursor at the start, and is what unmatched calls select. -/
theorem returns_builds_default (v : Nat) (vs : List Nat) :
    (rets (createWhen none none) (v :: vs)).ms = [⟨.always, v :: vs, 0⟩] ∧
    (rets (createWhen none none) (v :: vs)).dflt = some 0 ∧ (rets (createWhen none none) (v :: vs)).mlist = [] ∧
    (vs.foldl andRet (createWhen none (some v))).ms = [⟨.always, v :: vs, 0⟩] ∧
    (vs.foldl andRet (createWhen none (some v))).dflt = some 0 ∧ (vs.foldl andRet (createWhen none (some v))).mlist = [] := by
  have one : ∀ w : When, w.ms = [⟨.always, [v], 0⟩] → target w = some 0 → w.dflt = some 0 → w.mlist = [] →
      (vs.foldl andRet w).ms = [⟨.always, v :: vs, 0⟩] ∧ (vs.foldl andRet w).dflt = some 0 ∧ (vs.foldl andRet w).mlist = [] := by
    intro w hms ht hd hl
    obtain ⟨b1, -, b3, b4, b5, -⟩ := andRets_target vs w 0 ⟨.always, [v], 0⟩ ht (by rw [hms]; rfl)
    refine ⟨?_, by rw [b5, hd], by rw [b4, hl]⟩
    rw [hms] at b3
    match hfm : (vs.foldl andRet w).ms, b3 with
    | [x], _ => rw [hfm] at b1; simp only [List.getElem?_cons_zero, Option.some.injEq] at b1; rw [b1]; rfl
  obtain ⟨p1, p2, p3⟩ := one (ret (createWhen none none) v) rfl rfl rfl rfl
  obtain ⟨q1, q2, q3⟩ := one (createWhen none (some v)) rfl rfl rfl rfl
  exact ⟨p1, p2, p3, q1, q2, q3⟩

/-- when.go:140 `In()` **without alternatives** (e.g. an empty list spread into it) still declares a stub of its own: the
    `Return/Returns` that follows belongs to that new stub (`returns_builds_condition` with `c = isIn []`: nothing is appended to
    the previously selected condition or to the default), and as it can never match, which stub any call selects is exactly what
    it was before.  (`hwf`: the match order only mentions existing stubs — true of every `When` the API builds.) -/
theorem empty_in_stub_is_dead (w : When) (v : Nat) (vs : List Nat) (hwf : ∀ i ∈ w.mlist, i < w.ms.length) (a : Nat) :
    select (rets (whenOp w (.isIn [])) (v :: vs)) a = select w a := by
  obtain ⟨r1, r2, r3, r4, -⟩ := returns_builds_condition w (.isIn []) v vs
  unfold select
  rw [r2, r3, List.find?_append]
  have hold : w.mlist.find? (hit (rets (whenOp w (.isIn [])) (v :: vs)).ms a) = w.mlist.find? (hit w.ms a) := by
    apply find_congr_mem
    intro i hi
    unfold hit
    rw [r4 i (hwf i hi)]
  have hnew : hit (rets (whenOp w (.isIn [])) (v :: vs)).ms a w.ms.length = false := by
    unfold hit; rw [r1]; rfl
  rw [hold]
  cases h : w.mlist.find? (hit w.ms a) with
  | some i => rfl
  | none => simp only [Option.none_or, List.find?_cons, hnew, List.find?_nil]

/-- `When(1).Returns(10, 11)`, then `In().Returns(7, 8)`: calls with 1 keep getting 10, 11, 11, … -/
example : (calls (rets (whenOp (rets (whenOp (createWhen none none) (.eq 1)) [10, 11]) (.isIn [])) [7, 8]) [1, 1, 1, 1]).map (·.2) =
    [.val 10, .val 11, .val 11, .val 11] := by decide

/-- mocker.go `Returns` on a mocker without a `When` (all mocker kinds; targets with results): the call installs a `When` exactly
    when it carries values.  A first `Returns()` with no values is rejected (`*erro.ReturnsNotMatch`) and leaves the mocker
    untouched — it can no longer be used to obtain a bare, result-less `When` whose calls would panic —, so every later
    operation sees the same state as if the call had not been made; with values the default is built as in
    `returns_builds_default`. -/
theorem first_returns_installs_iff_values (vs : List Nat) (ops : List Op) :
    ((opStep none (.mRets vs)).1 = none ↔ vs = []) ∧
    runOps none (.mRets [] :: ops) = .rejected :: runOps none ops ∧
    endState none (.mRets [] :: ops) = endState none ops := by
  refine ⟨?_, rfl, rfl⟩
  cases vs with
  | nil => exact ⟨fun _ => rfl, fun _ => rfl⟩
  | cons v vs => exact ⟨fun h => by simp [opStep] at h, fun h => by cases h⟩

example : runOps none [.mRets [], .call 3, .mRets [7, 8], .call 3, .call 3, .wRets [], .call 3] =
    [.rejected, .orig, .val 7, .val 8, .val 8] := by decide

/-- when.go:171 `Matches(Pair{a₁,v₁}, …)`: every pair becomes its own one-element stub at the end of the match order, and every
    stub that existed before — its sequence and its cursor —, the default and the current condition are untouched.
    (False for the source as it stood before fix F14: `Matches` first called `w.Return(v)` for every pair, which appended
    `v` to the sequence of the current condition or of the default.) -/
theorem matches_builds (ps : List (Nat × Nat)) : ∀ (w : When),
    (matchesOp w ps).ms = w.ms ++ ps.map (fun p => ⟨.eq p.1, [p.2], 0⟩) ∧
    (matchesOp w ps).mlist = w.mlist ++ (List.range ps.length).map (· + w.ms.length) ∧
    (matchesOp w ps).dflt = w.dflt ∧ (matchesOp w ps).curMatch = w.curMatch := by
  induction ps with
  | nil => intro w; simp only [matchesOp, List.foldl_nil, List.map_nil, List.append_nil, List.length_nil, List.range_zero, and_self]
  | cons p ps ih =>
    intro w
    have e : matchPair w p = { w with ms := w.ms ++ [⟨.eq p.1, [p.2], 0⟩], mlist := w.mlist ++ [w.ms.length] } := by
      simp only [matchPair, Gen.Cursor.matchesReturnsFirst, Bool.false_eq_true, if_false]
    obtain ⟨h1, h2, h3, h4⟩ := ih (matchPair w p)
    simp only [matchesOp, List.foldl_cons] at h1 h2 h3 h4 ⊢
    rw [h1, h2, h3, h4, e]
    refine ⟨by simp only [List.map_cons, List.append_assoc, List.singleton_append], ?_, rfl, rfl⟩
    simp only [List.length_cons, List.range_succ_eq_map, List.map_cons, List.map_map, List.append_assoc, List.singleton_append,
      Nat.zero_add, List.length_append, List.length_nil, Nat.zero_add]
    congr 2
    apply List.map_congr_left
    intro k _
    simp only [Function.comp, Nat.succ_eq_add_one]
    omega

/-- the existing stubs keep serving their own sequences after a `Matches` (with `calls_kth`: the default given `[7]`
    still answers 7 forever) -/
example : (calls (matchesOp (createWhen none (some 7)) [(1, 5), (2, 6)]) [0, 1, 0, 2, 0]).map (·.2) =
    [.val 7, .val 5, .val 7, .val 6, .val 7] := by decide

/-- **in order + sticky + independent** (the sequential clause of the property, full strength):
    in any `When` state, for a stub `i` holding `n ≥ 1` results whose cursor is at the start, and for **every** list of
    calls (selecting `i` or any other stub or nothing, in any interleaving), the `k`-th of the calls that select `i`
    receives `results[min k (n-1)]`. -/
theorem calls_kth (w : When) (i : Nat) (m : Matcher) (as : List Nat) (hm : w.ms[i]? = some m) (hn : 1 ≤ m.results.length)
    (h0 : m.cur = 0) :
    outputsOf i (calls w as) =
      (List.range (as.filter (fun a => select w a == some i)).length).map
        (fun k => obsOf m.results[min k (m.results.length - 1)]?) := by
  have := calls_kth_gen i as w m hm hn (fun _ => h0)
  rw [this]
  apply List.map_congr_left
  intro k _
  simp only [expected, h0, Nat.zero_add]

example : outputsOf 1 (calls ⟨[⟨.always, [7, 8], 0⟩, ⟨.eq 5, [1, 2, 3], 0⟩], [1], some 0, none⟩ [5, 9, 5, 5, 9, 5, 9]) =
    [.val 1, .val 2, .val 3, .val 3] := by decide

/-- (What could break this in Go is aliasing — two matchers sharing one `*BaseMatcher` —, which the arena model cannot express:
    that half of independence rests on the differential runs, incl. two targets per builder and back-to-back variadic conditions.)
    **independence** (frame): a call never changes which stub any argument selects, and it leaves every stub other
    than the selected one — results and cursor — exactly as it was; conditions and the default therefore advance
    independently of each other. -/
theorem independent (w : When) (a : Nat) :
    (∀ b, select (call w a).2.2 b = select w b) ∧ (∀ i, select w a ≠ some i → (call w a).2.2.ms[i]? = w.ms[i]?) := by
  obtain ⟨-, h2, h3, -⟩ := call_shape w a
  exact ⟨h2, h3⟩

/-- the sequential clause end to end: configure a condition with `When(c).Returns(v, vs…)` on top of **any** existing
    configuration `w`; then for **every** list of calls the `k`-th call selecting the new stub gets `(v :: vs)[min k |vs|]`,
    whatever the other calls (which advance other conditions or the default) do in between. -/
theorem configured_sequence_served (w : When) (c : Cond) (v : Nat) (vs : List Nat) (as : List Nat) :
    let w' := rets (whenOp w c) (v :: vs)
    outputsOf w.ms.length (calls w' as) =
      (List.range (as.filter (fun a => select w' a == some w.ms.length)).length).map
        (fun k => obsOf (v :: vs)[min k vs.length]?) := by
  intro w'
  obtain ⟨h1, -, -, -, -⟩ := returns_builds_condition w c v vs
  have := calls_kth w' w.ms.length _ as h1 (by simp only [List.length_cons]; omega) rfl
  simpa only [List.length_cons, Nat.add_sub_cancel] using this

/-- and the same stub, in isolation, is a pure function of how many calls selected it: the sequence restarts for
    nobody, skips nothing, repeats only the last element -/
example : (calls (rets (whenOp (createWhen none (some 9)) (.eq 4)) [1, 2]) [4, 0, 4, 4, 0]).map (·.2) =
    [.val 1, .val 9, .val 2, .val 2, .val 9] := by decide

/-- declare conditions one after the other, each with its own non-empty sequence: `When(c₁).Returns(v₁, vs₁…)`, `When(c₂)…` -/
def configure (w : When) : List (Cond × Nat × List Nat) → When
  | [] => w
  | (c, v, vs) :: rest => configure (rets (whenOp w c) (v :: vs)) rest

/-- after a whole configuration every declared stub holds exactly its own sequence with the cursor at the start, and everything
    that existed before (older conditions, the default) is untouched — not only the stub declared last -/
theorem configure_stubs (specs : List (Cond × Nat × List Nat)) : ∀ (w : When),
    (∀ j c v vs, specs[j]? = some (c, v, vs) → (configure w specs).ms[w.ms.length + j]? = some ⟨c, v :: vs, 0⟩) ∧
    (∀ i, i < w.ms.length → (configure w specs).ms[i]? = w.ms[i]?) ∧ (configure w specs).dflt = w.dflt := by
  induction specs with
  | nil => intro w; exact ⟨fun j c v vs h => by simp at h, fun _ _ => rfl, rfl⟩
  | cons sp rest ih =>
    intro w
    obtain ⟨c0, v0, vs0⟩ := sp
    obtain ⟨r1, -, r3, r4, r5⟩ := returns_builds_condition w c0 v0 vs0
    obtain ⟨i1, i2, i3⟩ := ih (rets (whenOp w c0) (v0 :: vs0))
    simp only [configure]
    refine ⟨fun j c v vs h => ?_, fun i hi => ?_, by rw [i3, r3]⟩
    · cases j with
      | zero =>
        simp only [List.getElem?_cons_zero, Option.some.injEq, Prod.mk.injEq] at h
        obtain ⟨rfl, rfl, rfl⟩ := h
        rw [Nat.add_zero, i2 _ (by rw [r5]; omega)]; exact r1
      | succ j =>
        simp only [List.getElem?_cons_succ] at h
        have := i1 j c v vs h
        rw [r5] at this
        rw [show w.ms.length + (j + 1) = w.ms.length + 1 + j by omega]; exact this
    · rw [i2 i (by rw [r5]; omega)]; exact r4 i hi

/-- **every stub serves its own list** (whole-history form of the sequential clause): configure any number of conditions on
    top of any `When`; then for every declared stub `j` and every list of calls, the `k`-th call selecting stub `j` receives
    element `min k (n_j - 1)` of *its* sequence, whatever calls to the other stubs and the default happen in between. -/
theorem all_stubs_served (w : When) (specs : List (Cond × Nat × List Nat)) (j : Nat) (c : Cond) (v : Nat) (vs : List Nat)
    (hj : specs[j]? = some (c, v, vs)) (as : List Nat) :
    outputsOf (w.ms.length + j) (calls (configure w specs) as) =
      (List.range (as.filter (fun a => select (configure w specs) a == some (w.ms.length + j))).length).map
        (fun k => obsOf (v :: vs)[min k vs.length]?) := by
  have h1 := (configure_stubs specs w).1 j c v vs hj
  have := calls_kth (configure w specs) (w.ms.length + j) _ as h1 (by simp only [List.length_cons]; omega) rfl
  simpa only [List.length_cons, Nat.add_sub_cancel] using this

/-- **the default serves its own list** too: give the default `v :: vs` (mocker.Returns, or Return + AndReturn…), declare any
    conditions afterwards; the `k`-th call that falls through to the default receives element `min k |vs|`. -/
theorem default_sequence_served (v : Nat) (vs : List Nat) (specs : List (Cond × Nat × List Nat)) (as : List Nat) :
    let w := configure (rets (createWhen none none) (v :: vs)) specs
    w.dflt = some 0 ∧
    outputsOf 0 (calls w as) =
      (List.range (as.filter (fun a => select w a == some 0)).length).map (fun k => obsOf (v :: vs)[min k vs.length]?) := by
  intro w
  obtain ⟨d1, d2, -, -, -, -⟩ := returns_builds_default v vs
  obtain ⟨-, f2, f3⟩ := configure_stubs specs (rets (createWhen none none) (v :: vs))
  have h0 : w.ms[0]? = some ⟨.always, v :: vs, 0⟩ := by
    rw [f2 0 (by rw [d1]; exact Nat.zero_lt_one), d1]; rfl
  refine ⟨by rw [f3, d2], ?_⟩
  have := calls_kth w 0 _ as h0 (by simp only [List.length_cons]; omega) rfl
  simpa only [List.length_cons, Nat.add_sub_cancel] using this

example : (calls (configure (rets (createWhen none none) [7, 7, 8]) [(.eq 1, 1, [1, 2]), (.isIn [1, 2], 5, []), (.eq 3, 9, [9, 4])])
    [3, 1, 0, 2, 3, 1, 0, 3, 1, 0, 0, 2]).map (·.2) =
    [.val 9, .val 1, .val 7, .val 5, .val 9, .val 1, .val 7, .val 4, .val 2, .val 8, .val 8, .val 5] := by decide

/-! ## concurrent callers of one stub: every schedule -/

/-- every thread can always take its next step, so **every** list of thread ids is a schedule of the model: the
    theorems below, which quantify over all event lists accepted by `run`, exclude no interleaving -/
theorem sched_total (n : Nat) (σ : List Nat) : ∀ s : St, (run n s (sched n s σ)).isSome = true ∧ (sched n s σ).length = σ.length := by
  induction σ with
  | nil => intro s; exact ⟨rfl, rfl⟩
  | cons t σ ih =>
    intro s
    have hen : ∃ s', step n s (nextEv s t) = some s' := by
      unfold nextEv
      cases hpc : s.pc t with
      | idle => simp only [step, hpc]; exact ⟨_, rfl⟩
      | called => simp only [step, hpc]; exact ⟨_, rfl⟩
      | loaded v =>
        simp only [step, hpc]
        split
        · exact ⟨_, rfl⟩
        · split <;> exact ⟨_, rfl⟩
      | done r => simp only [step, hpc, if_true]; exact ⟨_, rfl⟩
    obtain ⟨s', hs'⟩ := hen
    obtain ⟨i1, i2⟩ := ih s'
    simp only [sched, hs', run, List.length_cons, i1, i2, and_self]

/-- a call that is not interleaved with anything behaves exactly like the sequential `serve` -/
theorem atomic_call_eq_serve (n : Nat) (s : St) (t : Nat) (h : s.pc t = .idle) :
    ∃ s', run n s [.inv t, .step t, .step t] = some s' ∧ s'.pc t = .done (serve n s.cur).1 ∧ s'.cur = (serve n s.cur).2 := by
  cases h1 : Gen.Cursor.singlePath n <;> cases h2 : Gen.Cursor.exhausted s.cur n <;>
    simp only [run, step, h, upd, if_true, serve, h1, h2, Bool.false_eq_true, if_false] <;>
    exact ⟨_, rfl, by simp only [upd, if_true], rfl⟩

/-- **every call receives an element of the sequence**: in every history of every number of threads, every returned
    index is `< n` (no out-of-range access, hence no panic) -/
theorem conc_in_range (n : Nat) (hn : 1 ≤ n) (w : List Ev) (s : St) (h : run n init w = some s) (t v : Nat)
    (hv : Ev.resp t v ∈ w) : v < n := by
  obtain ⟨p, r, rfl⟩ := List.append_of_mem hv
  obtain ⟨s1, h1, h2⟩ := run_append h
  obtain ⟨s2, h3, -⟩ := run_cons h2
  have hI := inv_run hn (inv_init n) h1
  cases step_rel h3 with
  | resp t v hpc => exact (hI.2.2 t v hpc).1

/-- **positions never go backwards, in real time**: if a call returned index `va` and another call (any thread) is
    *invoked* afterwards, that call returns `vb ≥ va`; more precisely it returns at least the next position, clamped
    to the last: `vb ≥ min (va+1) (n-1)`. -/
theorem conc_rt_monotone (n : Nat) (hn : 1 ≤ n) (p q r : List Ev) (a va b vb : Nat) (s : St)
    (h : run n init (p ++ Ev.resp a va :: (q ++ Ev.inv b :: r)) = some s) (hb : Ev.resp b vb ∈ r) :
    va ≤ vb ∧ min (va + 1) (n - 1) ≤ vb := by
  obtain ⟨s1, h1, h2⟩ := run_append h
  obtain ⟨s2, h3, h4⟩ := run_cons h2
  obtain ⟨s3, h5, h6⟩ := run_append h4
  obtain ⟨s4, h7, h8⟩ := run_cons h6
  have hI1 := inv_run hn (inv_init n) h1
  have hva : va < n ∧ (2 ≤ n → va + 1 ≤ s1.cur) := by
    cases step_rel h3 with
    | resp t v hpc => exact hI1.2.2 a va hpc
  have hvb : vb < n := conc_in_range n hn _ s h b vb (by simp only [List.mem_append, List.mem_cons]; right; right; right; right; exact hb)
  rcases Nat.lt_or_ge 1 n with h2n | h1n
  · have hc : va + 1 ≤ s3.cur :=
      Nat.le_trans (hva.2 h2n) (Nat.le_trans (cur_mono_step h3) (cur_mono_run h5))
    have hA : Above n (va + 1) b s4 := by
      cases step_rel h7 with
      | inv t hpc =>
        refine ⟨hc, fun v hu => ?_, fun r hu => ?_⟩ <;> simp only [upd, if_true] at hu <;> cases hu
    have := resp_above hA h8 vb hb
    omega
  · omega

/-- the hypotheses are met by real interleavings: thread 0 returns position 0, then thread 1 is invoked while thread 2 is still
    in flight -/
example : (run 3 init ([.inv 2, .inv 0, .step 0, .step 0] ++ Ev.resp 0 0 :: ([.step 2] ++ Ev.inv 1 :: [.step 1, .step 1, .resp 1 1, .step 2,
    .resp 2 1]))).isSome = true := by decide

/-- **sticky last**, the version that is true of the code: once a call has *returned* the last element, every call
    that *starts* afterwards returns the last element -/
theorem conc_sticky (n : Nat) (hn : 1 ≤ n) (p q r : List Ev) (a b vb : Nat) (s : St)
    (h : run n init (p ++ Ev.resp a (n - 1) :: (q ++ Ev.inv b :: r)) = some s) (hb : Ev.resp b vb ∈ r) : vb = n - 1 := by
  have h1 := conc_rt_monotone n hn p q r a (n - 1) b vb s h hb
  have h2 : vb < n := conc_in_range n hn _ s h b vb (by simp only [List.mem_append, List.mem_cons]; right; right; right; right; exact hb)
  omega

example : (run 2 init ([.inv 0, .step 0, .step 0, .resp 0 0, .inv 0, .step 0, .step 0] ++ Ev.resp 0 (2 - 1) :: ([.inv 5, .step 5] ++ Ev.inv 1 ::
    [.step 1, .step 1, .resp 1 1, .step 5, .resp 5 1]))).isSome = true := by decide

/-- **per caller, positions never go backwards** (and move on until the last element): consecutive results of one
    thread satisfy `v₂ ≥ min (v₁+1) (n-1) ≥ v₁` -/
theorem conc_thread_monotone (n : Nat) (hn : 1 ≤ n) (p r : List Ev) (t v1 v2 : Nat) (s : St)
    (h : run n init (p ++ Ev.resp t v1 :: r) = some s) (h2 : Ev.resp t v2 ∈ r) : v1 ≤ v2 ∧ min (v1 + 1) (n - 1) ≤ v2 := by
  obtain ⟨s1, h1, h3⟩ := run_append h
  obtain ⟨s2, h4, h5⟩ := run_cons h3
  have hI1 := inv_run hn (inv_init n) h1
  have hv2 : v2 < n := conc_in_range n hn _ s h t v2 (by simp only [List.mem_append, List.mem_cons]; right; right; exact h2)
  rcases Nat.lt_or_ge 1 n with h2n | h1n
  · have hA : Above n (v1 + 1) t s2 := by
      cases step_rel h4 with
      | resp t v hpc =>
        have := (hI1.2.2 t v1 hpc).2 h2n
        refine ⟨this, fun v hu => ?_, fun r hu => ?_⟩ <;> simp only [upd, if_true] at hu <;> cases hu
    have := resp_above hA h5 v2 h2
    have hv1 : v1 < n := by
      cases step_rel h4 with
      | resp t v hpc => exact (hI1.2.2 t v1 hpc).1
    omega
  · have hv1 : v1 < n := by
      cases step_rel h4 with
      | resp t v hpc => exact (hI1.2.2 t v1 hpc).1
    omega

/-- **the cursor cannot run away**: with at most `T` threads (ids `< T`) it never exceeds `n - 1 + T`, in every history -/
theorem conc_cur_bounded (n T : Nat) (hn : 1 ≤ n) (w : List Ev) (s : St) (hT : ∀ e ∈ w, e.tid < T)
    (h : run n init w = some s) : s.cur ≤ n - 1 + T := by
  have hB0 : Bound n T init := by unfold Bound; rw [pending_init]; simp only [init]; omega
  have := bound_run hn (inv_init n) hB0 hT h
  unfold Bound at this; omega

/-- hence the `int32` counter of `matcher.go:14` cannot wrap while results + callers stay below 2³¹ -/
theorem conc_no_int32_wrap (n T : Nat) (hn : 1 ≤ n) (hsz : n + T ≤ 2 ^ 31) (w : List Ev) (s : St) (hT : ∀ e ∈ w, e.tid < T)
    (h : run n init w = some s) : s.cur < 2 ^ 31 := by
  have := conc_cur_bounded n T hn w s hT h
  omega

/-- the bound is attained: `T` threads that all load `n-1` drive the cursor to `n - 1 + T` (here n = 2, T = 3) -/
example : (run 2 init [.inv 9, .step 9, .step 9, .resp 9 0, .inv 0, .inv 1, .inv 2, .step 0, .step 1, .step 2,
    .step 0, .step 1, .step 2]).map (·.cur) = some 4 := by decide

/-- the literal reading "after the last element has been returned nothing else is ever returned" is **false** for
    overlapping calls: thread 0 loads position 0, threads 1 and 2 then consume positions 0 and 1 (thread 2 returns the
    last element), and only then thread 0 finishes and returns position 0. -/
theorem literal_sticky_fails : ∃ (w : List Ev) (s : St) (p q : List Ev), run 2 init w = some s ∧
    w = p ++ Ev.resp 2 1 :: (q ++ [Ev.resp 0 0]) :=
  ⟨[.inv 0, .step 0, .inv 1, .step 1, .step 1, .resp 1 0, .inv 2, .step 2, .step 2, .resp 2 1, .step 0, .resp 0 0], _,
   [.inv 0, .step 0, .inv 1, .step 1, .step 1, .resp 1 0, .inv 2, .step 2, .step 2], [.step 0], rfl, rfl⟩

/-- the literal, return-order reading of "once the last element has been returned it is the only one returned", kept visible:
    in every history, every response that comes after a response carrying the last element carries the last element. -/
def LiteralSticky (n : Nat) : Prop :=
  ∀ (w : List Ev) (s : St) (p q : List Ev) (a t v : Nat), run n init w = some s → w = p ++ Ev.resp a (n - 1) :: q →
    Ev.resp t v ∈ q → v = n - 1

/-- it is false (already for two results and three callers) -/
theorem literal_sticky_false : ¬ LiteralSticky 2 := by
  intro h
  have hr : ∃ s, run 2 init [.inv 0, .step 0, .inv 1, .step 1, .step 1, .resp 1 0, .inv 2, .step 2, .step 2, .resp 2 1, .step 0,
      .resp 0 0] = some s := ⟨_, rfl⟩
  obtain ⟨s, hs⟩ := hr
  have := h _ s [.inv 0, .step 0, .inv 1, .step 1, .step 1, .resp 1 0, .inv 2, .step 2, .step 2] [.step 0, .resp 0 0] 2 0 0 hs rfl
    (by simp)
  exact absurd this (by decide)

/-- every internal step pair of a call is adjacent: each `Result()` executes atomically -/
def stepsAtomic : List Ev → Bool
  | .step t :: .step u :: rest => t == u && stepsAtomic rest
  | .step _ :: _ => false
  | _ :: rest => stepsAtomic rest
  | [] => true

/-- …and the literal (return-order) reading is false for **any** implementation, not because `Result()` uses two atomics:
    even when every call executes `Result()` atomically, a caller that obtained position 0 can be descheduled before it
    returns, and its return then follows the return of the last element.  No code can order the instants at which callers
    observe their results, so "once the last element has been returned it is the only one returned" can only be a statement
    about calls that start afterwards (`conc_sticky`). -/
theorem literal_sticky_fails_even_if_atomic : ∃ (w : List Ev) (s : St) (p : List Ev), run 2 init w = some s ∧
    stepsAtomic w = true ∧ w = p ++ [Ev.resp 2 1, Ev.resp 0 0] :=
  ⟨[.inv 0, .step 0, .step 0, .inv 2, .step 2, .step 2, .resp 2 1, .resp 0 0], _,
   [.inv 0, .step 0, .step 0, .inv 2, .step 2, .step 2], rfl, rfl, rfl⟩

/-! ## trace validation -/

/-- the property on an observed history (visible events `inv`/`resp` in stamp order) -/
def HistOK (n : Nat) (h : List Ev) : Prop :=
  (∀ t v, Ev.resp t v ∈ h → v < n) ∧
  (∀ l1 l2 l3 a va b vb, h = l1 ++ Ev.resp a va :: (l2 ++ Ev.inv b :: l3) → Ev.resp b vb ∈ l3 →
      va ≤ vb ∧ min (va + 1) (n - 1) ≤ vb ∧ (va = n - 1 → vb = n - 1)) ∧
  (∀ l1 l2 t v1 v2, h = l1 ++ Ev.resp t v1 :: l2 → Ev.resp t v2 ∈ l2 → v1 ≤ v2)

/-- **soundness of trace validation**: a history of the real implementation that the model admits (some insertion of
    internal steps makes it a run) satisfies the concurrent clause of the property -/
theorem admits_sound (n : Nat) (hn : 1 ≤ n) (w : List Ev) (h : admits n w = true) : HistOK n (obs w) := by
  unfold admits at h
  obtain ⟨s, hs⟩ := Option.isSome_iff_exists.1 h
  have mem_obs : ∀ {u : List Ev} {e : Ev}, e ∈ obs u → e ∈ u := fun hm => (List.mem_filter.1 hm).1
  refine ⟨fun t v hv => conc_in_range n hn w s hs t v (mem_obs hv), ?_, ?_⟩
  · intro l1 l2 l3 a va b vb he hb
    obtain ⟨w1, w2, rfl, hw2⟩ := obs_split he
    obtain ⟨w3, w4, rfl, hw4⟩ := obs_split hw2
    have hb' : Ev.resp b vb ∈ w4 := mem_obs (by rw [hw4]; exact hb)
    have h1 := conc_rt_monotone n hn w1 w3 w4 a va b vb s hs hb'
    refine ⟨h1.1, h1.2, fun e => ?_⟩
    subst e
    exact conc_sticky n hn w1 w3 w4 a b vb s hs hb'
  · intro l1 l2 t v1 v2 he h2
    obtain ⟨w1, w2, rfl, hw2⟩ := obs_split he
    exact (conc_thread_monotone n hn w1 w2 t v1 v2 s hs (mem_obs (by rw [hw2]; exact h2))).1

/-- a racing history (two threads load the same position) is admitted, so the hypothesis of `admits_sound` is met by
    histories in which the race window was hit -/
example : admits 3 [.inv 0, .inv 1, .step 0, .step 1, .step 0, .step 1, .resp 0 0, .resp 1 0, .inv 0, .step 0, .step 0,
    .resp 0 2] = true := by decide

/-- and a history that goes backwards is rejected -/
example : admits 3 [.inv 0, .step 0, .step 0, .resp 0 1] = false := by decide

end C05
