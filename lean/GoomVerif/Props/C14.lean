import GoomVerif.Lemmas.C14L
import GoomVerif.Lemmas.C14HL
/-!
# C14 — a patch touches only the target's entry bytes and leaves pages read+execute

All theorems quantify over **every** 64-bit address `a`, **every** byte list `data` (any length, any number of page
crossings) and **every** address-space state `s`.  `Gen.Page.PageStart` (inside `pageOf`/`pages`) is regenerated from
`internal/bytecode/memory/memory.go:15` on every run; `Mem.writeTo`/`Mem.pages` transcribe `mwrite_amd64.go:19` and
`mwrite_unix.go:11` and are tied to the real code by the differential run (real `WriteTo` under `strace`).

`NoWrap a n := a.toNat + n ≤ 2^64 - 4096` (the write stays below the last page of the address space) is the explicit
hypothesis under which `addr+uintptr(length)` and `p += pageSize` do not wrap; `pages_wrapped_empty` says what the code
does otherwise (it changes no protection, so the copy would fault).  `MappedAll s (pages a n)` is "every visited page is
mapped"; `s.denyWX = false` is "the kernel has no W^X policy".  With a W^X policy the RWX request is refused and `writeTo`
takes the fall-back of `mwrite_prot.go`, modelled as `Mem.fallbackWrite`: it is correct for bytes and final protections
(`fallback_write_correct`) but goes through rw-, i.e. drops x for the duration — the full statement `XKeptOnEveryPath` is
false there (`Findings/C14Fallback.lean`), `x_kept_finally_partial` carries the hypothesis.
-/
namespace C14
open Mem C14L

/-! ## which pages `mProtectCrossPage` touches -/

/-- **cover**: every byte of the write lies in a page the loop visits. -/
theorem pages_cover (a : Addr) (n i : Nat) (h : NoWrap a n) (hi : i < n) :
    pageOf (a + BitVec.ofNat 64 i) ∈ pages a n :=
  C14L.pages_cover a n i h hi

/-- **tight**: a non-empty write visits no page that does not hold one of its bytes. -/
theorem pages_tight (a : Addr) (n : Nat) (p : Addr) (h : NoWrap a n) (hn : 0 < n) (hp : p ∈ pages a n) :
    ∃ i, i < n ∧ pageOf (a + BitVec.ofNat 64 i) = p :=
  C14L.pages_tight a n p h hn hp

/-- hypotheses satisfiable with two page crossings: 5000 bytes from 0x401ffa touch exactly three pages -/
example : NoWrap 0x401ffa#64 5000 ∧ pages 0x401ffa#64 5000 = [0x401000#64, 0x402000#64, 0x403000#64] := by
  constructor
  · unfold NoWrap; decide
  · decide

/-- the loop ends by its own condition: extra fuel never adds a page (the fuel in `Mem.pages` is not a cut-off). -/
theorem pages_fuel_irrelevant (a : Addr) (n extra : Nat) (h : NoWrap a n) (q : Addr) :
    q ∈ pagesLoop (n / pageSize + 2 + extra) (Gen.Page.PageStart a) (a + BitVec.ofNat 64 n) ↔ q ∈ pages a n := by
  have hlim : (a + BitVec.ofNat 64 n).toNat = a.toNat + n := add_toNat_of_le a n n h (Nat.le_refl _)
  have hn : NoWrap a n := h
  unfold NoWrap at hn
  rw [mem_pages a n q h, mem_pagesLoop _ _ _ q (by rw [ps_toNat]; omega) (by rw [hlim]; omega)
    (by rw [hlim, ps_toNat]; simp only [pageSize]; omega), hlim, ps_toNat]

/-- what the code does when `addr+length` wraps past 2^64 (`length` is a Go `int`, so `< 2^63`): the loop condition is
    false at once, **no** protection is changed (and the copy then faults on a read-only page).  Not reachable for
    user-space addresses; stated so the `NoWrap` hypothesis is not hiding anything. -/
theorem pages_wrapped_empty (a : Addr) (n : Nat) (hn : n < 2^63) (hw : 2^64 ≤ a.toNat + n) : pages a n = [] := by
  unfold pages
  have hlim : (a + BitVec.ofNat 64 n).toNat = a.toNat + n - 2^64 := by
    have := a.isLt
    simp only [BitVec.toNat_add, BitVec.toNat_ofNat]; omega
  have : ¬ (Gen.Page.PageStart a < a + BitVec.ofNat 64 n) := by
    intro hlt
    have := BitVec.lt_def.mp hlt
    rw [hlim, ps_toNat] at this
    have := a.isLt
    omega
  simp only [pagesLoop, this, if_false]

/-! ## `WriteTo`: bytes -/

/-- **frame** (unconditional — also on every failing path): a byte outside `[a, a+len data)` is never changed. -/
theorem write_frame (a : Addr) (data : List Byte) (s : State) (q : Addr)
    (hq : ∀ j, j < data.length → q ≠ a + BitVec.ofNat 64 j) :
    (writeTo a data s).1.mem q = s.mem q := by
  exact writeTo_frame a data s q hq

/-- **intact + success**: when `mprotect` is not refused the write succeeds and every byte `data[j]` is at `a+j`
    afterwards, across any number of page boundaries. -/
theorem write_intact (a : Addr) (data : List Byte) (s : State) (h : NoWrap a data.length)
    (hm : MappedAll s (pages a data.length)) (hd : s.denyWX = false) :
    (writeTo a data s).2 = Outcome.ok ∧
    ∀ j (hj : j < data.length), (writeTo a data s).1.mem (a + BitVec.ofNat 64 j) = data[j] := by
  obtain ⟨s', hw, _, hval⟩ := writeTo_spec a data s h hm hd
  rw [hw]
  exact ⟨rfl, hval⟩

/-- a two-page-crossing write whose hypotheses hold: all pages mapped r-x, 5000 bytes from 0x401ffa
    (the same two hypotheses are those of `final_perms`, `no_page_left_writable` and `copy_never_faults` below; the
    extra hypothesis of `no_page_left_writable`, "no page writable before", holds in this state too) -/
example : ∃ s : State, NoWrap 0x401ffa#64 (List.replicate 5000 (0x90#8)).length ∧
    MappedAll s (pages 0x401ffa#64 (List.replicate 5000 (0x90#8)).length) :=
  ⟨{ mem := fun _ => 0, perm := fun _ => some RX }, by simp only [List.length_replicate]; unfold NoWrap; decide, fun _ _ => rfl⟩

/-- **length 0 is a no-op on memory** (unconditional).  On protections it is *not* quite nothing: see `pages_zero`. -/
theorem write_empty_mem (a : Addr) (s : State) : (writeTo a [] s).1.mem = s.mem := by
  funext q
  exact write_frame a [] s q (fun j hj => by cases hj)

/-- `mProtectCrossPage(a, 0, _)` visits no page when `a` is page-aligned and exactly the page of `a` otherwise
    (`PageStart(a) < a+0`): an empty write flips that one page to RWX and back to RX. -/
theorem pages_zero (a : Addr) (h : NoWrap a 0) (q : Addr) :
    q ∈ pages a 0 ↔ (a.toNat % 4096 ≠ 0 ∧ q = pageOf a) := by
  rw [mem_pages a 0 q h]
  constructor
  · intro hq
    refine ⟨by omega, ?_⟩
    apply BitVec.eq_of_toNat_eq
    rw [pageOf_toNat]; omega
  · rintro ⟨hna, rfl⟩
    rw [pageOf_toNat]; omega

/-! ## `WriteTo`: protections -/

/-- **x is never dropped**: at *every* prefix of the script (every intermediate state of `WriteTo`, whether or not a
    later step fails) a page that was executable is still mapped and executable — other threads keep running. -/
theorem x_never_dropped (a : Addr) (data : List Byte) (s : State) (k : Nat) (p : Addr) (hx : Exec s p) :
    Exec (run s ((script a data).take k)).1 p :=
  run_exec _ s p (xkeeping_take _ k (script_xkeeping a data)) hx

/-- when the RWX request is not refused, the states of the procedural `writeTo` are exactly the states of that script
    (it stops at the first failing step) -/
theorem writeTo_runs_script (a : Addr) (data : List Byte) (s : State)
    (h1 : (run s (protScript a data.length RWX)).2 = none) :
    (writeTo a data s).1 = (run s (script a data)).1 :=
  writeTo_state a data s h1

/-- the full-strength clause "pages remain executable throughout", on every path of `WriteTo`: FALSE on the fall-back
    path (see `Findings/C14Fallback.lean`); kept visible here. -/
def XKeptOnEveryPath : Prop :=
  ∀ (a : Addr) (data : List Byte) (s : State) (p : Addr), Exec s p →
    (∀ k, Exec (run s ((script a data).take k)).1 p) ∧
    ((run s (protScript a data.length RWX)).2 ≠ none →
      ∀ k, Exec (run (run s (protScript a data.length RWX)).1 ((fallbackScript a data).take k)).1 p)

/-- … hence also in the final state of `WriteTo`, on every path on which the RWX request was not refused (including all
    later failures).  Excluded: the fall-back `mwrite_prot.go:3008`, which requests rw- . -/
theorem x_kept_finally_partial (a : Addr) (data : List Byte) (s : State) (p : Addr) (hx : Exec s p)
    (h1 : (run s (protScript a data.length RWX)).2 = none) :
    Exec (writeTo a data s).1 p := by
  rw [writeTo_state a data s h1]
  exact run_exec _ s p (script_xkeeping a data) hx

/-- the hypothesis of `x_kept_finally_partial` holds whenever the visited pages are mapped and there is no W^X policy -/
theorem rwx_not_refused (a : Addr) (data : List Byte) (s : State)
    (hm : MappedAll s (pages a data.length)) (hd : s.denyWX = false) :
    (run s (protScript a data.length RWX)).2 = none := by
  simp only [protScript]
  rw [run_prot RWX _ s hm (by simp [Allowed, hd])]

/-- **the fall-back is correct for bytes and final protections**: with a W^X policy (every RWX request refused) and all
    visited pages mapped, `WriteTo` still returns nil, the data is intact, and exactly the visited pages end r-x. -/
theorem fallback_write_correct (a : Addr) (data : List Byte) (s : State) (h : NoWrap a data.length)
    (hm : MappedAll s (pages a data.length)) (hd : s.denyWX = true) :
    (writeTo a data s).2.returned = true ∧
    (∀ j (hj : j < data.length), (writeTo a data s).1.mem (a + BitVec.ofNat 64 j) = data[j]) ∧
    ∀ q, (writeTo a data s).1.perm q = if q ∈ pages a data.length then some RX else s.perm q := by
  cases hp : pages a data.length with
  | nil =>
    -- nothing to protect (empty write at an aligned address): the first pass is empty and succeeds
    have hw : writeTo a data s = (writeTo a data s) := rfl
    have hlen : data.length = 0 := by
      cases hdl : data.length with
      | zero => rfl
      | succ n =>
        have := C14L.pages_cover a data.length 0 h (by omega)
        rw [hp] at this
        cases this
    have hnil : data = [] := List.eq_nil_of_length_eq_zero hlen
    subst hnil
    simp only [writeTo, protScript, copyScript, copyFrom, List.length_nil] at hp ⊢
    simp only [hp, List.map_nil, run, Outcome.returned, List.not_mem_nil, if_false, true_and]
    exact ⟨fun j hj => absurd hj (Nat.not_lt_zero _), fun _ => True.intro⟩
  | cons p0 rest =>
    have h1 := run_rwx_denied a data.length s hd p0 rest hp hm
    obtain ⟨s', hf, hperm, hval⟩ := fallback_spec a data (Err.eacces p0) s h hm
    have hw : writeTo a data s = (s', Outcome.okFallback (Err.eacces p0)) := by
      simp only [writeTo, h1, hf]
    rw [hw]
    refine ⟨rfl, hval, ?_⟩
    intro q
    simp only [hperm, setMany, hp]

/-- a state with a W^X policy in which the hypotheses of `fallback_write_correct` hold (13 bytes across a page end) -/
example : ∃ s : State, s.denyWX = true ∧ NoWrap 0x401ffa#64 13 ∧ MappedAll s (pages 0x401ffa#64 13) :=
  ⟨{ mem := fun _ => 0, perm := fun _ => some RX, denyWX := true }, rfl, by unfold NoWrap; decide, fun _ _ => rfl⟩

/-- **final protections**: exactly the visited pages end as r-x, every other page keeps its protection. -/
theorem final_perms (a : Addr) (data : List Byte) (s : State) (h : NoWrap a data.length)
    (hm : MappedAll s (pages a data.length)) (hd : s.denyWX = false) (q : Addr) :
    (writeTo a data s).1.perm q = if q ∈ pages a data.length then some RX else s.perm q := by
  obtain ⟨s', hw, hperm, _⟩ := writeTo_spec a data s h hm hd
  rw [hw]
  simp only [hperm, setMany]

/-- **no page left writable** if none was before. -/
theorem no_page_left_writable (a : Addr) (data : List Byte) (s : State) (h : NoWrap a data.length)
    (hm : MappedAll s (pages a data.length)) (hd : s.denyWX = false)
    (hnw : ∀ p pr, s.perm p = some pr → pr.w = false) :
    ∀ p pr, (writeTo a data s).1.perm p = some pr → pr.w = false := by
  intro p pr hp
  rw [final_perms a data s h hm hd p] at hp
  split at hp
  · cases hp; rfl
  · exact hnw p pr hp

/-- **no page of the program image is left writable** — the clause as the property states it, for a real process whose
    heap/stack/.data are of course writable: for ANY set `img` of pages (the text segment, the whole image, …) on which no
    page was writable before, none is writable afterwards; pages outside `img` are not constrained.  Holds with and
    without a W^X policy (normal path and fall-back). -/
theorem no_image_page_left_writable (a : Addr) (data : List Byte) (s : State) (img : Addr → Prop)
    (h : NoWrap a data.length) (hm : MappedAll s (pages a data.length))
    (hnw : ∀ p pr, img p → s.perm p = some pr → pr.w = false) :
    ∀ p pr, img p → (writeTo a data s).1.perm p = some pr → pr.w = false := by
  intro p pr hi hp
  have hfin : (writeTo a data s).1.perm p = if p ∈ pages a data.length then some RX else s.perm p := by
    cases hd : s.denyWX with
    | false => exact final_perms a data s h hm hd p
    | true => exact (fallback_write_correct a data s h hm hd).2.2 p
  rw [hfin] at hp
  split at hp
  · cases hp; rfl
  · exact hnw p pr hi hp

/-- non-vacuity: a process with a writable heap page (outside `img`) and an r-x text page (inside), writing 13 bytes to
    the text page -/
example : ∃ (s : State) (img : Addr → Prop), (∃ p pr, s.perm p = some pr ∧ pr.w = true) ∧ img 0x401000#64 ∧
    NoWrap 0x401100#64 13 ∧ MappedAll s (pages 0x401100#64 13) ∧
    (∀ p pr, img p → s.perm p = some pr → pr.w = false) :=
  ⟨{ mem := fun _ => 0, perm := fun p => if p = 0x401000#64 then some RX else some RW }, fun p => p = 0x401000#64,
    ⟨0xc000000000#64, RW, by decide, rfl⟩, rfl, by unfold NoWrap; decide, fun _ _ => by
      show (if _ = _ then some RX else some RW).isSome = true
      split <;> rfl,
    fun p pr hi hp => by
      have hi' : p = 0x401000#64 := hi
      subst hi'
      simp only [if_true] at hp
      cases hp; rfl⟩

/-- **the copy never faults**: at copy time (after the first `mprotect` pass) every byte to be written lies in a page
    that is RWX. -/
theorem copy_never_faults (a : Addr) (data : List Byte) (s : State) (h : NoWrap a data.length)
    (hm : MappedAll s (pages a data.length)) (hd : s.denyWX = false) (j : Nat) (hj : j < data.length) :
    (run s (protScript a data.length RWX)).1.perm (pageOf (a + BitVec.ofNat 64 j)) = some RWX := by
  simp only [protScript]
  rw [run_prot RWX _ s hm (by simp [Allowed, hd])]
  simp only [setMany, C14L.pages_cover a data.length j h hj, if_true]

/-! ## patch layer (jumpdata.go, guard.go, fix_origin_amd64.go) -/

/-- the entry jump is 13 bytes for every origin/target (generated `jmpToFunctionValue`) -/
theorem jump_len (origin to : Addr) : (Gen.Amd64.jmpToFunctionValue origin to).length = 13 := by
  simp [Gen.Amd64.jmpToFunctionValue]

/-- **too short is refused before anything is written**: `funcSize ≤ 13` → error, state untouched (bytes and
    protections), whatever placeholder was supplied. -/
theorem too_short_refused (origin to : Addr) (funcSize : Nat) (tramp : Option (Addr × Nat × List Byte)) (s : State)
    (h : funcSize ≤ 13) :
    install origin to funcSize tramp s = (s, InstallRes.refused "jumpInstSize-bigger-than-origin-FuncSize") := by
  simp only [install, genJumpData, jump_len, ge_iff_le, h, if_true]

/-- conversely a longer function is not refused for its size -/
theorem long_enough_accepted (origin to : Addr) (funcSize : Nat) (s : State) (h : 13 < funcSize) :
    ∃ s' o, install origin to funcSize none s = (s', InstallRes.done o) := by
  have : ¬ funcSize ≤ 13 := by omega
  simp only [install, genJumpData, jump_len, ge_iff_le, this, if_false]
  exact ⟨_, _, rfl⟩

/-- `q` is one of the `n` bytes starting at `a` -/
def InRange (a : Addr) (n : Nat) (q : Addr) : Prop := ∃ j, j < n ∧ q = a + BitVec.ofNat 64 j

/-- **only the entry bytes (and the placeholder's own body)**: whatever `install` does — success, refusal, or failure
    half-way — a byte outside the first `funcSize` (indeed the first 13) bytes of the target and outside the
    placeholder's own `trampFuncSize` bytes is unchanged.  So no byte of a neighbouring function changes. -/
theorem install_touches_only (origin to : Addr) (funcSize : Nat) (tramp : Option (Addr × Nat × List Byte))
    (s : State) (q : Addr)
    (hq : ¬ InRange origin (min 13 funcSize) q)
    (ht : ∀ t tsize fix, tramp = some (t, tsize, fix) → ¬ InRange t tsize q) :
    (install origin to funcSize tramp s).1.mem q = s.mem q := by
  simp only [install, genJumpData, jump_len, ge_iff_le]
  by_cases hsz : funcSize ≤ 13
  · simp only [hsz, if_true]
  · simp only [hsz, if_false]
    have hentry : ∀ s0 : State, (writeTo origin (Gen.Amd64.jmpToFunctionValue origin to) s0).1.mem q = s0.mem q := by
      intro s0
      apply write_frame
      intro j hj e
      rw [jump_len] at hj
      exact hq ⟨j, by omega, e⟩
    cases tramp with
    | none => exact hentry s
    | some tr =>
      obtain ⟨t, tsize, fix⟩ := tr
      simp only [jump_len]
      by_cases hacc : trampolineAccepts 13 tsize fix.length = true
      · simp only [hacc, if_true]
        have hfix : (writeTo t fix s).1.mem q = s.mem q := by
          apply write_frame
          intro j hj e
          simp only [trampolineAccepts, Bool.and_eq_true, Bool.not_eq_true', decide_eq_false_iff_not] at hacc
          exact ht t tsize fix rfl ⟨j, by omega, e⟩
        rcases hw : writeTo t fix s with ⟨s1, o⟩
        rw [hw] at hfix
        simp only
        split
        · show (writeTo origin _ s1).1.mem q = s.mem q
          rw [hentry s1]; exact hfix
        · exact hfix
      · simp only [hacc]
        rfl

/-- `Unpatch` writes back 13 bytes at the entry: same frame. -/
theorem unpatch_touches_only (origin : Addr) (originBytes : List Byte) (s : State) (q : Addr)
    (hq : ¬ InRange origin originBytes.length q) : (unpatch origin originBytes s).1.mem q = s.mem q := by
  apply write_frame
  intro j hj e
  exact hq ⟨j, hj, e⟩

/-- **removing a mock restores the exact bytes**: if `originBytes` are the bytes that were at the entry before (what
    `checkAndReadOriginBytes` read, jumpdata.go:66) then after `Apply` followed by `Unpatch` the whole memory is what it
    was, and the touched pages are r-x. -/
theorem unpatch_restores (origin to : Addr) (funcSize : Nat) (s : State) (originBytes : List Byte)
    (hsz : 13 < funcSize) (hlen : originBytes.length = 13)
    (hob : ∀ j (hj : j < originBytes.length), originBytes[j] = s.mem (origin + BitVec.ofNat 64 j))
    (h : NoWrap origin 13) (hm : MappedAll s (pages origin 13)) (hd : s.denyWX = false) :
    ∃ s1, install origin to funcSize none s = (s1, InstallRes.done Outcome.ok) ∧
      (unpatch origin originBytes s1).2 = Outcome.ok ∧ (unpatch origin originBytes s1).1.mem = s.mem := by
  have hnot : ¬ funcSize ≤ 13 := by omega
  have hjl := jump_len origin to
  have hN : NoWrap origin (Gen.Amd64.jmpToFunctionValue origin to).length := by rw [hjl]; exact h
  have hM : MappedAll s (pages origin (Gen.Amd64.jmpToFunctionValue origin to).length) := by rw [hjl]; exact hm
  obtain ⟨s1, hw, hperm, _⟩ := writeTo_spec origin (Gen.Amd64.jmpToFunctionValue origin to) s hN hM hd
  have hd1 : s1.denyWX = false := by
    have := writeTo_deny origin (Gen.Amd64.jmpToFunctionValue origin to) s
    rw [hw] at this
    rw [this, hd]
  refine ⟨s1, ?_, ?_⟩
  · simp only [install, genJumpData, jump_len, ge_iff_le, hnot, if_false, hw]
  · have hN2 : NoWrap origin originBytes.length := by rw [hlen]; exact h
    have hM2 : MappedAll s1 (pages origin originBytes.length) := by
      intro p hp
      rw [hlen] at hp
      rw [hperm, hjl]
      simp only [setMany, hp, if_true, Option.isSome_some]
    have hi := write_intact origin originBytes s1 hN2 hM2 hd1
    refine ⟨hi.1, ?_⟩
    funext q
    by_cases hq : ∃ j, j < originBytes.length ∧ q = origin + BitVec.ofNat 64 j
    · obtain ⟨j, hj, rfl⟩ := hq
      show (writeTo origin originBytes s1).1.mem _ = _
      rw [hi.2 j hj, hob j hj]
    · have hq' : ∀ j, j < originBytes.length → q ≠ origin + BitVec.ofNat 64 j := fun j hj e => hq ⟨j, hj, e⟩
      show (writeTo origin originBytes s1).1.mem q = _
      rw [write_frame origin originBytes s1 q hq']
      have : (writeTo origin (Gen.Amd64.jmpToFunctionValue origin to) s).1.mem q = s.mem q := by
        apply write_frame
        intro j hj
        rw [hjl] at hj
        exact hq' j (by omega)
      rw [hw] at this
      exact this

/-- the same for the bytes goom really saves, `RawRead(origin, len(jumpData))` (patch.go:123): they are 13 bytes, so
    `Unpatch` writes exactly the entry jump's extent (`unpatch_touches_only`) and restores memory. -/
theorem unpatch_restores_saved (origin to : Addr) (funcSize : Nat) (s : State) (hsz : 13 < funcSize)
    (h : NoWrap origin 13) (hm : MappedAll s (pages origin 13)) (hd : s.denyWX = false) :
    (savedOriginBytes s origin to).length = 13 ∧
    ∃ s1, install origin to funcSize none s = (s1, InstallRes.done Outcome.ok) ∧
      (unpatch origin (savedOriginBytes s origin to) s1).2 = Outcome.ok ∧
      (unpatch origin (savedOriginBytes s origin to) s1).1.mem = s.mem := by
  have hlen : (savedOriginBytes s origin to).length = 13 := by
    simp only [savedOriginBytes, readBytes, List.length_map, List.length_range, jump_len]
  refine ⟨hlen, unpatch_restores origin to funcSize s _ hsz hlen ?_ h hm hd⟩
  intro j hj
  simp only [savedOriginBytes, readBytes, List.getElem_map, List.getElem_range]

/-- the hypotheses of `unpatch_restores` hold for a 32-byte function of INT3 at 0x401fe0 in an all-r-x image -/
example : ∃ (s : State) (ob : List Byte), ob.length = 13 ∧
    (∀ j (hj : j < ob.length), ob[j] = s.mem (0x401fe0#64 + BitVec.ofNat 64 j)) ∧
    NoWrap 0x401fe0#64 13 ∧ MappedAll s (pages 0x401fe0#64 13) :=
  ⟨{ mem := fun _ => 0xcc#8, perm := fun _ => some RX }, List.replicate 13 (0xcc#8), by simp,
    fun j hj => by simp only [List.getElem_replicate], by unfold NoWrap; decide, fun _ _ => rfl⟩

/-- the hypotheses of `install_touches_only` are satisfiable: a 32-byte function at 0x401fe0 with a neighbour starting
    at 0x402000 — the neighbour's first byte is outside the written range. -/
example : ¬ InRange 0x401fe0#64 (min 13 32) 0x402000#64 := by
  rintro ⟨j, hj, e⟩
  have := congrArg BitVec.toNat e
  simp only [BitVec.toNat_add, BitVec.toNat_ofNat] at this
  omega

/-! ## histories: any sequence of Patch / Apply / Unpatch / Restore / Unpatch(fn) / UnpatchAll over several targets,
      with the environment unmapping pages in between (Model/MemHist.lean)

`LOK L`: every 13-byte entry lies in one page (function entries are 16/32-byte aligned).  `GOK L h`: the guards the caller
holds belong to their targets and hold 13+13 bytes — true of the empty initial state and preserved (`hist_guards`). -/

open C14HL in
/-- **only entry bytes, after any history**: whatever sequence of installs, removals, re-installs, `Restore`s and
    `UnpatchAll`s ran — including operations that panicked because a target's memory had been unmapped — a byte outside
    the 13 entry bytes of the targets is unchanged. -/
theorem hist_frame (L : Layout) (hL : LOK L) (h : HState) (hG : GOK L h) (ops : List HOp) (q : Addr)
    (hq : ∀ i j, j < 13 → q ≠ L.org i + BitVec.ofNat 64 j) : (hrun L h ops).m.mem q = h.m.mem q :=
  (hrun_rel L hL ops h hG).1.2 q hq

open C14HL in
/-- **no image page left writable, after any history**: for any set `img` of pages none of which was writable before,
    none is writable afterwards — on every path, also when an operation in the middle (e.g. `UnpatchAll` reaching a target
    in unmapped memory) panicked, with or without a W^X policy.  Every page ends with the protection it had, or r-x, or
    unmapped by the environment. -/
theorem hist_no_image_page_left_writable (L : Layout) (hL : LOK L) (h : HState) (hG : GOK L h) (ops : List HOp)
    (img : Addr → Prop) (hnw : ∀ p pr, img p → h.m.perm p = some pr → pr.w = false) :
    ∀ p pr, img p → (hrun L h ops).m.perm p = some pr → pr.w = false := by
  intro p pr hi hp
  rcases (hrun_rel L hL ops h hG).1.1 p with e | e | e
  · rw [e] at hp; exact hnw p pr hi hp
  · rw [e] at hp; cases hp; rfl
  · rw [e] at hp; cases hp

open C14HL in
/-- **the saved bytes are always 13**: after any history every guard still belongs to its target and holds 13 original and
    13 jump bytes, so no later `Unpatch`/`Restore` can write beyond the entry jump. -/
theorem hist_guards (L : Layout) (hL : LOK L) (h : HState) (hG : GOK L h) (ops : List HOp) : GOK L (hrun L h ops) :=
  (hrun_rel L hL ops h hG).2

open C14HL in
/-- **an operation on one target writes only at that target's entry**: `Patch`/`Ptr`, `Apply`, `Unpatch`, `Restore` and
    `Unpatch(fn)` of target `i` — also of a target that carries no patch, and whatever other targets are mocked at the time —
    leave every byte outside `[org i, org i + 13)` unchanged; in particular no other target's mock is installed or removed. -/
theorem step_writes_only_own_entry (L : Layout) (h : HState) (hG : GOK L h) (op : HOp) (i : Nat)
    (ht : op.target = some i) (q : Addr) (hq : ∀ j, j < 13 → q ≠ L.org i + BitVec.ofNat 64 j) :
    (hstep L h op).1.m.mem q = h.m.mem q :=
  hstep_rel1 L h hG op i ht q hq

open C14HL in
/-- **too short stays refused**: a target whose scanned size is ≤ 13 never obtains a guard, however often `Patch` is
    retried and whatever happens in between (a refused attempt stays registered, patch.go:109 — that must not turn a
    later attempt into an acceptance); so nothing is ever written at its entry by `Apply`/`Unpatch`/`Restore`/`UnpatchAll`. -/
theorem hist_short_never_patched (L : Layout) (i : Nat) (hs : L.fsz i ≤ 13) (h : HState) (hn : h.slots i = none)
    (ops : List HOp) : (hrun L h ops).slots i = none :=
  hrun_short L i hs ops h hn

/-- … and every single attempt is refused (or aborted by a panicking removal of the stale registration), never accepted -/
theorem short_patch_never_ok (L : Layout) (i : Nat) (hs : L.fsz i ≤ 13) (h : HState) :
    (hstep L h (.patch i)).2 ≠ HRes.ok := by
  simp only [hstep]
  split
  · intro e; cases e
  · simp only [patchAfter, genJumpData, jump_len, ge_iff_le, hs, if_true]
    intro e; cases e

/-- non-vacuity for the three theorems above: a 9-byte target (8 code + 1 padding) next to an ordinary one, after a first
    refused attempt (stale registration in the table) -/
example : ∃ (L : Layout) (h : HState), L.fsz 0 ≤ 13 ∧ h.slots 0 = none ∧ h.table = [(0, false)] ∧ C14HL.GOK L h ∧
    (HOp.unpatchFn 1).target = some 1 :=
  ⟨{ org := fun i => if i = 0 then 0x7f0000001000#64 else 0x401fe0#64, fsz := fun i => if i = 0 then 9 else 64, to := 0xc000001000#64 },
   { m := { mem := fun _ => 0xcc#8, perm := fun _ => some RX }, slots := fun _ => none, table := [(0, false)] },
   by decide, rfl, rfl, (fun _ _ hs => by simp at hs), rfl⟩

/-- non-vacuity: two targets 32 bytes apart in a text page, a third in separately mapped code; the empty initial
    state; a history that patches all three, applies them, loses the third's memory and calls `UnpatchAll` -/
example : ∃ (L : Layout) (h : HState) (ops : List HOp), C14HL.LOK L ∧ C14HL.GOK L h ∧ ops.length = 8 :=
  ⟨{ org := fun i => if i = 0 then 0x401fc0#64 else if i = 1 then 0x401fe0#64 else 0x7f0000000000#64, fsz := fun _ => 64,
     to := 0xc000001000#64 },
   { m := { mem := fun _ => 0xcc#8, perm := fun _ => some RX }, slots := fun _ => none, table := [] },
   [.patch 0, .apply 0, .patch 1, .apply 1, .patch 2, .apply 2, .unmap 0x7f0000000000#64, .unpatchAll],
   by
     intro i
     by_cases h0 : i = 0
     · subst h0; exact ⟨by unfold C14L.NoWrap; decide, 0x401000#64, by decide⟩
     · by_cases h1 : i = 1
       · subst h1; exact ⟨by unfold C14L.NoWrap; decide, 0x401000#64, by decide⟩
       · simp only [h0, h1, if_false]; exact ⟨by unfold C14L.NoWrap; decide, 0x7f0000000000#64, by decide⟩,
   (fun _ _ hs => by simp at hs), rfl⟩

end C14
