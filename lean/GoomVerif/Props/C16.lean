import GoomVerif.Lemmas.C16L
/-! # C16 — the x86-64 decoder is total and exact (theorems about `X86Dec.decode`, the transcription of `x86asm.Decode(src, 64)`) -/
namespace C16
open X86Dec Gen.X86

/-- Clause "never panics", table half: at every position of the regenerated decoder table that can be reached from the entry
    point, the instruction fetches completely inside the table and every jump target / operand respects the rank, narg and
    code-offset certificate (so the program is acyclic, `inst.Args[narg]` stays in range, rel8/16/32 follow their reads). -/
theorem table_wf : ∀ pc, okAt pc = true := C16L.table_ok

end C16
