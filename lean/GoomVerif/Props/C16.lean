import GoomVerif.Lemmas.C16L
import GoomVerif.Model.X86Scan
/-! # C16 — the x86-64 decoder is total and exact

Theorems about `X86Dec.decode`, the transcription of `x86asm.Decode(src, 64)` (`Model/X86Dec.lean`) running the decoder
table regenerated from the compiled package (`Gen/X86Table.lean`).  All are for **every** byte string `src`.
The clause "agrees with an independent reference decoder on every instruction the toolchain emits" is a comparison with
another program over an open-ended set: it is run exhaustively over the `.text` of several Go binaries by `checks/C16.py`
and reported as differential evidence, not stated here. -/
namespace C16
open X86Dec Gen.X86

/-- Clause "never panics", table half: at every position of the regenerated decoder table that can be reached from the entry
    point, the instruction fetches completely inside the table and every jump target / operand respects the rank, narg and
    code-offset certificate (so the table program is acyclic, `inst.Args[narg]` stays in range, rel8/16/32 follow their reads).
    Checked by the kernel in 53 chunks of 256 positions and lifted to all positions. -/
theorem table_wf : ∀ pc, okAt pc = true := C16L.table_ok

/-- `table_wf` alone would also hold of an empty certificate (`okAt` is `true` where no claim is made).  This is the non-vacuous
    form: the entry point pc = 1 **does** carry a certificate (rank below the decode-loop fuel), and the certified positions are
    closed under the program's edges — every certified position fetches inside the table and satisfies `instrOK`, which demands a
    certificate of strictly smaller rank at each of its successors.  So the certified set contains every position the interpreter
    can reach, and the claims of `table_wf` are about all of them. -/
theorem table_cert_closed :
    (∃ c, cert? 1 = some c ∧ c.rank < fuel0 ∧ c.immcw = 0 ∧ c.cons = false) ∧
    (∀ pc c, cert? pc = some c → ∃ i, fetch pc = some i ∧ instrOK c i = true) ∧
    (∀ (c : Cert) (dn rd : Nat) (cs pz : Bool) (np pc' : Nat), edgeOK c dn rd cs pz np pc' = true →
      ∃ c', cert? pc' = some c' ∧ c'.rank < c.rank) := by
  refine ⟨?_, ?_, ?_⟩
  · have he := C16L.entryOK2_true
    unfold C16L.entryOK2 at he
    cases hc : cert? 1 with
    | none => rw [hc] at he; cases he
    | some c =>
      rw [hc] at he
      simp only [Bool.and_eq_true, decide_eq_true_eq, Bool.not_eq_true'] at he
      exact ⟨c, rfl, he.1.1.1.1, he.1.1.2, he.1.2⟩
  · intro pc c hc
    have hok := C16L.table_ok pc
    unfold okAt at hok
    rw [hc] at hok
    cases hf : fetch pc with
    | none => rw [hf] at hok; cases hok
    | some i => rw [hf] at hok; exact ⟨i, rfl, hok⟩
  · intro c dn rd cs pz np pc' h
    obtain ⟨c', h1, h2, _⟩ := C16L.edgeOK_elim h
    exact ⟨c', h1, h2⟩

/-- the certificate is not empty: the entry is certified -/
example : (cert? 1).isSome = true := by decide +kernel

/-- Clause "never panics": no Go index-out-of-range (`decoder[pc]`, `src[pos]`, `inst.Args[narg]`, `inst.Prefix[pos]`,
    `fixedArg[x]`, `baseReg[x]`, `memBytes[x]`) on any input, and the fuel of the model's decode loop (16 > longest path of the
    acyclic table program) is never exhausted, i.e. the loop terminates. -/
theorem decode_total (src : Bytes) : (decode src).err ≠ .panic ∧ (decode src).err ≠ .fuel :=
  ⟨(C16L.decode_good src).nopanic, (C16L.decode_good src).nofuel⟩

/-- Clause "never reports a length outside 1..15 or beyond the bytes supplied" — on success. -/
theorem len_bounds (src : Bytes) (h : (decode src).err = .ok) :
    1 ≤ (decode src).len ∧ (decode src).len ≤ 15 ∧ (decode src).len ≤ src.length := by
  have g := C16L.decode_good src
  have t := C16L.take_len src
  have := g.len_pos h
  have := g.len_le
  omega

example : ∃ src : Bytes, (decode src).err = .ok := ⟨[0x90#8], by decide +kernel⟩

/-- … and on every error return (`Inst{Len: pos}`): the reported length never exceeds the bytes supplied nor 15. -/
theorem err_len_le (src : Bytes) : (decode src).len ≤ src.length ∧ (decode src).len ≤ 15 := by
  have g := C16L.decode_good src
  have t := C16L.take_len src
  have := g.len_le
  omega

/-- What "success" means for the prefix-only pseudo instruction.  `Decode` returns `err == nil` with `Op == 0` (decode.go:171
    `instPrefix`) for a truncated, over-long or invalid-after-prefix input; that is **not** an instruction boundary.  It is always
    recognisable: `Len = 1`, no PC-relative field and numeric `Opcode = 0` — exactly the test the consumers apply
    (`func_amd64.go:43`, `:101 ins.Opcode == 0`, `fix_addr_amd64.go:63`).  Conversely a result with `Op ≠ 0` is a table match. -/
theorem prefix_only_shape (src : Bytes) (hok : (decode src).err = .ok) (h0 : (decode src).op = 0) :
    (decode src).len = 1 ∧ (decode src).pcrel = 0 ∧ (decode src).opcode = 0 :=
  (C16L.decode_good src).op0 hok h0

/-- satisfiable: a cut `MOV` (`48 8b`) and fifteen `66` prefixes are such pseudo instructions; `90` is not -/
example : (decode [0x48#8, 0x8b]).err = .ok ∧ (decode [0x48#8, 0x8b]).op = 0 ∧ (decode [0x90#8]).op ≠ 0 := by decide +kernel

/-- Clause "always places its PC-relative field inside the instruction": a non-zero `PCRel` is a width of 1, 2 or 4 bytes,
    starts after the first byte and ends inside `Len`. -/
theorem pcrel_inside (src : Bytes) (h : (decode src).pcrel ≠ 0) :
    ((decode src).pcrel = 1 ∨ (decode src).pcrel = 2 ∨ (decode src).pcrel = 4) ∧ 0 < (decode src).pcreloff ∧
      (decode src).pcreloff + (decode src).pcrel ≤ (decode src).len := by
  have := (C16L.decode_good src).pcrel h
  omega

/-- the hypothesis is satisfiable: `CALL rel32`, `JE rel8`, `MOV RAX, [RIP+disp32]` -/
example : (decode [0xe8#8, 0, 0, 0, 0]).pcrel = 4 ∧ (decode [0x74#8, 0x10]).pcrel = 1 ∧
    (decode [0x48#8, 0x8b, 0x05, 1, 0, 0, 0]).pcrel = 4 ∧ (decode [0x48#8, 0x8b, 0x05, 1, 0, 0, 0]).pcreloff = 3 := by decide +kernel

/-- … so the slice `code[PCRelOff : PCRelOff+PCRel]` taken by `DecodeRelativeAddr` / `fixIns` is inside the window. -/
theorem pcrel_slice_in_window (src : Bytes) (h : (decode src).pcrel ≠ 0) :
    (decode src).pcreloff + (decode src).pcrel ≤ src.length := by
  have := pcrel_inside src h
  have := err_len_le src
  omega

/-- What `fixBlock` (`internal/patch/fix_addr_amd64.go:63`, `if ins != nil && ins.Opcode != 0`) relies on for every relocatable
    instruction: a successful decode that reports a PC-relative field never has the numeric `Inst.Opcode` equal to 0.
    Proof: the per-pc certificate carries an abstract `Opcode` state `z` (0 = non-zero on every path, k+1 = at most k bytes shifted in,
    possibly all zero); the kernel-checked chunk lemmas require `z = 0` at every `xArgRel8/16/32` and `z ≤ 4` (room for the ModR/M
    byte, or already non-zero) at every `xReadSlashR`/`xCondSlashR`; a RIP-relative ModR/M byte has `rm = 5`, hence is non-zero and
    is shifted into `Opcode`.  The unconditional variant ("every successful decode has Opcode ≠ 0") is false —
    `Findings/C16OpcodeZero.lean` (`00 00`, which has no PC-relative field). -/
theorem pcrel_opcode_nonzero (src : Bytes) (hok : (decode src).err = .ok) (hp : (decode src).pcrel ≠ 0) :
    (decode src).opcode ≠ 0 :=
  (C16L.decode_good src).opc hok hp

/-- the hypotheses are satisfiable; instances: `CALL rel32` (E8), `JE rel8` (74), `MOV RAX,[RIP+d]` (48 8B 05), `PSHUFB XMM0,[RIP+d]` (66 0F 38 00 05: ModRM is the
    fourth opcode byte and is recorded, Opcode = 0x0F380005) -/
example : (decode [0xe8#8, 0, 0, 0, 0]).opcode = 0xe8000000 ∧ (decode [0x74#8, 0x10]).opcode = 0x74000000 ∧
    (decode [0x48#8, 0x8b, 0x05, 1, 0, 0, 0]).opcode = 0x8b050000 ∧
    (decode [0x66#8, 0x0f, 0x38, 0x00, 0x05, 1, 0, 0, 0]).opcode = 0x0f380005 ∧
    (decode [0x66#8, 0x0f, 0x38, 0xdc, 0xc0]).opcode = 0x0f38dcc0 := by decide +kernel

/-- Consumers make progress: one iteration of the `pos = pos + ins.Len` loops strictly advances and stays inside the code. -/
theorem consumers_progress (code : Bytes) (pos p : Nat) (hp : pos ≤ code.length) (h : scanStep code pos = some p) :
    pos < p ∧ p ≤ code.length := by
  unfold scanStep at h
  dsimp only at h
  split at h
  · rename_i hok
    have := len_bounds (window code pos) hok
    have hw : (window code pos).length ≤ code.length - pos := by
      unfold window; rw [List.length_take, List.length_drop]; omega
    cases h
    omega
  · cases h

example : scanStep [0x55#8, 0x48, 0x89, 0xe5, 0xc3] 1 = some 4 := by decide +kernel

/-- … and therefore the scan loops terminate: with fuel `len(code) + 1` the loop always returns, inside the code. -/
theorem consumers_terminate (code : Bytes) : ∀ (f pos : Nat), pos ≤ code.length → code.length - pos < f →
    ∃ p, scanLoop code f pos = some p ∧ p ≤ code.length := by
  intro f
  induction f with
  | zero => intro pos _ h; omega
  | succ f ih =>
    intro pos hp hf
    unfold scanLoop
    split
    · exact ⟨pos, rfl, hp⟩
    · rename_i hlt
      cases hs : scanStep code pos with
      | none => exact ⟨pos, rfl, hp⟩
      | some p' =>
        have := consumers_progress code pos p' hp hs
        exact ih p' this.2 (by omega)

end C16
