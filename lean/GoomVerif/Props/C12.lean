import GoomVerif.Model.ApiC12
import GoomVerif.Model.LwwC12
import GoomVerif.Lemmas.C12L
/-! Property C12 — within a builder the most recent instruction for a target wins.

`C12M.run fixed` is the model of goom's builder / cache / mocker code (Model/ApiC12.lean), `C12M.Lww.run` the
last-writer-wins reference (Model/LwwC12.lean).  Histories are arbitrary lists of
`Op` = Pkg | Reset | Struct(..).Method(<unknown>) | ExportFunc("") | a lookup issued from the helper package |
(Func / Struct.Method / Interface.Method / ExportFunc / ExportStruct.Method / Var / UnExportedVar lookup followed by
look | Apply k (Set k) | Return | When | When..Return | Returns | Cancel) | a lookup whose handle is kept in a register |
an instruction through a kept handle; the builder is created in any of the three packages; after every op every
target is called twice (variables are read). -/
namespace C12
open C12M

/-- **The full statement** (all clauses at once, "through any of those handles" included): for every creating
    package and every history the behaviour of every target after every step equals the last-writer-wins reference.
    It does NOT hold: an instruction through a handle whose mocker was cancelled and has since been replaced in the
    builder's cache re-installs the stale mocker, and later instructions through the live handle only mutate a When
    that is no longer installed (Findings/C12Stale.lean `stale_handle_breaks_lww`, known finding `stale-handle`); and
    Cancel through one method of a two-method interface variable restores the whole variable, reverting the other
    method's configuration (`iface_cancel_one_method_history`, known finding `iface-cancel-one-method`). -/
def RefinesAll : Prop :=
  ∀ (p : Pkg) (ops : List Op), behRows (run fixed (initP p) ops) = Lww.run (Lww.initP p) ops

/-- **Refinement, partial**: the full statement under the decidable hypothesis `histLive` — every instruction
    (other than `look`) that goes through a kept handle finds that handle's mocker still the live (cached, not
    cancelled) mocker of its target.  Then, for every creating package and every history, the behaviour of every target
    after every step equals the reference: a later Apply supersedes earlier stubs, a later Return/When after an Apply
    supersedes the callback (with a fresh configuration), stub instructions given through repeated lookups or kept
    handles accumulate, Cancel and Reset restore the original, variables hold the last Set value and get their value
    back, a Pkg override is used by exactly the next lookup and names then resolve in the package that issued it.
    The hypothesis also excludes every op that addresses the two-method interface variable (`opI2`).
    Missing w.r.t. `RefinesAll`: histories that use a stale handle, histories that address the two-method interface
    variable (its model is tied to the code by the differential run only). -/
theorem refines_lww_partial (p : Pkg) (ops : List Op) (h : histLive fixed (initP p) ops = true) :
    behRows (run fixed (initP p) ops) = Lww.run (Lww.initP p) ops :=
  run_sim ops _ _ (inv_initP p) h

set_option maxRecDepth 16384 in
/-- the hypothesis of `refines_lww_partial` is met by a history that keeps handles and uses them while live
    (`h0 := Func(fA); h0.Return(1); h1 := Func(fA); h1.Apply(k2); h0.Return(3)`), and it is NOT met by the reviewer's
    stale-handle history -/
example : histLive fixed (initP .p0) [.keep 0 (.fn false), .on 0 (.stub (.ret 1)), .keep 1 (.fn false), .on 1 (.apply 2),
      .on 0 (.stub (.ret 3))] = true
    ∧ histLive fixed (initP .p0) [.keep 0 (.fn false), .on 0 (.stub (.ret 1)), .on 0 .cancel, .keep 1 (.fn false),
      .on 1 (.stub (.ret 3)), .on 0 (.stub (.ret 2))] = false := by decide

/-- **Refinement, every instruction preceded by its own lookup** (no kept handles, single-method interface variable):
    no hypothesis on the state — `histLive` holds for every history without `on` ops and without ops on the two-method
    interface variable. -/
theorem refines_lww (p : Pkg) (ops : List Op) (h : ∀ op ∈ ops, isOn op = false ∧ opI2 op = false) :
    behRows (run fixed (initP p) ops) = Lww.run (Lww.initP p) ops :=
  refines_lww_partial p ops (histLive_of_no_on ops _ h)
where
  histLive_of_no_on (ops : List Op) : ∀ (s : State), (∀ op ∈ ops, isOn op = false ∧ opI2 op = false) → histLive fixed s ops = true := by
    induction ops with
    | nil => intro s _; rfl
    | cons op rest ih =>
      intro s h
      rw [histLive_cons, Bool.and_eq_true]
      refine ⟨?_, ih _ (fun o ho => h o (List.mem_cons_of_mem _ ho))⟩
      have := h op (List.mem_cons_self ..)
      cases op <;> simp_all [opLive, isOn, opI2]

/-- Every state reached by a history whose kept-handle uses are live is well-formed, related to the reference state and
    has its registers known to the reference (so the hypotheses of the state-level theorems below are met by every
    such reachable state). -/
theorem reachable_inv (p : Pkg) (ops : List Op) (h : histLive fixed (initP p) ops = true) :
    Inv (exec fixed (initP p) ops) (Lww.exec (Lww.initP p) ops) :=
  exec_sim ops _ _ (inv_initP p) h

/-- **A repeated lookup continues the existing configuration.**  If the target of the lookup has a live (cached, not
    cancelled) mocker, the lookup returns that very mocker and changes neither any mocker nor what is installed. -/
theorem lookup_continues (s : State) (hw : WF s) (hd : Handle) (hn : isI2H hd = false) (mid : Nat)
    (h : live s (tgtOf s.b.pkg hd) = some mid) :
    (lookup s hd).2 = mid ∧ (lookup s hd).1.mks = s.mks ∧ (lookup s hd).1.inst = s.inst := by
  obtain ⟨_, _, hinst, _, _, hcase⟩ := lookup_ok s hd hw hn
  rcases hcase with ⟨hl, hm, _⟩ | ⟨hl, _⟩
  · rw [h] at hl; exact ⟨(Option.some.inj hl).symm, hm, hinst⟩
  · rw [h] at hl; cases hl

set_option maxRecDepth 8192 in
/-- the hypotheses of `lookup_continues` are met by a non-trivial reachable state: after `Func(fA).Return(1)` the
    mocker 0 is live for fA and owns a When -/
example : live (exec fixed init [.h (.fn false) (.stub (.ret 1))]) (tgtOf .p0 (.fn false)) = some 0
    ∧ ((exec fixed init [.h (.fn false) (.stub (.ret 1))]).mks 0).when.isSome = true := by decide

/-- **…unless it was cancelled.**  If the target has no live mocker (never looked up, or cancelled by Cancel/Reset),
    the lookup yields a brand-new mocker — no When, not cancelled, nothing installed through it — which becomes the
    live one; what is installed does not change. -/
theorem lookup_after_cancel (s : State) (hw : WF s) (hd : Handle) (hn : isI2H hd = false)
    (h : live s (tgtOf s.b.pkg hd) = none) :
    (lookup s hd).2 = s.next ∧ ((lookup s hd).1.mks (lookup s hd).2).when = none ∧
    ((lookup s hd).1.mks (lookup s hd).2).guard = false ∧
    live (lookup s hd).1 (tgtOf s.b.pkg hd) = some (lookup s hd).2 ∧ (lookup s hd).1.inst = s.inst := by
  obtain ⟨_, _, hinst, _, _, hcase⟩ := lookup_ok s hd hw hn
  rcases hcase with ⟨hl, _⟩ | ⟨_, hmid, _, hwhen, hcan, hguard, hslot⟩
  · rw [h] at hl; cases hl
  · exact ⟨hmid, hwhen, hguard, live_some.mpr ⟨by rw [hslot, if_pos rfl], hcan⟩, hinst⟩

set_option maxRecDepth 8192 in
/-- a reachable state with a cancelled cached mocker: after `Func(fA).Apply(k1); Func(fA).Cancel()` -/
example : live (exec fixed init [.h (.fn false) (.apply 1), .h (.fn false) .cancel]) (tgtOf .p0 (.fn false)) = none
    ∧ slot (exec fixed init [.h (.fn false) (.apply 1), .h (.fn false) .cancel]) (.fn false) = some 0 := by decide

/-- **After Reset a fresh configuration starts from scratch.**  In every well-formed related state, Reset leaves every
    target original, no cached mocker live (so the next lookup of anything builds a new mocker, by
    `lookup_after_cancel`), and the reference in the all-original state. -/
theorem reset_fresh (s : State) (a : Lww) (hw : WF s) (hr : R s a) :
    (∀ t, (resetB s).inst t = .orig) ∧ (∀ t, live (resetB s) t = none) ∧
    WF (resetB s) ∧ R (resetB s) { a with beh := fun _ => .orig } := by
  obtain ⟨hw', hr'⟩ := reset_sim hw hr
  refine ⟨fun t => ?_, fun t => reset_live_none hw t, hw', hr'⟩
  have := hr'.tgt t
  unfold Rt at this
  rw [reset_live_none hw t] at this
  exact this.1

set_option maxRecDepth 8192 in
/-- a reachable state in which Reset has something to undo: a stub on a method and a callback on the interface method -/
example : (exec fixed init [.h (.st true) (.stub (.whenRet 1 5)), .h .im (.apply 2)]).inst (.st true) = .via 0
    ∧ (exec fixed init [.h (.st true) (.stub (.whenRet 1 5)), .h .im (.apply 2)]).inst .im = .cb 2 := by decide

/-- **A later Apply supersedes earlier When/Return stubs** — stated outright for every lookup kind (Func, Struct.Method,
    Interface.Method, ExportFunc, ExportStruct.Method): in every reachable state, whatever was configured before through
    any handle, after `lookup.Apply(k)` a call of the looked-up target (resolved in the package the builder currently
    names) with any argument runs callback `k`.  The only hypothesis besides reachability is that the name resolves
    (`isPhantom = false`: goom rejects an Apply on a name that resolves to nothing, covered by C10/C13) and that the
    handle is not the two-method interface variable (outside the proved part, see `refines_lww_partial`). -/
theorem apply_supersedes (s : State) (a : Lww) (hw : WF s) (hr : R s a) (hd : Handle) (k x : Nat)
    (hn : isI2H hd = false) (hp : isPhantom (tgtOf s.b.pkg hd) = false) :
    (call (step fixed s (.h hd (.apply k))).1 (tgtOf s.b.pkg hd) x).2 = .k k := by
  obtain ⟨hw1, hr1⟩ := step_sim hw hr (.h hd (.apply k)) rfl (by cases hd <;> simp_all [opI2, isI2H])
  rw [(call_sim hw1 hr1 _ x).1, hr.pkg] at *
  simp [Lww.step, Lww.onTgt, Lww.rejected, hp, Lww.instr, Lww.call, upd]

/-- **A later Return after an Apply supersedes the callback, with a fresh configuration**: in every reachable state,
    after `lookup.Apply(k)` followed by `lookup.Return(v)` on the same function or method, every call returns `v` — the
    callback no longer runs and no stub configured before the Apply survives. -/
theorem return_after_apply_supersedes (s : State) (a : Lww) (hw : WF s) (hr : R s a) (hd : Handle) (k v x : Nat)
    (hn : isI2H hd = false) (hv : isVar (tgtOf s.b.pkg hd) = false) (hp : isPhantom (tgtOf s.b.pkg hd) = false)
    (hpk : s.b.pkg = .p0) :
    (call (step fixed (step fixed s (.h hd (.apply k))).1 (.h hd (.stub (.ret v)))).1 (tgtOf s.b.pkg hd) x).2 = .v v := by
  have hi2 : opI2 (.h hd (.apply k)) = false := by cases hd <;> simp_all [opI2, isI2H]
  have hi2' : opI2 (.h hd (.stub (.ret v))) = false := by cases hd <;> simp_all [opI2, isI2H]
  obtain ⟨hw1, hr1⟩ := step_sim hw hr (.h hd (.apply k)) rfl hi2
  obtain ⟨hw2, hr2⟩ := step_sim hw1 hr1 (.h hd (.stub (.ret v))) rfl hi2'
  have hap : a.pkg = .p0 := by rw [← hr.pkg]; exact hpk
  rw [hpk] at hp hv ⊢
  rw [(call_sim hw2 hr2 _ x).1]
  have e1 : a.step (.h hd (.apply k)) = { a with pkg := .p0, beh := upd a.beh (tgtOf .p0 hd) (.cb k) } := by
    simp [Lww.step, Lww.onTgt, Lww.rejected, hp, hap, Lww.instr]
  have e2 : (a.step (.h hd (.apply k))).step (.h hd (.stub (.ret v))) =
      { a with pkg := .p0, beh := upd (upd a.beh (tgtOf .p0 hd) (.cb k)) (tgtOf .p0 hd) (.stub (When.fresh (.ret v))) } := by
    rw [e1]; simp [Lww.step, Lww.onTgt, Lww.rejected, hp, hv, Lww.instr, upd]
  rw [e2]
  simp [Lww.call, upd, When.fresh, When.create, When.invoke, When.result, When.matchesArg]

/-- **Asking again for the mocker continues the existing configuration instead of discarding it**: in every
    reachable state, after Reset, `lookup.When(1).Return(5)` followed by a second lookup of the same function or method
    and `.When(2).Return(6)` leaves BOTH conditions in force — a call with argument 1 returns 5, a call with argument 2
    returns 6, and any other argument finds no condition and no default (goom's "there is no suitable condition" panic). -/
theorem repeated_lookup_accumulates (s : State) (a : Lww) (hw : WF s) (hr : R s a) (hd : Handle) (x : Nat)
    (hn : isI2H hd = false) (hv : isVar (tgtOf s.b.pkg hd) = false) (hp : isPhantom (tgtOf s.b.pkg hd) = false)
    (hpk : s.b.pkg = .p0) (hx : x ≠ 1 ∧ x ≠ 2) :
    let s3 := (step fixed (step fixed (step fixed s .reset).1 (.h hd (.stub (.whenRet 1 5)))).1 (.h hd (.stub (.whenRet 2 6)))).1
    (call s3 (tgtOf s.b.pkg hd) 1).2 = .v 5 ∧ (call s3 (tgtOf s.b.pkg hd) 2).2 = .v 6 ∧ (call s3 (tgtOf s.b.pkg hd) x).2 = .p := by
  intro s3
  have hi2 : ∀ st, opI2 (.h hd (.stub st)) = false := by intro st; cases hd <;> simp_all [opI2, isI2H]
  obtain ⟨hw1, hr1⟩ := step_sim hw hr .reset rfl
  obtain ⟨hw2, hr2⟩ := step_sim hw1 hr1 (.h hd (.stub (.whenRet 1 5))) rfl (hi2 _)
  obtain ⟨hw3, hr3⟩ := step_sim hw2 hr2 (.h hd (.stub (.whenRet 2 6))) rfl (hi2 _)
  have hap : a.pkg = .p0 := by rw [← hr.pkg]; exact hpk
  rw [hpk] at hp hv ⊢
  have e : (((a.step .reset).step (.h hd (.stub (.whenRet 1 5)))).step (.h hd (.stub (.whenRet 2 6)))).beh (tgtOf .p0 hd) =
      Beh.stub ((When.fresh (.whenRet 1 5)).step (.whenRet 2 6)) := by
    simp [Lww.step, Lww.onTgt, Lww.rejected, hp, hv, hap, Lww.instr, upd]
  refine ⟨?_, ?_, ?_⟩
  · rw [(call_sim hw3 hr3 _ 1).1]; simp only [Lww.call, e]; decide
  · rw [(call_sim hw3 hr3 _ 2).1]; simp only [Lww.call, e]; decide
  · rw [(call_sim hw3 hr3 _ x).1]; simp only [Lww.call, e]
    have h1 : (1 == x) = false := by rw [beq_eq_false_iff_ne]; exact fun h => hx.1 h.symm
    have h2 : (2 == x) = false := by rw [beq_eq_false_iff_ne]; exact fun h => hx.2 h.symm
    simp [When.fresh, When.create, When.step, When.when_, When.ret, When.newMatcher, When.addResult,
      When.invoke, When.matchesArg, List.find?, h1, h2]

set_option maxRecDepth 8192 in
/-- the hypotheses of `apply_supersedes` / `return_after_apply_supersedes` are met by a reachable state that already
    carries a conditional stub on the target (`Struct(T).Method(M).When(1).Return(5)`), and the conclusion is not the
    trivial one: before the Apply a call with argument 1 returns 5 -/
example : isPhantom (tgtOf (exec fixed init [.h (.st true) (.stub (.whenRet 1 5))]).b.pkg (.st true)) = false
    ∧ (call (exec fixed init [.h (.st true) (.stub (.whenRet 1 5))]) (.st true) 1).2 = .v 5
    ∧ (call (step fixed (exec fixed init [.h (.st true) (.stub (.whenRet 1 5))]) (.h (.st true) (.apply 2))).1 (.st true) 1).2 = .k 2 := by
  decide

set_option maxRecDepth 8192 in
/-- `repeated_lookup_accumulates` on a concrete reachable state (a callback was installed before the Reset) -/
example : (call (exec fixed init [.h (.fn false) (.apply 3), .reset, .h (.fn false) (.stub (.whenRet 1 5)),
      .h (.fn false) (.stub (.whenRet 2 6))]) (.fn false) 2).2 = .v 6
    ∧ (exec fixed init [.h (.fn false) (.apply 3)]).b.pkg = .p0 := by decide

/-- the package a lookup op is issued from (`none`: the op performs no lookup) -/
def callerOf : Op → Option Pkg
  | .h _ _ => some .p0
  | .keep _ _ => some .p0
  | .stBad => some .p0
  | .qlook => some .pq
  | _ => none

/-- **A Pkg override applies to the next lookup only.**  Whatever package was set, after any op that performs a
    lookup (Func, Struct, Interface, ExportFunc, ExportStruct, Var, UnExportedVar — directly, kept in a register, or
    with a following instruction that panics) the builder's package is the package that ISSUED the lookup: the test
    package for its own lookups, the helper package for a lookup made there. -/
theorem pkg_one_shot (s : State) (p : Pkg) (op : Op) (c : Pkg) (h : callerOf op = some c) :
    (step fixed (step fixed s (.pkg p)).1 op).1.b.pkg = c := by
  cases op with
  | pkg q => simp [callerOf] at h
  | reset => simp [callerOf] at h
  | xfEmpty => simp [callerOf] at h
  | on r ins => simp [callerOf] at h
  | stBad => simp only [callerOf, Option.some.injEq] at h; subst h; rfl
  | qlook => simp only [callerOf, Option.some.injEq] at h; subst h; rfl
  | h hd ins => simp only [callerOf, Option.some.injEq] at h; subst h; rw [step_h_fst, instr_pkg]; exact lookup_resets_pkg _ hd
  | keep r hd => simp only [callerOf, Option.some.injEq] at h; subst h; simp only [step]; exact lookup_resets_pkg _ hd
where
  lookup_resets_pkg (s : State) (hd : Handle) : (lookup s hd).1.b.pkg = .p0 := by
    have hi : (ifaceLookup s).1.b.pkg = .p0 := by
      unfold ifaceLookup; split
      · split <;> rfl
      · rfl
    have hi' : (iface2Lookup s).1.b.pkg = .p0 := by
      unfold iface2Lookup; split
      · split <;> rfl
      · rfl
    cases hd <;> simp only [lookup] <;> (repeat' split) <;> simp_all [reset2CurPkg, setPkg, alloc, structLookup, exportStructLookup]

/-- …while an op that performs no lookup — the rejected `ExportFunc("")`, an instruction through a kept handle — leaves
    the override pending. -/
theorem pkg_pending (s : State) (p : Pkg) (op : Op) (h : op = .xfEmpty ∨ ∃ r ins, op = .on r ins) :
    (step fixed (step fixed s (.pkg p)).1 op).1.b.pkg = p := by
  rcases h with rfl | ⟨r, ins, rfl⟩
  · rfl
  · cases hreg : (step fixed s (.pkg p)).1.regs r with
    | none => simp only [step] at hreg ⊢; simp only [hreg]; rfl
    | some mid => rw [step_on_fst _ _ _ _ _ hreg, instr_pkg]; rfl

/-- …and the override is really used by that next lookup, for every pair of lookup kinds (Func, Struct.Method,
    Interface.Method, ExportFunc, ExportStruct.Method, Var, UnExportedVar), whether the lookups hit the cache or not: in
    every reachable state, after `Pkg(p)` the lookup `hd1` yields the mocker of `hd1`'s target in package `p`, and the
    lookup `hd2` after it the mocker of `hd2`'s target in the caller's package. -/
theorem pkg_used_once (s : State) (a : Lww) (hw : WF s) (hr : R s a) (p : Pkg) (hd1 hd2 : Handle) (ins : Instr)
    (hn1 : isI2H hd1 = false) (hn2 : isI2H hd2 = false) :
    let s1 := (step fixed s (.pkg p)).1
    let s2 := (step fixed s1 (.h hd1 ins)).1
    ((lookup s1 hd1).1.mks (lookup s1 hd1).2).tgt = tgtOf p hd1 ∧
    ((lookup s2 hd2).1.mks (lookup s2 hd2).2).tgt = tgtOf .p0 hd2 := by
  intro s1 s2
  obtain ⟨hw1, hr1⟩ := step_sim hw hr (.pkg p) rfl
  obtain ⟨hw2, _⟩ := step_sim hw1 hr1 (.h hd1 ins) rfl hn1
  have h1 := lookup_ok s1 hd1 hw1 hn1
  have h2 := lookup_ok s2 hd2 hw2 hn2
  have hp2 : s2.b.pkg = .p0 := pkg_one_shot s p (.h hd1 ins) .p0 rfl
  refine ⟨tgt_of_ok h1, ?_⟩
  have := tgt_of_ok h2
  rw [hp2] at this; exact this
where
  tgt_of_ok {s : State} {t : Tgt} {s' : State} {mid : Nat} (h : LookupOk s t s' mid) : (s'.mks mid).tgt = t := by
    obtain ⟨hw', _, _, _, _, hcase⟩ := h
    rcases hcase with ⟨hl, hm, hs⟩ | ⟨_, _, _, _, _, _, hs⟩
    · exact hw'.slot_tgt t mid (by rw [hs]; exact (live_some.mp hl).1)
    · exact hw'.slot_tgt t mid (by rw [hs, if_pos rfl])

/-- **Variables** ("…or variable continues the existing configuration"): in every reachable state, after
    `Var(&v).Set(k)` / `UnExportedVar(path).Set(k)` — first lookup or repeated — the variable holds k, whatever was
    set through earlier lookups; after Cancel through a lookup, or Reset, it holds its original value again. -/
theorem var_last_set_wins (s : State) (a : Lww) (hw : WF s) (hr : R s a) (i : Bool) (k x : Nat) :
    (call (step fixed s (.h (.vr i) (.apply k))).1 (.vr i) x).2 = .k k ∧
    (call (step fixed s (.h (.vr i) .cancel)).1 (.vr i) x).2 = .o ∧
    (call (step fixed s .reset).1 (.vr i) x).2 = .o := by
  refine ⟨?_, ?_, ?_⟩
  · obtain ⟨hw1, hr1⟩ := step_sim hw hr (.h (.vr i) (.apply k)) rfl
    rw [(call_sim hw1 hr1 (.vr i) x).1]
    simp [Lww.step, Lww.onTgt, Lww.rejected, isPhantom, tgtOf, Lww.instr, Lww.call]
  · obtain ⟨hw1, hr1⟩ := step_sim hw hr (.h (.vr i) .cancel) rfl
    rw [(call_sim hw1 hr1 (.vr i) x).1]
    simp [Lww.step, Lww.onTgt, Lww.rejected, tgtOf, Lww.instr, Lww.call]
  · obtain ⟨hw1, hr1⟩ := step_sim hw hr .reset rfl
    rw [(call_sim hw1 hr1 (.vr i) x).1]
    simp [Lww.step, Lww.call]

set_option maxRecDepth 8192 in
/-- a reachable state in which the variable already holds a mock value set through an earlier lookup -/
example : (exec fixed init [.h (.vr false) (.apply 1), .h (.vr true) (.apply 2)]).inst (.vr false) = .cb 1
    ∧ live (exec fixed init [.h (.vr false) (.apply 1), .h (.vr true) (.apply 2)]) (.vr true) = some 1 := by decide

end C12
