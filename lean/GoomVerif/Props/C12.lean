import GoomVerif.Model.ApiC12
import GoomVerif.Model.LwwC12
import GoomVerif.Lemmas.C12L
/-! Property C12 — within a builder the most recent instruction for a target wins.

`C12M.run fixed` is the model of goom's builder / cache / mocker code (Model/ApiC12.lean, with fixes F7 and F14),
`C12M.Lww.run` the last-writer-wins reference (Model/LwwC12.lean).  Histories are arbitrary lists of
`Op` = Pkg | Reset | Var lookup | Struct(..).Method(<unknown>) | (Func / Struct.Method / Interface.Method / ExportFunc /
ExportStruct.Method lookup followed by look | Apply k | Return | When | When..Return | Returns | Cancel); after every op every target is
called twice. -/
namespace C12
open C12M

/-- **Refinement (all clauses at once).**  For every history, the behaviour of every target after every step in the
    implementation model equals what the last-writer-wins reference says: a later Apply supersedes earlier stubs, a
    later Return/When after an Apply supersedes the callback (with a fresh configuration), stub instructions given
    through repeated lookups accumulate, Cancel and Reset restore the original, a Pkg override is used by exactly
    the next lookup. -/
theorem refines_lww (ops : List Op) : behRows (run fixed init ops) = Lww.run Lww.init ops :=
  run_sim ops init Lww.init wf_init r_init

/-- Every state reached by a history is well-formed and related to the reference state (used below to show that
    the hypotheses of the state-level theorems are met by every reachable state). -/
theorem reachable_wf (ops : List Op) : WF (exec fixed init ops) ∧ R (exec fixed init ops) (Lww.exec Lww.init ops) :=
  exec_sim ops init Lww.init wf_init r_init

/-- **A repeated lookup continues the existing configuration.**  If the target of the lookup has a live (cached, not
    cancelled) mocker, the lookup returns that very mocker and changes neither any mocker nor what is installed. -/
theorem lookup_continues (s : State) (hw : WF s) (hd : Handle) (mid : Nat)
    (h : live s (tgtOf s.b.pkg hd) = some mid) :
    (lookup s hd).2 = mid ∧ (lookup s hd).1.mks = s.mks ∧ (lookup s hd).1.inst = s.inst := by
  obtain ⟨_, _, hinst, hcase⟩ := lookup_ok s hd hw
  rcases hcase with ⟨hl, hm, _⟩ | ⟨hl, _⟩
  · rw [h] at hl; exact ⟨(Option.some.inj hl).symm, hm, hinst⟩
  · rw [h] at hl; cases hl

set_option maxRecDepth 8192 in
/-- the hypotheses of `lookup_continues` are met by a non-trivial reachable state: after `Func(fA).Return(1)` the
    mocker 0 is live for fA and owns a When -/
example : live (exec fixed init [.h (.fn false) (.stub (.ret 1))]) (tgtOf .p0 (.fn false)) = some 0
    ∧ ((exec fixed init [.h (.fn false) (.stub (.ret 1))]).mks 0).when.isSome = true := by decide

/-- **…unless it was cancelled.**  If the target has no live mocker (never looked up, or cancelled by Cancel/Reset),
    the lookup yields a brand-new mocker — no When, not cancelled, nothing installed through it — which becomes the
    live one; what is installed does not change. -/
theorem lookup_after_cancel (s : State) (hw : WF s) (hd : Handle)
    (h : live s (tgtOf s.b.pkg hd) = none) :
    (lookup s hd).2 = s.next ∧ ((lookup s hd).1.mks (lookup s hd).2).when = none ∧
    ((lookup s hd).1.mks (lookup s hd).2).guard = false ∧
    live (lookup s hd).1 (tgtOf s.b.pkg hd) = some (lookup s hd).2 ∧ (lookup s hd).1.inst = s.inst := by
  obtain ⟨_, _, hinst, hcase⟩ := lookup_ok s hd hw
  rcases hcase with ⟨hl, _⟩ | ⟨_, hmid, _, hwhen, hcan, hguard, hslot⟩
  · rw [h] at hl; cases hl
  · exact ⟨hmid, hwhen, hguard, live_some.mpr ⟨by rw [hslot, if_pos rfl], hcan⟩, hinst⟩

set_option maxRecDepth 8192 in
/-- a reachable state with a cancelled cached mocker: after `Func(fA).Apply(k1); Func(fA).Cancel()` -/
example : live (exec fixed init [.h (.fn false) (.apply 1), .h (.fn false) .cancel]) (tgtOf .p0 (.fn false)) = none
    ∧ slot (exec fixed init [.h (.fn false) (.apply 1), .h (.fn false) .cancel]) (.fn false) = some 0 := by decide

/-- **After Reset a fresh configuration starts from scratch.**  In every well-formed related state, Reset leaves every
    target original, no cached mocker live (so the next lookup of anything builds a new mocker, by
    `lookup_after_cancel`), and the reference in the all-original state. -/
theorem reset_fresh (s : State) (a : Lww) (hw : WF s) (hr : R s a) :
    (∀ t, (resetB s).inst t = .orig) ∧ (∀ t, live (resetB s) t = none) ∧
    WF (resetB s) ∧ R (resetB s) { a with beh := fun _ => .orig } := by
  obtain ⟨hw', hr'⟩ := reset_sim hw hr
  refine ⟨fun t => ?_, fun t => reset_live_none hw t, hw', hr'⟩
  have := hr'.tgt t
  unfold Rt at this
  rw [reset_live_none hw t] at this
  exact this.1

set_option maxRecDepth 8192 in
/-- a reachable state in which Reset has something to undo: a stub on a method and a callback on the interface method -/
example : (exec fixed init [.h (.st true) (.stub (.whenRet 1 5)), .h .im (.apply 2)]).inst (.st true) = .via 0
    ∧ (exec fixed init [.h (.st true) (.stub (.whenRet 1 5)), .h .im (.apply 2)]).inst .im = .cb 2 := by decide

/-- the ops that perform a lookup -/
def isLookup : Op → Bool
  | .pkg _ => false
  | .reset => false
  | _ => true

/-- **A Pkg override applies to the next lookup only.**  Whatever package was set, after any op that performs a
    lookup (Func, Struct, Interface, ExportFunc, ExportStruct — also when the instruction that follows panics — and Var) the
    builder's package is the caller's again, so the lookup after it resolves names in the caller's package. -/
theorem pkg_one_shot (s : State) (p : Pkg) (op : Op) (h : isLookup op = true) :
    (step fixed (step fixed s (.pkg p)).1 op).1.b.pkg = .p0 := by
  cases op with
  | pkg q => simp [isLookup] at h
  | reset => simp [isLookup] at h
  | var => simp only [step, varLookup, fixed, if_true]; rfl
  | stBad => rfl
  | h hd ins => rw [step_h_fst, instr_pkg]; exact lookup_resets_pkg _ hd
where
  lookup_resets_pkg (s : State) (hd : Handle) : (lookup s hd).1.b.pkg = .p0 := by
    have hi : (ifaceLookup s).1.b.pkg = .p0 := by
      unfold ifaceLookup; split
      · split <;> rfl
      · rfl
    cases hd <;> simp only [lookup] <;> (repeat' split) <;> simp_all [reset2CurPkg, setPkg, alloc, structLookup, exportStructLookup]

/-- …and the override is really used by that next lookup, for every pair of lookup kinds (Func, Struct.Method,
    Interface.Method, ExportFunc, ExportStruct.Method), whether the lookups hit the cache or not: in every reachable
    state, after `Pkg(p)` the lookup `hd1` yields the mocker of `hd1`'s target in package `p`, and the lookup `hd2`
    after it the mocker of `hd2`'s target in the caller's package. -/
theorem pkg_used_once (s : State) (a : Lww) (hw : WF s) (hr : R s a) (p : Pkg) (hd1 hd2 : Handle) (ins : Instr) :
    let s1 := (step fixed s (.pkg p)).1
    let s2 := (step fixed s1 (.h hd1 ins)).1
    ((lookup s1 hd1).1.mks (lookup s1 hd1).2).tgt = tgtOf p hd1 ∧
    ((lookup s2 hd2).1.mks (lookup s2 hd2).2).tgt = tgtOf .p0 hd2 := by
  intro s1 s2
  obtain ⟨hw1, hr1⟩ := step_sim hw hr (.pkg p)
  obtain ⟨hw2, _⟩ := step_sim hw1 hr1 (.h hd1 ins)
  have h1 := lookup_ok s1 hd1 hw1
  have h2 := lookup_ok s2 hd2 hw2
  have hp2 : s2.b.pkg = .p0 := pkg_one_shot s p (.h hd1 ins) rfl
  refine ⟨tgt_of_ok h1, ?_⟩
  have := tgt_of_ok h2
  rw [hp2] at this; exact this
where
  tgt_of_ok {s : State} {t : Tgt} {s' : State} {mid : Nat} (h : LookupOk s t s' mid) : (s'.mks mid).tgt = t := by
    obtain ⟨hw', _, _, hcase⟩ := h
    rcases hcase with ⟨hl, hm, hs⟩ | ⟨_, _, _, _, _, _, hs⟩
    · exact hw'.slot_tgt t mid (by rw [hs]; exact (live_some.mp hl).1)
    · exact hw'.slot_tgt t mid (by rw [hs, if_pos rfl])

end C12
