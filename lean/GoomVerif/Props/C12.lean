import GoomVerif.Model.ApiC12
import GoomVerif.Model.LwwC12
/-! Property C12 — within a builder the most recent instruction for a target wins. -/
namespace C12
open C12M

/-- Pkg clause, first half: whatever the package override was, after any lookup (of a function, method, interface
    method, unexported function or — in the repaired code — variable) the builder is back in the caller's package. -/
theorem lookup_resets_pkg (s : State) (hd : Handle) : (lookup s hd).1.b.pkg = .p0 := by
  cases hd <;> simp only [lookup] <;> (repeat' split) <;> simp_all [reset2CurPkg, setPkg, alloc]

end C12
