import GoomVerif.Lemmas.C01L
/-!
# C01 — a mocked function runs the replacement (dispatch, closure context, retention across GC)

What is proved here is the *logic* of the property on the model `Model/C01Dispatch.lean`: which code a call
reaches and with which closure context, for every history of patch-table operations and collections.
What the model cannot exhibit — the register assignment of the Go ABI, `reflect.makeFuncStub`, stack
copying — is observed on the real code by the generated signature corpus (see checks/C01.py), not proved.

The emitted bytes are those of the regenerated `Gen.Amd64.jmpToFunctionValue`; their execution is
`C15.amd64_entry` over the mini ISA, in which RIP and RDX are the only mutable machine state.
-/
namespace C01
open C01M C01L

def run (E : Env) (s : PState) (ops : List Op) : PState := ops.foldl (step E) s

/-- every `Guard.Apply`/`Restore` in the history targets the guard registered at that moment -/
def WellUsedHist (E : Env) : PState → List Op → Prop
  | _, [] => True
  | s, op :: rest => wellUsed s op ∧ WellUsedHist E (step E s op) rest

theorem inv_run (E : Env) (s : PState) (ops : List Op) (h : Inv E s) (hu : WellUsedHist E s ops) :
    Inv E (run E s ops) := by
  induction ops generalizing s with
  | nil => exact h
  | cons op rest ih => exact ih _ (inv_step E s op h hu.1) hu.2

/-- **Dispatch (machine level).**  With the 13 bytes of `jmpToFunctionValue(_, to)` at the entry of `f` and a
    live func value `o` at `to`, executing the entry yields RIP = first word of `o` (its code), RDX = `to`
    (its closure context) and nothing else changed: a Go closure call of `o` with the caller's argument
    registers and stack as they were. -/
theorem entry_dispatch (E : Env) (f : Nat) (to r0 : Addr) (heap : Addr → Option Obj) (o : Obj)
    (ho : heap to = some o) :
    X86.exec (jmp E f to) { rip := E.entry f, rdx := r0, mem64 := memOf heap } =
      some { rip := o.code, rdx := to, mem64 := memOf heap } := by
  have := C15.amd64_entry (E.entry f) to { rip := E.entry f, rdx := r0, mem64 := memOf heap }
  simp only [memOf, ho] at this
  simpa [jmp, memOf] using this

/-- a call through patched entry bytes enters the func value whose address is embedded in them -/
theorem call_of_jump (E : Env) (s : PState) (f : Nat) (to : Addr) (o : Obj)
    (ht : s.text f = jmp E f to) (hne : s.text f ≠ E.pristine f) (ho : s.heap to = some o) :
    call E s f = .enter o to := by
  unfold call
  rw [if_neg hne, ht, entry_dispatch E f to _ s.heap o ho]
  simp [ho]

/-- **RDX is the closure** (`bytecode.GetPtr`, patch.go:111): after a successful `replaceFunc` + `Guard.Apply`
    with replacement `reflect.Value v`, a call of `f` enters the object stored at the data word of `v`
    with RDX equal to that data word. -/
theorem rdx_is_closure (E : Env) (s : PState) (f : Nat) (v : RValue) (o : Obj) (g : Nat) (h : Inv E s)
    (hok : (replace E s f v o).2 = .ok g) :
    call E (applyG (replace E s f v o).1 g) f = .enter o v.ptr := by
  obtain ⟨_, hs⟩ := replace_spec E s f v o h
  obtain ⟨_, hheap, hgd, _, _, _, hnp⟩ := hs g hok
  have hne : jmp E f (getPtr v) ≠ E.pristine f := jmp_ne_of_unpatched E f _ _ hnp
  apply call_of_jump
  · simp only [applyG, hgd, upd_same]; rfl
  · simp only [applyG, hgd, upd_same]; exact hne
  · simp only [applyG, hgd]; exact hheap

/-- non-vacuity of `rdx_is_closure`: a concrete program and func value for which `replaceFunc` succeeds -/
def exEnv : Env := { nf := 2, entry := fun f => BitVec.ofNat 64 (0x401000 + 64 * f),
                     pristine := fun _ => [0x49#8, 0x3b#8, 0x66#8, 0x10#8, 0x76#8, 0x30#8, 0x55#8, 0x48#8, 0x89#8, 0xe5#8, 0x48#8, 0x83#8, 0xec#8],
                     funcSize := fun _ => 64 }
example : (replace exEnv (init exEnv) 1 ⟨0, 0xc000012340#64, 19⟩ ⟨0x4a0000#64, .cb 7⟩).2 = .ok 0 := by decide

/-- **Dispatch (state level), never wild.**  In every state satisfying the invariant a call of `f` either runs
    the original body (entry pristine) or is a closure call of the *registered* replacement, which is live. -/
theorem dispatch (E : Env) (s : PState) (f : Nat) (h : Inv E s) :
    (call E s f = .orig ∧ s.text f = E.pristine f) ∨
    ∃ p o, s.patches f = some p ∧ s.heap p.repl = some o ∧ s.text f = jmp E f p.repl ∧
      call E s f = .enter o p.repl := by
  by_cases hp : s.text f = E.pristine f
  · left; exact ⟨by simp [call, hp], hp⟩
  · right
    rcases h.txt f with ht | ⟨p, g, gd, hpf, _, _, _, ht⟩
    · exact absurd ht hp
    · obtain ⟨o, ho⟩ := h.live f p hpf
      exact ⟨p, o, hpf, ho, ht, call_of_jump E s f p.repl o ht hp ho⟩

/-- **Retention / GC safety, all histories.**  Start from the unpatched program and run *any* sequence of
    `replaceFunc`, `Guard.Apply/Unpatch/Restore`, `unpatchValue`, `UnpatchAll` and worst-case collections with
    arbitrary external roots (Apply/Restore used on the registered guard, as mocker.go does).  Whenever the
    entry of `f` is not pristine it is exactly the jump to the replacement held by `patches[f]`, that func
    value is a GC root and is live, and the destination embedded in the code is that replacement. -/
theorem retained (E : Env) (ops : List Op) (hu : WellUsedHist E (init E) ops) (f : Nat)
    (hne : (run E (init E) ops).text f ≠ E.pristine f) :
    ∃ p o, (run E (init E) ops).patches f = some p ∧
      (run E (init E) ops).text f = jmp E f p.repl ∧
      isRoot E (run E (init E) ops) p.repl = true ∧
      (run E (init E) ops).heap p.repl = some o ∧
      (∀ to, (run E (init E) ops).text f = jmp E f to → to = p.repl) := by
  have h := inv_run E (init E) ops (inv_init E) hu
  rcases dispatch E _ f h with ⟨_, ht⟩ | ⟨p, o, hp, ho, ht, _⟩
  · exact absurd ht hne
  · have hf : f < E.nf := by
      apply Classical.byContradiction; intro hn
      rw [h.bound f (by omega)] at hp; cases hp
    exact ⟨p, o, hp, ht, isRoot_of_reg E _ f p hf hp, ho, fun to hto => jmp_inj E f _ _ (hto.symm.trans ht)⟩

/-- non-vacuity of `retained`: a well-used history after which the entry of function 1 is not pristine -/
example :
    WellUsedHist exEnv (init exEnv)
      [.replace 1 ⟨0, 0xc000012340#64, 19⟩ ⟨0x4a0000#64, .cb 7⟩, .apply 0, .gc (fun _ => false)] ∧
    (run exEnv (init exEnv)
      [.replace 1 ⟨0, 0xc000012340#64, 19⟩ ⟨0x4a0000#64, .cb 7⟩, .apply 0, .gc (fun _ => false)]).text 1 ≠ exEnv.pristine 1 := by
  refine ⟨⟨trivial, ⟨1, ⟨0xc000012340#64, some 0⟩, rfl, rfl⟩, trivial, trivial⟩, by decide⟩

/-- no history can make a call land on a collected or foreign object -/
theorem never_wild (E : Env) (ops : List Op) (hu : WellUsedHist E (init E) ops) (f : Nat) :
    call E (run E (init E) ops) f ≠ .wild := by
  have h := inv_run E (init E) ops (inv_init E) hu
  rcases dispatch E _ f h with ⟨hc, _⟩ | ⟨_, _, _, _, _, hc⟩ <;> rw [hc] <;> intro e <;> cases e

/-- the discipline in `retained` is necessary, and goom's unused `Guard.Restore` can break it:
    restoring a superseded guard re-installs a jump to a func value that `patches` no longer holds, and a
    collection then leaves the call wild.  (No caller of `Restore` exists, so this is not a finding.) -/
theorem stale_restore_is_unsafe :
    call exEnv (run exEnv (init exEnv)
      [.replace 1 ⟨0, 0xc000012340#64, 19⟩ ⟨0x4a0000#64, .cb 1⟩, .apply 0,
       .replace 1 ⟨0, 0xc000012380#64, 19⟩ ⟨0x4a0000#64, .cb 2⟩, .apply 1,
       .restore 0, .gc (fun _ => false)]) 1 = .wild := by decide

/-! ### the touched-function frame: a mock keeps holding until something is done to *that* function -/

/-- operations that concern function `f` -/
def touches (s : PState) (f : Nat) : Op → Prop
  | .replace f' _ _ => f' = f
  | .apply g | .unpatch g | .restore g => ∃ gd, s.guards g = some gd ∧ gd.origin = f
  | .unpatchFn f' => f' = f
  | .unpatchAll => True
  | .gc _ => False

def Untouched (E : Env) (f : Nat) : PState → List Op → Prop
  | _, [] => True
  | s, op :: rest => ¬ touches s f op ∧ Untouched E f (step E s op) rest

/-- one step that does not concern `f` keeps its entry bytes, its registration and its live replacement -/
theorem step_frame (E : Env) (s : PState) (op : Op) (f : Nat) (p : Patch) (o : Obj) (h : Inv E s)
    (hnt : ¬ touches s f op) (hp : s.patches f = some p) (ho : s.heap p.repl = some o) :
    (step E s op).text f = s.text f ∧ (step E s op).patches f = some p ∧ (step E s op).heap p.repl = some o := by
  have hf : f < E.nf := by
    apply Classical.byContradiction; intro hn
    rw [h.bound f (by omega)] at hp; cases hp
  cases op with
  | replace f' v o' =>
    have hx : f ≠ f' := fun e => hnt e.symm
    obtain ⟨a, b, c⟩ := replace_frame E s f' f v o' h hx
    exact ⟨a, b.trans hp, c _ _ ho⟩
  | apply g =>
    simp only [step, applyG]
    cases hg : s.guards g with
    | none => exact ⟨rfl, hp, ho⟩
    | some gd =>
      have hx : f ≠ gd.origin := fun e => hnt ⟨gd, hg, e.symm⟩
      exact ⟨by simp only [upd_other _ _ _ _ hx], hp, ho⟩
  | unpatch g =>
    simp only [step, unpatchG]
    cases hg : s.guards g with
    | none => exact ⟨rfl, hp, ho⟩
    | some gd =>
      have hx : f ≠ gd.origin := fun e => hnt ⟨gd, hg, e.symm⟩
      simp only
      split
      · exact ⟨by simp only [upd_other _ _ _ _ hx], hp, ho⟩
      · exact ⟨rfl, hp, ho⟩
  | restore g =>
    simp only [step, restoreG]
    cases hg : s.guards g with
    | none => exact ⟨rfl, hp, ho⟩
    | some gd =>
      have hx : f ≠ gd.origin := fun e => hnt ⟨gd, hg, e.symm⟩
      simp only
      split
      · exact ⟨by simp only [upd_other _ _ _ _ hx], hp, ho⟩
      · exact ⟨rfl, hp, ho⟩
  | unpatchFn f' =>
    have hx : f ≠ f' := fun e => hnt e.symm
    obtain ⟨_, _, _, hh, _, _, hpo⟩ := unpatchFn_spec E s f' h
    exact ⟨unpatchFn_text_other E s f' f h hx, (hpo f hx).trans hp, by simp only [step]; rw [hh]; exact ho⟩
  | unpatchAll => exact absurd trivial hnt
  | gc keep =>
    refine ⟨rfl, hp, ?_⟩
    show (if isRoot E s p.repl || keep p.repl then s.heap p.repl else none) = some o
    rw [isRoot_of_reg E s f p hf hp]; simpa using ho

/-- **Keeps holding until reset.**  Once a call of `f` enters replacement `o` (closure at `a`), it keeps doing
    exactly that after any further history that does not operate on `f` — any number of collections with any
    root sets, and any patch/unpatch traffic on other functions. -/
theorem persists (E : Env) (s : PState) (f : Nat) (o : Obj) (a : Addr) (ops : List Op) (h : Inv E s)
    (hu : WellUsedHist E s ops) (hnt : Untouched E f s ops) (hc : call E s f = .enter o a) :
    call E (run E s ops) f = .enter o a := by
  induction ops generalizing s with
  | nil => exact hc
  | cons op rest ih =>
    refine ih (step E s op) (inv_step E s op h hu.1) hu.2 hnt.2 ?_
    rcases dispatch E s f h with ⟨hor, _⟩ | ⟨p, o', hp, ho', ht, hc'⟩
    · rw [hor] at hc; cases hc
    · rw [hc'] at hc; cases hc
      obtain ⟨t1, p1, h1⟩ := step_frame E s op f p o h hnt.1 hp ho'
      have hne : s.text f ≠ E.pristine f := by
        intro e; simp [call, e] at hc'
      exact call_of_jump E _ f p.repl o (t1.trans ht) (by rw [t1]; exact hne) h1

/-- non-vacuity of `persists`: a mock of function 1 survives a collection with no external roots, a mock and
    un-mock of function 0, and another collection -/
example :
    let ops : List Op := [.gc (fun _ => false), .replace 0 ⟨0, 0xc000099000#64, 19⟩ ⟨0x4a0000#64, .cb 9⟩, .apply 1,
                          .unpatchFn 0, .gc (fun _ => false)]
    let s := run exEnv (init exEnv) [.replace 1 ⟨0, 0xc000012340#64, 19⟩ ⟨0x4a0000#64, .cb 7⟩, .apply 0]
    call exEnv s 1 = .enter ⟨0x4a0000#64, .cb 7⟩ 0xc000012340#64 ∧
    call exEnv (run exEnv s ops) 1 = .enter ⟨0x4a0000#64, .cb 7⟩ 0xc000012340#64 := by decide

/-! ### mocker layer: every history of the public operations -/

def arun (E : Env) (s : AState) (ops : List AOp) : AState := ops.foldl (astep E) s

def AWellUsedHist (E : Env) : AState → List AOp → Prop
  | _, [] => True
  | s, op :: rest => awellUsed s op ∧ AWellUsedHist E (astep E s op) rest

theorem inv_cancelM (E : Env) (s : AState) (b f : Nat) (h : Inv E s.p) : Inv E (cancelM s b f).p := by
  unfold cancelM
  split
  · rename_i m _
    cases m.guard with
    | none => exact h
    | some g => exact inv_unpatchG E s.p g h
  · exact h

theorem inv_doApply (E : Env) (s : AState) (b f : Nat) (m : Mocker) (v : RValue) (o : Obj) (h : Inv E s.p) :
    Inv E (doApply E s b f m v o).1.p := by
  obtain ⟨h1, hs⟩ := replace_spec E s.p f v o h
  unfold doApply
  cases hrep : replace E s.p f v o with
  | mk p1 out =>
    rw [hrep] at h1 hs
    cases out with
    | ok g =>
      obtain ⟨hp, _⟩ := hs g rfl
      exact inv_applyG E p1 g h1 ⟨f, _, hp, rfl⟩
    | errSize => exact h1
    | errAlreadyPatched => exact h1
    | illFormed => exact h1

/-- the builder/mocker operations need no side condition: they use the patch layer in the disciplined way -/
theorem ainv_step (E : Env) (s : AState) (op : AOp) (h : Inv E s.p) (hu : awellUsed s op) :
    Inv E (astep E s op).p := by
  cases op with
  | applyCb b f v k code => exact inv_doApply E s b f _ v _ h
  | ret b f v code res =>
    simp only [astep, astepO]
    split
    · exact h
    · exact inv_doApply E s b f _ v _ h
  | reset b =>
    simp only [astep, astepO]
    generalize List.range E.nf = l
    induction l generalizing s with
    | nil => exact h
    | cons x xs ih => exact ih _ (inv_cancelM E s b x h) trivial
  | gc keep => exact inv_gc E s.p keep h
  | other op => exact inv_step E s.p op h hu

theorem ainv_run (E : Env) (s : AState) (ops : List AOp) (h : Inv E s.p) (hu : AWellUsedHist E s ops) :
    Inv E (arun E s ops).p := by
  induction ops generalizing s with
  | nil => exact h
  | cons op rest ih => exact ih _ (ainv_step E s op h hu.1) hu.2

/-- **Every history of Apply / Return / Reset / GC by any builders**: a call never crashes into freed memory -/
theorem api_never_crashes (E : Env) (ops : List AOp) (hu : AWellUsedHist E (ainit E) ops) (f : Nat) :
    see E (arun E (ainit E) ops) f ≠ .crash := by
  have h := ainv_run E (ainit E) ops (inv_init E) hu
  rcases dispatch E _ f h with ⟨hc, _⟩ | ⟨_, o, _, _, _, hc⟩
  · simp [see, hc]
  · simp only [see, hc]
    cases o.ctx with
    | cb k => simp
    | stub b f' =>
      simp only [callbackOf]
      cases (arun E (ainit E) ops).mockers b f' with
      | none => simp
      | some m =>
        simp only
        split
        · simp
        · split <;> simp

/-- **Apply(callback).**  After `b.Func(f).Apply(cb_k)` succeeds, in any reachable state, a call of `f` is a
    closure call of `cb_k`'s own func value: code = its code word, RDX = its address. -/
theorem apply_runs_callback (E : Env) (s : AState) (b f : Nat) (v : RValue) (k : Nat) (code : Addr) (g : Nat)
    (h : Inv E s.p) (hok : (astepO E s (.applyCb b f v k code)).2 = .ok g) :
    call E (astep E s (.applyCb b f v k code)).p f = .enter { code := code, ctx := .cb k } v.ptr ∧
    see E (astep E s (.applyCb b f v k code)) f = .cb k := by
  have hr := rdx_is_closure E s.p f v { code := code, ctx := .cb k }
  simp only [astep, astepO, doApply] at hok ⊢
  cases hrep : replace E s.p f v { code := code, ctx := .cb k } with
  | mk p1 out =>
    rw [hrep] at hok hr
    cases out with
    | ok g' =>
      have hc := hr g' h rfl
      simp only at hc ⊢
      exact ⟨hc, by simp only [see, setM, hc]⟩
    | errSize => cases hok
    | errAlreadyPatched => cases hok
    | illFormed => cases hok

/-- **Return(...)/When install exactly `baseMocker.callback` via `reflect.MakeFunc`** (mocker.go:135,142).
    When the mocker has no `When` yet, `Return(res...)` makes the call of `f` a closure call of the MakeFunc
    object bound to this mocker, and what the caller sees is `callback`: the `When`'s result. -/
theorem stub_is_makefunc (E : Env) (s : AState) (b f : Nat) (v : RValue) (code : Addr) (res : Toks) (g : Nat)
    (h : Inv E s.p) (hnew : (getM s b f).whenRes = none)
    (hok : (astepO E s (.ret b f v code res)).2 = .ok g) :
    call E (astep E s (.ret b f v code res)).p f = .enter { code := code, ctx := .stub b f } v.ptr ∧
    see E (astep E s (.ret b f v code res)) f = .stubRet [res] := by
  have hr := rdx_is_closure E s.p f v { code := code, ctx := .stub b f }
  have hcan : (getM s b f).canceled = false := by
    unfold getM
    split
    · split
      · rfl
      · rename_i hc'; simpa using hc'
    · rfl
  simp only [astep, astepO, hnew, doApply] at hok ⊢
  cases hrep : replace E s.p f v { code := code, ctx := .stub b f } with
  | mk p1 out =>
    rw [hrep] at hok hr
    cases out with
    | ok g' =>
      have hc := hr g' h rfl
      simp only at hc ⊢
      refine ⟨hc, ?_⟩
      simp only [see, hc, callbackOf, setM, and_self, if_true, hcan]
      simp
    | errSize => cases hok
    | errAlreadyPatched => cases hok
    | illFormed => cases hok

/-- a later `Return` on the same mocker only hands one more result to the existing `When` (mocker.go:548 →
    when.go `Return`); nothing is re-applied, the installed closure is unchanged -/
theorem return_again_appends (E : Env) (s : AState) (b f : Nat) (v : RValue) (code : Addr) (res : Toks) (r0 : List Toks)
    (hold : (getM s b f).whenRes = some r0) :
    (astep E s (.ret b f v code res)).p = s.p ∧
    callbackOf (astep E s (.ret b f v code res)) b f = .stubRet (r0 ++ [res]) := by
  have hcan : (getM s b f).canceled = false := by
    unfold getM
    split
    · split
      · rfl
      · rename_i hc'; simpa using hc'
    · rfl
  simp only [astep, astepO, hold, callbackOf, setM, and_self, if_true, hcan]
  simp

/-- **Across GC**: a collection, whatever it keeps, changes nothing a caller can see -/
theorem gc_invisible (E : Env) (s : AState) (keep : Addr → Bool) (f : Nat) (h : Inv E s.p) :
    see E (astep E s (.gc keep)) f = see E s f := by
  have h' : Inv E (gc E s.p keep) := inv_gc E s.p keep h
  have key : call E (gc E s.p keep) f = call E s.p f := by
    rcases dispatch E s.p f h with ⟨hc, ht⟩ | ⟨p, o, hp, ho, ht, hc⟩
    · rw [hc]; simp [call, gc, ht]
    · rw [hc]
      have hne : s.p.text f ≠ E.pristine f := by intro e; simp [call, e] at hc
      obtain ⟨_, _, h3⟩ := step_frame E s.p (.gc keep) f p o h (fun e => e) hp ho
      exact call_of_jump E _ f p.repl o ht hne h3
  simp only [see, astep, astepO, key, callbackOf]

/-- non-vacuity at the API level: Apply by builder 0, drop everything, collect, call → the callback;
    Reset → the original -/
example :
    let s := arun exEnv (ainit exEnv) [.applyCb 0 1 ⟨0, 0xc000012340#64, 19⟩ 7 0x4a0000#64, .gc (fun _ => false)]
    see exEnv s 1 = .cb 7 ∧ see exEnv (astep exEnv s (.reset 0)) 1 = .orig := by decide

end C01
