import GoomVerif.Lemmas.C01L
/-!
# C01 — a mocked function runs the replacement (dispatch, closure context, retention across GC)

What is proved here is the *logic* of the property on the model `Model/C01Dispatch.lean`: which code a call
reaches and with which closure context, for every history of patch-table operations and collections.
What the model cannot exhibit — the register assignment of the Go ABI, `reflect.makeFuncStub`, stack
copying — is observed on the real code by the generated signature corpus (see checks/C01.py), not proved.

The emitted bytes are those of the regenerated `Gen.Amd64.jmpToFunctionValue`; their execution is
`C15.amd64_entry` over the mini ISA, in which RIP and RDX are the only mutable machine state.
-/
namespace C01
open C01M C01L

def run (E : Env) (s : PState) (ops : List Op) : PState := ops.foldl (step E) s

/-- every `Guard.Apply`/`Restore` in the history targets the guard registered at that moment -/
def WellUsedHist (E : Env) : PState → List Op → Prop
  | _, [] => True
  | s, op :: rest => wellUsed s op ∧ WellUsedHist E (step E s op) rest

theorem inv_run (E : Env) (s : PState) (ops : List Op) (h : Inv E s) (hu : WellUsedHist E s ops) :
    Inv E (run E s ops) := by
  induction ops generalizing s with
  | nil => exact h
  | cons op rest ih => exact ih _ (inv_step E s op h hu.1) hu.2

/-- **Dispatch (machine level).**  With the 13 bytes of `jmpToFunctionValue(_, to)` at the entry of `f` and a
    live func value `o` at `to`, executing the entry yields RIP = first word of `o` (its code), RDX = `to`
    (its closure context) and nothing else changed: a Go closure call of `o` with the caller's argument
    registers and stack as they were. -/
theorem entry_dispatch (E : Env) (f : Nat) (to r0 : Addr) (heap : Addr → Option Obj) (o : Obj)
    (ho : heap to = some o) :
    X86.exec (jmp E f to) { rip := E.entry f, rdx := r0, mem64 := memOf heap } =
      some { rip := o.code, rdx := to, mem64 := memOf heap } := by
  have := C15.amd64_entry (E.entry f) to { rip := E.entry f, rdx := r0, mem64 := memOf heap }
  simp only [memOf, ho] at this
  simpa [jmp, memOf] using this

/-- a call through patched entry bytes enters the func value whose address is embedded in them -/
theorem call_of_jump (E : Env) (s : PState) (f : Nat) (to : Addr) (o : Obj)
    (ht : s.text f = jmp E f to) (hne : s.text f ≠ E.pristine f) (ho : s.heap to = some o) :
    call E s f = .enter o to := by
  unfold call
  rw [if_neg hne, ht, entry_dispatch E f to _ s.heap o ho]
  simp [ho]

/-- **RDX is the closure** (`bytecode.GetPtr`, patch.go:111): after a successful `replaceFunc` + `Guard.Apply`
    with replacement `reflect.Value v`, a call of `f` enters the object stored at the data word of `v`
    with RDX equal to that data word. -/
theorem rdx_is_closure (E : Env) (s : PState) (f : Nat) (v : RValue) (o : Obj) (g : Nat) (h : Inv E s)
    (hok : (replace E s f v o).2 = .ok g) :
    call E (applyG (replace E s f v o).1 g) f = .enter o v.ptr := by
  obtain ⟨_, hs⟩ := replace_spec E s f v o h
  obtain ⟨_, hheap, hgd, _, _, _, hnp⟩ := hs g hok
  have hne : jmp E f (getPtr v) ≠ E.pristine f := jmp_ne_of_unpatched E f _ _ hnp
  apply call_of_jump
  · simp only [applyG, hgd, upd_same]; rfl
  · simp only [applyG, hgd, upd_same]; exact hne
  · simp only [applyG, hgd]; exact hheap

/-- non-vacuity of `rdx_is_closure`: a concrete program and func value for which `replaceFunc` succeeds -/
def exEnv : Env := { nf := 2, entry := fun f => BitVec.ofNat 64 (0x401000 + 64 * f),
                     pristine := fun _ => [0x49#8, 0x3b#8, 0x66#8, 0x10#8, 0x76#8, 0x30#8, 0x55#8, 0x48#8, 0x89#8, 0xe5#8, 0x48#8, 0x83#8, 0xec#8],
                     funcSize := fun _ => 64 }
example : (replace exEnv (init exEnv) 1 ⟨0, 0xc000012340#64, 19⟩ ⟨0x4a0000#64, .cb 7⟩).2 = .ok 0 := by decide

/-- **Dispatch (state level), never wild.**  In every state satisfying the invariant a call of `f` either runs
    the original body (entry pristine) or is a closure call of the *registered* replacement, which is live. -/
theorem dispatch (E : Env) (s : PState) (f : Nat) (h : Inv E s) :
    (call E s f = .orig ∧ s.text f = E.pristine f) ∨
    ∃ p o, s.patches f = some p ∧ s.heap p.repl = some o ∧ s.text f = jmp E f p.repl ∧
      call E s f = .enter o p.repl := by
  by_cases hp : s.text f = E.pristine f
  · left; exact ⟨by simp [call, hp], hp⟩
  · right
    rcases h.txt f with ht | ⟨p, g, gd, hpf, _, _, _, ht⟩
    · exact absurd ht hp
    · obtain ⟨o, ho⟩ := h.live f p hpf
      exact ⟨p, o, hpf, ho, ht, call_of_jump E s f p.repl o ht hp ho⟩

/-- **Retention / GC safety, all histories.**  Start from the unpatched program and run *any* sequence of
    `replaceFunc`, `Guard.Apply/Unpatch/Restore`, `unpatchValue`, `UnpatchAll` and worst-case collections with
    arbitrary external roots (Apply/Restore used on the registered guard, as mocker.go does).  Whenever the
    entry of `f` is not pristine it is exactly the jump to the replacement held by `patches[f]`, that func
    value is a GC root and is live, and the destination embedded in the code is that replacement. -/
theorem retained (E : Env) (ops : List Op) (hu : WellUsedHist E (init E) ops) (f : Nat)
    (hne : (run E (init E) ops).text f ≠ E.pristine f) :
    ∃ p o, (run E (init E) ops).patches f = some p ∧
      (run E (init E) ops).text f = jmp E f p.repl ∧
      isRoot E (run E (init E) ops) p.repl = true ∧
      (run E (init E) ops).heap p.repl = some o ∧
      (∀ to, (run E (init E) ops).text f = jmp E f to → to = p.repl) := by
  have h := inv_run E (init E) ops (inv_init E) hu
  rcases dispatch E _ f h with ⟨_, ht⟩ | ⟨p, o, hp, ho, ht, _⟩
  · exact absurd ht hne
  · have hf : f < E.nf := by
      apply Classical.byContradiction; intro hn
      rw [h.bound f (by omega)] at hp; cases hp
    exact ⟨p, o, hp, ht, isRoot_of_reg E _ f p hf hp, ho, fun to hto => jmp_inj E f _ _ (hto.symm.trans ht)⟩

/-- non-vacuity of `retained`: a well-used history after which the entry of function 1 is not pristine -/
example :
    WellUsedHist exEnv (init exEnv)
      [.replace 1 ⟨0, 0xc000012340#64, 19⟩ ⟨0x4a0000#64, .cb 7⟩, .apply 0, .gc (fun _ => false)] ∧
    (run exEnv (init exEnv)
      [.replace 1 ⟨0, 0xc000012340#64, 19⟩ ⟨0x4a0000#64, .cb 7⟩, .apply 0, .gc (fun _ => false)]).text 1 ≠ exEnv.pristine 1 := by
  refine ⟨⟨trivial, ⟨1, ⟨0xc000012340#64, some 0⟩, rfl, rfl⟩, trivial, trivial⟩, by decide⟩

/-- no history can make a call land on a collected or foreign object -/
theorem never_wild (E : Env) (ops : List Op) (hu : WellUsedHist E (init E) ops) (f : Nat) :
    call E (run E (init E) ops) f ≠ .wild := by
  have h := inv_run E (init E) ops (inv_init E) hu
  rcases dispatch E _ f h with ⟨hc, _⟩ | ⟨_, _, _, _, _, hc⟩ <;> rw [hc] <;> intro e <;> cases e

/-- the discipline in `retained` is necessary, and goom's unused `Guard.Restore` can break it:
    restoring a superseded guard re-installs a jump to a func value that `patches` no longer holds, and a
    collection then leaves the call wild.  (No caller of `Restore` exists, so this is not a finding.) -/
theorem stale_restore_is_unsafe :
    call exEnv (run exEnv (init exEnv)
      [.replace 1 ⟨0, 0xc000012340#64, 19⟩ ⟨0x4a0000#64, .cb 1⟩, .apply 0,
       .replace 1 ⟨0, 0xc000012380#64, 19⟩ ⟨0x4a0000#64, .cb 2⟩, .apply 1,
       .restore 0, .gc (fun _ => false)]) 1 = .wild := by decide

/-! ### the touched-function frame: a mock keeps holding until something is done to *that* function -/

/-- operations that concern function `f` -/
def touches (s : PState) (f : Nat) : Op → Prop
  | .replace f' _ _ => f' = f
  | .apply g | .unpatch g | .restore g => ∃ gd, s.guards g = some gd ∧ gd.origin = f
  | .unpatchFn f' => f' = f
  | .unpatchAll => True
  | .gc _ => False

def Untouched (E : Env) (f : Nat) : PState → List Op → Prop
  | _, [] => True
  | s, op :: rest => ¬ touches s f op ∧ Untouched E f (step E s op) rest

/-- one step that does not concern `f` keeps its entry bytes, its registration and its live replacement -/
theorem step_frame (E : Env) (s : PState) (op : Op) (f : Nat) (p : Patch) (o : Obj) (h : Inv E s)
    (hnt : ¬ touches s f op) (hp : s.patches f = some p) (ho : s.heap p.repl = some o) :
    (step E s op).text f = s.text f ∧ (step E s op).patches f = some p ∧ (step E s op).heap p.repl = some o := by
  have hf : f < E.nf := by
    apply Classical.byContradiction; intro hn
    rw [h.bound f (by omega)] at hp; cases hp
  cases op with
  | replace f' v o' =>
    have hx : f ≠ f' := fun e => hnt e.symm
    obtain ⟨a, b, c⟩ := replace_frame E s f' f v o' h hx
    exact ⟨a, b.trans hp, c _ _ ho⟩
  | apply g =>
    simp only [step, applyG]
    cases hg : s.guards g with
    | none => exact ⟨rfl, hp, ho⟩
    | some gd =>
      have hx : f ≠ gd.origin := fun e => hnt ⟨gd, hg, e.symm⟩
      exact ⟨by simp only [upd_other _ _ _ _ hx], hp, ho⟩
  | unpatch g =>
    simp only [step, unpatchG]
    cases hg : s.guards g with
    | none => exact ⟨rfl, hp, ho⟩
    | some gd =>
      have hx : f ≠ gd.origin := fun e => hnt ⟨gd, hg, e.symm⟩
      simp only
      split
      · exact ⟨by simp only [upd_other _ _ _ _ hx], hp, ho⟩
      · exact ⟨rfl, hp, ho⟩
  | restore g =>
    simp only [step, restoreG]
    cases hg : s.guards g with
    | none => exact ⟨rfl, hp, ho⟩
    | some gd =>
      have hx : f ≠ gd.origin := fun e => hnt ⟨gd, hg, e.symm⟩
      simp only
      split
      · exact ⟨by simp only [upd_other _ _ _ _ hx], hp, ho⟩
      · exact ⟨rfl, hp, ho⟩
  | unpatchFn f' =>
    have hx : f ≠ f' := fun e => hnt e.symm
    obtain ⟨_, _, _, hh, _, _, hpo⟩ := unpatchFn_spec E s f' h
    exact ⟨unpatchFn_text_other E s f' f h hx, (hpo f hx).trans hp, by simp only [step]; rw [hh]; exact ho⟩
  | unpatchAll => exact absurd trivial hnt
  | gc keep =>
    refine ⟨rfl, hp, ?_⟩
    show (if isRoot E s p.repl || keep p.repl then s.heap p.repl else none) = some o
    rw [isRoot_of_reg E s f p hf hp]; simpa using ho

/-- **Keeps holding until reset.**  Once a call of `f` enters replacement `o` (closure at `a`), it keeps doing
    exactly that after any further history that does not operate on `f` — any number of collections with any
    root sets, and any patch/unpatch traffic on other functions. -/
theorem persists (E : Env) (s : PState) (f : Nat) (o : Obj) (a : Addr) (ops : List Op) (h : Inv E s)
    (hu : WellUsedHist E s ops) (hnt : Untouched E f s ops) (hc : call E s f = .enter o a) :
    call E (run E s ops) f = .enter o a := by
  induction ops generalizing s with
  | nil => exact hc
  | cons op rest ih =>
    refine ih (step E s op) (inv_step E s op h hu.1) hu.2 hnt.2 ?_
    rcases dispatch E s f h with ⟨hor, _⟩ | ⟨p, o', hp, ho', ht, hc'⟩
    · rw [hor] at hc; cases hc
    · rw [hc'] at hc; cases hc
      obtain ⟨t1, p1, h1⟩ := step_frame E s op f p o h hnt.1 hp ho'
      have hne : s.text f ≠ E.pristine f := by
        intro e; simp [call, e] at hc'
      exact call_of_jump E _ f p.repl o (t1.trans ht) (by rw [t1]; exact hne) h1

/-- "keeps holding … until reset", the part that is provable: `persists` under its `Untouched` hypothesis.
    FULL STATEMENT (not provable, refuted in Findings/C01F.lean `not_holdsUntilOwnReset`): the mock of builder `b` keeps
    holding under ANY operations of other builders, including their Reset after they were superseded on `f`.  Missing
    here: histories in which another builder's guard of `f` is unpatched (KNOWN_FINDINGS C01-K2-foreign-reset). -/
theorem holds_until_reset_partial (E : Env) (s : PState) (f : Nat) (o : Obj) (a : Addr) (ops : List Op) (h : Inv E s)
    (hu : WellUsedHist E s ops) (hnt : Untouched E f s ops) (hc : call E s f = .enter o a) :
    call E (run E s ops) f = .enter o a := persists E s f o a ops h hu hnt hc

/-- non-vacuity of `persists`: a mock of function 1 survives a collection with no external roots, a mock and
    un-mock of function 0, and another collection -/
example :
    let ops : List Op := [.gc (fun _ => false), .replace 0 ⟨0, 0xc000099000#64, 19⟩ ⟨0x4a0000#64, .cb 9⟩, .apply 1,
                          .unpatchFn 0, .gc (fun _ => false)]
    let s := run exEnv (init exEnv) [.replace 1 ⟨0, 0xc000012340#64, 19⟩ ⟨0x4a0000#64, .cb 7⟩, .apply 0]
    call exEnv s 1 = .enter ⟨0x4a0000#64, .cb 7⟩ 0xc000012340#64 ∧
    call exEnv (run exEnv s ops) 1 = .enter ⟨0x4a0000#64, .cb 7⟩ 0xc000012340#64 := by decide

/-! ### mocker layer: every history of the public operations -/

def arun (E : Env) (s : AState) (ops : List AOp) : AState := ops.foldl (astep E) s

def AWellUsedHist (E : Env) : AState → List AOp → Prop
  | _, [] => True
  | s, op :: rest => awellUsed s op ∧ AWellUsedHist E (astep E s op) rest

theorem inv_cancelM (E : Env) (s : AState) (b f : Nat) (h : Inv E s.p) : Inv E (cancelM s b f).p := by
  unfold cancelM
  split
  · rename_i m _
    cases m.guard with
    | none => exact h
    | some g => exact inv_unpatchG E s.p g h
  · exact h

theorem inv_doApply (E : Env) (s : AState) (b f : Nat) (m : Mocker) (cw : Bool) (v : RValue) (o : Obj) (h : Inv E s.p) :
    Inv E (doApply E s b f m cw v o).1.p := by
  obtain ⟨h1, hs⟩ := replace_spec E s.p f v o h
  unfold doApply
  cases hrep : replace E s.p f v o with
  | mk p1 out =>
    rw [hrep] at h1 hs
    cases out with
    | ok g =>
      obtain ⟨hp, _⟩ := hs g rfl
      exact inv_applyG E p1 g h1 ⟨f, _, hp, rfl⟩
    | errSize => exact h1
    | errAlreadyPatched => exact h1
    | illFormed => exact h1

/-- the builder/mocker operations need no side condition: they use the patch layer in the disciplined way -/
theorem ainv_step (E : Env) (s : AState) (op : AOp) (h : Inv E s.p) (hu : awellUsed s op) :
    Inv E (astep E s op).p := by
  cases op with
  | applyCb b f kept v k code => exact inv_doApply E s b f _ _ v _ h
  | ret b f kept v code res =>
    simp only [astep, astepO]
    split
    · exact h
    · exact inv_doApply E s b f _ _ v _ h
  | whenRet b f kept v code cond res =>
    simp only [astep, astepO]
    split
    · exact h
    · exact inv_doApply E s b f _ _ v _ h
  | reset b =>
    simp only [astep, astepO]
    generalize List.range E.nf = l
    induction l generalizing s with
    | nil => exact h
    | cons x xs ih => exact ih _ (inv_cancelM E s b x h) trivial
  | gc keep => exact inv_gc E s.p keep h
  | other op => exact inv_step E s.p op h hu

theorem ainv_run (E : Env) (s : AState) (ops : List AOp) (h : Inv E s.p) (hu : AWellUsedHist E s ops) :
    Inv E (arun E s ops).p := by
  induction ops generalizing s with
  | nil => exact h
  | cons op rest ih => exact ih _ (ainv_step E s op h hu.1) hu.2

theorem whenInvoke_ne_crash (c : List (Toks × Toks)) (d : List Toks) (a : Toks) : whenInvoke c d a ≠ .crash := by
  unfold whenInvoke
  split
  · simp
  · split <;> simp

/-- **Every history of Apply / Return / When / Reset / GC by any builders, through fresh or kept handles**: a call never
    crashes into freed memory, whatever its arguments -/
theorem api_never_crashes (E : Env) (ops : List AOp) (hu : AWellUsedHist E (ainit E) ops) (f : Nat) (args : Toks) :
    see E (arun E (ainit E) ops) f args ≠ .crash := by
  have h := ainv_run E (ainit E) ops (inv_init E) hu
  rcases dispatch E _ f h with ⟨hc, _⟩ | ⟨_, o, _, _, _, hc⟩
  · simp [see, hc]
  · simp only [see, hc]
    cases o.ctx with
    | cb k => simp
    | stub b f' =>
      simp only [callbackOf]
      cases (arun E (ainit E) ops).mockers b f' with
      | none => simp
      | some m =>
        simp only
        split
        · simp
        · split
          · exact whenInvoke_ne_crash _ _ _
          · simp

/-- **Apply(callback).**  After `h.Apply(cb_k)` succeeds (handle fresh or kept), in any reachable state, a call of `f` is
    a closure call of `cb_k`'s own func value: code = its code word, RDX = its address — for every argument list —
    and the mocker no longer owns a `When` nor is canceled ("Apply discards the When"). -/
theorem apply_runs_callback (E : Env) (s : AState) (b f : Nat) (kept : Bool) (v : RValue) (k : Nat) (code : Addr) (g : Nat)
    (h : Inv E s.p) (hok : (astepO E s (.applyCb b f kept v k code)).2 = .ok g) :
    call E (astep E s (.applyCb b f kept v k code)).p f = .enter { code := code, ctx := .cb k } v.ptr ∧
    (∀ args, see E (astep E s (.applyCb b f kept v k code)) f args = .cb k) ∧
    (∃ m, (astep E s (.applyCb b f kept v k code)).mockers b f = some m ∧ m.whenRes = none ∧ m.canceled = false) := by
  have hr := rdx_is_closure E s.p f v { code := code, ctx := .cb k }
  simp only [astep, astepO, doApply] at hok ⊢
  cases hrep : replace E s.p f v { code := code, ctx := .cb k } with
  | mk p1 out =>
    rw [hrep] at hok hr
    cases out with
    | ok g' =>
      have hc := hr g' h rfl
      simp only at hc ⊢
      refine ⟨hc, fun args => by simp only [see, setM, hc], ?_⟩
      simp [setM]
    | errSize => cases hok
    | errAlreadyPatched => cases hok
    | illFormed => cases hok

theorem getM_not_canceled_of_fresh (s : AState) (b f : Nat) : (getM s b f false).canceled = false := by
  unfold getM
  split
  · rename_i m _
    cases hc : m.canceled <;> simp [freshM, hc]
  · rfl

/-- **Return(...) installs exactly `baseMocker.callback` via `reflect.MakeFunc`** (mocker.go `whens`, `callback`).
    When the mocker has no `When`, `Return(res...)` makes the call of `f` a closure call of the MakeFunc object bound to
    this mocker, and what the caller sees is `callback`: the `When`'s result, for every argument list. -/
theorem stub_is_makefunc (E : Env) (s : AState) (b f : Nat) (kept : Bool) (v : RValue) (code : Addr) (res : Toks) (g : Nat)
    (h : Inv E s.p) (hnew : (getM s b f kept).whenRes = none)
    (hok : (astepO E s (.ret b f kept v code res)).2 = .ok g) :
    call E (astep E s (.ret b f kept v code res)).p f = .enter { code := code, ctx := .stub b f } v.ptr ∧
    ∀ args, see E (astep E s (.ret b f kept v code res)) f args = .stubRet [res] := by
  have hr := rdx_is_closure E s.p f v { code := code, ctx := .stub b f }
  simp only [astep, astepO, hnew, doApply] at hok ⊢
  cases hrep : replace E s.p f v { code := code, ctx := .stub b f } with
  | mk p1 out =>
    rw [hrep] at hok hr
    cases out with
    | ok g' =>
      have hc := hr g' h rfl
      simp only at hc ⊢
      refine ⟨hc, fun args => ?_⟩
      simp [see, hc, callbackOf, setM, whenInvoke]
    | errSize => cases hok
    | errAlreadyPatched => cases hok
    | illFormed => cases hok

/-- **Apply, then Return on the same mocker** (the history `Apply(cb) ; Return(res)` through one handle, fix 32dc3bc):
    the stub is built and installed afresh — every later call receives `res`, none runs the old callback. -/
theorem return_after_apply_installs (E : Env) (s : AState) (b f : Nat) (kept : Bool) (v v' : RValue) (k : Nat)
    (code code' : Addr) (res : Toks) (g g' : Nat) (h : Inv E s.p)
    (hok : (astepO E s (.applyCb b f false v k code)).2 = .ok g)
    (hok' : (astepO E (astep E s (.applyCb b f false v k code)) (.ret b f kept v' code' res)).2 = .ok g') :
    ∀ args, see E (astep E (astep E s (.applyCb b f false v k code)) (.ret b f kept v' code' res)) f args = .stubRet [res] := by
  obtain ⟨_, _, m, hm, hw, hc⟩ := apply_runs_callback E s b f false v k code g h hok
  have hi : Inv E (astep E s (.applyCb b f false v k code)).p := ainv_step E s _ h trivial
  have hnew : (getM (astep E s (.applyCb b f false v k code)) b f kept).whenRes = none := by
    unfold getM; rw [hm]; simp [hc, hw]
  exact (stub_is_makefunc E _ b f kept v' code' res g' hi hnew hok').2

/-- a later `Return` on a mocker that still owns its `When` only hands one more result to that `When`
    (`m.when.Return`); nothing is re-applied, the installed closure is unchanged (which element of the sequence a call
    receives is C05's clause) -/
theorem return_again_appends (E : Env) (s : AState) (b f : Nat) (kept : Bool) (v : RValue) (code : Addr) (res : Toks)
    (r0 : List Toks) (hold : (getM s b f kept).whenRes = some r0) :
    (astep E s (.ret b f kept v code res)).p = s.p ∧
    (astep E s (.ret b f kept v code res)).mockers b f = some { getM s b f kept with whenRes := some (r0 ++ [res]) } := by
  simp [astep, astepO, hold, setM]

/-- **Conditional rules are judged on the arguments of the call at hand.**  `When(cond).Return(res)` on a mocker that owns
    a `When` re-applies nothing; afterwards a call whose arguments equal `cond` and match no earlier rule receives `res`,
    and every call with other arguments is answered as before.  (The observation is a function of the state and of the
    argument values of *this* call only — no call leaves anything behind in the model.) -/
theorem when_rule_added (E : Env) (s : AState) (b f : Nat) (v : RValue) (code : Addr) (cond res : Toks)
    (m : Mocker) (d : List Toks) (hm : s.mockers b f = some m) (hc : m.canceled = false) (hd : m.whenRes = some d) :
    (astep E s (.whenRet b f false v code cond res)).p = s.p ∧
    (m.conds.find? (fun c => c.1 == cond) = none →
      callbackOf (astep E s (.whenRet b f false v code cond res)) b f cond = .stubRet [res]) ∧
    (∀ args, args ≠ cond →
      callbackOf (astep E s (.whenRet b f false v code cond res)) b f args = callbackOf s b f args) := by
  have hg : getM s b f false = m := by unfold getM; rw [hm]; simp [hc]
  refine ⟨by simp [astep, astepO, hg, hd, setM], ?_, ?_⟩
  · intro hnone
    simp [astep, astepO, hg, hd, setM, callbackOf, hc, whenInvoke, List.find?_append, hnone]
  · intro args hne
    have hne' : (cond == args) = false := by
      simp only [beq_eq_false_iff_ne, ne_eq]; exact fun e => hne e.symm
    simp [astep, astepO, hg, hd, setM, callbackOf, hm, hc, whenInvoke, List.find?_append, hne']

/-- **Across GC**: a collection, whatever it keeps, changes nothing a caller can see -/
theorem gc_invisible (E : Env) (s : AState) (keep : Addr → Bool) (f : Nat) (args : Toks) (h : Inv E s.p) :
    see E (astep E s (.gc keep)) f args = see E s f args := by
  have key : call E (gc E s.p keep) f = call E s.p f := by
    rcases dispatch E s.p f h with ⟨hc, ht⟩ | ⟨p, o, hp, ho, ht, hc⟩
    · rw [hc]; simp [call, gc, ht]
    · rw [hc]
      have hne : s.p.text f ≠ E.pristine f := by intro e; simp [call, e] at hc
      obtain ⟨_, _, h3⟩ := step_frame E s.p (.gc keep) f p o h (fun e => e) hp ho
      exact call_of_jump E _ f p.repl o ht hne h3
  simp only [see, astep, astepO, key, callbackOf]

/-- non-vacuity at the API level: Apply by builder 0, drop everything, collect, call → the callback; then Return through
    the same mocker → the stub's value, a conditional rule → judged per call; Reset → the original -/
example :
    let s := arun exEnv (ainit exEnv) [.applyCb 0 1 false ⟨0, 0xc000012340#64, 19⟩ 7 0x4a0000#64, .gc (fun _ => false)]
    let s2 := arun exEnv s [.ret 0 1 false ⟨0, 0xc000012380#64, 19⟩ 0x45f000#64 ["5"],
                            .whenRet 0 1 false ⟨0, 0xc0000123c0#64, 19⟩ 0x45f000#64 ["1", "2"] ["9"]]
    see exEnv s 1 [] = .cb 7 ∧ see exEnv s2 1 ["1", "2"] = .stubRet [["9"]] ∧ see exEnv s2 1 ["1", "3"] = .stubRet [["5"]] ∧
    see exEnv (astep exEnv s2 (.reset 0)) 1 [] = .orig := by decide

end C01
